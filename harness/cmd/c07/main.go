// Driver for C07: attribution of a new session to the authenticating user.
// Runs the real serveruser.tryState / discoverUser / source-user cache (through the
// //go:build verif hooks) with REAL ciphers: first segments are sealed with
// cipher.BlockCipherFromPassword(credential) and a nonce whose last four bytes carry the
// user hint the driver chooses.  Writes case lines for the extracted Coq model
// (model/Discover.v, model/SrcCache.v), the implementation's observations, and judges every
// case directly against the property text (independent of the model).
package main

import (
	"bytes"
	"crypto/sha256"
	"encoding/binary"
	"encoding/hex"
	"fmt"
	"io"
	"sort"
	"strings"

	"github.com/enfein/mieru/v3/pkg/appctl/appctlpb"
	"github.com/enfein/mieru/v3/pkg/cipher"
	mlog "github.com/enfein/mieru/v3/pkg/log"
	"github.com/enfein/mieru/v3/pkg/protocol/serveruser"
	"google.golang.org/protobuf/proto"
	"verifharness/vh"
)

const (
	lifeTicks = serveruser.VerifSourceUserCacheLifeSeconds
	maxName   = 64
)

// ---------- users ----------

type uspec struct {
	mapKey  string
	name    string
	pw      string // raw password ("" = use hashed)
	hashed  string // hex hashed password
	nilUser bool
	both    bool // the record carries pw AND hashed (validation accepts it; the hashed password is the credential)
}

// cred is the credential buildCredential should derive (nil = the entry must be skipped).
func (u uspec) cred() []byte {
	if u.nilUser || u.name == "" || len(u.name) > maxName {
		return nil
	}
	if u.hashed != "" {
		b, err := hex.DecodeString(u.hashed)
		if err != nil || len(b) != 32 {
			return nil
		}
		return b
	}
	if u.pw == "" {
		return nil
	}
	// docs: hashed password = SHA-256(password || 0x00 || user name)
	h := sha256.Sum256(append(append([]byte(u.pw), 0), []byte(u.name)...))
	return h[:]
}

func userMap(us []uspec) map[string]*appctlpb.User {
	m := map[string]*appctlpb.User{}
	for _, u := range us {
		if u.nilUser {
			m[u.mapKey] = nil
			continue
		}
		pu := &appctlpb.User{Name: proto.String(u.name)}
		if u.hashed != "" {
			pu.HashedPassword = proto.String(u.hashed)
			if u.both && u.pw != "" { // a record carrying both fields: the hashed password is the credential
				pu.Password = proto.String(u.pw)
			}
		} else if u.pw != "" {
			pu.Password = proto.String(u.pw)
		}
		m[u.mapKey] = pu
	}
	return m
}

type reguser struct {
	name string
	cred []byte
}

// expected compiles the user list as the property text says: valid users, sorted by name, ids 1..n.
func expected(us []uspec) []reguser {
	cnt := map[string]int{}
	for _, u := range us {
		n := u.name
		if u.nilUser {
			n = ""
		}
		cnt[n]++
	}
	var out []reguser
	for _, u := range us {
		c := u.cred()
		if c == nil || cnt[u.name] > 1 {
			continue
		}
		out = append(out, reguser{u.name, c})
	}
	sort.Slice(out, func(i, j int) bool { return out[i].name < out[j].name })
	return out
}

func hintOf(name string, nonce []byte) []byte {
	h := sha256.Sum256(append([]byte(name), nonce[:16]...))
	return h[:4]
}

func hintMatches(name string, nonce []byte) bool {
	return bytes.Equal(hintOf(name, nonce), nonce[20:24])
}

// seal builds a first segment (nonce || AEAD(metadata)) under the given credential.
func seal(cred, nonce, plain []byte) []byte {
	block, err := cipher.BlockCipherFromPassword(cred, true)
	if err != nil {
		panic(err)
	}
	buf := make([]byte, len(nonce), len(nonce)+len(plain)+cipher.DefaultOverhead)
	copy(buf, nonce)
	if err := block.EncryptWithNonce(buf, nonce, plain); err != nil {
		panic(err)
	}
	return buf[:cap(buf)]
}

func bitsOf(bs []bool) string {
	if len(bs) == 0 {
		return "-"
	}
	var sb strings.Builder
	for _, b := range bs {
		if b {
			sb.WriteByte('1')
		} else {
			sb.WriteByte('0')
		}
	}
	return sb.String()
}

func idsOf(l []uint32) string {
	if len(l) == 0 {
		return "-"
	}
	s := make([]string, len(l))
	for i, v := range l {
		s[i] = fmt.Sprint(v)
	}
	return strings.Join(s, ",")
}

func b01(b bool) string {
	if b {
		return "1"
	}
	return "0"
}

// ---------- hint collisions (real birthday search, fixed nonce prefix) ----------

var collPrefix = []byte("C07-collision-pfx") // first 16 bytes are used

type pair struct{ a, b string }

func findCollisions(n int) []pair {
	seen := make(map[uint32]int32, n)
	var out []pair
	buf := make([]byte, 0, 40)
	for i := 0; i < n; i++ {
		buf = append(buf[:0], 'u', byte('0'+i/1000000%10), byte('0'+i/100000%10), byte('0'+i/10000%10), byte('0'+i/1000%10), byte('0'+i/100%10), byte('0'+i/10%10), byte('0'+i%10))
		buf = append(buf, collPrefix[:16]...)
		h := sha256.Sum256(buf)
		k := binary.BigEndian.Uint32(h[:4])
		if j, ok := seen[k]; ok {
			out = append(out, pair{fmt.Sprintf("u%07d", j), fmt.Sprintf("u%07d", i)})
		} else {
			seen[k] = int32(i)
		}
	}
	return out
}

// ---------- source keys ----------

type keyPool struct {
	sameBucket [][16]byte // >= 7 keys that share one bucket
	others     [][16]byte
}

func makeKeys(g *vh.Rng) keyPool {
	by := map[uint32][][16]byte{}
	var kp keyPool
	for i := 0; i < 40000; i++ {
		var k [16]byte
		copy(k[:], g.Bytes(16))
		if i%3 == 0 { // IPv4-mapped shape, as SourceFromAddr produces for IPv4 peers
			for j := 0; j < 10; j++ {
				k[j] = 0
			}
			k[10], k[11] = 0xff, 0xff
		}
		b := serveruser.VerifBucketIndex(k)
		by[b] = append(by[b], k)
		if len(by[b]) >= 7 && kp.sameBucket == nil {
			kp.sameBucket = by[b]
		}
		if i < 8 {
			kp.others = append(kp.others, k)
		}
	}
	if kp.sameBucket == nil {
		panic("no bucket with 7 keys")
	}
	return kp
}

func keyTok(k [16]byte) string {
	return fmt.Sprintf("%s %d", hex.EncodeToString(k[:]), serveruser.VerifBucketIndex(k))
}

// ---------- scenario ----------

type rec struct{ id, tick uint32 }

type scen struct {
	r      *vh.Run
	g      *vh.Rng
	id     string
	specs  []uspec
	reg    []reguser
	st     *serveruser.VerifState
	cold   *serveruser.VerifState
	tick   uint32
	log    map[[16]byte][]rec // everything ever written for a key (records and planted slots)
	retire bool
}

func (s *scen) ctx(extra map[string]interface{}) map[string]interface{} {
	m := map[string]interface{}{"seed": s.r.Seed, "tier": s.r.Tier, "scenario": s.id}
	for k, v := range extra {
		m[k] = v
	}
	return m
}

// checkLookup: every id returned was written for that key at a tick whose wrapped age is below the lifetime.
func (s *scen) checkLookup(key [16]byte, ids []uint32, now uint32) {
	if len(ids) > serveruser.VerifSourceUserCacheUsers {
		s.r.Fail("lookup-too-many-ids", fmt.Sprintf("lookup returned %d ids", len(ids)), s.ctx(nil))
	}
	seen := map[uint32]bool{}
	for _, id := range ids {
		if id == 0 || seen[id] {
			s.r.Fail("lookup-zero-or-duplicate-id", fmt.Sprintf("lookup returned %v", ids), s.ctx(nil))
		}
		seen[id] = true
		ok := false
		for _, w := range s.log[key] {
			if w.id == id && now-w.tick < lifeTicks { // uint32 arithmetic: the wrap is part of the property
				ok = true
			}
		}
		if !ok {
			s.r.Fail("lookup-returned-unrecorded-or-expired-id",
				fmt.Sprintf("lookup(key %x) at tick %d returned id %d which was not recorded for this key within %d ticks", key[:4], now, id, lifeTicks),
				s.ctx(map[string]interface{}{"key": hex.EncodeToString(key[:]), "tick": now, "id": id}))
		}
	}
	if s.retire && len(ids) != 0 {
		s.r.Fail("retired-cache-answers", "lookup on a retired cache returned ids", s.ctx(nil))
	}
}

type segment struct {
	data   []byte
	plain  []byte
	cred   []byte // sealing credential
	sender string
	mode   string
	hint   []bool // per registered user
	auth   []bool
}

// mkSegment seals a first segment for credential cred; hintName "" = no usable hint.
func mkSegment(g *vh.Rng, reg []reguser, cred []byte, sender, mode, hintName string, fixedPrefix bool) segment {
	nonce := g.Bytes(24)
	if fixedPrefix {
		copy(nonce[:16], collPrefix[:16])
	}
	if hintName != "" {
		copy(nonce[20:], hintOf(hintName, nonce))
	}
	plain := g.Bytes(serveruser.VerifMetadataLength)
	sg := segment{data: seal(cred, nonce, plain), plain: plain, cred: cred, sender: sender, mode: mode}
	for _, u := range reg {
		sg.hint = append(sg.hint, hintMatches(u.name, nonce))
		sg.auth = append(sg.auth, bytes.Equal(u.cred, cred))
	}
	return sg
}

// judge applies the property text to one tryState / discovery outcome on generation reg.
func judge(r *vh.Run, what string, reg []reguser, sg segment, mandatory bool, res serveruser.VerifResult, c map[string]interface{}) {
	nAuth, nHintAuth, elig := 0, 0, 0
	only, onlyHint := 0, 0
	for i := range reg {
		if sg.auth[i] {
			nAuth++
			only = i + 1
			if sg.hint[i] {
				nHintAuth++
				onlyHint = i + 1
			}
			if !mandatory || sg.hint[i] {
				elig++
			}
		}
	}
	if res.OK {
		id := int(res.UserID)
		if id < 1 || id > len(reg) {
			r.Fail("attributed-to-unregistered-id", fmt.Sprintf("%s: accepted with user id %d of %d", what, id, len(reg)), c)
			return
		}
		u := reg[id-1]
		if res.UserName != u.name || res.Policy != u.name {
			r.Fail("attributed-name-mismatch", fmt.Sprintf("%s: id %d is %q but context/policy say %q/%q", what, id, u.name, res.UserName, res.Policy), c)
		}
		_, p, err := cipher.TryDecrypt(sg.data, u.cred, true)
		if !sg.auth[id-1] || err != nil || !bytes.Equal(p, sg.plain) {
			r.Fail("attributed-user-does-not-authenticate", fmt.Sprintf("%s: session attributed to %q whose credential does not open the segment (sealed for %q)", what, u.name, sg.sender), c)
		}
		if !bytes.Equal(res.Plain, sg.plain) {
			r.Fail("wrong-plaintext", what+": decrypted metadata differs from what was sealed", c)
		}
		if mandatory && !sg.hint[id-1] {
			r.Fail("mandatory-hint-bypassed", fmt.Sprintf("%s: hints mandatory, accepted %q whose name the hint does not match", what, u.name), c)
		}
		if nHintAuth > 0 && !sg.hint[id-1] {
			r.Fail("hint-match-not-preferred", fmt.Sprintf("%s: a hint-matching user authenticates but %q (no hint match) was attributed", what, u.name), c)
		}
		if nAuth == 1 && id != only {
			r.Fail("wrong-user", what+": attributed user is not the only authenticating user", c)
		}
		if nHintAuth == 1 && id != onlyHint {
			r.Fail("wrong-hinted-user", what+": attributed user is not the only hint-matching authenticating user", c)
		}
		if res.Block == nil || res.Block.BlockContext().UserName != "" && res.Block.BlockContext().UserName != u.name {
			r.Fail("block-context-mismatch", what+": cipher block context names another user", c)
		}
	} else if elig > 0 {
		r.Fail("eligible-user-rejected", fmt.Sprintf("%s: %d eligible registered credential(s) authenticate the segment but it was rejected", what, elig), c)
	}
	if res.Attempts > len(reg) {
		r.Fail("user-tried-twice", fmt.Sprintf("%s: %d decryption attempts for %d users", what, res.Attempts, len(reg)), c)
	}
}

func sameOutcomeRequired(sg segment) bool {
	nAuth, nHintAuth := 0, 0
	for i := range sg.auth {
		if sg.auth[i] {
			nAuth++
			if sg.hint[i] {
				nHintAuth++
			}
		}
	}
	return nAuth <= 1 || nHintAuth == 1
}

var names = []string{"alice", "bob", "carol", "dave", "erin", "frank", "grace", "heidi", "ivan", "judy"}

func genUsers(g *vh.Rng, n int, coll []pair, tag string) ([]uspec, bool) {
	var us []uspec
	used := map[string]bool{}
	hasColl := false
	if len(coll) > 0 && n >= 2 && g.Intn(3) == 0 {
		p := coll[g.Intn(len(coll))]
		for _, nm := range []string{p.a, p.b} {
			us = append(us, uspec{mapKey: nm, name: nm, pw: "pw-" + tag + nm})
			used[nm] = true
		}
		hasColl = true
	}
	for len(us) < n {
		var nm string
		switch g.Intn(6) {
		case 0:
			nm = names[g.Intn(len(names))]
		case 1:
			nm = (fmt.Sprint(g.Intn(1000)) + strings.Repeat("n", 64))[:g.Range(62, 64)]
		case 2:
			nm = string([]byte{byte(g.Range(0x21, 0x7e))})
		default:
			nm = fmt.Sprintf("user-%s-%d", tag, g.Intn(100000))
		}
		if used[nm] {
			continue
		}
		used[nm] = true
		u := uspec{mapKey: nm, name: nm, pw: "pw-" + tag + "-" + nm}
		switch g.Intn(6) {
		case 0: // configured through hashedPassword
			u.hashed = hex.EncodeToString(u.cred())
			u.pw = ""
		case 1: // both fields, consistent (what a store that keeps the plaintext writes)
			u.hashed = hex.EncodeToString(u.cred())
			u.both = true
		case 2: // both fields, the hash of ANOTHER password: the hash is the registered credential, the raw password is not
			h := sha256.Sum256(append(append([]byte("other-"+u.pw), 0), []byte(nm)...))
			u.hashed = hex.EncodeToString(h[:])
			u.both = true
		}
		us = append(us, u)
	}
	// shared credentials: only possible through hashedPassword (the name is hashed into a raw password)
	if n >= 2 && g.Intn(3) == 0 {
		k := g.Range(2, min(4, n))
		base := us[g.Intn(len(us))]
		h := hex.EncodeToString(base.cred())
		for j := 0; j < k; j++ {
			i := g.Intn(len(us))
			us[i].hashed, us[i].pw = h, ""
		}
	}
	// entries the registry must skip (they get no id)
	if g.Intn(3) == 0 {
		bad := []uspec{
			{mapKey: "zz-empty-name", name: "", pw: "x"},
			{mapKey: "zz-long", name: strings.Repeat("L", 65), pw: "x"},
			{mapKey: "zz-nopw", name: "aa-nopw"},
			{mapKey: "zz-badhex", name: "mm-badhex", hashed: "zz"},
			{mapKey: "zz-shorthex", name: "mm-shorthex", hashed: "abcd"},
			{mapKey: "zz-nil", nilUser: true},
			{mapKey: "dup-1", name: "dup-name", pw: "a"},
			{mapKey: "dup-2", name: "dup-name", pw: "b"},
		}
		for _, b := range bad {
			if g.Intn(2) == 0 {
				us = append(us, b)
			}
		}
		if g.Intn(2) == 0 { // the two halves of a duplicate must both be present to be duplicates
			us = append(us, bad[6], bad[7])
		}
	}
	return normalize(us), hasColl
}

// normalize keeps one entry per map key (the configuration is a map).
func normalize(us []uspec) []uspec {
	seen := map[string]bool{}
	var out []uspec
	for _, u := range us {
		if !seen[u.mapKey] {
			seen[u.mapKey] = true
			out = append(out, u)
		}
	}
	return out
}

func contains(l []uint32, x uint32) bool {
	for _, v := range l {
		if v == x {
			return true
		}
	}
	return false
}

func min(a, b int) int {
	if a < b {
		return a
	}
	return b
}

func checkCompiled(r *vh.Run, st *serveruser.VerifState, reg []reguser, c map[string]interface{}) bool {
	ids, nms, creds := st.Users()
	ok := len(ids) == len(reg)
	for i := 0; ok && i < len(reg); i++ {
		ok = ids[i] == uint32(i+1) && nms[i] == reg[i].name && bytes.Equal(creds[i], reg[i].cred)
	}
	if !ok {
		r.Fail("registry-compiled-differently", fmt.Sprintf("compiled users %v, want valid users sorted by name with ids 1..n: %d users", nms, len(reg)), c)
	}
	return ok
}

// pickSegment chooses who seals the segment and what the hint says.
func pickSegment(g *vh.Rng, reg []reguser, hasColl bool, tag string, prefer []uint32) segment {
	n := len(reg)
	if n == 0 {
		h := sha256.Sum256([]byte("nobody" + tag))
		return mkSegment(g, reg, h[:], "(unregistered)", "unregistered", "", false)
	}
	x := reg[g.Intn(n)]
	y := reg[g.Intn(n)]
	if len(prefer) > 0 && g.Intn(2) == 0 { // a user the source cache already knows (warm path)
		if id := int(prefer[g.Intn(len(prefer))]); id >= 1 && id <= n {
			x = reg[id-1]
		}
	}
	switch g.Intn(10) {
	case 0, 1, 2, 3:
		return mkSegment(g, reg, x.cred, x.name, "own-hint", x.name, hasColl)
	case 4, 5:
		return mkSegment(g, reg, x.cred, x.name, "no-hint", "", hasColl)
	case 6:
		return mkSegment(g, reg, x.cred, x.name, "other-hint", y.name, hasColl)
	case 7: // unregistered credential, hint names a registered user
		h := sha256.Sum256([]byte("stranger" + tag + x.name))
		return mkSegment(g, reg, h[:], "(unregistered)", "unregistered-hinted", x.name, hasColl)
	case 8: // unregistered credential, no hint
		h := sha256.Sum256([]byte("stranger2" + tag))
		return mkSegment(g, reg, h[:], "(unregistered)", "unregistered", "", false)
	default: // wrong password for a registered name
		h := sha256.Sum256(append(append([]byte("wrong"), 0), []byte(x.name)...))
		return mkSegment(g, reg, h[:], x.name+"(wrong password)", "wrong-password", x.name, hasColl)
	}
}

func classes(sg segment, mand bool, res serveruser.VerifResult, ncached int) string {
	na, nh, nha := 0, 0, 0
	for i := range sg.auth {
		if sg.auth[i] {
			na++
		}
		if sg.hint[i] {
			nh++
		}
		if sg.auth[i] && sg.hint[i] {
			nha++
		}
	}
	cl := func(x int) int {
		if x > 2 {
			return 2
		}
		return x
	}
	cc := 0
	if ncached > 0 {
		cc = 1
	}
	if ncached > 1 {
		cc = 2
	}
	return fmt.Sprintf("%s/a%d/h%d/ha%d/m%v/o%d/c%d", sg.mode, cl(na), cl(nh), cl(nha), mand, res.Origin, cc)
}

// tryStateScenario: one generation with an injected tick; a history of cache operations and tryState calls.
func tryStateScenario(r *vh.Run, idx int, n int, coll []pair, kp keyPool) {
	g := r.Rng.Fork()
	s := &scen{r: r, g: g, id: fmt.Sprintf("T%d", idx), log: map[[16]byte][]rec{}}
	var hasColl bool
	s.specs, hasColl = genUsers(g, n, coll, s.id)
	s.reg = expected(s.specs)
	bases := []uint32{0, 1000, 0xffffffff - 700, 0xffffffff - 10, 0x80000000, 0xfffffda8}
	s.tick = bases[g.Intn(len(bases))]
	s.st = serveruser.VerifBuildState(userMap(s.specs), func() uint32 { return s.tick })
	s.cold = serveruser.VerifBuildState(userMap(s.specs), nil)
	r.Case("N", "-")
	if !checkCompiled(r, s.st, s.reg, s.ctx(nil)) {
		return
	}
	nreg := len(s.reg)
	keys := append([][16]byte{}, kp.sameBucket[:6]...)
	keys = append(keys, kp.others[:2]...)
	steps := g.Range(6, 30)
	shape := ""
	for i := 0; i < steps; i++ {
		key := keys[g.Intn(len(keys))]
		if g.Intn(3) == 0 {
			key = keys[0]
		}
		switch op := g.Intn(20); {
		case op < 4: // time passes
			adv := []uint32{0, 1, 5, 300, lifeTicks - 1, lifeTicks, lifeTicks + 1, 0x80000000, 0xffffffff, 0xffffffff - lifeTicks + 1}
			s.tick += adv[g.Intn(len(adv))]
			r.Count("op-advance")
		case op < 8: // record: usually a registered id, sometimes an id the generation does not have
			id := uint32(g.Intn(nreg+1) + 1)
			if g.Intn(12) == 0 {
				id = []uint32{0, uint32(nreg + 5), 0xffffffff, 0x80000000}[g.Intn(4)]
			}
			if g.Intn(4) == 0 && nreg > 0 { // many users from one source (slot replacement)
				for j := 0; j < 18; j++ {
					uid := uint32(g.Intn(min(nreg, 20)) + 1)
					s.record(key, uid)
					if g.Intn(3) == 0 {
						s.tick += uint32(g.Intn(3))
					}
				}
			}
			s.record(key, id)
			shape += "r"
		case op < 9: // many sources into one bucket (way replacement)
			for j := 0; j < 6; j++ {
				s.record(kp.sameBucket[g.Intn(7)], uint32(g.Intn(nreg+1)+1))
				s.tick += uint32(g.Intn(2))
			}
			shape += "w"
		case op < 11: // hand-planted entry: stale / zero / duplicated / out-of-range ids, arbitrary ticks
			way := g.Intn(serveruser.VerifSourceUserCacheWays)
			k := g.Range(0, 16)
			var slots []serveruser.VerifSlot
			toks := ""
			for j := 0; j < k; j++ {
				id := uint32(g.Intn(nreg + 3))
				if g.Intn(5) == 0 {
					id = []uint32{0, 0xffffffff, uint32(nreg + 1), 1}[g.Intn(4)]
				}
				t := s.tick - uint32(g.Intn(2*lifeTicks))
				if g.Intn(6) == 0 {
					t = s.tick + uint32(g.Intn(5)) // written "after" the lookup's snapshot of now
				}
				slots = append(slots, serveruser.VerifSlot{ID: id, Tick: t})
				toks += fmt.Sprintf(" %d %d", id, t)
				s.log[key] = append(s.log[key], rec{id, t})
			}
			last := s.tick - uint32(g.Intn(lifeTicks+50))
			if s.st.Plant(key, way, last, slots) {
				r.Case(fmt.Sprintf("P %s %d %d %d%s", keyTok(key), way, last, k, toks), "-")
			}
			r.Count("op-plant")
			shape += "p"
		case op < 12:
			if g.Intn(6) == 0 {
				s.st.Retire()
				s.retire = true
				r.Case("X", "-")
				r.Count("op-retire")
				shape += "x"
			}
		case op < 13:
			ids := s.st.Lookup(key)
			r.Case(fmt.Sprintf("L %s %d", keyTok(key), s.tick), idsOf(ids))
			s.checkLookup(key, ids, s.tick)
			r.Count("op-lookup")
		default:
			shape += s.tryState(key, hasColl)
		}
	}
	r.Distinct("hist/" + shape)
}

func (s *scen) record(key [16]byte, id uint32) {
	s.st.Record(key, id)
	if id != 0 && !s.retire {
		s.log[key] = append(s.log[key], rec{id, s.tick})
	}
	ids := s.st.Lookup(key)
	s.r.Case(fmt.Sprintf("R %s %d %d", keyTok(key), id, s.tick), idsOf(ids))
	s.checkLookup(key, ids, s.tick)
	if id != 0 && !s.retire && !contains(ids, id) {
		s.r.Fail("record-not-visible", fmt.Sprintf("id %d recorded at tick %d is not returned by an immediate lookup: %v", id, s.tick, ids), s.ctx(nil))
	}
	s.r.Count("op-record")
}

func (s *scen) tryState(key [16]byte, hasColl bool) string {
	r, g := s.r, s.g
	mand := g.Intn(3) == 0
	valid := g.Intn(8) != 0
	src := serveruser.VerifSourceFromKey(key, valid)
	var cached []uint32
	if valid {
		cached = s.st.Lookup(key)
		s.checkLookup(key, cached, s.tick)
	}
	sg := pickSegment(g, s.reg, hasColl, s.id, cached)
	res := s.st.TryState(sg.data, src, mand)
	uid, org := uint32(0), 0
	if res.OK {
		uid, org = res.UserID, res.Origin
	}
	r.Case(fmt.Sprintf("T %s %s %d %s %d %s %s", b01(valid), keyTok(key), s.tick, b01(mand), len(s.reg), bitsOf(sg.hint), bitsOf(sg.auth)),
		fmt.Sprintf("%d %d %d", uid, org, res.Attempts))
	r.Count("T-" + sg.mode)
	r.Distinct(classes(sg, mand, res, len(cached)))
	c := s.ctx(map[string]interface{}{"sender": sg.sender, "mode": sg.mode, "mandatory": mand, "cached": cached,
		"key": hex.EncodeToString(key[:]), "tick": s.tick, "users": len(s.reg), "segment": hex.EncodeToString(sg.data)})
	judge(r, "tryState", s.reg, sg, mand, res, c)
	// a cold registry holding the same users, no cache
	coldRes := s.cold.TryState(sg.data, serveruser.VerifSourceFromKey([16]byte{}, false), mand)
	if coldRes.OK != res.OK {
		r.Fail("accept-depends-on-cache", fmt.Sprintf("warm registry accept=%v, cold registry accept=%v", res.OK, coldRes.OK), c)
	} else if res.OK && sameOutcomeRequired(sg) && coldRes.UserID != res.UserID {
		r.Fail("attribution-depends-on-cache", fmt.Sprintf("warm registry attributes to id %d, a cold registry to id %d", res.UserID, coldRes.UserID), c)
	}
	if res.OK && valid && g.Intn(4) != 0 { // commit, as commitServerUserAuthentication does
		s.record(key, res.UserID)
	}
	if res.OK {
		return "T"
	}
	return "t"
}

// ---------- discovery with reloads ----------

type genInfo struct {
	st  *serveruser.VerifState
	reg []reguser
	gid int
}

func discoverScenario(r *vh.Run, idx int, coll []pair, kp keyPool) {
	g := r.Rng.Fork()
	id := fmt.Sprintf("D%d", idx)
	ctx := func(extra map[string]interface{}) map[string]interface{} {
		m := map[string]interface{}{"seed": r.Seed, "tier": r.Tier, "scenario": id}
		for k, v := range extra {
			m[k] = v
		}
		return m
	}
	registry := &serveruser.Registry{}
	var gens []genInfo
	gidOf := func(st *serveruser.VerifState) *genInfo {
		if st == nil {
			return nil
		}
		for i := range gens {
			if gens[i].st.Same(st) {
				return &gens[i]
			}
		}
		return nil
	}
	ngen := 0
	var pool []uspec // users persist across reloads unless removed / re-keyed
	publish := func(kind int) {
		switch kind {
		case 0: // fresh set
			pool, _ = genUsers(g, g.Range(1, 12), coll, fmt.Sprintf("%s.%d", id, ngen))
		case 1: // remove some users
			if len(pool) > 1 {
				k := g.Range(1, len(pool)-1)
				pool = append([]uspec{}, pool[k:]...)
			}
		case 2: // change passwords of some users
			pool = append([]uspec{}, pool...)
			for i := range pool {
				if g.Intn(2) == 0 && pool[i].cred() != nil {
					pool[i].pw, pool[i].hashed = fmt.Sprintf("newpw-%d-%d", ngen, i), ""
				}
			}
		case 3: // add users
			more, _ := genUsers(g, g.Range(1, 5), nil, fmt.Sprintf("%s.%d+", id, ngen))
			have := map[string]bool{}
			for _, u := range pool {
				have[u.mapKey] = true
			}
			for _, u := range more {
				if !have[u.mapKey] {
					pool = append(pool, u)
				}
			}
		case 4: // no usable user
			pool = []uspec{{mapKey: "zz-empty-name", name: "", pw: "x"}}
		case 5: // re-key through hashedPassword ONLY: name, map key and raw password (kept in the record) unchanged
			pool = append([]uspec{}, pool...)
			for i := range pool {
				if pool[i].cred() != nil && (g.Intn(2) == 0 || i == 0) {
					if pool[i].pw == "" {
						pool[i].pw = fmt.Sprintf("kept-pw-%d", i)
					}
					h := sha256.Sum256([]byte(fmt.Sprintf("rekey-%s-%d-%d", id, ngen, i)))
					pool[i].hashed, pool[i].both = hex.EncodeToString(h[:]), true
				}
			}
		case 6: // the raw password of a record with both fields changes, the hash (the credential) does not
			pool = append([]uspec{}, pool...)
			for i := range pool {
				if pool[i].cred() != nil && pool[i].hashed != "" {
					pool[i].pw, pool[i].both = fmt.Sprintf("decoy-pw-%d-%d", ngen, i), true
				}
			}
		}
		registry.SetUsers(userMap(pool))
		cur := serveruser.VerifCurrent(registry)
		gens = append(gens, genInfo{st: cur, reg: expected(pool), gid: ngen})
		checkCompiled(r, cur, gens[len(gens)-1].reg, ctx(nil))
		ngen++
	}
	startNil := g.Intn(12) == 0
	if !startNil {
		publish(0)
	}
	mandatory := false
	setMand := func(m bool) { mandatory = m; registry.SetHintMandatory(m) }
	key := kp.others[g.Intn(len(kp.others))]
	validSrc := g.Intn(6) != 0
	src := serveruser.VerifSourceFromKey(key, validSrc)
	hasColl := len(coll) > 0

	rounds := g.Range(2, 6)
	for round := 0; round < rounds; round++ {
		if startNil && round == 1 {
			publish(0)
		}
		if c := gidOf(serveruser.VerifCurrent(registry)); c != nil && len(c.reg) == 0 && g.Intn(3) != 0 {
			publish(0)
		}
		if g.Intn(4) == 0 {
			setMand(!mandatory)
		}
		if c := gidOf(serveruser.VerifCurrent(registry)); c != nil && len(c.reg) > 0 && round > 0 && g.Intn(3) == 0 {
			publish([]int{5, 5, 6, 2}[g.Intn(4)]) // a completed reload that re-keys users in place before the next connection
		}
		cur := gidOf(serveruser.VerifCurrent(registry))
		// whom the client is: a user of the current generation, of the generation that WILL be
		// current after the scripted reload, or of a retired one
		var base []reguser
		if cur != nil {
			base = cur.reg
		}
		if len(gens) > 1 && g.Intn(4) == 0 {
			base = gens[g.Intn(len(gens))].reg
		}
		rc := g.Intn(3) != 0
		// script of reloads performed from the afterAttempt hook (a reload racing with discovery)
		nReloads := 0
		if g.Intn(2) == 0 {
			nReloads = g.Range(1, 3)
		}
		sg := pickSegment(g, base, hasColl, id, nil)
		short := g.Intn(25) == 0
		data := sg.data
		if short {
			data = data[:g.Intn(cipher.DefaultNonceSize)]
		}
		var blocks []string
		calls, reloadsDone := 0, 0
		hook := func(st *serveruser.VerifState) {
			calls++
			gi := gidOf(st)
			if gi == nil {
				r.Fail("unknown-generation", "discovery tried a generation that was never published", ctx(nil))
				return
			}
			// what this attempt saw
			var hint, auth []bool
			nonce := sg.data[:24]
			for _, u := range gi.reg {
				hint = append(hint, hintMatches(u.name, nonce))
				auth = append(auth, bytes.Equal(u.cred, sg.cred))
			}
			var cached []uint32
			if validSrc {
				cached = st.Lookup(key)
			}
			mandSeen := mandatory
			if calls <= nReloads {
				reloadsDone++
				publish([]int{0, 0, 0, 1, 1, 1, 2, 2, 2, 3, 3, 4, 5, 5, 6}[g.Intn(15)])
				if g.Intn(3) == 0 {
					setMand(!mandatory)
				}
			}
			chk := "nil"
			if c := gidOf(serveruser.VerifCurrent(registry)); c != nil {
				chk = fmt.Sprint(c.gid)
			}
			blocks = append(blocks, fmt.Sprintf("%d %d %s %s %s %s %s", gi.gid, len(gi.reg), b01(mandSeen), bitsOf(hint), bitsOf(auth), idsOf(cached), chk))
		}
		res, err := serveruser.VerifDiscoverUser(registry, data, src, rc, hook)
		final := gidOf(serveruser.VerifCurrent(registry))
		impl := ""
		switch {
		case err == nil:
			gi := gidOf(res.Gen)
			gid := -1
			if gi != nil {
				gid = gi.gid
			}
			impl = fmt.Sprintf("OK %d %d %d %d %d", gid, res.UserID, res.Origin, res.Attempts, calls)
		case strings.Contains(err.Error(), "shorter than nonce"):
			impl = "SHORT"
		case strings.Contains(err.Error(), "no server user found"):
			impl = "NOUSERS"
			if final == nil {
				blocks = append(blocks, "nil 0 0 - - - nil")
			} else {
				blocks = append(blocks, fmt.Sprintf("%d %d %s - - - %d", final.gid, len(final.reg), b01(mandatory), final.gid))
			}
		case strings.Contains(err.Error(), "failed for all users"):
			impl = fmt.Sprintf("NOAUTH %d", calls)
		default:
			impl = "ERR " + err.Error()
		}
		if len(blocks) == 0 {
			blocks = append(blocks, "nil 0 0 - - - nil")
		}
		r.Case(fmt.Sprintf("D %s %s | %s", b01(short), b01(rc), strings.Join(blocks, " | ")), impl)
		r.Count("D-" + strings.Fields(impl)[0])
		r.Count(fmt.Sprintf("D-reloads-%d", reloadsDone))
		r.Distinct(fmt.Sprintf("D/%s/rc%v/calls%d/%s/m%v", strings.Fields(impl)[0], rc, calls, sg.mode, mandatory))
		c := ctx(map[string]interface{}{"round": round, "requireCurrent": rc, "sender": sg.sender, "mode": sg.mode, "reloads": nReloads, "blocks": blocks, "impl": impl})

		// ---- oracle ----
		if err == nil && !short {
			gi := gidOf(res.Gen)
			if gi == nil {
				r.Fail("unknown-generation", "result carries a generation that was never published", c)
			} else {
				if rc && (final == nil || gi.gid != final.gid) {
					r.Fail("stale-generation-returned", fmt.Sprintf("requireCurrent discovery returned generation %d while generation %v is current", gi.gid, final), c)
				}
				// re-evaluate hint/auth against the generation that was used
				sg2 := sg
				sg2.hint, sg2.auth = nil, nil
				for _, u := range gi.reg {
					sg2.hint = append(sg2.hint, hintMatches(u.name, sg.data[:24]))
					sg2.auth = append(sg2.auth, bytes.Equal(u.cred, sg.cred))
				}
				// mandatory flag used is the one of the last attempt; judge() needs it only for eligibility
				lastMand := strings.Fields(blocks[len(blocks)-1])[2] == "1"
				judge(r, "discoverUser", gi.reg, sg2, lastMand, res, c)
				if rc {
					// cold registry with the current users
					coldReg := &serveruser.Registry{}
					coldReg.SetUsers(userMap(pool))
					coldReg.SetHintMandatory(lastMand)
					cres, cerr := serveruser.VerifDiscoverUser(coldReg, data, serveruser.VerifSourceFromKey([16]byte{}, false), true, nil)
					if cerr != nil {
						r.Fail("accept-depends-on-cache", "warm registry accepted, a cold registry with the same users rejects", c)
					} else if sameOutcomeRequired(sg2) && cres.UserName != res.UserName {
						r.Fail("attribution-depends-on-cache", fmt.Sprintf("warm %q, cold %q", res.UserName, cres.UserName), c)
					}
				}
			}
		}
		if err != nil && !short && rc && final != nil && strings.Contains(err.Error(), "failed for all users") {
			lastMand := strings.Fields(blocks[len(blocks)-1])[2] == "1"
			for _, u := range final.reg {
				if bytes.Equal(u.cred, sg.cred) && (!lastMand || hintMatches(u.name, sg.data[:24])) {
					r.Fail("eligible-user-rejected", fmt.Sprintf("discoverUser: %q is registered in the current generation and authenticates, but the segment was rejected", u.name), c)
				}
			}
		}

		// ---- the public path after the reload(s) completed: Discover, then Record ----
		cur = gidOf(serveruser.VerifCurrent(registry))
		if cur != nil && len(cur.reg) > 0 && !short {
			block, plain, authn, derr := registry.Discover(sg.data, src, rc)
			stillRegistered := false
			for _, u := range cur.reg {
				if bytes.Equal(u.cred, sg.cred) && (!mandatory || hintMatches(u.name, sg.data[:24])) {
					stillRegistered = true
				}
			}
			r.Count(fmt.Sprintf("public-discover-registered-%v", stillRegistered))
			if derr == nil && !stillRegistered {
				r.Fail("unregistered-credential-accepted-after-reload",
					fmt.Sprintf("after SetUsers returned, a new connection sealed by %s was authenticated as %q although no eligible user of the current list has that credential", sg.sender, block.BlockContext().UserName), c)
			}
			if derr != nil && stillRegistered {
				r.Fail("eligible-user-rejected", "public Discover rejects a segment that an eligible current user authenticates", c)
			}
			if derr == nil {
				uid, pol, _, agen := serveruser.VerifAuthentication(authn)
				if agen == nil || !agen.Same(cur.st) {
					r.Fail("stale-generation-returned", "public Discover returned an authentication of a generation that is not current (no reload in flight)", c)
				}
				if int(uid) < 1 || int(uid) > len(cur.reg) || cur.reg[uid-1].name != pol || block.BlockContext().UserName != pol || !bytes.Equal(cur.reg[uid-1].cred, sg.cred) || !bytes.Equal(plain, sg.plain) {
					r.Fail("attributed-user-does-not-authenticate", fmt.Sprintf("public Discover attributed to %q (id %d)", pol, uid), c)
				}
				before := cur.st.Lookup(key)
				if g.Intn(3) == 0 { // a reload between discovery and commit: the record must be dropped
					publish(g.Range(1, 3))
					authn.Record()
					nw := serveruser.VerifCurrent(registry)
					if !cur.st.Retired() {
						r.Fail("retired-generation-keeps-cache", "generation replaced by SetUsers still publishes its cache table", c)
					}
					if l := nw.Lookup(key); len(l) != 0 {
						r.Fail("ids-cross-generations", fmt.Sprintf("a fresh generation's cache already answers %v for the source", l), c)
					}
					r.Count("record-after-reload")
				} else {
					authn.Record()
					after := cur.st.Lookup(key)
					if validSrc && !contains(after, uid) {
						r.Fail("record-not-visible", fmt.Sprintf("Authentication.Record: lookup before %v after %v, authenticated id %d", before, after, uid), c)
					}
					if !validSrc && len(after) != 0 {
						r.Fail("invalid-source-recorded", "a zero Source was recorded", c)
					}
					r.Count("record-committed")
				}
			}
		}
	}
}

func main() {
	r := vh.Start("c07")
	mlog.SetOutput(io.Discard)
	r.Rep.Rule = "tryState scenarios: one generation of 1..40 users (valid, hashed-password, shared credentials via hashedPassword, real 4-byte hint collisions found by a birthday search over fixed-prefix names, entries the registry must skip) with an injected tick; a history of real recordAuthenticated / lookup / hand-planted entries / retire / time steps (0,1,599,600,601, half range, wrap) over 8 source keys, 6 of them in one bucket; tryState on real sealed segments (own hint, no hint, another user's hint, unregistered credential, wrong password) x mandatory on/off x valid/zero Source, each compared with try_state on the model's own cache state and judged by the text (credential of the attributed user opens the segment, eligible users never rejected, hint preference, same result on a cold registry). discoverUser scenarios: real Registry.SetUsers reloads fired from the afterAttempt hook (1..3 per call), hintMandatory flips, requireCurrent on/off, nil/empty generations, short metadata; then the public Discover + Authentication.Record path. Non-trivial class = (segment mode, #authenticating, #hint-matching, #both, mandatory, origin, cache fill) for T, (outcome, requireCurrent, attempts, mode) for D, operation shape per history."
	coll := findCollisions(map[bool]int{false: 1 << 19, true: 1 << 21}[r.Thorough()])
	r.Rep.Notes = map[string]string{
		"hint_collisions_found": fmt.Sprintf("%d pairs of names with equal 4-byte hint under the fixed nonce prefix (birthday search, real SHA-256)", len(coll)),
		"shared_credentials":    "two registry entries open the same segment only when configured with the same hashedPassword (a raw password is hashed together with the name); the driver builds such entries",
	}
	if len(coll) == 0 {
		r.Rep.Notes["hint_collisions_found"] += " — none found, collision cases not exercised in this run"
	}
	kp := makeKeys(r.Rng.Fork())

	// age / expiry arithmetic on a wrap-around grid is covered through L and R cases; boundary sizes first
	sizes := []int{1, 2, 3, 16, 17, 40}
	nT, nD := 120, 80
	if r.Thorough() {
		nT, nD = 9000, 6000
	}
	for i := 0; i < nT; i++ {
		n := r.Rng.Range(1, 40)
		if i < len(sizes) {
			n = sizes[i]
		} else if r.Rng.Intn(2) == 0 {
			n = r.Rng.Range(1, 8)
		}
		tryStateScenario(r, i, n, coll, kp)
	}
	for i := 0; i < nD; i++ {
		discoverScenario(r, i, coll, kp)
	}
	r.Finish()
}
