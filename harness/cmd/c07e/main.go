// End-to-end driver for C07: attribution of NEW sessions by a real server Mux.
// A real server protocol.Mux (UDP packet underlay, or TCP) and real client Muxes run on
// simnet under virtual time.  User sets contain credential collisions (2-3 users registered
// with the same hashedPassword); hints optional or mandatory; clients sit on the same IP with
// different ports, on different IPs, and multiplex several sessions over one socket; sessions
// are established in every order.  Every accepted session's UserName() and policy are compared
// with the extracted model (try_state + the existing-session shortcut, model/Discover.v
// udp_run) and judged by the property text: the session belongs to the user the segment's hint
// names when that user is registered and its credential opens the segment - never to whoever
// already has a session from that IP.
package main

import (
	"context"
	"crypto/sha256"
	"encoding/hex"
	"fmt"
	"io"
	"net"
	"sort"
	"strings"
	"time"

	"github.com/enfein/mieru/v3/pkg/appctl/appctlpb"
	"github.com/enfein/mieru/v3/pkg/common"
	mlog "github.com/enfein/mieru/v3/pkg/log"
	"github.com/enfein/mieru/v3/pkg/protocol"
	"google.golang.org/protobuf/proto"
	"verifharness/simnet"
	"verifharness/vh"
)

type user struct {
	name  string
	class int
	cred  []byte
}

type client struct {
	mux   *protocol.Mux
	uid   int // 1-based id of the user the client claims to be
	ip    string
	wrong bool
}

func ipNum(ip net.IP) uint32 {
	b := ip.To4()
	if b == nil {
		return 0
	}
	return uint32(b[0])<<24 | uint32(b[1])<<16 | uint32(b[2])<<8 | uint32(b[3])
}

func addrOf(a net.Addr) (net.IP, int) {
	switch v := a.(type) {
	case *net.UDPAddr:
		return v.IP, v.Port
	case *net.TCPAddr:
		return v.IP, v.Port
	}
	host, port, err := net.SplitHostPort(a.String())
	if err != nil {
		return nil, 0
	}
	p := 0
	fmt.Sscan(port, &p)
	return net.ParseIP(host), p
}

var nameStock = []string{"alice", "bob", "carol", "dave", "erin", "frank", "grace", "heidi"}
var ipStock = []string{"10.0.0.2", "10.0.0.3", "10.9.8.7"}

func scenario(r *vh.Run, idx int) {
	g := r.Rng.Fork()
	id := fmt.Sprintf("E%d", idx)
	transport := "udp"
	if g.Intn(5) == 0 {
		transport = "tcp"
	}
	mand := g.Intn(2) == 0
	n := g.Range(2, 5)
	// users: names distinct, ids by sorted name; credential classes with collisions
	perm := append([]string{}, nameStock...)
	for i := len(perm) - 1; i > 0; i-- {
		j := g.Intn(i + 1)
		perm[i], perm[j] = perm[j], perm[i]
	}
	nm := perm[:n]
	sort.Strings(nm)
	users := make([]user, n)
	nclass := g.Range(1, n)
	if idx < 4 {
		nclass = 1 + idx%2 // boundary first: everybody shares / two classes
	}
	for i := range users {
		c := g.Intn(nclass)
		if i < nclass {
			c = i
		}
		h := sha256.Sum256([]byte(fmt.Sprintf("cred-%d-%s-%d", r.Seed, id, c)))
		users[i] = user{name: nm[i], class: c, cred: h[:]}
	}
	um := map[string]*appctlpb.User{}
	for _, u := range users {
		um[u.name] = &appctlpb.User{Name: proto.String(u.name), HashedPassword: proto.String(hex.EncodeToString(u.cred))}
	}
	nw := simnet.New()
	tp := common.PacketTransport
	var saddr net.Addr = &net.UDPAddr{IP: net.ParseIP("192.0.2.1"), Port: 8964}
	if transport == "tcp" {
		tp = common.StreamTransport
		saddr = &net.TCPAddr{IP: net.ParseIP("192.0.2.1"), Port: 8964}
	}
	server := protocol.NewMux(false).
		SetServerUsers(um).
		SetServerUserHintIsMandatory(mand).
		SetStreamListenerFactory(nw).
		SetPacketListenerFactory(simnet.PacketListener{N: nw}).
		SetResolver(nil).
		SetEndpoints([]protocol.UnderlayProperties{protocol.NewUnderlayProperties(1400, tp, saddr, nil)})
	if err := server.Start(); err != nil {
		panic(err)
	}
	accepted := make(chan net.Conn, 64)
	go func() {
		for {
			c, err := server.Accept()
			if err != nil {
				return
			}
			accepted <- c
		}
	}()
	var clients []*client
	newClient := func() *client {
		c := &client{uid: g.Intn(n) + 1, ip: ipStock[g.Intn(len(ipStock))], wrong: g.Intn(9) == 0}
		if g.Intn(2) == 0 {
			c.ip = ipStock[0] // many clients behind one address
		}
		cred := users[c.uid-1].cred
		if c.wrong {
			h := sha256.Sum256([]byte("wrong-" + id + users[c.uid-1].name))
			cred = h[:]
		}
		c.mux = protocol.NewMux(true).
			SetClientUserNamePassword(users[c.uid-1].name, cred).
			SetClientMultiplexFactor(3).
			SetDialer(dialerFrom{nw, c.ip}).
			SetPacketDialer(simnet.PacketDialer{N: nw, SrcIP: c.ip}).
			SetResolver(nil).
			SetEndpoints([]protocol.UnderlayProperties{protocol.NewUnderlayProperties(1400, tp, nil, saddr)})
		clients = append(clients, c)
		return c
	}
	// make sure the pattern "same credential, same IP, other socket" occurs: first two clients
	// are two users of class 0 on ipStock[0] whenever the class has two members
	nev := g.Range(4, 9)
	var blocks []string
	var implOut []string
	var opened []net.Conn
	type sessInfo struct {
		ip   string
		port int
		user string
	}
	var live []sessInfo
	shape := ""
	for k := 0; k < nev; k++ {
		var c *client
		if len(clients) > 0 && g.Intn(3) == 0 {
			c = clients[g.Intn(len(clients))] // another session of an existing client (may share its socket)
		} else {
			c = newClient()
			if k < 2 && !c.wrong {
				c.ip = ipStock[0]
				c.mux.SetPacketDialer(simnet.PacketDialer{N: nw, SrcIP: c.ip}).SetDialer(dialerFrom{nw, c.ip})
			}
		}
		tag := fmt.Sprintf("%s/%d/", id, k)
		ctx, cancel := context.WithTimeout(context.Background(), 10*time.Second)
		conn, err := c.mux.DialContext(ctx)
		cancel()
		got := ""
		gotPolicy := ""
		port := 60000 + k
		if err == nil {
			opened = append(opened, conn)
			conn.SetWriteDeadline(time.Now().Add(5 * time.Second))
			conn.Write([]byte(tag))
			select {
			case sc := <-accepted:
				opened = append(opened, sc)
				buf := make([]byte, 64)
				sc.SetReadDeadline(time.Now().Add(5 * time.Second))
				m, _ := io.ReadAtLeast(sc, buf, len(tag))
				if string(buf[:m]) != tag {
					r.Fail("e2e-session-mixup", fmt.Sprintf("accepted session carries %q, expected %q", buf[:m], tag), map[string]interface{}{"seed": r.Seed, "scenario": id})
				}
				var ra net.Addr
				for w := 0; w < 200; w++ {
					var ok bool
					got, gotPolicy, ra, ok = protocol.VerifC07SessionUser(sc)
					if !ok || got != "" {
						break
					}
					time.Sleep(time.Millisecond)
				}
				if ra != nil {
					ip, p := addrOf(ra)
					port = p
					if ip.String() != c.ip {
						r.Fail("e2e-address-mixup", fmt.Sprintf("session peer %v, client ip %s", ra, c.ip), nil)
					}
				}
			case <-time.After(3 * time.Second):
			}
		}
		gotID := 0
		for i, u := range users {
			if u.name == got {
				gotID = i + 1
			}
		}
		implOut = append(implOut, fmt.Sprint(gotID))
		blocks = append(blocks, fmt.Sprintf("%d %d %d %s", ipNum(net.ParseIP(c.ip)), port, c.uid, map[bool]string{true: "1", false: "0"}[c.wrong]))
		// ---- oracle: the property text ----
		want := users[c.uid-1].name
		samePortOther, sameIPOther := false, false
		for _, s := range live {
			if s.ip == c.ip && s.port != port && s.user == got && got != want {
				sameIPOther = true
			}
			if s.ip == c.ip && s.port == port {
				samePortOther = true
			}
		}
		cs := map[string]interface{}{"seed": r.Seed, "tier": r.Tier, "scenario": id, "event": k, "transport": transport, "mandatory": mand,
			"users": fmt.Sprint(users), "client_user": want, "client_addr": fmt.Sprintf("%s:%d", c.ip, port), "wrong_password": c.wrong,
			"attributed": got, "policy": gotPolicy, "live_sessions": fmt.Sprint(live)}
		switch {
		case c.wrong && got != "":
			r.Fail("e2e-unregistered-credential-accepted", fmt.Sprintf("client with a wrong password for %q got a session of %q", want, got), cs)
		case !c.wrong && got == "":
			r.Fail("e2e-registered-user-rejected", fmt.Sprintf("%s: client %q (hint names it, credential registered) got no session", transport, want), cs)
		case !c.wrong && got != want:
			sig := "e2e-session-attributed-to-other-user"
			if sameIPOther {
				sig = "e2e-session-attributed-to-owner-of-another-session-from-same-ip"
			}
			r.Fail(sig, fmt.Sprintf("%s: first segment of %q (hint %q) from %s:%d attributed to %q (same credential) - sessions then open: %v", transport, want, want, c.ip, port, got, live), cs)
		case !c.wrong && gotPolicy != want:
			r.Fail("e2e-session-policy-of-other-user", fmt.Sprintf("session of %q carries the policy of %q", want, gotPolicy), cs)
		}
		if got != "" {
			live = append(live, sessInfo{c.ip, port, got})
		}
		r.Count("E-" + transport)
		switch {
		case c.wrong:
			shape += "x"
		case samePortOther:
			shape += "m" // multiplexed over an existing socket
		default:
			sh := "n"
			for _, s := range live[:max(0, len(live)-1)] {
				if s.ip == c.ip && s.port != port {
					for _, u := range users {
						if u.name == s.user && u.class == users[c.uid-1].class && u.name != want {
							sh = "S" // another user with the same credential already has a session from this IP
						}
					}
				}
			}
			shape += sh
		}
	}
	creds := make([]string, n)
	for i, u := range users {
		creds[i] = fmt.Sprint(u.class)
	}
	r.Case(fmt.Sprintf("E %s %d %s | %s", map[bool]string{true: "1", false: "0"}[mand], n, strings.Join(creds, ","), strings.Join(blocks, " | ")),
		strings.Join(implOut, " "))
	r.Distinct(fmt.Sprintf("%s/m%v/c%d/%s", transport, mand, nclass, shape))
	if strings.Contains(shape, "S") {
		r.Count("E-scenarios-with-shared-credential-same-ip-other-port")
	}
	for _, c := range opened {
		c.Close()
	}
	for _, c := range clients {
		c.mux.Close()
	}
	server.Close()
}

func max(a, b int) int {
	if a > b {
		return a
	}
	return b
}

type dialerFrom struct {
	n  *simnet.Net
	ip string
}

func (d dialerFrom) DialContext(ctx context.Context, network, address string) (net.Conn, error) {
	return d.n.DialFrom(d.ip, address)
}

func main() {
	r := vh.Start("c07e")
	mlog.SetOutput(io.Discard)
	mlog.SetLevel("FATAL")
	r.Rep.Rule = "end-to-end: a real server Mux (UDP, 1 in 5 TCP) and real client Muxes on simnet under virtual time; 2..5 users in 1..n credential classes (users of a class are registered with the same hashedPassword; the first scenarios put everybody in one class), hints optional or mandatory; 4..9 session openings by clients on three source IPs (half of them on one IP, so different ports of one IP are common), further sessions of an existing client multiplexed over its socket, clients with an unregistered password; sessions established in random order. Each accepted session's UserName()/policy is compared with the model (try_state + existing-session shortcut with exact ip:port match) and with the text: it must be the user the client's hint names. Non-trivial class = (transport, mandatory, #classes, shape of the opening sequence: n new socket, S new socket while another user with the same credential has a session from the same IP, m multiplexed, x wrong password)."
	n := 40
	if r.Thorough() {
		n = 1200
	}
	for i := 0; i < n; i++ {
		scenario(r, i)
	}
	r.Finish()
}
