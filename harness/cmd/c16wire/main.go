// c16wire: C16 on the wire, UDP server side, under histories an ordinary client never produces.
//
// A real server Mux (rig.StartServer) runs over simnet under virtual time with an EXPLICIT nonce pattern; the client
// side is played by hand with the independent codec (refcodec) on any number of sockets, so that the server has to
// answer datagrams that do not open a session:
//
//	rebind        open + data from socket A, then data of the same session from socket B (NAT rebinding), back to A
//	unknown       data / ack for a session id the server never saw (answered with closeSessionRequest)
//	forgotten     open, close, then data for the closed session id
//	dup-open      the same openSessionRequest twice (fresh nonces), then once more from another address
//	interleaved   two users on two sockets, sessions interleaved datagram by datagram, then swapping sockets
//	burst         open immediately followed by data before anything is read (session goroutine vs event loop)
//
// Oracle (property text: "nonce prefix type, length range and fixed prefixes and whether they apply to every UDP
// packet ... are exactly what the emitted traffic exhibits"): EVERY datagram the server emits - whatever provoked it,
// open/close replies, acks, data, retransmissions - obeys the configured nonce pattern when applyToAllUDPPacket is
// true; when it is explicitly false the first datagram the server sends to each client address obeys it.
// No Coq model is paired with this driver (oracle only); the model side is C16_udp_pattern_independent_of_block_origin.
package main

import (
	"bytes"
	"encoding/hex"
	"fmt"
	"net"
	"strings"
	"time"

	"github.com/enfein/mieru/v3/pkg/appctl/appctlpb"
	"google.golang.org/protobuf/proto"
	"verifharness/refcodec"
	"verifharness/rig"
	"verifharness/simnet"
	"verifharness/trace"
	"verifharness/vh"
)

const serverAddr = "192.0.2.1:8964"

type peer struct {
	user, pass string
	hp         []byte
	sid        uint32
	mySeq      uint32
	srvNext    uint32
	rx         []byte
}

type world struct {
	r     *vh.Run
	g     *vh.Rng
	rg    *rig.Rig
	dst   net.Addr
	hist  map[string]string // client address -> history label
	socks []*simnet.PacketConn
}

func (w *world) sock(ip, label string) *simnet.PacketConn {
	s, err := w.rg.Net.NewClientSock(ip)
	if err != nil {
		panic(err)
	}
	w.hist[s.LocalAddr().String()] = label
	w.socks = append(w.socks, s)
	return s
}

func newPeer(user, pass string, g *vh.Rng) *peer {
	return &peer{user: user, pass: pass, hp: refcodec.HashedPassword(user, pass), sid: uint32(g.U64()) | 1}
}

// send encodes one segment for the peer's session (or sid override) and sends it from sock.
func (w *world) send(p *peer, s *simnet.PacketConn, m refcodec.Meta, payload []byte) {
	now := time.Now()
	key := refcodec.DeriveKey(p.hp, refcodec.SlotOf(now))
	m.Timestamp = refcodec.TimestampOf(now)
	if m.SessionID == 0 {
		m.SessionID = p.sid
	}
	nonce := w.g.Bytes(24)
	refcodec.SetUserHint(p.user, nonce)
	seg := refcodec.Segment{Meta: m, Payload: payload}
	if m.IsSession() {
		seg.Suffix = w.g.Bytes(w.g.Intn(40))
	}
	s.WriteTo(refcodec.EncodeDatagram(key, nonce, seg), w.dst)
}

// drain reads what arrives at sock for `wait` (virtual) and acknowledges data of the peer's session from the same sock.
func (w *world) drain(p *peer, s *simnet.PacketConn, wait time.Duration) (types []uint8) {
	buf := make([]byte, 2048)
	deadline := time.Now().Add(wait)
	for {
		s.SetReadDeadline(deadline)
		n, _, err := s.ReadFrom(buf)
		if err != nil {
			return
		}
		k3 := refcodec.KeysAt(p.hp, time.Now())
		seg, _, derr := refcodec.DecodeDatagram(k3[:], buf[:n])
		if derr != nil {
			continue
		}
		types = append(types, seg.Meta.Proto)
		if seg.Meta.SessionID != p.sid {
			continue
		}
		if (seg.Meta.Proto == 3 || seg.Meta.IsData()) && seg.Meta.Seq == p.srvNext {
			p.srvNext++
			p.rx = append(p.rx, seg.Payload...)
		}
		if seg.Meta.IsData() {
			w.send(p, s, refcodec.Meta{Proto: 8, Seq: p.mySeq - 1, UnAckSeq: p.srvNext, WindowSize: 4096}, nil)
		}
		if seg.Meta.Proto == 4 {
			w.send(p, s, refcodec.Meta{Proto: 5, Seq: p.mySeq}, nil)
		}
	}
}

func (w *world) open(p *peer, s *simnet.PacketConn, payload []byte) {
	w.send(p, s, refcodec.Meta{Proto: 2, Seq: 0}, payload)
	p.mySeq = 1
}

func (w *world) data(p *peer, s *simnet.PacketConn, payload []byte) {
	w.send(p, s, refcodec.Meta{Proto: 6, Seq: p.mySeq, UnAckSeq: p.srvNext, WindowSize: 4096}, payload)
	p.mySeq++
}

func (w *world) closeReq(p *peer, s *simnet.PacketConn) {
	w.send(p, s, refcodec.Meta{Proto: 4, Seq: p.mySeq}, nil)
	p.mySeq++
}

func isPrintable(b byte) bool { return b >= 0x20 && b <= 0x7e }
func isAlnum(c byte) bool {
	return (c >= '0' && c <= '9') || (c >= 'a' && c <= 'z') || (c >= 'A' && c <= 'Z')
}

// nonceObeys judges the first bytes of a datagram against an explicit nonce pattern ("" = obeys).
func nonceObeys(np *appctlpb.NoncePattern, nonce []byte) string {
	minLen := int(np.GetMinLen())
	switch np.GetType() {
	case appctlpb.NonceType_NONCE_TYPE_PRINTABLE:
		for i := 0; i < minLen && i < len(nonce); i++ {
			if !isPrintable(nonce[i]) {
				return fmt.Sprintf("byte %d (0x%02x) is not printable although minLen=%d", i, nonce[i], minLen)
			}
		}
	case appctlpb.NonceType_NONCE_TYPE_PRINTABLE_SUBSET:
		for i := 0; i < minLen && i < len(nonce); i++ {
			if !isAlnum(nonce[i]) {
				return fmt.Sprintf("byte %d (0x%02x) is outside the printable subset although minLen=%d", i, nonce[i], minLen)
			}
		}
	case appctlpb.NonceType_NONCE_TYPE_FIXED:
		if len(np.GetCustomHexStrings()) == 0 {
			return ""
		}
		for _, h := range np.GetCustomHexStrings() {
			b, _ := hex.DecodeString(h)
			if bytes.HasPrefix(nonce, b) {
				return ""
			}
		}
		return "it starts with none of the configured prefixes"
	}
	return ""
}

func npName(np *appctlpb.NoncePattern) string {
	return fmt.Sprintf("type%d[%d,%d]all=%v,prefixes=%d", np.GetType(), np.GetMinLen(), np.GetMaxLen(), np.GetApplyToAllUDPPacket(), len(np.GetCustomHexStrings()))
}

var scenarioNo int

func runScenario(r *vh.Run, np *appctlpb.NoncePattern, histories []string) {
	scenarioNo++
	g := r.Rng.Fork()
	users := map[string]string{}
	mk := func(tag string) *peer {
		u := fmt.Sprintf("w%d%s", scenarioNo, tag)
		pw := fmt.Sprintf("pw-%d-%s-%d", scenarioNo, tag, g.Intn(1000000))
		users[u] = pw
		return newPeer(u, pw, g)
	}
	pa, pb2, pc, pd, pe, pf, pg := mk("a"), mk("b"), mk("c"), mk("d"), mk("e"), mk("f"), mk("g")
	bursts := []*peer{}
	for i := 0; i < 6; i++ {
		bursts = append(bursts, mk(fmt.Sprintf("x%d", i)))
	}
	sp := &appctlpb.TrafficPattern{Seed: proto.Int32(int32(5 + scenarioNo)), Nonce: np}
	rg, err := rig.StartServer(rig.Opts{Transport: "udp", MTU: 1400, Users: users, ServerPattern: sp})
	if err != nil {
		r.Fail("c16wire-start", err.Error(), nil)
		return
	}
	rg.Net.Latency = 2 * time.Millisecond
	// echo application
	stop := make(chan struct{})
	go func() {
		for {
			select {
			case <-stop:
				return
			case c := <-rg.Accepted:
				go func(c net.Conn) {
					buf := make([]byte, 4096)
					for {
						c.SetReadDeadline(time.Now().Add(60 * time.Second))
						n, err := c.Read(buf)
						if n > 0 {
							c.Write(buf[:n])
						}
						if err != nil {
							c.Close()
							return
						}
					}
				}(c)
			}
		}
	}()
	host, _, _ := net.SplitHostPort(serverAddr)
	w := &world{r: r, g: g, rg: rg, dst: &net.UDPAddr{IP: net.ParseIP(host), Port: 8964}, hist: map[string]string{}}
	notes := map[string]int{}
	has := func(h string) bool {
		for _, x := range histories {
			if x == h {
				return true
			}
		}
		return false
	}
	step := 150 * time.Millisecond

	if has("rebind") {
		a, b := w.sock("10.0.1.1", "rebind:first-address"), w.sock("10.0.1.1", "rebind:new-port")
		c := w.sock("10.0.9.9", "rebind:new-ip")
		w.open(pa, a, g.Bytes(300))
		w.drain(pa, a, step)
		w.data(pa, a, g.Bytes(700))
		w.drain(pa, a, step)
		// same session, new source port.  (The server keeps answering to the address that opened the session, but
		// encrypts with the cipher block it discovered for the datagram from the new address.)
		w.data(pa, b, g.Bytes(900))
		ta := w.drain(pa, a, step)
		tb := w.drain(pa, b, step/3)
		w.data(pa, b, g.Bytes(1200))
		ta = append(ta, w.drain(pa, a, step)...)
		tb = append(tb, w.drain(pa, b, step/3)...)
		notes["rebind-replies-at-first-address-after-rebind"] += len(ta)
		notes["rebind-replies-at-new-port"] += len(tb)
		w.data(pa, c, g.Bytes(500)) // and a new IP
		ta = w.drain(pa, a, step)
		notes["rebind-replies-at-first-address-after-new-ip"] += len(ta)
		notes["rebind-replies-at-new-ip"] += len(w.drain(pa, c, step/3))
		w.data(pa, a, g.Bytes(100)) // back to the first address
		w.drain(pa, a, step)
		w.closeReq(pa, c)
		w.drain(pa, a, step)
		w.drain(pa, c, step/3)
	}
	if has("unknown") {
		s := w.sock("10.0.2.1", "unknown:data")
		pb2.mySeq, pb2.srvNext = 5, 0
		w.data(pb2, s, g.Bytes(200))
		ts := w.drain(pb2, s, step)
		notes["unknown-data-replies"] += len(ts)
		s2 := w.sock("10.0.2.2", "unknown:ack")
		w.send(pb2, s2, refcodec.Meta{Proto: 8, SessionID: pb2.sid + 2, Seq: 3, UnAckSeq: 1, WindowSize: 4096}, nil)
		notes["unknown-ack-replies"] += len(w.drain(pb2, s2, step))
		s3 := w.sock("10.0.2.3", "unknown:close")
		w.send(pb2, s3, refcodec.Meta{Proto: 4, SessionID: pb2.sid + 4, Seq: 1}, nil)
		notes["unknown-close-replies"] += len(w.drain(pb2, s3, step))
	}
	if has("forgotten") {
		s := w.sock("10.0.3.1", "forgotten:same-address")
		w.open(pc, s, g.Bytes(100))
		w.drain(pc, s, step)
		w.closeReq(pc, s)
		w.drain(pc, s, 2*time.Second)
		w.data(pc, s, g.Bytes(300))
		notes["forgotten-replies"] += len(w.drain(pc, s, step))
		s2 := w.sock("10.0.3.2", "forgotten:other-address")
		w.data(pc, s2, g.Bytes(300))
		notes["forgotten-replies-other-address"] += len(w.drain(pc, s2, step))
	}
	if has("dup-open") {
		s := w.sock("10.0.4.1", "dup-open:same-address")
		pl := g.Bytes(400)
		w.open(pd, s, pl)
		w.open(pd, s, pl)
		w.drain(pd, s, step)
		s2 := w.sock("10.0.4.2", "dup-open:other-address")
		w.open(pd, s2, pl)
		notes["dup-open-replies-other-address"] += len(w.drain(pd, s2, step))
		w.data(pd, s2, g.Bytes(50))
		w.drain(pd, s2, step)
		w.drain(pd, s, step)
	}
	if has("interleaved") {
		s1, s2 := w.sock("10.0.5.1", "interleaved:user-e"), w.sock("10.0.5.2", "interleaved:user-f")
		w.open(pe, s1, g.Bytes(10))
		w.open(pf, s2, g.Bytes(1000))
		w.drain(pe, s1, step)
		w.drain(pf, s2, step)
		for i := 0; i < 3; i++ {
			w.data(pe, s1, g.Bytes(800))
			w.data(pf, s2, g.Bytes(40))
			w.drain(pe, s1, step/3)
			w.drain(pf, s2, step/3)
		}
		// the two users swap sockets
		w.data(pe, s2, g.Bytes(333))
		w.data(pf, s1, g.Bytes(444))
		w.drain(pe, s2, step)
		w.drain(pf, s1, step)
		// a second session of user e on the address user f started from
		pe2 := &peer{user: pe.user, pass: pe.pass, hp: pe.hp, sid: pe.sid + 2}
		w.open(pe2, s2, g.Bytes(20))
		w.drain(pe2, s2, step)
		w.closeReq(pe, s2)
		w.closeReq(pf, s1)
		w.drain(pe, s2, step)
		w.drain(pf, s1, step)
	}
	if has("burst") {
		for i, p := range bursts {
			s := w.sock(fmt.Sprintf("10.0.6.%d", i+1), "burst")
			w.open(p, s, g.Bytes(1+i*200))
			w.data(p, s, g.Bytes(600))
			w.data(p, s, g.Bytes(5))
			w.drain(p, s, step)
		}
		_ = pg
	}
	time.Sleep(6 * time.Second) // heartbeats / retransmissions of whatever is still open
	for _, s := range w.socks {
		s.Close()
	}
	close(stop)
	rg.Close()

	// ---------------------------------------------------------------- oracle over the whole trace
	var creds []trace.Cred
	for u, p := range users {
		creds = append(creds, trace.Cred{User: u, Pass: p})
	}
	evs := trace.UDP(rg.Net.Log.Snapshot(), creds)
	all := np.ApplyToAllUDPPacket != nil && np.GetApplyToAllUDPPacket()
	firstOnly := np.ApplyToAllUDPPacket != nil && !np.GetApplyToAllUDPPacket()
	seenDst := map[string]bool{}
	nServer := 0
	byHist := map[string]int{}
	reported := map[string]bool{}
	for _, e := range evs {
		if e.Kind != "send" || e.Src != serverAddr {
			continue
		}
		nServer++
		h := w.hist[e.Dst]
		if h == "" {
			h = "?"
		}
		byHist[h]++
		kind := "undecoded"
		if e.Seg != nil {
			kind = fmt.Sprint(e.Seg.Meta.Proto)
		}
		r.Count("server-datagram/" + strings.SplitN(h, ":", 2)[0])
		r.Distinct(fmt.Sprintf("%s/%s/t%s/first=%v", npName(np), h, kind, !seenDst[e.Dst]))
		first := !seenDst[e.Dst]
		seenDst[e.Dst] = true
		if len(e.Raw) < 24 {
			continue
		}
		if !(all || (firstOnly && first)) {
			continue
		}
		if why := nonceObeys(np, e.Raw[:24]); why != "" && !reported[h] {
			reported[h] = true
			r.Fail("udp-server-datagram-ignores-nonce-pattern",
				fmt.Sprintf("server pattern %s; history %q: server datagram %d (segment type %s, %d bytes, first to this address: %v) has nonce %x: %s", npName(np), h, e.ID, kind, len(e.Raw), first, e.Raw[:24], why),
				map[string]interface{}{"server_nonce_pattern": npName(np), "history": h, "histories_run": histories, "segment_type": kind, "datagram": e.ID, "seed": r.Seed, "scenario": scenarioNo})
		}
	}
	r.Case(fmt.Sprintf("WIRE %s %s server-datagrams=%d", npName(np), strings.Join(histories, "+"), nServer), "OK")
	r.Count("scenario")
	if has("rebind") && notes["rebind-replies-at-first-address-after-rebind"] == 0 {
		r.Fail("c16wire-history-not-exercised", "history rebind: after the datagram from the new port the server sent nothing the client could read", map[string]interface{}{"history": "rebind", "server_nonce_pattern": npName(np)})
	}
	for k, v := range notes {
		if v > 0 {
			r.Count("exercised/" + k)
		} else {
			r.Count("not-exercised/" + k)
		}
	}
	// a history that provoked no server datagram at its characteristic address proves nothing: say so loudly
	for _, need := range []struct{ hist, label string }{{"unknown", "unknown:data"}} {
		if has(need.hist) && byHist[need.label] == 0 {
			r.Fail("c16wire-history-not-exercised", fmt.Sprintf("history %s: the server sent nothing to %s; the oracle saw no datagram of the kind it is meant to judge", need.hist, need.label),
				map[string]interface{}{"history": need.hist, "server_nonce_pattern": npName(np)})
		}
	}
}

func main() {
	r := vh.Start("c16wire")
	defer r.Finish()
	r.Rep.Rule = "real UDP server Mux over simnet (virtual time) with an explicit nonce pattern; the client is played with refcodec on many sockets: NAT rebinding mid-session (new port, new IP, back), data/ack/close for unknown session ids, data after close, duplicate open requests from one and two addresses, two users interleaved and swapping sockets, open+data bursts. EVERY datagram the server emits is judged (all when applyToAllUDPPacket=true, the first per client address when explicitly false). distinct_nontrivial = distinct (pattern, history and address role, segment type, first-to-address) tuples of server datagrams"
	b := func(v bool) *bool { return &v }
	i32 := func(v int32) *int32 { return &v }
	pats := []*appctlpb.NoncePattern{
		{Type: appctlpb.NonceType_NONCE_TYPE_PRINTABLE.Enum(), MinLen: i32(12), MaxLen: i32(12), ApplyToAllUDPPacket: b(true)},
		{Type: appctlpb.NonceType_NONCE_TYPE_FIXED.Enum(), CustomHexStrings: []string{"000102030405060708090a0b"}, MinLen: i32(0), MaxLen: i32(0), ApplyToAllUDPPacket: b(true)},
		{Type: appctlpb.NonceType_NONCE_TYPE_PRINTABLE_SUBSET.Enum(), MinLen: i32(8), MaxLen: i32(12), ApplyToAllUDPPacket: b(true)},
		{Type: appctlpb.NonceType_NONCE_TYPE_PRINTABLE.Enum(), MinLen: i32(12), MaxLen: i32(12), ApplyToAllUDPPacket: b(false)},
		{Type: appctlpb.NonceType_NONCE_TYPE_FIXED.Enum(), CustomHexStrings: []string{"aabbccdd", "48545450202f20485454502f", "0102030405"}, MinLen: i32(0), MaxLen: i32(0), ApplyToAllUDPPacket: b(true)},
	}
	allH := []string{"rebind", "unknown", "forgotten", "dup-open", "interleaved", "burst"}
	for pi, np := range pats {
		if !r.Thorough() && pi >= 4 {
			break
		}
		runScenario(r, np, allH)
	}
	if r.Thorough() {
		// every history alone and in smaller combinations (process-wide caches: source-address user cache, replay cache)
		for _, h := range allH {
			runScenario(r, pats[0], []string{h})
			runScenario(r, pats[3], []string{h})
		}
		for k := 0; k < 6; k++ {
			runScenario(r, pats[k%len(pats)], []string{allH[(k+3)%6], allH[(k+1)%6], allH[k%6]})
		}
	}
}
