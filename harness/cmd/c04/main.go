// Driver for C04 (tampering with bytes on the wire never changes what the application reads).
//
// For every traffic PATTERN (transport, padding, low entropy mode, sessions) a real server Mux and real client
// Muxes (harness/rig) run scripted multi-segment transfers over the simulated network (harness/simnet) under Go's
// faketime runtime.  A man in the middle (PipePolicy.Transform on TCP, Net.Fate on UDP) decodes the passing
// traffic with the independent reference codec (only to LOCATE the fields) and applies ONE mutation:
//
//	field class  nonce | meta (encrypted metadata) | metatag | pad1 | body (payload ciphertext / low entropy body) |
//	             tag | pad2 | boundary (last byte / end of the segment)
//	kind         flip | subst | insert | delete | trunc | swap | splice-sess | splice-conn | splice-user
//	             + the two model witnesses: skiphead (TCP: leading segment removed, nonce header rewritten)
//	               and metabox (UDP: payload box replaced by the datagram's own metadata box)
//
// ORACLE (property text, independent of the model): TCP - what each application read is a prefix of what its peer
// wrote (never a differing byte); UDP - every session completes with exactly the bytes written; no panic.
//
// CORRESPONDENCE (cases.txt / impl.txt, compared with the extracted Coq receivers):
//
//	E tag now nbox {nonce:ct:pt}* stream nsid {sid}*   a mutated direction of an end-to-end TCP run, with the table of
//	     the genuine boxes of that direction; impl = what the receiving applications read: {sid:len:md5}*
//	T tag now nbox {nonce:ct:pt}* stream                a mutated recorded TCP direction replayed into the real
//	     StreamUnderlay.readOneSegment loop (hook); impl = nseg {proto:sid:seq:plen:md5}* fail=<0|1>
//	U tag now nbox {nonce:ct:pt}* datagram              a mutated datagram (of an end-to-end UDP run or of a sweep) given
//	     to the real PacketUnderlay.readOneSegment (hook); impl = DROP | OK proto:sid:seq:plen:md5
//
// tag = transport/pattern/dir/class/kind/pos/lenchange (informative; the model only uses the table and the bytes).
package main

import (
	"bytes"
	"crypto/md5"
	"encoding/binary"
	"encoding/hex"
	"fmt"
	"io"
	"net"
	"os"
	"path/filepath"
	"strings"
	"sync"
	"time"

	pb "github.com/enfein/mieru/v3/pkg/appctl/appctlpb"
	"github.com/enfein/mieru/v3/pkg/cipher"
	"github.com/enfein/mieru/v3/pkg/protocol"
	"google.golang.org/protobuf/proto"
	rc "verifharness/refcodec"
	"verifharness/rig"
	"verifharness/simnet"
	"verifharness/trace"
	"verifharness/vh"
)

const (
	userA, passA = "alice", "alice-password"
	userB, passB = "bob", "bob-password"
)

var (
	classes = []string{"nonce", "meta", "metatag", "pad1", "body", "tag", "pad2", "boundary"}
	kinds   = []string{"flip", "subst", "insert", "delete", "trunc", "swap", "splice-sess", "splice-conn", "splice-user"}
	R       *vh.Run
	lg      *os.File
)

// ---------------------------------------------------------------- patterns

type script struct{ c2s, s2c [][]byte }

type pat struct {
	name      string
	transport string
	mode      int // low entropy mode
	mid, end  int // padding maxima
	mtu       int
	multiplex int
	sizes     [][2][]int // per session: write sizes c2s, s2c
}

func mkTP(p *pat, seed int32) *pb.TrafficPattern {
	t := &pb.TrafficPattern{Seed: proto.Int32(seed)}
	t.Padding = &pb.PaddingPattern{MaxMiddlePaddingLen: proto.Int32(int32(p.mid)), MaxEndPaddingLen: proto.Int32(int32(p.end))}
	t.LowEntropy = &pb.LowEntropyPattern{Mode: pb.LowEntropyMode(p.mode).Enum(), MaskRotation: pb.LowEntropyMaskRotation(seed % 8).Enum()}
	if p.mode == 0 {
		t.LowEntropy.MaskRotation = pb.LowEntropyMaskRotation(0).Enum()
	}
	t.TcpFragment = &pb.TCPFragment{Enable: proto.Bool(false)}
	return t
}

func content(caseID uint32, sess int, dir int, n int) []byte {
	b := make([]byte, n)
	for j := range b {
		b[j] = byte(j*7 + (j>>8)*13 + sess*31 + dir*101 + int(caseID)*3)
	}
	return b
}

// ---------------------------------------------------------------- one end-to-end case

type mutation struct {
	dir   int // 0 = client->server, 1 = server->client
	from  int // first segment / datagram index considered
	class string
	kind  string
	pos   int // 0 first byte of the field, 1 middle, 2 last
}

type sideRes struct {
	read []byte
	err  string
	done bool
}

type caseRun struct {
	id      uint32
	p       *pat
	mut     *mutation
	scripts []script
	mu      sync.Mutex
	cli     []*sideRes
	srv     []*sideRes
	sids    []uint32
	// man in the middle
	fired         bool
	lenChange     bool
	genuine       bool // the bytes delivered are all genuine boxes at their positions (swap / padding only)
	*connState         // the first TCP connection of the case (the one that is mutated) / the UDP flow
	nconn         int
	sidIdx        map[uint32]int       // session id -> script index (from the case header in the first payload)
	dgBySeq       [2]map[string][]byte // UDP: data datagrams by direction and "sid/seq" (for reflection)
	dgBoxes       [2]map[string][]box
	gap           bool // the close-with-data-in-flight family
	gapDir        int
	gapSeq        uint32
	gapEvents     []string // what reached the receiving session, in order: A:seq:payload | C
	gapHits       int
	reflectSid    uint32 // UDP reflect: the session whose own datagram was fed back
	closeSeen     bool   // a close request of that session has been seen after the reflection
	reflectClosed bool   // ... and the first one came from the side that received the reflected datagram
	// duplicate family (UDP): a second copy of the first datagram of one segment kind
	dupHeld   []byte
	dupWait   int
	dupSid    uint32
	dupEvents map[uint32][]string // per session id: what reached the receiving session in direction mut.dir, in order
	// cross-connection family: sessions 0.. run one after the other, each on its own client mux
	muxes    []*protocol.Mux
	cross    bool
	crossA   *connState     // TCP: the connection of session 0 (recorded, not mutated)
	hdrSid   map[int]uint32 // script index -> session id seen on the wire (from the case header in the first payload)
	crossDg  [][]byte       // UDP: the downstream datagrams of the first client flow
	crossBox []box
	flows    []string // UDP: client addresses in order of appearance
	ucases   []string
	uimpls   []string
	now      int64
	panicked string
}

type connState struct {
	orig       [2][]byte
	sent       [2][]byte // what the receiver got
	boxes      [2][]box
	dec        [2]*rc.StreamDecoder
	nextNonce  [2][]byte
	held       []byte
	cut        bool
	nseg       [2]int
	skipped    int
	victim     bool
	rawSegs    [2][][]byte // the bytes of each aligned segment, per direction
	nonceAfter [2][][]byte // the sender's next nonce after each of them
}

type box struct{ nonce, ct, pt, key []byte } // key: the AEAD key that sealed it

type donor struct {
	// raw field bytes of a data segment of another connection / user, by class
	f   map[string][]byte
	seg []byte
}

type env struct {
	p           *pat
	rg          *rig.Rig
	mu          sync.Mutex
	cases       map[uint32]*caseRun
	donors      map[string]*donor // "conn", "user"
	nextID      uint32
	keysA       [][]byte
	srvAddr     string
	donorMinute int64
	donorKey    []byte
}

func keysOf(user, pass string, t time.Time) [][]byte {
	k := rc.KeysAt(rc.HashedPassword(user, pass), t)
	return [][]byte{k[0], k[1], k[2]}
}

func readN(c net.Conn, n int, res *sideRes, dl time.Duration) bool {
	buf := make([]byte, 4096)
	for n > 0 {
		c.SetReadDeadline(time.Now().Add(dl))
		k := len(buf)
		if k > n {
			k = n
		}
		m, err := c.Read(buf[:k])
		res.read = append(res.read, buf[:m]...)
		n -= m
		if err != nil {
			res.err = errClass(err)
			return false
		}
	}
	return true
}

func errClass(err error) string {
	if err == nil {
		return "nil"
	}
	if err == io.EOF {
		return "EOF"
	}
	s := err.Error()
	switch {
	case strings.Contains(s, "timeout") || strings.Contains(s, "deadline"):
		return "timeout"
	case strings.Contains(s, "unexpected EOF"):
		return "unexpectedEOF"
	case strings.Contains(s, "closed"):
		return "closed"
	}
	return "error"
}

func total(w [][]byte) int {
	n := 0
	for _, x := range w {
		n += len(x)
	}
	return n
}

func cat(w [][]byte) []byte { return bytes.Join(w, nil) }

func startEnv(p *pat, seed int32) (*env, error) {
	nw := simnet.New()
	o := rig.Opts{Transport: p.transport, MTU: p.mtu, Users: map[string]string{userA: passA, userB: passB}, ClientUser: userA, ClientPass: passA,
		ServerPattern: mkTP(p, seed), ClientPattern: mkTP(p, seed+1), Multiplex: p.multiplex, Net: nw}
	rg, err := rig.StartServer(o)
	if err != nil {
		return nil, err
	}
	e := &env{p: p, rg: rg, cases: map[uint32]*caseRun{}, donors: map[string]*donor{}, nextID: 1, srvAddr: "192.0.2.1:8964"}
	go func() {
		for c := range rg.Accepted {
			go e.serve(c)
		}
	}()
	return e, nil
}

const hdrLen = 5

// server side application: header (case id, session index), then the script
func (e *env) serve(c net.Conn) {
	defer c.Close()
	first := &sideRes{}
	if !readN(c, hdrLen, first, 300*time.Second) {
		return
	}
	id := binary.BigEndian.Uint32(first.read[:4])
	idx := int(first.read[4])
	e.mu.Lock()
	cr := e.cases[id]
	e.mu.Unlock()
	if cr == nil || idx >= len(cr.scripts) {
		R.Fail("server-read-unknown-header", fmt.Sprintf("a server side session of pattern %s read a header no client wrote: %x", e.p.name, first.read), map[string]interface{}{"pattern": e.p.name, "header": hex.EncodeToString(first.read)})
		return
	}
	res := cr.srv[idx]
	cr.mu.Lock()
	res.read = append(res.read, first.read...)
	cr.mu.Unlock()
	sc := cr.scripts[idx]
	tmp := &sideRes{}
	ok := readN(c, total(sc.c2s)-hdrLen, tmp, 300*time.Second)
	cr.mu.Lock()
	res.read = append(res.read, tmp.read...)
	res.err = tmp.err
	cr.mu.Unlock()
	if !ok {
		return
	}
	for _, w := range sc.s2c {
		if _, err := c.Write(w); err != nil {
			cr.mu.Lock()
			res.err = "write:" + errClass(err)
			cr.mu.Unlock()
			return
		}
	}
	if cr.gap {
		return // close at once, with the data in flight
	}
	// final acknowledgement of the client, then close (nothing of this side is in flight any more)
	k := &sideRes{}
	okK := readN(c, 1, k, 300*time.Second)
	cr.mu.Lock()
	res.read = append(res.read, k.read...)
	res.done = okK
	cr.mu.Unlock()
}

func (e *env) newCase(mut *mutation) *caseRun { return e.newCaseSz(mut, e.p.sizes) }

func (e *env) newCaseSz(mut *mutation, sizes [][2][]int) *caseRun {
	e.mu.Lock()
	id := e.nextID
	e.nextID++
	cr := &caseRun{id: id, p: e.p, mut: mut, connState: &connState{victim: true}, sidIdx: map[uint32]int{},
		dgBySeq: [2]map[string][]byte{{}, {}}, dgBoxes: [2]map[string][]box{{}, {}},
		dupEvents: map[uint32][]string{}, hdrSid: map[int]uint32{}}
	for i, sz := range sizes {
		var sc script
		off := 0
		all := content(id, i, 0, sum(sz[0]))
		binary.BigEndian.PutUint32(all[:4], id)
		all[4] = byte(i)
		for _, n := range sz[0] {
			sc.c2s = append(sc.c2s, all[off:off+n])
			off += n
		}
		off = 0
		all = content(id, i, 1, sum(sz[1]))
		for _, n := range sz[1] {
			sc.s2c = append(sc.s2c, all[off:off+n])
			off += n
		}
		cr.scripts = append(cr.scripts, sc)
		cr.cli = append(cr.cli, &sideRes{})
		cr.srv = append(cr.srv, &sideRes{})
		cr.sids = append(cr.sids, 0)
	}
	e.cases[id] = cr
	e.mu.Unlock()
	return cr
}

func sum(a []int) int {
	n := 0
	for _, x := range a {
		n += x
	}
	return n
}

// runClient runs the client side of all sessions of cr on mux m; returns when every session ended.
func (e *env) runClient(cr *caseRun, m0 *protocol.Mux, hook func()) {
	var wg sync.WaitGroup
	for i := range cr.scripts {
		wg.Add(1)
		m := m0
		if cr.muxes != nil {
			m = cr.muxes[i]
		}
		one := make(chan struct{})
		go func(i int) {
			defer wg.Done()
			defer close(one)
			defer func() {
				if r := recover(); r != nil {
					cr.mu.Lock()
					cr.panicked = fmt.Sprint(r)
					cr.mu.Unlock()
				}
			}()
			res := cr.cli[i]
			c, err := m.DialContext(ctxT(20 * time.Second))
			if err != nil {
				res.err = "dial:" + errClass(err)
				return
			}
			defer c.Close()
			if s, ok := c.(*protocol.Session); ok {
				_ = s
			}
			sc := cr.scripts[i]
			for _, w := range sc.c2s {
				if _, err := c.Write(w); err != nil {
					res.err = "write:" + errClass(err)
					return
				}
			}
			if cr.gap && cr.gapDir == 0 {
				return // close at once, with the data in flight
			}
			tmp := &sideRes{}
			ok := readN(c, total(sc.s2c), tmp, 300*time.Second)
			cr.mu.Lock()
			res.read, res.err = tmp.read, tmp.err
			cr.mu.Unlock()
			if !ok {
				return
			}
			if hook != nil && i == 0 {
				hook()
			}
			if _, err := c.Write([]byte{'K'}); err != nil {
				res.err = "write:" + errClass(err)
				return
			}
			// wait for the server side to close
			fin := &sideRes{}
			readN(c, 1, fin, 60*time.Second)
			cr.mu.Lock()
			res.done = true
			cr.mu.Unlock()
		}(i)
		if cr.cross {
			<-one // one connection after the other
			continue
		}
		// sessions start in order so that segment indexes are comparable between runs
		time.Sleep(2 * time.Millisecond)
	}
	wg.Wait()
}

func (e *env) runCase(mut *mutation, hook func(cr *caseRun)) *caseRun {
	return e.runCaseOn(e.newCase(mut), hook)
}

// runGap: one session; the sender of direction dir writes 6000 bytes in one Write and closes at once; the data
// datagram with sequence number seq and all its retransmissions are damaged, everything else gets through.
func (e *env) runGap(dir int, seq uint32) *caseRun {
	sizes := [][2][]int{{{6000}, {}}}
	if dir == 1 {
		sizes = [][2][]int{{{hdrLen}, {6000}}}
	}
	cr := e.newCaseSz(&mutation{dir: dir, from: int(seq), class: "body", kind: "gap-close"}, sizes)
	cr.gap, cr.gapDir, cr.gapSeq = true, dir, seq
	return e.runCaseOn(cr, nil)
}

func (e *env) runCaseOn(cr *caseRun, hook func(cr *caseRun)) *caseRun {
	mut := cr.mut
	_ = mut
	nw := e.rg.Net
	nw.Log.Off = true
	cr.now = time.Now().Unix() / 60
	if e.p.transport == "tcp" {
		nw.TCPPolicy = func(connID int, ca, sa string) (*simnet.PipePolicy, *simnet.PipePolicy) {
			cr.mu.Lock()
			cs := cr.connState
			if cr.nconn > 0 {
				cs = &connState{}
			}
			if cr.cross && cr.mut.kind != "session-ids" {
				// connection 0 is recorded, connection 1 is the victim
				switch cr.nconn {
				case 0:
					cs = cr.crossA
				case 1:
					cs = cr.connState
				}
			}
			cr.nconn++
			cr.mu.Unlock()
			return &simnet.PipePolicy{Transform: func(off int64, d []byte) []byte { return e.tcpMitm(cr, cs, 0, d) }},
				&simnet.PipePolicy{Transform: func(off int64, d []byte) []byte { return e.tcpMitm(cr, cs, 1, d) }}
		}
	} else {
		cnt := [2]int{}
		nw.Fate = func(d *simnet.Datagram) []simnet.Delivery {
			dir := 1
			if d.Dst == e.srvAddr {
				dir = 0
			}
			cr.mu.Lock()
			defer cr.mu.Unlock()
			k := cnt[dir]
			cnt[dir]++
			if cr.cross {
				cl := d.Src
				if dir == 1 {
					cl = d.Dst
				}
				return e.udpCross(cr, dir, cl, d.Data)
			}
			return e.udpMitm(cr, dir, k, d.Data)
		}
	}
	var m *protocol.Mux
	if cr.muxes == nil {
		var err error
		m, err = e.rg.NewClient(userA, passA, mkTP(e.p, int32(cr.id)+7), "")
		if err != nil {
			R.Fail("rig-start", err.Error(), e.p.name)
			return cr
		}
	}
	var h func()
	if hook != nil {
		h = func() { hook(cr) }
	}
	e.runClient(cr, m, h)
	if m != nil {
		closeMux(m)
	}
	closed := map[*protocol.Mux]bool{}
	for _, x := range cr.muxes {
		if !closed[x] {
			closed[x] = true
			closeMux(x)
		}
	}
	nw.TCPPolicy, nw.Fate = nil, nil
	e.mu.Lock()
	delete(e.cases, cr.id)
	e.mu.Unlock()
	return cr
}

func closeMux(m *protocol.Mux) {
	done := make(chan struct{})
	go func() { m.Close(); close(done) }()
	select {
	case <-done:
	case <-time.After(400 * time.Second):
		R.Count("client-mux-close-hung")
	}
}

// ---------------------------------------------------------------- field location

type layout struct {
	off map[string][2]int // class -> [start, end) within the segment / datagram bytes
}

func layoutOf(seg *rc.Segment, n int, hasNonce bool) layout {
	l := layout{off: map[string][2]int{}}
	h := 0
	if hasNonce {
		l.off["nonce"] = [2]int{0, 24}
		h = 24
	}
	l.off["meta"] = [2]int{h, h + 32}
	l.off["metatag"] = [2]int{h + 32, h + 48}
	o := h + 48
	if len(seg.Prefix) > 0 {
		l.off["pad1"] = [2]int{o, o + len(seg.Prefix)}
	}
	o += len(seg.Prefix)
	if seg.Meta.PayloadLen > 0 {
		l.off["body"] = [2]int{o, o + int(seg.Meta.PayloadLen)}
		l.off["tag"] = [2]int{o + int(seg.Meta.PayloadLen), o + int(seg.Meta.PayloadLen) + 16}
		o += int(seg.Meta.PayloadLen) + 16
	}
	if len(seg.Suffix) > 0 {
		l.off["pad2"] = [2]int{o, o + len(seg.Suffix)}
	}
	l.off["boundary"] = [2]int{n - 1, n}
	return l
}

func pick(r [2]int, pos int) int {
	switch pos {
	case 0:
		return r[0]
	case 1:
		return (r[0] + r[1]) / 2
	}
	return r[1] - 1
}

// boxesOf returns the genuine boxes of a decoded segment found in data (nonce of the metadata box given).
func boxesOf(seg *rc.Segment, data []byte, l layout, nMeta, nPay []byte) []box {
	m := l.off["meta"]
	out := []box{{nonce: nMeta, ct: append([]byte(nil), data[m[0]:m[0]+48]...), pt: seg.MetaBytes}}
	// the key that sealed this segment (one of the three slots around now)
	var key []byte
	for _, k := range keysOf(userA, passA, time.Now()) {
		if _, err := rc.Open(k, nMeta, out[0].ct); err == nil {
			key = k
			break
		}
	}
	out[0].key = key
	if b, ok := l.off["body"]; ok {
		ct := append([]byte(nil), data[b[0]:b[1]+16]...)
		if seg.Meta.IsLowEntropy() {
			dec, err := rc.LEDecode(data[b[0]:b[1]], seg.Meta.LEMode, seg.Meta.LEMask, seg.Meta.LERot, int(seg.Meta.ExtractedLen))
			if err == nil {
				ct = append(dec, data[b[1]:b[1]+16]...)
			}
		}
		out = append(out, box{nonce: nPay, ct: ct, pt: seg.Payload, key: key})
	}
	return out
}

// applyAt mutates data at the field; returns the new bytes, whether the length changed, and whether "cut" (truncate).
func applyAt(data []byte, l layout, mut *mutation, don *donor, rng *vh.Rng) (out []byte, lenChange bool, cut bool, ok bool) {
	r, has := l.off[mut.class]
	if !has {
		return data, false, false, false
	}
	o := pick(r, mut.pos)
	d := append([]byte(nil), data...)
	switch mut.kind {
	case "flip":
		d[o] ^= 1 << uint(rng.Intn(8))
		return d, false, false, true
	case "subst":
		d[o] += byte(1 + rng.Intn(255))
		return d, false, false, true
	case "insert":
		if mut.class == "boundary" {
			o = len(d)
		}
		d = append(d[:o], append([]byte{byte(rng.Intn(256))}, d[o:]...)...)
		return d, true, false, true
	case "delete":
		d = append(d[:o], d[o+1:]...)
		return d, true, false, true
	case "trunc":
		if mut.class == "boundary" {
			o = len(d)
		}
		return d[:o], true, true, true
	case "splice-sess", "splice-conn", "splice-user":
		if don == nil {
			return data, false, false, false
		}
		if mut.class == "boundary" {
			// a whole foreign segment inserted after this one
			return append(d, don.seg...), true, false, true
		}
		src := don.f[mut.class]
		if len(src) == 0 {
			src = don.f["meta"]
		}
		for i := r[0]; i < r[1]; i++ {
			d[i] = src[(i-r[0])%len(src)]
		}
		if bytes.Equal(d, data) {
			d[o] ^= 0x55
		}
		return d, false, false, true
	}
	return data, false, false, false
}

// ---------------------------------------------------------------- TCP man in the middle

func (e *env) tcpMitm(cr *caseRun, cs *connState, dir int, data []byte) []byte {
	cr.mu.Lock()
	defer cr.mu.Unlock()
	cs.orig[dir] = append(cs.orig[dir], data...)
	out := e.tcpMitm1(cr, cs, dir, data)
	cs.sent[dir] = append(cs.sent[dir], out...)
	return out
}

func (e *env) tcpMitm1(cr *caseRun, cs *connState, dir int, data []byte) []byte {
	if cs.dec[dir] == nil {
		cs.dec[dir] = rc.NewStreamDecoder(keysOf(userA, passA, time.Now()))
	}
	segs, err := cs.dec[dir].Feed(data)
	aligned := err == nil && len(segs) == 1 && cs.dec[dir].Buffered() == 0
	idx := cs.nseg[dir]
	cs.nseg[dir] += len(segs)
	var l layout
	if aligned {
		seg := &segs[0]
		if seg.Nonce != nil {
			cs.nextNonce[dir] = seg.Nonce
		}
		l = layoutOf(seg, len(data), seg.Nonce != nil)
		nm := cs.nextNonce[dir]
		np := rc.NonceInc(nm)
		bs := boxesOf(seg, data, l, nm, np)
		cs.boxes[dir] = append(cs.boxes[dir], bs...)
		for range bs {
			cs.nextNonce[dir] = rc.NonceInc(cs.nextNonce[dir])
		}
		cs.rawSegs[dir] = append(cs.rawSegs[dir], append([]byte(nil), data...))
		cs.nonceAfter[dir] = append(cs.nonceAfter[dir], append([]byte(nil), cs.nextNonce[dir]...))
		if dir == 0 && len(seg.Payload) >= hdrLen && binary.BigEndian.Uint32(seg.Payload[:4]) == cr.id && int(seg.Payload[4]) < len(cr.sids) {
			i := int(seg.Payload[4])
			if _, have := cr.hdrSid[i]; !have {
				cr.hdrSid[i] = seg.Meta.SessionID
			}
			if _, seen := cr.sidIdx[seg.Meta.SessionID]; !seen {
				cr.sidIdx[seg.Meta.SessionID] = i
			}
			if cs.victim && cr.sids[i] == 0 {
				cr.sids[i] = seg.Meta.SessionID
			}
		}
	} else {
		R.Count("tcp-write-not-one-segment")
	}
	mut := cr.mut
	if !cs.victim {
		return data
	}
	if cs.cut {
		return nil
	}
	if cs.held != nil && mut != nil && dir == mut.dir {
		h := cs.held
		cs.held = nil
		return append(append([]byte(nil), data...), h...)
	}
	if mut != nil && strings.HasPrefix(mut.kind, "cross-") && cr.cross {
		// the downstream bytes of connection A (whole, or from a segment boundary behind a rewritten nonce header) in
		// place of this connection's downstream bytes
		if dir != 1 || cr.fired {
			return data
		}
		a := cr.crossA
		var out []byte
		if mut.pos == 0 {
			out = append(out, a.orig[1]...)
		} else if len(a.rawSegs[1]) > mut.pos {
			out = append(out, a.nonceAfter[1][mut.pos-1]...)
			for _, x := range a.rawSegs[1][mut.pos:] {
				out = append(out, x...)
			}
		} else {
			return data
		}
		cr.fired, cr.lenChange, cs.cut = true, true, true
		return out
	}
	if mut == nil || dir != mut.dir || cr.fired || !aligned || idx < mut.from {
		return data
	}
	_ = idx
	switch mut.kind {
	case "reflect":
		// the receiver's OWN direction is fed back to it: the bytes of this direction are withheld; when its second
		// write comes (the opposite direction has been written completely by then) the receiver gets the opposite
		// direction's nonce advanced over the segments 0..pos followed by that direction's segment pos+1
		o := 1 - dir
		if idx == 0 {
			return nil
		}
		if len(cs.rawSegs[o]) < mut.pos+2 {
			return data
		}
		cr.fired, cr.lenChange, cs.cut = true, true, true
		seg0 := cs.rawSegs[o][mut.pos+1]
		return append(append([]byte(nil), cs.nonceAfter[o][mut.pos]...), seg0...)
	case "skiphead":
		// remove the leading segments 0..from, put the nonce header n0 + (number of boxes removed) in front of the rest
		cs.skipped++
		if cs.skipped <= mut.pos {
			return nil
		}
		cr.fired, cr.lenChange = true, true
		return append([]byte(nil), cs.nextNonce[dir]...) // = n0 + boxes of the segments seen so far
	case "swap":
		if _, has := l.off[mut.class]; !has {
			return data
		}
		cr.fired = true
		cs.held = append([]byte(nil), data...)
		return nil
	}
	var don *donor
	switch mut.kind {
	case "splice-conn":
		don = e.donors["conn"]
	case "splice-user":
		don = e.donors["user"]
	case "splice-sess":
		don = e.donors[fmt.Sprintf("sess%d", dir)]
	}
	out, lc, cut, ok := applyAt(data, l, mut, don, R.Rng)
	if !ok {
		return data
	}
	cr.fired, cr.lenChange, cs.cut = true, lc, cut
	return out
}

// ---------------------------------------------------------------- UDP man in the middle

func segLine(meta []byte, payload []byte) string {
	m, err := rc.ParseMeta(meta)
	if err != nil {
		return "OK ?"
	}
	return fmt.Sprintf("OK %d:%d:%d:%d:%x", m.Proto, m.SessionID, m.Seq, m.PayloadLen, md5.Sum(payload))
}

// hookState is the receiver's state at the instant a hook receiver is created: its clock (minutes; virtual time does
// not advance while the calling goroutine runs) and the key of the cipher it is given (BlockCipherFromPassword takes
// the slot of "now" from a jittered cache: the key is identified by sealing a probe with it, not recomputed).
type hookState struct {
	now int64
	key []byte
}

func hookNow() hookState {
	h := hookState{now: time.Now().Unix() / 60}
	blk, err := cipher.BlockCipherFromPassword(cipher.HashPassword([]byte(passA), []byte(userA)), true)
	if err != nil {
		panic(err)
	}
	probe := []byte("c04-key-probe")
	buf := make([]byte, 24+len(probe)+16)
	if err := blk.Encrypt(buf[:0], probe); err != nil {
		panic(err)
	}
	for _, k := range keysOf(userA, passA, time.Now()) {
		if _, err := rc.Open(k, buf[:24], buf[24:]); err == nil {
			h.key = k
		}
	}
	if h.key == nil {
		R.Count("hook-key-not-in-three-slots")
	}
	return h
}

// tableFor keeps the boxes that the receiver's key sealed (key == nil: all boxes; end-to-end runs, where the real
// receiver tries every slot).
func tableFor(bs []box, key []byte, filter bool) []box {
	if !filter {
		return bs
	}
	var out []box
	for _, b := range bs {
		if key != nil && bytes.Equal(b.key, key) {
			out = append(out, b)
		}
	}
	return out
}

func tableStr(bs []box) string {
	var sb strings.Builder
	fmt.Fprintf(&sb, "%d", len(bs))
	for _, b := range bs {
		fmt.Fprintf(&sb, " %s:%s:%s", hx(b.nonce), hx(b.ct), hx(b.pt))
	}
	return sb.String()
}

func hx(b []byte) string {
	if len(b) == 0 {
		return "-"
	}
	return hex.EncodeToString(b)
}

func udpCase(tag string, bs []box, d []byte) (string, string) {
	h := hookNow()
	now := h.now
	bs = tableFor(bs, h.key, true)
	blk, err := cipher.BlockCipherFromPassword(cipher.HashPassword([]byte(passA), []byte(userA)), true)
	if err != nil {
		panic(err)
	}
	s, ok := protocol.VerifC04ParseDatagram(blk, d)
	impl := "DROP"
	if ok {
		impl = segLine(s.Meta, s.Payload)
	}
	return fmt.Sprintf("U %s %d %s %s", tag, now, tableStr(bs), hx(d)), impl
}

func (e *env) udpMitm(cr *caseRun, dir, k int, data []byte) []simnet.Delivery {
	mut := cr.mut
	seg, _, err := rc.DecodeDatagram(keysOf(userA, passA, time.Now()), data)
	if err != nil {
		return []simnet.Delivery{{}}
	}
	if seg.Meta.Proto == rc.OpenSessionRequest {
		for i := range cr.sids {
			if cr.sids[i] == seg.Meta.SessionID {
				break
			}
			if cr.sids[i] == 0 {
				cr.sids[i] = seg.Meta.SessionID
				break
			}
		}
	}
	l := layoutOf(&seg, len(data), true)
	skey := fmt.Sprintf("%d/%d", seg.Meta.SessionID, seg.Meta.Seq)
	if seg.Meta.IsData() && len(seg.Payload) > 0 && !cr.gap {
		if _, seen := cr.dgBySeq[dir][skey]; !seen {
			cr.dgBySeq[dir][skey] = append([]byte(nil), data...)
			cr.dgBoxes[dir][skey] = boxesOf(&seg, data, l, seg.Nonce, seg.Nonce)
		}
	}
	if cr.gap {
		if dir != cr.gapDir {
			return []simnet.Delivery{{}}
		}
		if seg.Meta.IsData() && seg.Meta.Seq == cr.gapSeq {
			// this datagram and every retransmission of it: one ciphertext bit flipped (discarded as if lost)
			x := append([]byte(nil), data...)
			x[l.off["body"][0]] ^= 0x10
			cr.gapHits++
			cr.fired = true
			return []simnet.Delivery{{Data: x}}
		}
		switch {
		case seg.Meta.Proto == rc.CloseSessionRequest || seg.Meta.Proto == rc.CloseSessionResponse:
			cr.gapEvents = append(cr.gapEvents, "C")
		case seg.Meta.IsData() || seg.Meta.Proto == rc.OpenSessionRequest || seg.Meta.Proto == rc.OpenSessionResponse:
			cr.gapEvents = append(cr.gapEvents, fmt.Sprintf("A:%d:%s", seg.Meta.Seq, hx(seg.Payload)))
		}
		return []simnet.Delivery{{}}
	}
	if mut != nil && mut.kind == "dup" {
		return e.udpDup(cr, dir, k, data, &seg, l)
	}
	if mut != nil && mut.kind == "reflect" && cr.fired && !cr.closeSeen && seg.Meta.SessionID == cr.reflectSid &&
		(seg.Meta.Proto == rc.CloseSessionRequest || seg.Meta.Proto == rc.CloseSessionResponse) {
		// who ends the session after the reflection: the receiver of the reflected datagram sends in direction 1-mut.dir
		cr.closeSeen = true
		cr.reflectClosed = seg.Meta.Proto == rc.CloseSessionRequest && dir == 1-mut.dir
	}
	if k < 40 && len(cr.boxes[dir]) < 60 {
		// keep the first datagrams for the sweeps
		cr.boxes[dir] = append(cr.boxes[dir], box{nonce: []byte{byte(len(cr.orig[dir]))}})
		cr.orig[dir] = append(cr.orig[dir], byte(0))
		udpKeep(cr, dir, data)
	}
	if mut == nil || dir != mut.dir || cr.fired || k < mut.from {
		return []simnet.Delivery{{}}
	}
	if _, has := l.off[mut.class]; !has && mut.kind != "metabox" {
		return []simnet.Delivery{{}}
	}
	bs := boxesOf(&seg, data, l, seg.Nonce, seg.Nonce)
	var out []byte
	switch mut.kind {
	case "reflect":
		// the receiver's own datagram with the same session id and sequence number in place of the peer's
		own, ok := cr.dgBySeq[1-dir][skey]
		if !ok || !seg.Meta.IsData() || len(seg.Payload) == 0 || int(seg.Meta.Seq) < 1+mut.pos {
			return []simnet.Delivery{{}}
		}
		out = own
		bs = append(bs, cr.dgBoxes[1-dir][skey]...)
		cr.fired, cr.lenChange = true, len(own) != len(data)
		cr.reflectSid = seg.Meta.SessionID
	case "metabox":
		if seg.Meta.PayloadLen != 32 || seg.Meta.IsLowEntropy() {
			return []simnet.Delivery{{}}
		}
		out = append([]byte(nil), data...)
		b := l.off["body"]
		copy(out[b[0]:b[0]+48], data[24:72])
		cr.fired = true
	case "swap":
		cr.fired = true
		cr.genuine = true
		return []simnet.Delivery{{Delay: 40 * time.Millisecond}}
	default:
		var don *donor
		switch mut.kind {
		case "splice-conn":
			don = e.donors["conn"]
		case "splice-user":
			don = e.donors["user"]
		case "splice-sess":
			don = e.donors[fmt.Sprintf("sess%d", dir)]
		}
		o, lc, _, ok := applyAt(data, l, mut, don, R.Rng)
		if !ok {
			return []simnet.Delivery{{}}
		}
		if mut.class == "boundary" && strings.HasPrefix(mut.kind, "splice") {
			o = don.seg // the whole datagram replaced by a foreign one
			lc = len(o) != len(data)
		}
		out, cr.fired, cr.lenChange = o, true, lc
	}
	if don := e.donorFor(mut.kind, dir); don != nil {
		bs = append(bs, don.boxes...)
	}
	c, i := udpCase(tagOf(cr, cr.lenChange), bs, out)
	cr.ucases = append(cr.ucases, c)
	cr.uimpls = append(cr.uimpls, i)
	return []simnet.Delivery{{Data: out}}
}

func kindOf(p uint8) string {
	switch p {
	case rc.OpenSessionRequest:
		return "openreq"
	case rc.OpenSessionResponse:
		return "openresp"
	case rc.CloseSessionRequest:
		return "closereq"
	case rc.CloseSessionResponse:
		return "closeresp"
	case rc.AckClientToServer, rc.AckServerToClient:
		return "ack"
	}
	return "data"
}

var segKinds = []string{"openreq", "openresp", "data", "ack", "closereq", "closeresp"}

func eventOf(seg *rc.Segment) string {
	switch kindOf(seg.Meta.Proto) {
	case "closereq", "closeresp":
		return "C"
	case "ack":
		return "K"
	}
	return fmt.Sprintf("A:%d:%s", seg.Meta.Seq, hx(seg.Payload))
}

// udpDup: the first datagram of segment kind mut.class in direction mut.dir is delivered a second time: at once
// (pos 0), after 1 later datagram of the direction (pos 1), after 4 later ones (pos 2).  Nothing is modified.
func (e *env) udpDup(cr *caseRun, dir, k int, data []byte, seg *rc.Segment, l layout) []simnet.Delivery {
	mut := cr.mut
	if dir != mut.dir {
		return []simnet.Delivery{{}}
	}
	sid := seg.Meta.SessionID
	cr.dupEvents[sid] = append(cr.dupEvents[sid], eventOf(seg))
	emit := func(d []byte, sg *rc.Segment) {
		ll := layoutOf(sg, len(d), true)
		c, i := udpCase(tagOf(cr, false), boxesOf(sg, d, ll, sg.Nonce, sg.Nonce), d)
		cr.ucases = append(cr.ucases, c)
		cr.uimpls = append(cr.uimpls, i)
	}
	if cr.dupHeld != nil {
		cr.dupWait--
		if cr.dupWait <= 0 {
			h := cr.dupHeld
			cr.dupHeld = nil
			if hs, _, err := rc.DecodeDatagram(keysOf(userA, passA, time.Now()), h); err == nil {
				cr.dupEvents[cr.dupSid] = append(cr.dupEvents[cr.dupSid], eventOf(&hs))
				emit(h, &hs)
			}
			cr.genuine = true
			return []simnet.Delivery{{}, {Data: h}}
		}
		return []simnet.Delivery{{}}
	}
	if !cr.fired && kindOf(seg.Meta.Proto) == mut.class {
		cr.fired = true
		cr.dupSid = sid
		cp := append([]byte(nil), data...)
		if mut.pos == 0 {
			cr.dupEvents[sid] = append(cr.dupEvents[sid], eventOf(seg))
			emit(cp, seg)
			cr.genuine = true
			return []simnet.Delivery{{}, {Data: cp}}
		}
		cr.dupHeld, cr.dupWait = cp, map[int]int{1: 1, 2: 4}[mut.pos]
	}
	return []simnet.Delivery{{}}
}

// udpCross: the downstream datagrams of the first client flow are recorded; when the second flow's first downstream
// datagram passes, the recorded ones (all, or those from index pos on) are delivered to the second client before it.
func (e *env) udpCross(cr *caseRun, dir int, client string, data []byte) []simnet.Delivery {
	flow := -1
	for i, f := range cr.flows {
		if f == client {
			flow = i
		}
	}
	if flow < 0 {
		cr.flows = append(cr.flows, client)
		flow = len(cr.flows) - 1
	}
	seg, _, err := rc.DecodeDatagram(keysOf(userA, passA, time.Now()), data)
	if err == nil && dir == 0 && len(seg.Payload) >= hdrLen && binary.BigEndian.Uint32(seg.Payload[:4]) == cr.id && int(seg.Payload[4]) < len(cr.sids) {
		i := int(seg.Payload[4])
		if _, have := cr.hdrSid[i]; !have {
			cr.hdrSid[i] = seg.Meta.SessionID
			cr.sids[i] = seg.Meta.SessionID
		}
	}
	if cr.mut.kind == "session-ids" || dir != 1 {
		return []simnet.Delivery{{}}
	}
	if flow == 0 {
		cr.crossDg = append(cr.crossDg, append([]byte(nil), data...))
		return []simnet.Delivery{{}}
	}
	if flow != 1 || cr.fired || len(cr.crossDg) <= cr.mut.pos {
		return []simnet.Delivery{{}}
	}
	cr.fired = true
	var out []simnet.Delivery
	for j, d := range cr.crossDg[cr.mut.pos:] {
		out = append(out, simnet.Delivery{Data: d})
		if j < 3 && cr.mut.kind == "cross-conn" {
			if sg, _, err := rc.DecodeDatagram(keysOf(userA, passA, time.Now()), d); err == nil {
				c, i := udpCase(tagOf(cr, false), boxesOf(&sg, d, layoutOf(&sg, len(d), true), sg.Nonce, sg.Nonce), d)
				cr.ucases = append(cr.ucases, c)
				cr.uimpls = append(cr.uimpls, i)
			}
		}
	}
	return append(out, simnet.Delivery{})
}

// runCross: two (or more) client muxes created back to back - in the same virtual second -, one session each, one after
// the other.  kind cross-conn: same user; cross-user: the second client is another user; session-ids: three muxes of
// one user with two dials each, nothing spliced (the ids on the wire must differ between muxes).
func (e *env) runCross(kind string, pos int) *caseRun {
	sz := e.p.sizes[0]
	n := 2
	if kind == "session-ids" {
		sz = [2][]int{{64}, {16}}
		n = 6
	}
	var sizes [][2][]int
	for i := 0; i < n; i++ {
		sizes = append(sizes, sz)
	}
	cr := e.newCaseSz(&mutation{dir: 1, class: "boundary", kind: kind, pos: pos}, sizes)
	cr.cross, cr.crossA = true, &connState{}
	mk := func(u, pw, ip string) *protocol.Mux {
		m, err := e.rg.NewClient(u, pw, mkTP(e.p, int32(cr.id)+7), ip)
		if err != nil {
			panic(err)
		}
		return m
	}
	switch kind {
	case "session-ids":
		a, b, c := mk(userA, passA, "10.0.1.1"), mk(userA, passA, "10.0.1.2"), mk(userA, passA, "10.0.1.3")
		cr.muxes = []*protocol.Mux{a, b, c, a, b, c}
	case "cross-user":
		cr.muxes = []*protocol.Mux{mk(userA, passA, "10.0.1.1"), mk(userB, passB, "10.0.1.2")}
	default:
		cr.muxes = []*protocol.Mux{mk(userA, passA, "10.0.1.1"), mk(userA, passA, "10.0.1.2")}
	}
	return e.runCaseOn(cr, nil)
}

var udpKept = map[*caseRun]*[2][][]byte{}
var udpKeptMu sync.Mutex

func udpKeep(cr *caseRun, dir int, d []byte) {
	udpKeptMu.Lock()
	defer udpKeptMu.Unlock()
	k := udpKept[cr]
	if k == nil {
		k = &[2][][]byte{}
		udpKept[cr] = k
	}
	k[dir] = append(k[dir], append([]byte(nil), d...))
}

func tagOf(cr *caseRun, lenChange bool) string {
	m := cr.mut
	lc := "same-len"
	if lenChange {
		lc = "len-changed"
	}
	return fmt.Sprintf("%s/%s/%s/%s/%s/%d/%s", cr.p.transport, cr.p.name, []string{"c2s", "s2c"}[m.dir], m.class, m.kind, m.pos, lc)
}

// ---------------------------------------------------------------- donors (traffic of another connection / user)

type donorX struct {
	donor
	boxes []box
}

var donorBoxes = map[*donor][]box{}

func (e *env) donorFor(kind string, dir int) *donorX {
	var d *donor
	switch kind {
	case "splice-conn":
		d = e.donors["conn"]
	case "splice-user":
		d = e.donors["user"]
	case "splice-sess":
		d = e.donors[fmt.Sprintf("sess%d", dir)]
	}
	if d == nil {
		return nil
	}
	return &donorX{donor: *d, boxes: donorBoxes[d]}
}

// makeDonors records one short transfer of another connection of alice and one of bob and keeps the raw fields of
// a data segment of each (client->server direction; for "sess": a segment of each direction of alice's transfer).
func (e *env) makeDonors() {
	nw := e.rg.Net
	h0 := hookNow()
	e.donorMinute, e.donorKey = h0.now, h0.key
	for _, who := range []string{"conn", "user"} {
		nw.Log.Off = false
		start := len(nw.Log.Snapshot())
		u, pw := userA, passA
		if who == "user" {
			u, pw = userB, passB
		}
		m, err := e.rg.NewClient(u, pw, mkTP(e.p, 99), "10.0.0.9")
		if err != nil {
			continue
		}
		cr := e.newCase(nil)
		e.runClient(cr, m, nil)
		closeMux(m)
		nw.Log.Off = true
		evs := nw.Log.Snapshot()[start:]
		creds := []trace.Cred{{User: u, Pass: pw}}
		grab := func(key string, seg *rc.Segment, raw []byte, hasNonce bool, nm, np []byte) {
			l := layoutOf(seg, len(raw), hasNonce)
			d := &donor{f: map[string][]byte{}, seg: append([]byte(nil), raw...)}
			for c, r := range l.off {
				d.f[c] = append([]byte(nil), raw[r[0]:r[1]]...)
			}
			if _, ok := d.f["nonce"]; !ok {
				d.f["nonce"] = append([]byte(nil), nm...)
			}
			e.donors[key] = d
			if u == userA {
				donorBoxes[d] = boxesOf(seg, raw, l, nm, np)
			}
		}
		if e.p.transport == "tcp" {
			for _, c := range trace.TCP(evs, creds) {
				for di, d := range []*trace.Dir{&c.C2S, &c.S2C} {
					pos := 0
					var n0 []byte
					nb := 0
					for i := range d.Segs {
						sg := &d.Segs[i]
						raw := d.Bytes[pos : pos+sg.WireLen]
						pos += sg.WireLen
						if sg.Nonce != nil {
							n0 = sg.Nonce
						}
						nm := n0
						for j := 0; j < nb; j++ {
							nm = rc.NonceInc(nm)
						}
						nbHere := 1
						if sg.Meta.PayloadLen > 0 {
							nbHere = 2
						}
						nb += nbHere
						if sg.Meta.IsData() && len(sg.Payload) > 0 && sg.Nonce == nil {
							if di == 0 && e.donors[who] == nil {
								grab(who, sg, raw, false, nm, rc.NonceInc(nm))
							}
							if who == "conn" && e.donors[fmt.Sprintf("sess%d", di)] == nil {
								grab(fmt.Sprintf("sess%d", di), sg, raw, false, nm, rc.NonceInc(nm))
							}
						}
					}
				}
			}
		} else {
			for _, ev := range trace.UDP(evs, creds) {
				if ev.Kind != "send" || ev.Seg == nil || !ev.Seg.Meta.IsData() || len(ev.Seg.Payload) == 0 {
					continue
				}
				di := 1
				if ev.Dst == e.srvAddr {
					di = 0
				}
				if di == 0 && e.donors[who] == nil {
					grab(who, ev.Seg, ev.Raw, true, ev.Seg.Nonce, ev.Seg.Nonce)
				}
				if who == "conn" && e.donors[fmt.Sprintf("sess%d", di)] == nil {
					grab(fmt.Sprintf("sess%d", di), ev.Seg, ev.Raw, true, ev.Seg.Nonce, ev.Seg.Nonce)
				}
			}
		}
		e.mu.Lock()
		delete(e.cases, cr.id)
		e.mu.Unlock()
	}
}

// ---------------------------------------------------------------- judging one end-to-end case

func isPrefix(a, b []byte) bool { return len(a) <= len(b) && bytes.Equal(a, b[:len(a)]) }

func (e *env) judge(cr *caseRun) {
	p := cr.p
	name := "baseline"
	if cr.mut != nil {
		name = tagOf(cr, cr.lenChange)
	}
	rep := func(sig, what string) {
		R.Fail(sig, what, map[string]interface{}{"pattern": p.name, "transport": p.transport, "mutation": cr.mut, "case": name, "seed": R.Seed})
		fmt.Fprintf(lg, "FAIL %s %s: %s\n", sig, name, what)
	}
	if cr.panicked != "" {
		rep("panic", cr.panicked)
	}
	if cr.cross && cr.mut.kind != "cross-user" {
		// the premise of C04_tcp_cross_connection_splice_refused: live session ids of one user are distinct; ids of
		// muxes created in the same second must not repeat
		cr.mu.Lock()
		seen := map[uint32]int{}
		for i := 0; i < len(cr.scripts); i++ {
			sid, ok := cr.hdrSid[i]
			if !ok {
				continue
			}
			if j, dup := seen[sid]; dup && cr.muxes[i] != cr.muxes[j] {
				rep("session-id-repeats-across-muxes", fmt.Sprintf("%s: two client muxes of one user created in the same second drew the same session id %d (sessions %d and %d)", p.transport, sid, j, i))
			}
			seen[sid] = i
		}
		cr.mu.Unlock()
		R.Count(p.transport + ":session-ids-compared")
	}
	complete := true
	for i, sc := range cr.scripts {
		cr.mu.Lock()
		sr, cl := *cr.srv[i], *cr.cli[i]
		cr.mu.Unlock()
		for _, x := range []struct {
			side    string
			got     []byte
			written []byte
		}{{"server", sr.read, append(cat(sc.c2s), 'K')}, {"client", cl.read, cat(sc.s2c)}} {
			if !isPrefix(x.got, x.written) {
				sig := "read-differs-from-written"
				if cr.mut != nil && cr.mut.kind == "reflect" {
					sig = "reflected-own-direction-read-by-application"
				}
				if cr.gap {
					sig = "udp-released-across-a-missing-segment"
				}
				if cr.mut != nil && cr.mut.kind == "dup" {
					sig = "replayed-copy-changes-what-the-application-reads"
				}
				if cr.cross {
					sig = "stream-of-another-connection-read-by-application"
				}
				if cr.mut != nil && cr.mut.kind == "skiphead" {
					sig = "tcp-nonce-header-rewrite-skips-leading-segments"
				}
				if cr.mut != nil && cr.mut.kind == "metabox" {
					sig = "udp-payload-box-replaced-by-metadata-box"
				}
				d := 0
				for d < len(x.got) && d < len(x.written) && x.got[d] == x.written[d] {
					d++
				}
				rep(sig, fmt.Sprintf("%s %s: the %s application of session %d read %d bytes that are not a prefix of the %d bytes its peer wrote (first difference at offset %d: read %x..., written %x...)",
					p.transport, name, x.side, i, len(x.got), len(x.written), d, x.got[d:min(d+8, len(x.got))], x.written[min(d, len(x.written)):min(d+8, len(x.written))]))
			}
		}
		if !(sr.done && cl.done && len(sr.read) == total(sc.c2s)+1 && len(cl.read) == total(sc.s2c)) {
			complete = false
		}
	}
	if complete {
		R.Count(p.transport + ":e2e-complete")
	} else {
		R.Count(p.transport + ":e2e-ended-early")
	}
	if cr.gap || (cr.mut != nil && cr.mut.kind == "reflect" && p.transport == "tcp") {
		// prefix only: the gap family ends with a clean EOF after a prefix (the truncation is C03's finding); on TCP the
		// property only demands a prefix
		if !complete {
			R.Count(p.transport + ":" + cr.mut.kind + ":ended-after-prefix")
		}
		return
	}
	if cr.mut != nil && cr.mut.kind == "reflect" && !complete {
		// UDP: a spliced datagram must be discarded as if lost and the stream must complete
		cr.mu.Lock()
		accepted := len(cr.uimpls) > 0 && strings.HasPrefix(cr.uimpls[0], "OK ")
		byReceiver := cr.reflectClosed
		cr.mu.Unlock()
		if accepted && byReceiver {
			R.Count("udp:reflect:session-closed-by-receiver")
			rep("udp-reflected-own-datagram-closes-session", fmt.Sprintf("udp %s: the %s's own data datagram (same session id and sequence number) delivered to it in place of the peer's authenticates, is refused by its type, and the refusal closes the session: the first close request after the reflection came from the side that received it; the stream did not complete (cli=%v srv=%v)",
				name, []string{"server", "client"}[cr.mut.dir], sideSum(cr.cli), sideSum(cr.srv)))
			return
		}
	}
	if p.transport == "udp" && !complete && !(cr.mut != nil && cr.mut.kind == "metabox") {
		rep("udp-stream-not-completed", fmt.Sprintf("udp %s: a session did not complete intact although every retransmission was delivered unmodified (cli=%v srv=%v)", name, sideSum(cr.cli), sideSum(cr.srv)))
	}
	if cr.mut == nil && !complete {
		rep("baseline-incomplete", fmt.Sprintf("%s baseline did not complete (cli=%v srv=%v)", p.transport, sideSum(cr.cli), sideSum(cr.srv)))
	}
}

func sideSum(rs []*sideRes) string {
	var s []string
	for _, r := range rs {
		s = append(s, fmt.Sprintf("%d/%s/%v", len(r.read), r.err, r.done))
	}
	return strings.Join(s, ",")
}

func min(a, b int) int {
	if a < b {
		return a
	}
	return b
}

// emitE writes the correspondence case of a mutated TCP end-to-end run.
func (e *env) emitE(cr *caseRun) {
	m := cr.mut
	dir := m.dir
	var sb strings.Builder
	tbl := append(append([]box(nil), cr.boxes[dir]...), e.donorBoxesFor(m.kind, dir)...)
	if m.kind == "reflect" {
		tbl = append(tbl, cr.boxes[1-dir]...) // one key for both directions
	}
	if m.kind == "cross-conn" {
		tbl = append(tbl, cr.crossA.boxes[dir]...) // the other connection of the same user: same key
	}
	fmt.Fprintf(&sb, "E %s %d %s %s %d", tagOf(cr, cr.lenChange), cr.now, tableStr(tbl), hx(cr.sent[dir]), len(cr.sids))
	onVictim := map[int]bool{}
	for _, i := range cr.sidIdx {
		onVictim[i] = true
	}
	var impl []string
	for i, sid := range cr.sids {
		if sid == 0 {
			sid = uint32(4000000000 + i) // this session did not travel on the mutated connection
		}
		fmt.Fprintf(&sb, " %d", sid)
		cr.mu.Lock()
		got := cr.srv[i].read
		if dir == 1 {
			got = cr.cli[i].read
		}
		cr.mu.Unlock()
		if cr.sids[i] == 0 {
			got = nil
		}
		impl = append(impl, fmt.Sprintf("%d:%d:%x", sid, len(got), md5.Sum(got)))
	}
	sb.WriteString([]string{" S", " C"}[dir]) // role of the receiving side
	R.Case(sb.String(), strings.Join(impl, " "))
}

func (e *env) donorBoxesFor(kind string, dir int) []box {
	if d := e.donorFor(kind, dir); d != nil {
		return d.boxes
	}
	return nil
}

// ---------------------------------------------------------------- function level sweeps

func tcpReceive(stream []byte) string {
	blk, err := cipher.BlockCipherFromPassword(cipher.HashPassword([]byte(passA), []byte(userA)), false)
	if err != nil {
		panic(err)
	}
	segs, et := protocol.VerifC04StreamReceive(blk, stream)
	nw, _, _, _ := protocol.VerifC04ErrorTypes()
	var sb strings.Builder
	fmt.Fprintf(&sb, "%d", len(segs))
	for _, s := range segs {
		sb.WriteString(" " + segLine(s.Meta, s.Payload)[3:])
	}
	fail := 1
	if et == nw {
		fail = 0
	}
	fmt.Fprintf(&sb, " fail=%d", fail)
	return sb.String()
}

func mutateBytes(d []byte, kind string, o int, rng *vh.Rng) []byte {
	x := append([]byte(nil), d...)
	switch kind {
	case "flip":
		x[o] ^= 1 << uint(rng.Intn(8))
	case "subst":
		x[o] += byte(1 + rng.Intn(255))
	case "insert":
		x = append(x[:o], append([]byte{byte(rng.Intn(256))}, x[o:]...)...)
	case "delete":
		x = append(x[:o], x[o+1:]...)
	case "trunc":
		x = x[:o]
	}
	return x
}

// sweepTCP replays mutated copies of a recorded direction into the real receiver (hook) and the model.
func (e *env) sweepTCP(cr *caseRun, dir int, every int) {
	stream := cr.orig[dir]
	if len(stream) == 0 {
		return
	}
	h := hookNow() // the whole sweep runs at one virtual instant
	tab := tableStr(tableFor(cr.boxes[dir], h.key, true))
	emit := func(tag string, s []byte) {
		R.Case(fmt.Sprintf("T tcp/%s/%s/%s %d %s %s", cr.p.name, []string{"c2s", "s2c"}[dir], tag, h.now, tab, hx(s)), tcpReceive(s))
		R.Count("T:" + strings.SplitN(tag, "/", 2)[0])
	}
	emit("genuine/0", stream)
	if h.key == nil || len(tableFor(cr.boxes[dir], h.key, true)) != len(cr.boxes[dir]) {
		R.Count("sweep-after-key-slot-change") // the hook receiver holds another slot's key: everything must be refused, by both
	} else if !strings.HasPrefix(tcpReceive(stream), fmt.Sprintf("%d ", cr.nseg[dir])) {
		R.Fail("selftest-genuine-stream-not-accepted", "the recorded genuine stream is not accepted completely by the hook receiver: "+tcpReceive(stream)[:40], cr.p.name)
	}
	ks := []string{"flip", "subst", "insert", "delete", "trunc"}
	for o := 0; o < len(stream); o++ {
		if every > 1 && o%every != int(cr.id)%every && o > 130 {
			continue
		}
		k := ks[(o+int(cr.id))%len(ks)]
		if every == 1 {
			k = "flip"
		}
		emit(fmt.Sprintf("%s/%d", k, o), mutateBytes(stream, k, o, R.Rng))
		if every == 1 && o%5 == 0 {
			k2 := ks[1+(o/5)%4]
			emit(fmt.Sprintf("%s/%d", k2, o), mutateBytes(stream, k2, o, R.Rng))
		}
	}
}

func (e *env) sweepUDP(cr *caseRun, dir int, every int, maxDg int) {
	udpKeptMu.Lock()
	k := udpKept[cr]
	udpKeptMu.Unlock()
	if k == nil {
		return
	}
	keys := keysOf(userA, passA, time.Now())
	n := 0
	for _, d := range k[dir] {
		seg, _, err := rc.DecodeDatagram(keys, d)
		if err != nil || (len(seg.Payload) == 0 && n > 1) {
			continue
		}
		n++
		if n > maxDg {
			break
		}
		l := layoutOf(&seg, len(d), true)
		bs := boxesOf(&seg, d, l, seg.Nonce, seg.Nonce)
		emit := func(tag string, x []byte) {
			c, i := udpCase(fmt.Sprintf("udp/%s/%s/%s", cr.p.name, []string{"c2s", "s2c"}[dir], tag), bs, x)
			R.Case(c, i)
			R.Count("U:" + strings.SplitN(tag, "/", 2)[0])
		}
		emit("genuine/0", d)
		ks := []string{"flip", "subst", "insert", "delete", "trunc"}
		for o := 0; o < len(d); o++ {
			if every > 1 && o%every != n%every && o > 80 {
				continue
			}
			kk := ks[(o+n)%len(ks)]
			if every == 1 {
				kk = "flip"
			}
			emit(fmt.Sprintf("%s/%d", kk, o), mutateBytes(d, kk, o, R.Rng))
		}
		emit("extend/1", append(append([]byte(nil), d...), 0))
		if b, ok := l.off["body"]; ok && b[1]-b[0] == 32 && !seg.Meta.IsLowEntropy() {
			x := append([]byte(nil), d...)
			copy(x[b[0]:b[0]+48], d[24:72])
			emit("metabox/0", x)
		}
	}
}

func ctxT(d time.Duration) *tctx { return &tctx{dl: time.Now().Add(d), done: make(chan struct{})} }

type tctx struct {
	dl   time.Time
	done chan struct{}
}

func (c *tctx) Deadline() (time.Time, bool)       { return c.dl, true }
func (c *tctx) Done() <-chan struct{}             { return c.done }
func (c *tctx) Err() error                        { return nil }
func (c *tctx) Value(key interface{}) interface{} { return nil }

// ---------------------------------------------------------------- main

func patterns(thorough bool) []*pat {
	multi := [][2][]int{{{300, 2000, 40}, {32, 1500, 5000}}, {{700, 64}, {32, 900}}}
	one := [][2][]int{{{300, 2000, 40}, {32, 1500, 5000}}}
	big := [][2][]int{{{1500, 40000}, {32, 70000}}}
	ps := []*pat{
		{name: "pad", transport: "tcp", mode: 0, mid: 40, end: 40, mtu: 1400, multiplex: 1, sizes: multi},
		{name: "le40", transport: "tcp", mode: 2, mid: 24, end: 24, mtu: 1400, multiplex: 1, sizes: one},
		{name: "nopad", transport: "tcp", mode: 0, mid: 0, end: 0, mtu: 1400, multiplex: 0, sizes: one},
		{name: "pad", transport: "udp", mode: 0, mid: 40, end: 40, mtu: 1400, multiplex: 1, sizes: multi},
		{name: "le32", transport: "udp", mode: 1, mid: 24, end: 24, mtu: 1400, multiplex: 1, sizes: one},
		{name: "nopad", transport: "udp", mode: 0, mid: 0, end: 0, mtu: 1200, multiplex: 0, sizes: one},
	}
	if thorough {
		// small transfers: EVERY byte offset of both directions is mutated (the case lines carry the whole stream)
		small := [][2][]int{{{200, 300, 40}, {32, 250, 400}}}
		_ = big
		for _, tr := range []string{"tcp", "udp"} {
			for mode := 0; mode <= 4; mode++ {
				ps = append(ps, &pat{name: fmt.Sprintf("t-le%d", mode), transport: tr, mode: mode, mid: 16 * mode, end: 60 - 12*mode, mtu: 1400 - 50*mode, multiplex: mode % 2, sizes: small})
				ps = append(ps, &pat{name: fmt.Sprintf("t-pad%d", mode), transport: tr, mode: (mode * 3) % 5, mid: 50 - 10*mode, end: 8 * mode, mtu: 1200 + 40*mode, multiplex: 1 - mode%2, sizes: small})
			}
		}
	}
	return ps
}

func main() {
	R = vh.Start("c04")
	var err error
	lg, err = os.Create(filepath.Join(R.Out, "log.txt"))
	if err != nil {
		panic(err)
	}
	defer lg.Close()
	thorough := R.Thorough()
	R.Rep.Rule = "per traffic pattern (transport x padding x low entropy mode x sessions): one un-mutated end-to-end run of real Mux pairs (must complete), then one end-to-end run per (direction, field class, mutation kind) with a man in the middle that locates the field in the live traffic and mutates it once, plus the two model witnesses; every recorded direction / datagram is then replayed with byte-level mutations (quick: every field class x kind at sampled offsets; thorough: additionally 20 small captures with a bit flip at EVERY byte offset of both directions plus other kinds at every 5th) into the real receivers through a hook and into the extracted model. distinct_nontrivial counts (transport, pattern, direction, field class, kind, length changed) tuples of mutations that actually fired."
	for pi, p := range patterns(thorough) {
		t0 := time.Now()
		e, err := startEnv(p, int32(R.Seed)*16+int32(pi))
		if err != nil {
			R.Fail("rig-start", err.Error(), p.name)
			continue
		}
		e.makeDonors()
		// baseline + sweeps (at the moment the transfer has completed, before anything is closed)
		every := 11
		if thorough && strings.HasPrefix(p.name, "t-") {
			every = 1
		}
		base := e.runCase(nil, func(cr *caseRun) {
			cr.mu.Lock()
			defer cr.mu.Unlock()
			if p.transport == "tcp" {
				e.sweepTCP(cr, 0, every)
				e.sweepTCP(cr, 1, every)
			} else {
				e.sweepUDP(cr, 0, every, 6)
				e.sweepUDP(cr, 1, every, 6)
			}
		})
		e.judge(base)
		R.Count(p.transport + ":patterns")
		// end-to-end grid
		pos := 0
		for dir := 0; dir < 2; dir++ {
			for _, cl := range classes {
				for _, k := range kinds {
					pos = (pos + 1) % 3
					froms := []int{1}
					if cl == "nonce" && p.transport == "tcp" {
						froms = []int{0}
					}
					if cl == "boundary" && strings.HasPrefix(k, "splice") {
						// a whole foreign segment / datagram is spliced in: take it from traffic of this minute and this key
						// slot, so that "a genuine foreign datagram is accepted as what it is" stays covered (the prediction
						// is exact either way: clock and key of the receiver are read at the hook call)
						if h := hookNow(); e.donorMinute != h.now || !bytes.Equal(e.donorKey, h.key) {
							e.donors = map[string]*donor{}
							e.makeDonors()
						}
					}
					for _, from := range froms {
						m := &mutation{dir: dir, from: from, class: cl, kind: k, pos: pos}
						cr := e.runCase(m, nil)
						if !cr.fired {
							R.Count("mutation-not-fired:" + cl + "/" + k)
							continue
						}
						e.judge(cr)
						R.Count(p.transport + ":e2e:" + k)
						R.Count(p.transport + ":class:" + cl)
						R.Distinct(tagOf(cr, cr.lenChange))
						if p.transport == "tcp" {
							e.emitE(cr)
						} else {
							for i := range cr.ucases {
								R.Case(cr.ucases[i], cr.uimpls[i])
							}
						}
					}
				}
			}
		}
		// reflection of the same session's opposite direction; close with data in flight behind a damaged datagram
		type rf struct{ dir, pos int }
		rfs := []rf{{1, 0}, {1, 1}}
		if p.transport == "udp" {
			rfs = []rf{{1, 0}, {1, 2}, {0, 0}, {0, 3}}
		}
		for _, x := range rfs {
			cr := e.runCase(&mutation{dir: x.dir, from: 0, class: "boundary", kind: "reflect", pos: x.pos}, nil)
			if !cr.fired {
				R.Count("mutation-not-fired:reflect")
				continue
			}
			e.judge(cr)
			R.Count(p.transport + ":e2e:reflect")
			R.Distinct(tagOf(cr, cr.lenChange))
			if p.transport == "tcp" {
				e.emitE(cr)
			} else {
				for i := range cr.ucases {
					R.Case(cr.ucases[i], cr.uimpls[i])
				}
			}
		}
		if p.transport == "udp" {
			for dir := 0; dir < 2; dir++ {
				for _, q := range []uint32{1, 3} {
					cr := e.runGap(dir, q)
					if !cr.fired {
						R.Count("mutation-not-fired:gap-close")
						continue
					}
					e.judge(cr)
					cr.mu.Lock()
					got := cr.srv[0].read
					if dir == 1 {
						got = cr.cli[0].read
					}
					evs := append([]string(nil), cr.gapEvents...)
					cr.mu.Unlock()
					R.Case(fmt.Sprintf("G %s/seq%d %d %s", tagOf(cr, false), q, len(evs), strings.Join(evs, " ")), fmt.Sprintf("%d:%x", len(got), md5.Sum(got)))
					R.Count("udp:e2e:gap-close")
					R.Distinct(fmt.Sprintf("%s/seq%d", tagOf(cr, false), q))
				}
			}
		}
		// a second copy of an authentic datagram: every segment kind x direction x delay position
		if p.transport == "udp" {
			for dir := 0; dir < 2; dir++ {
				for _, kd := range segKinds {
					for pos := 0; pos < 3; pos++ {
						cr := e.runCase(&mutation{dir: dir, from: 0, class: kd, kind: "dup", pos: pos}, nil)
						if !cr.fired {
							R.Count("mutation-not-fired:dup/" + kd)
							continue
						}
						e.judge(cr)
						R.Count("udp:e2e:dup")
						R.Count("udp:dup:" + kd)
						R.Distinct(tagOf(cr, false))
						for i := range cr.ucases {
							R.Case(cr.ucases[i], cr.uimpls[i])
						}
						cr.mu.Lock()
						idx := -1
						for i, sid := range cr.sids {
							if sid == cr.dupSid {
								idx = i
							}
						}
						if idx >= 0 {
							got := cr.srv[idx].read
							if dir == 1 {
								got = cr.cli[idx].read
							}
							evs := cr.dupEvents[cr.dupSid]
							R.Case(fmt.Sprintf("G %s %d %s", tagOf(cr, false), len(evs), strings.Join(evs, " ")), fmt.Sprintf("%d:%x", len(got), md5.Sum(got)))
						}
						if cr.dupHeld != nil {
							R.Count("udp:dup:copy-not-delivered")
						}
						cr.mu.Unlock()
					}
				}
			}
		}
		// the downstream traffic of another connection (clients created in the same second) fed to a client
		for _, x := range []struct {
			kind string
			pos  int
		}{{"cross-conn", 0}, {"cross-conn", 1}, {"cross-conn", 2}, {"cross-user", 0}, {"session-ids", 0}} {
			cr := e.runCross(x.kind, x.pos)
			e.judge(cr)
			R.Count(p.transport + ":e2e:" + x.kind)
			if !cr.fired {
				if x.kind != "session-ids" {
					R.Count("mutation-not-fired:" + x.kind)
				}
				continue
			}
			R.Distinct(tagOf(cr, true))
			if p.transport == "tcp" && x.kind == "cross-conn" {
				e.emitE(cr)
			}
			for i := range cr.ucases {
				R.Case(cr.ucases[i], cr.uimpls[i])
			}
		}
		// the model witnesses
		if p.transport == "tcp" {
			cr := e.runCase(&mutation{dir: 1, from: 0, class: "nonce", kind: "skiphead", pos: 1}, nil)
			if cr.fired {
				e.judge(cr)
				e.emitE(cr)
				R.Count("tcp:witness-skiphead")
			}
			cr = e.runCase(&mutation{dir: 0, from: 0, class: "nonce", kind: "skiphead", pos: 0}, nil)
			if cr.fired {
				e.judge(cr)
				e.emitE(cr)
			}
		} else {
			for dir := 0; dir < 2; dir++ {
				cr := e.runCase(&mutation{dir: dir, from: 0, class: "body", kind: "metabox"}, nil)
				if cr.fired {
					e.judge(cr)
					for i := range cr.ucases {
						R.Case(cr.ucases[i], cr.uimpls[i])
					}
					R.Count("udp:witness-metabox")
				}
			}
		}
		fmt.Fprintf(lg, "pattern %s/%s done: cases so far %d, virtual %v\n", p.transport, p.name, R.NCase, time.Since(t0))
		go e.rg.Close()
		udpKeptMu.Lock()
		udpKept = map[*caseRun]*[2][][]byte{}
		udpKeptMu.Unlock()
	}
	R.Finish()
}
