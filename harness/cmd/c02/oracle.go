package main

import (
	"bytes"
	"crypto/sha256"
	"fmt"
	"strconv"
	"strings"

	"verifharness/vh"
)

const lineChunk = 64 * 1024

// propC13: the run is for property C13 (-prop C13): findings that belong to C13 only are reported
var propC13 bool

type txInfo struct {
	sum   [32]byte
	proto uint8
	frag  uint8
}

type owner struct {
	s    *sessAn
	side int
	k    int
}

// sessAn is the per-session state of the trace splitter and of the oracle.
type sessAn struct {
	run        *sessRun
	label      string
	lines      []string
	cut        bool // no longer used for cutting: kept false
	closing    bool // the X line has been written: from here on only emissions are recorded (S lines) and only content equality is judged
	xAt        int  // index in lines of the X line (-1: none yet)
	lastW      [2][3]int // per side: index in lines, number of lines and number of bytes of the last W marker
	closeSeen  [2]bool // side has emitted a close request / response of its own: its session object is gone
	emits      [2]int             // number of S lines per side
	wN         [2]int             // bytes written by side
	rN         [2]int             // bytes read by side (of the other side's data)
	recvd      [2]map[uint32]bool // sequenced seqs of the other side delivered to side
	prefix     [2]uint32          // all seqs below were delivered to side
	tx         [2]map[uint32]txInfo
	next       [2]uint32 // next first-transmission seq expected from side
	srcs       map[string]bool
	fails      map[string]string // sig -> first description
	nS, nR     int
	retx       int
	win0       int
	selfClosed bool // a close segment was emitted before the driver's Close
	srvFirst   bool // the server's seq 0 is not the open session response (application data overtook it)
}

func (a *sessAn) failf(sig, format string, args ...interface{}) {
	if _, ok := a.fails[sig]; !ok {
		a.fails[sig] = fmt.Sprintf(format, args...)
	}
}

func hexLines(prefix string, data []byte, out *[]string) {
	if len(data) == 0 {
		*out = append(*out, prefix+" -")
		return
	}
	for off := 0; off < len(data); off += lineChunk {
		end := off + lineChunk
		if end > len(data) {
			end = len(data)
		}
		*out = append(*out, prefix+" "+vh.Hex(data[off:end]))
	}
}

type schedSummary struct {
	sessions, complete, lines, sLines, rLines int
	shared                                    bool
	failures                                  []string
}

// analyse splits the event log per session, emits the case lines and judges every session.
func analyse(r *vh.Run, res *schedResult) schedSummary {
	var sum schedSummary
	sc := res.sc
	ans := make([]*sessAn, len(res.sess))
	bySID := map[uint32]*sessAn{}
	for i, s := range res.sess {
		a := &sessAn{run: s, srcs: map[string]bool{}, fails: map[string]string{}, xAt: -1}
		for side := 0; side < 2; side++ {
			a.recvd[side] = map[uint32]bool{}
			a.tx[side] = map[uint32]txInfo{}
		}
		a.label = fmt.Sprintf("%s/s%d/%08x", sc.ID, i, s.sid)
		a.lines = append(a.lines, "B "+a.label)
		ans[i] = a
		if s.haveSID {
			bySID[s.sid] = a
		}
	}
	owners := map[int]owner{}

	for _, e := range res.events {
		switch e.Kind {
		case "udp-send":
			if e.Note == "raw" && strings.HasPrefix(e.Src, markPrefix) {
				// marker: app-<kind>.<side>.<idx>:0
				f := strings.Split(strings.TrimSuffix(strings.TrimPrefix(e.Src, markPrefix), ":0"), ".")
				if len(f) != 3 {
					continue
				}
				side, _ := strconv.Atoi(f[1])
				idx, _ := strconv.Atoi(f[2])
				if idx < 0 || idx >= len(ans) {
					continue
				}
				a := ans[idx]
				if a.closing {
					continue
				}
				switch f[0] {
				case "W":
					st := len(a.lines)
					hexLines(fmt.Sprintf("W %d", side), e.Data, &a.lines)
					a.wN[side] += len(e.Data)
					a.lastW[side] = [3]int{st, len(a.lines) - st, len(e.Data)}
				case "U":
					// the last Write of this side returned (0, timeout): nothing was written
					lw := a.lastW[side]
					if lw[1] > 0 && lw[0]+lw[1] <= len(a.lines) {
						a.lines = append(a.lines[:lw[0]], a.lines[lw[0]+lw[1]:]...)
						a.wN[side] -= lw[2]
						for o := 0; o < 2; o++ {
							if a.lastW[o][0] > lw[0] {
								a.lastW[o][0] -= lw[1]
							}
						}
						a.lastW[side] = [3]int{}
					}
				case "A":
					hexLines(fmt.Sprintf("A %d", side), e.Data, &a.lines)
					src := a.run.data[1-side]
					off := a.rN[side]
					if off+len(e.Data) > a.wN[1-side] {
						a.failf("bytes-differ", "side %d read %d bytes at offset %d but only %d bytes had been written by the other side", side, len(e.Data), off, a.wN[1-side])
					} else if !bytes.Equal(e.Data, src[off:off+len(e.Data)]) {
						a.failf("bytes-differ", "side %d read %d bytes at offset %d that differ from what the other side wrote there", side, len(e.Data), off)
					}
					a.rN[side] += len(e.Data)
				case "X":
					a.closing = true
					a.xAt = len(a.lines)
					a.lines = append(a.lines, fmt.Sprintf("X %d", side))
				}
				continue
			}
			if e.Note == "raw" {
				continue
			}
			seg := res.segs[e.ID]
			if seg == nil {
				continue
			}
			m := seg.Meta
			a := bySID[m.SessionID]
			if a == nil {
				continue
			}
			side := 0
			if e.Src == res.server {
				side = 1
			} else {
				a.srcs[e.Src] = true
			}
			if (m.Proto == 4 || m.Proto == 5) && !a.closing {
				// mieru itself closed the session (abandonment, or the peer's Close) before the driver did: same as a Close here
				a.closing = true
				a.selfClosed = true
				a.xAt = len(a.lines)
				a.lines = append(a.lines, fmt.Sprintf("X %d", side))
			}
			if side == 1 && m.Seq == 0 && sequenced(m.Proto) && m.Proto != 3 {
				a.srvFirst = true
			}
			k := a.emits[side]
			a.emits[side]++
			owners[e.ID] = owner{a, side, k}
			un, win, frag := uint32(0), uint16(0), uint8(0)
			if m.Proto >= 6 && m.Proto <= 11 {
				un, win, frag = m.UnAckSeq, m.WindowSize, m.Fragment
			}
			a.lines = append(a.lines, fmt.Sprintf("S %d %d %d %d %d %d %s", side, m.Proto, m.Seq, un, win, frag, vh.Hex(seg.Payload)))
			a.nS++
			// ---- oracle over the decoded emission
			if m.Proto >= 6 && m.Proto <= 11 {
				if win == 0 {
					a.win0++
				}
				if un > a.prefix[side] {
					a.failf("ack-ahead", "side %d emitted proto %d seq %d with unAckSeq %d (datagram id %d) but seq %d of the other side had not been delivered to it",
						side, m.Proto, m.Seq, un, e.ID, a.prefix[side])
				}
			}
			// once an endpoint has emitted its own close segment, a late datagram of the peer for this session id is answered by
			// the underlay ("session is not registered") with a stateless closeSessionRequest whose sequence field echoes the
			// peer's unAckSeq: not a sequence number assigned by a session, not judged (same exemption as UdpProto.late_step)
			stateless := a.closing && m.Proto == 4 && a.closeSeen[side]
			if m.Proto == 4 || m.Proto == 5 {
				a.closeSeen[side] = true
			}
			if stateless && propC13 {
				ti := txInfo{sum: sha256.Sum256(seg.Payload), proto: m.Proto, frag: frag}
				if old, ok := a.tx[side][m.Seq]; ok && old != ti {
					a.failf("stateless-close-reply-reuses-sequence-number", "side %d emitted a closeSessionRequest with seq %d after its own close segment (datagram id %d); seq %d carried proto %d before. "+
						"Code site: underlay_packet.go RunEventLoop, branch \"Session %%d is not registered\": for a data/ack segment of a session it no longer has the underlay replies with a closeSessionRequest whose seq is copied from the peer's unAckSeq. "+
						"Harmless: the receiver handles close requests in inputClose without looking at seq, nothing is acknowledged or discarded because of it", side, m.Seq, e.ID, m.Seq, old.proto)
				}
			}
			if sequenced(m.Proto) && !stateless {
				ti := txInfo{sum: sha256.Sum256(seg.Payload), proto: m.Proto, frag: frag}
				if old, ok := a.tx[side][m.Seq]; ok {
					a.retx++
					if old != ti {
						a.failf("retx-differs", "side %d retransmitted seq %d with different content (proto %d->%d, fragment %d->%d, payload equal: %v; datagram id %d)",
							side, m.Seq, old.proto, ti.proto, old.frag, ti.frag, old.sum == ti.sum, e.ID)
					}
				} else {
					if m.Seq != a.next[side] && !a.closing {
						// (after Close queued segments may be discarded and the close response bypasses the queue: gaps are legitimate there)
						a.failf("seq-gap", "side %d first transmission of seq %d where seq %d was expected (datagram id %d)", side, m.Seq, a.next[side], e.ID)
					}
					a.tx[side][m.Seq] = ti
					if m.Seq >= a.next[side] {
						a.next[side] = m.Seq + 1
					}
				}
			}
		case "udp-recv":
			o, ok := owners[e.ID]
			if !ok {
				continue
			}
			a := o.s
			rs := 1 - o.side
			a.lines = append(a.lines, fmt.Sprintf("R %d %d", rs, o.k))
			a.nR++
			seg := res.segs[e.ID]
			if seg != nil && sequenced(seg.Meta.Proto) {
				a.recvd[rs][seg.Meta.Seq] = true
				for a.recvd[rs][a.prefix[rs]] {
					a.prefix[rs]++
				}
			}
		}
	}

	// verdicts
	srcUse := map[string]int{}
	for _, a := range ans {
		s := a.run
		sum.sessions++
		for src := range a.srcs {
			srcUse[src]++
		}
		if len(a.srcs) > 1 {
			a.failf("client-socket-changed", "session used %d client sockets", len(a.srcs))
		}
		counts := a.rN[0] == len(s.data[1]) && a.rN[1] == len(s.data[0]) && a.wN[0] == len(s.data[0]) && a.wN[1] == len(s.data[1])
		complete := counts && a.fails["bytes-differ"] == ""
		s.mu.Lock()
		errs := append([]string(nil), s.errs...)
		stallMsg := s.stallMsg
		s.mu.Unlock()
		if stallMsg != "" {
			a.failf("stalled", "%s while another session of the same underlay was not being read; read c<-s %d/%d, s<-c %d/%d", stallMsg, a.rN[0], len(s.data[1]), a.rN[1], len(s.data[0]))
		}
		if complete && len(errs) == 0 {
			// the completion claim stands at the moment of Close (the acceptor ignores everything but emissions afterwards)
			if a.xAt >= 0 {
				a.lines = append(a.lines[:a.xAt], append([]string{"F"}, a.lines[a.xAt:]...)...)
			} else {
				a.lines = append(a.lines, "F")
			}
			sum.complete++
		} else if s.spec.Shape == "close-race" || s.spec.Shape == "close-loss" {
			// closed on purpose while a Write was in progress: only the safety checks apply
			sum.complete++
		} else if counts && len(errs) == 0 {
			// every byte arrived but some differ: bytes-differ is already recorded
		} else if a.srvFirst {
			// cause classification: the server application wrote before the session had queued its open session response
			a.failf("server-write-overtakes-open-response", "server data took seq 0.. ahead of the open session response and the session did not complete (%s); read c<-s %d/%d, s<-c %d/%d at virtual %v",
				strings.Join(errs, "; "), a.rN[0], len(s.data[1]), a.rN[1], len(s.data[0]), res.virtual)
		} else if len(errs) > 0 {
			a.failf("abandoned", "%s; read c<-s %d/%d, s<-c %d/%d at virtual %v", strings.Join(errs, "; "), a.rN[0], len(s.data[1]), a.rN[1], len(s.data[0]), res.virtual)
		} else {
			a.failf("stalled", "transfer incomplete after %d virtual minutes: read c<-s %d/%d, s<-c %d/%d, written c %d/%d s %d/%d",
				sc.BudgetMin, a.rN[0], len(s.data[1]), a.rN[1], len(s.data[0]), a.wN[0], len(s.data[0]), a.wN[1], len(s.data[1]))
		}
		for _, l := range a.lines {
			r.Case(l, "OK")
		}
		sum.lines += len(a.lines)
		sum.sLines += a.nS
		sum.rLines += a.nR
		r.Rep.Distribution["retransmissions-observed"] += a.retx
		r.Rep.Distribution["window0-adverts-observed"] += a.win0
		if a.win0 > 0 {
			r.Count("sessions-with-window0")
		}
		if a.srvFirst {
			r.Count("sessions-server-data-before-open-response")
		}
		if t := s.wtimeouts.Load(); t > 0 {
			r.Rep.Distribution["write-deadline-timeouts-retried"] += int(t)
		}
		if t := s.timeouts.Load(); t > 0 {
			r.Rep.Distribution["read-timeouts-retried"] += int(t)
		}
		for sig, what := range a.fails {
			sum.failures = append(sum.failures, sig)
			r.Fail(sig, a.label+": "+what, map[string]interface{}{"seed": r.Seed, "tier": r.Tier, "schedule": sc, "session": s.idx, "label": a.label})
		}
		a.lines = nil
	}
	for _, n := range srcUse {
		if n > 1 {
			sum.shared = true
		}
	}
	return sum
}
