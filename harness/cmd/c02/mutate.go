package main

import (
	"strconv"
	"strings"

	"verifharness/refcodec"
)

// mutateResult corrupts the recorded observation of one schedule in memory (flag -mutate; self-test of the oracle
// only: retx | ack | gap | bytes).  It returns true if it found something to corrupt.
func mutateResult(res *schedResult, kind string) bool {
	seen := map[[3]uint32]bool{}
	cut := map[uint32]bool{} // sessions already cut by their X marker
	for i, e := range res.events {
		if e.Kind != "udp-send" {
			continue
		}
		if e.Note == "raw" {
			if strings.HasPrefix(e.Src, markPrefix+"X.") {
				f := strings.Split(strings.TrimSuffix(e.Src, ":0"), ".")
				if idx, err := strconv.Atoi(f[len(f)-1]); err == nil && idx < len(res.sess) {
					cut[res.sess[idx].sid] = true
				}
			}
			if kind == "bytes" && strings.HasPrefix(e.Src, markPrefix+"A.") && len(e.Data) > 0 {
				d := append([]byte(nil), e.Data...)
				d[len(d)/2] ^= 0x10
				res.events[i].Data = d
				return true
			}
			continue
		}
		seg := res.segs[e.ID]
		if seg == nil || cut[seg.Meta.SessionID] || seg.Meta.Proto == 4 || seg.Meta.Proto == 5 {
			continue
		}
		side := uint32(0)
		if e.Src == res.server {
			side = 1
		}
		m := seg.Meta
		switch kind {
		case "ack":
			if isAck(m.Proto) && m.UnAckSeq > 0 {
				c := *seg
				c.Meta.UnAckSeq += 3
				res.segs[e.ID] = &c
				return true
			}
		case "retx":
			if !sequenced(m.Proto) {
				continue
			}
			k := [3]uint32{m.SessionID, side, m.Seq}
			if seen[k] && len(seg.Payload) > 0 {
				c := *seg
				c.Payload = append([]byte(nil), seg.Payload...)
				c.Payload[0] ^= 1
				res.segs[e.ID] = &c
				return true
			}
			seen[k] = true
		case "gap":
			if isData(m.Proto) && m.Seq >= 2 {
				res.segs[e.ID] = (*refcodec.Segment)(nil)
				return true
			}
		}
	}
	return false
}
