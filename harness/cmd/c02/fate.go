package main

import (
	"sync"
	"time"

	"github.com/enfein/mieru/v3/pkg/protocol"
	"verifharness/refcodec"
	"verifharness/simnet"
	"verifharness/vh"
)

const (
	user = "alice"
	pass = "alice-password"
)

// fairness bounds of the random-loss family (the hypothesis of the progress claim)
const (
	fairSeq   = protocol.VerifC02TxCountLimit - 5 // at most this many consecutive drops of one (session, direction, seq)
	fairDir   = 8                                 // at most this many consecutive drops in one direction
	fairTx    = 8                                 // a sequenced segment at its 8th or later transmission is delivered ...
	fairGrace = time.Second                       // ... and every datagram of its session is delivered for this long afterwards
)

// decoder opens datagrams with the keys of the slot of their time (cached per slot).
type decoder struct {
	hp    []byte
	cache map[int64][][]byte
}

func newDecoder() *decoder {
	return &decoder{hp: refcodec.HashedPassword(user, pass), cache: map[int64][][]byte{}}
}

func (d *decoder) keys(t time.Time) [][]byte {
	slot := refcodec.SlotOf(t)
	if k, ok := d.cache[slot]; ok {
		return k
	}
	ks := refcodec.KeysAt(d.hp, t)
	k := [][]byte{ks[1], ks[0], ks[2]}
	d.cache[slot] = k
	return k
}

func (d *decoder) decode(t time.Time, data []byte) *refcodec.Segment {
	seg, _, err := refcodec.DecodeDatagram(d.keys(t), data)
	if err != nil {
		return nil
	}
	return &seg
}

func sequenced(p uint8) bool { return (p >= 2 && p <= 7) || p == 10 || p == 11 }
func isData(p uint8) bool    { return p == 6 || p == 7 || p == 10 || p == 11 }
func isAck(p uint8) bool     { return p == 8 || p == 9 }

type seqKey struct {
	sid  uint32
	side int
	seq  uint32
}
type sideKey struct {
	sid  uint32
	side int
}
type seqState struct{ tx, consec int }
type sideState struct {
	dataN, ackN int
	zero        bool
	everZero    bool
}

type fateStats struct {
	datagrams, drops, dups, delays, retx, win0, reopen, forced, undecodable, faultsFired int
}

type fate struct {
	mu     sync.Mutex
	sc     *Schedule
	rng    *vh.Rng
	dec    *decoder
	server string
	segs   map[int]*refcodec.Segment // datagram id -> decoded segment (nil if it does not decode)
	n      int
	dir    [2]int
	per    map[seqKey]*seqState
	ss     map[sideKey]*sideState
	force  map[uint32]time.Time
	st     fateStats
}

func newFate(sc *Schedule, server string) *fate {
	return &fate{sc: sc, rng: vh.NewRng(sc.FateSeed), dec: newDecoder(), server: server, segs: map[int]*refcodec.Segment{},
		per: map[seqKey]*seqState{}, ss: map[sideKey]*sideState{}, force: map[uint32]time.Time{}}
}

func ms(n int) time.Duration { return time.Duration(n) * time.Millisecond }

func (f *fate) decide(d *simnet.Datagram) []simnet.Delivery {
	f.mu.Lock()
	defer f.mu.Unlock()
	now := time.Now()
	seg := f.dec.decode(now, d.Data)
	f.segs[d.ID] = seg
	idx := f.n
	f.n++
	f.st.datagrams++
	side := 0
	if d.Src == f.server {
		side = 1
	}
	one := []simnet.Delivery{{}}
	if seg == nil {
		f.st.undecodable++
		return one
	}
	m := seg.Meta
	sid := m.SessionID
	ssk := sideKey{sid, side}
	ss := f.ss[ssk]
	if ss == nil {
		ss = &sideState{}
		f.ss[ssk] = ss
	}
	var sq *seqState
	retx := false
	if sequenced(m.Proto) {
		k := seqKey{sid, side, m.Seq}
		sq = f.per[k]
		if sq == nil {
			sq = &seqState{}
			f.per[k] = sq
		}
		sq.tx++
		retx = sq.tx > 1
		if retx {
			f.st.retx++
		}
	}
	dataK, ackK := -1, -1
	if isData(m.Proto) && !retx {
		dataK = ss.dataN
		ss.dataN++
	}
	if isAck(m.Proto) {
		ackK = ss.ackN
		ss.ackN++
	}
	reopen := false
	if m.Proto >= 6 && m.Proto <= 11 {
		if m.WindowSize == 0 {
			ss.zero = true
			ss.everZero = true
			f.st.win0++
		} else if ss.zero {
			ss.zero = false
			reopen = true
			f.st.reopen++
		}
	}

	delivered := func() {
		f.dir[side] = 0
		if sq != nil {
			sq.consec = 0
		}
	}

	// scripted faults
	for _, ft := range f.sc.Faults {
		if ft.fired || (ft.Side >= 0 && ft.Side != side) {
			continue
		}
		hit := false
		switch ft.Target {
		case "open-req":
			hit = m.Proto == 2 && !retx
		case "open-resp":
			hit = m.Proto == 3 && !retx
		case "data":
			hit = dataK == ft.K
		case "ack":
			hit = ackK == ft.K
		case "retx":
			hit = retx
		case "reopen":
			hit = reopen
		case "index":
			hit = idx == ft.K
		}
		if !hit {
			continue
		}
		ft.fired = true
		f.st.faultsFired++
		switch ft.Kind {
		case "drop":
			f.st.drops++
			f.dir[side]++
			if sq != nil {
				sq.consec++
			}
			return nil
		case "dup":
			f.st.dups++
			delivered()
			return []simnet.Delivery{{}, {Delay: ms(ft.DelayMs)}}
		case "delay":
			f.st.delays++
			delivered()
			return []simnet.Delivery{{Delay: ms(ft.DelayMs)}}
		}
	}

	if f.sc.LossPct == 0 && f.sc.DupPct == 0 && f.sc.ReorderPct == 0 {
		delivered()
		return one
	}

	// sustained random faults under the fairness bounds
	drop := f.rng.Intn(100) < f.sc.LossPct
	if drop {
		forced := false
		if sq != nil && sq.tx >= fairTx {
			f.force[sid] = now.Add(fairGrace)
			forced = true
		}
		if until, ok := f.force[sid]; ok && now.Before(until) {
			forced = true
		}
		if sq != nil && sq.consec >= fairSeq {
			forced = true
		}
		if f.dir[side] >= fairDir {
			forced = true
		}
		if forced {
			f.st.forced++
			drop = false
		}
	} else if sq != nil && sq.tx >= fairTx {
		f.force[sid] = now.Add(fairGrace)
	}
	if drop {
		f.st.drops++
		f.dir[side]++
		if sq != nil {
			sq.consec++
		}
		return nil
	}
	delivered()
	dl := simnet.Delivery{}
	if f.rng.Intn(100) < f.sc.ReorderPct {
		dl.Delay = time.Duration(f.rng.Intn(f.sc.ExtraMs*1000+1)) * time.Microsecond
		f.st.delays++
	}
	if f.rng.Intn(100) < f.sc.DupPct {
		f.st.dups++
		return []simnet.Delivery{dl, {Delay: time.Duration(f.rng.Intn(f.sc.ExtraMs*1000+1)) * time.Microsecond}}
	}
	return []simnet.Delivery{dl}
}

// sawZero: the endpoint `side` of session sid has advertised receive window 0 at least once.
func (f *fate) sawZero(sid uint32, side int) bool {
	f.mu.Lock()
	defer f.mu.Unlock()
	ss := f.ss[sideKey{sid, side}]
	return ss != nil && ss.everZero
}
