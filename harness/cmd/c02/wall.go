package main

import (
	"syscall"
	"unsafe"
)

// wallNow reads the real (not virtual) monotonic clock in ms; used only for cost accounting in log.txt.
func wallNow() int64 {
	var ts syscall.Timespec
	syscall.Syscall(syscall.SYS_CLOCK_GETTIME, 1, uintptr(unsafe.Pointer(&ts)), 0)
	return ts.Sec*1000 + ts.Nsec/1000000
}
