package main

import (
	"fmt"
	"math"

	"verifharness/vh"
)

// ---------------------------------------------------------------- schedule description (JSON-able, replayable)

// Fault is one scripted fault; it fires once, on the first datagram that matches.
type Fault struct {
	Target  string `json:"target"`   // open-req open-resp data ack retx reopen index
	Side    int    `json:"side"`     // emitting side the fault applies to: 0 client, 1 server, -1 any
	K       int    `json:"k"`        // data: k-th first transmission of a data datagram of that side; ack: k-th ack; index: global datagram index
	Kind    string `json:"kind"`     // drop dup delay
	DelayMs int    `json:"delay_ms"` // extra delay of the (second) delivery
	fired   bool
}

// SessSpec describes the application traffic of one session.
type SessSpec struct {
	Shape      string `json:"shape"`       // reqresp duplex upload download slow-up slow-down idle
	CBytes     int    `json:"c_bytes"`     // bytes the client writes
	SBytes     int    `json:"s_bytes"`     // bytes the server writes
	FirstWrite int    `json:"first_write"` // size of the client's first Write
	SFirst     int    `json:"s_first"`     // duplex: size of the server's first Write (0 = random)
	MaxWrite   int    `json:"max_write"`   // upper bound of a Write
	ReadStyle  int    `json:"read_style"`  // 0 small buffers, 1 64 KiB buffers, 2 mixed
	Rounds     int    `json:"rounds"`      // reqresp rounds
	PauseMs    int    `json:"pause_ms"`    // slow reader: initial pause of the reader
	StartMs    int    `json:"start_ms"`    // delay before Dial
	Seed       uint64 `json:"seed"`        // content and size choices
	Msgs       int    `json:"msgs,omitempty"`     // exact-up/exact-down/close-race: number of one-segment Writes of the sending side
	MsgSize    int    `json:"msg_size,omitempty"` // ... and their size
	Unpaced    int    `json:"unpaced,omitempty"`  // exact-*: the first Unpaced messages are written back to back, the rest one per PaceMs
	PaceMs     int    `json:"pace_ms,omitempty"`
	RoundBoundMs int  `json:"round_bound_ms,omitempty"` // echo: every read of a reply must complete within this much virtual time (loss-free schedules only)
	DeadlineMs int    `json:"deadline_ms,omitempty"` // deadline: write deadline set before every Write of the client
	ArmAfter   int    `json:"arm_after,omitempty"` // close-race: the client socket starts stalling after this many messages
	Variant    int    `json:"variant,omitempty"`   // close-race: 1 = client Close while the output loop stalls in WriteTo of a data datagram;
	// 2 = the server closes first, the client's input loop stalls in WriteTo of the close session response (holding the output lock),
	// the client's output loop and a client Write queue up behind it, then the client application calls Close
}

type Schedule struct {
	ID          string     `json:"id"`
	Family      string     `json:"family"` // baseline scripted exhaustive random slow big
	Seed        uint64     `json:"driver_seed"`
	MTU         int        `json:"mtu"`                  // client MTU (and server MTU when ServerMTU is 0)
	ServerMTU   int        `json:"server_mtu,omitempty"` // MTU of the server endpoint; both ends may legally differ in [1280,1500]
	Multiplex   int        `json:"multiplex"`
	LEMode      int        `json:"le_mode"` // 0 off, 1..4
	LERot       int        `json:"le_rot"`
	LatencyMs   int        `json:"latency_ms"`
	LossPct     int        `json:"loss_pct"`
	DupPct      int        `json:"dup_pct"`
	ReorderPct  int        `json:"reorder_pct"`
	ExtraMs     int        `json:"extra_ms"` // maximal random extra delay
	Faults      []*Fault   `json:"faults"`
	Sessions    []SessSpec `json:"sessions"`
	PostCloseMs int        `json:"post_close_ms,omitempty"` // keep both Mux alive this long after the sessions were closed (late datagrams still arrive)
	LingerMs    int        `json:"linger_ms"`  // wait between completion and Close (lets trailing acks into the case)
	BudgetMin   int        `json:"budget_min"` // virtual minutes
	FateSeed    uint64     `json:"fate_seed"`
	ServerFirst bool       `json:"server_first"` // the server application starts right after Accept (otherwise after 1 ms of virtual time)
	SlowSock    bool       `json:"slow_sock,omitempty"` // the client socket is wrapped: WriteTo of a data datagram sleeps StallMs (like a full socket buffer) once armed
	StallMs     int        `json:"stall_ms,omitempty"`
	Procs       int        `json:"procs"`        // GOMAXPROCS during this schedule (1 is three times cheaper under faketime; 2 gives real parallelism)
}

var mtus = []int{1280, 1281, 1350, 1400, 1499, 1500}

func (s *Schedule) faultName() string {
	if len(s.Faults) == 0 {
		if s.LossPct > 0 || s.DupPct > 0 || s.ReorderPct > 0 {
			return fmt.Sprintf("loss%d", (s.LossPct+9)/10*10)
		}
		return "none"
	}
	f := s.Faults[len(s.Faults)-1]
	return f.Target + "-" + f.Kind
}

func (s *Schedule) totalBytes() int {
	n := 0
	for _, x := range s.Sessions {
		n += x.CBytes + x.SBytes
	}
	return n
}

// logUniform returns a value in [lo,hi], roughly uniform in the exponent.
func logUniform(r *vh.Rng, lo, hi int) int {
	if hi <= lo {
		return lo
	}
	// choose a bit length, then a value below it
	bl, bh := 0, 0
	for v := lo; v > 1; v >>= 1 {
		bl++
	}
	for v := hi; v > 1; v >>= 1 {
		bh++
	}
	b := r.Range(bl, bh)
	v := (1 << uint(b)) + r.Intn(1<<uint(b))
	if v < lo {
		v = lo
	}
	if v > hi {
		v = hi
	}
	return v
}

// expUniform returns a value in [lo,hi) whose logarithm is uniform.
func expUniform(r *vh.Rng, lo, hi int) int {
	u := float64(r.U64()>>11) / float64(1<<53)
	return int(float64(lo) * math.Pow(float64(hi)/float64(lo), u))
}

// ---------------------------------------------------------------- session specs

func sess(r *vh.Rng, shape string, total int) SessSpec {
	s := SessSpec{Shape: shape, Seed: r.U64(), MaxWrite: 200 * 1024, ReadStyle: r.Intn(3)}
	if total < 4 {
		total = 4
	}
	switch shape {
	case "reqresp", "idle":
		s.Rounds = r.Range(1, 6)
		if shape == "idle" {
			s.Rounds = r.Range(2, 3)
		}
		s.CBytes = r.Range(s.Rounds, total-s.Rounds)
		s.SBytes = total - s.CBytes
		if s.SBytes < s.Rounds {
			s.SBytes = s.Rounds
		}
		if s.CBytes < s.Rounds {
			s.CBytes = s.Rounds
		}
	case "duplex":
		s.CBytes = r.Range(1, total-1)
		s.SBytes = total - s.CBytes
	case "upload":
		s.SBytes = r.Range(1, 16)
		s.CBytes = total - s.SBytes
		if s.CBytes < 1 {
			s.CBytes = 1
		}
	case "download":
		s.CBytes = r.Range(1, 64)
		if r.Intn(4) == 0 {
			s.CBytes = r.Range(1025, 3000) // request does not fit into the open request
		}
		s.SBytes = total - s.CBytes
		if s.SBytes < 1 {
			s.SBytes = 1
		}
	case "slow-up": // many tiny writes client->server, the server's reader pauses first: the receive window closes
		s.MaxWrite = 64
		s.CBytes = total
		s.SBytes = r.Range(1, 16)
		s.PauseMs = 10000
		s.ReadStyle = 1
	case "slow-down":
		s.MaxWrite = 64
		s.CBytes = r.Range(1, 64)
		s.SBytes = total
		s.PauseMs = 10000
		s.ReadStyle = 1
	default:
		panic("shape " + shape)
	}
	// first write: at most 1024 bytes (travels inside the open request) or more
	switch r.Intn(4) {
	case 0:
		s.FirstWrite = r.Range(1025, 5000)
	case 1:
		s.FirstWrite = r.Range(1000, 1024)
	default:
		s.FirstWrite = logUniform(r, 1, 1024)
	}
	if s.MaxWrite < s.FirstWrite {
		if shape == "slow-up" || shape == "slow-down" {
			s.FirstWrite = r.Range(1, s.MaxWrite)
		}
	}
	return s
}

var shapes = []string{"reqresp", "duplex", "upload", "download", "reqresp", "duplex"}

func pickShape(r *vh.Rng) string { return shapes[r.Intn(len(shapes))] }

// ---------------------------------------------------------------- schedule families

type gen struct {
	r    *vh.Rng
	seed uint64
	n    int
}

func (g *gen) base(family string) *Schedule {
	g.n++
	s := &Schedule{ID: fmt.Sprintf("%s%04d", family[:1], g.n), Family: family, Seed: g.seed, MTU: mtus[g.r.Intn(len(mtus))],
		LatencyMs: g.r.Range(1, 20), LingerMs: 0, BudgetMin: 10, FateSeed: g.r.U64()}
	if g.r.Intn(3) == 0 {
		s.LingerMs = 4*s.LatencyMs + 30
	}
	if g.r.Intn(5) == 0 {
		s.LEMode = g.r.Range(1, 4)
		s.LERot = []int{0, 1, 7, 16, 240}[g.r.Intn(5)]
	}
	if g.r.Intn(3) == 0 {
		// the two ends are configured independently: any pair of legal MTUs
		s.ServerMTU = mtus[g.r.Intn(len(mtus))]
	}
	return s
}

func (s *Schedule) serverMTU() int {
	if s.ServerMTU == 0 {
		return s.MTU
	}
	return s.ServerMTU
}

func (g *gen) sessions(s *Schedule, total int, multi bool) {
	n := 1
	if multi {
		n = g.r.Range(2, 4)
		s.Multiplex = 10
	}
	for i := 0; i < n; i++ {
		x := sess(g.r, pickShape(g.r), total/n)
		if i > 0 {
			x.StartMs = g.r.Intn(40)
		}
		s.Sessions = append(s.Sessions, x)
	}
}

var kinds = []string{"drop", "dup", "delay"}

// fault kinds of the exhaustive family: "dup-now" delivers the second copy right behind the original (1 ms), "dup" 25 ms later
var exKinds = []string{"drop", "dup-now", "dup", "delay"}

// scripted single faults (family a)
func (g *gen) scripted(total int, target string, kind string, multi bool) *Schedule {
	s := g.base("scripted")
	g.sessions(s, total, multi)
	f := &Fault{Target: target, Side: g.r.Intn(2), Kind: kind, DelayMs: 3*s.LatencyMs + g.r.Range(5, 60)}
	switch target {
	case "open-req":
		f.Side = 0
	case "open-resp":
		f.Side = 1
	case "data":
		f.K = g.r.Intn(6)
		if g.r.Intn(3) == 0 {
			f.K = g.r.Intn(1 + total/4000)
		}
	case "ack":
		f.K = g.r.Intn(4)
	case "retx":
		// a retransmission needs a loss first
		s.Faults = append(s.Faults, &Fault{Target: "data", Side: f.Side, K: g.r.Intn(3), Kind: "drop"})
	}
	s.Faults = append(s.Faults, f)
	if target == "data" || target == "retx" {
		// make sure the chosen side sends data at all
		for i := range s.Sessions {
			if s.Sessions[i].Shape == "upload" && f.Side == 1 {
				s.Sessions[i].Shape = "duplex"
				s.Sessions[i] = sess(g.r, "duplex", total)
			}
		}
	}
	s.LingerMs = 4*s.LatencyMs + 100
	return s
}

// window-closing schedule with an optional fault on the datagram that reopens the window
func (g *gen) slow(kind string, total int) *Schedule {
	s := g.base("slow")
	s.LEMode = 0
	s.LatencyMs = g.r.Range(1, 5)
	shape := "slow-up"
	side := 1
	if g.r.Bool() {
		shape, side = "slow-down", 0
	}
	s.Sessions = []SessSpec{sess(g.r, shape, total)}
	if kind != "" {
		s.Faults = []*Fault{{Target: "reopen", Side: side, Kind: kind, DelayMs: 3*s.LatencyMs + 20}}
	}
	s.BudgetMin = 20
	return s
}

// sustained random loss / duplication / reordering (family c)
func (g *gen) random(total int, multi bool, maxLoss int) *Schedule {
	s := g.base("random")
	s.LatencyMs = g.r.Range(1, 50)
	s.LossPct = g.r.Range(1, maxLoss)
	s.DupPct = g.r.Intn(11)
	s.ReorderPct = g.r.Intn(31)
	s.ExtraMs = g.r.Range(1, 4*s.LatencyMs+10)
	g.sessions(s, total, multi)
	s.BudgetMin = 10 + 10*(total*len(s.Sessions)/(256*1024))
	return s
}

// the short session of family (b): one small request, one small response
func shortSession(r *vh.Rng, variant int) (SessSpec, int, int) {
	// three request/response rounds: after a fault at any position of the first two rounds application data still flows in BOTH directions
	x := SessSpec{Shape: "reqresp", Rounds: 3, CBytes: r.Range(60, 300), SBytes: r.Range(60, 600), MaxWrite: 200 * 1024, ReadStyle: 1, Seed: r.U64()}
	x.FirstWrite = 0
	mtu, le := 1400, 0
	switch variant {
	case 1: // request larger than the open request can carry, two fragments back
		x.CBytes, x.FirstWrite, x.SBytes = 2500, 1500, 3000
		mtu = 1280
	case 2: // low entropy
		le = 2
		mtu = 1500
	}
	return x, mtu, le
}

func (g *gen) exhaustiveBase(variant int) *Schedule {
	g.n++
	x, mtu, le := shortSession(g.r, variant)
	return &Schedule{ID: fmt.Sprintf("e%04d", g.n), Family: "exhaustive", Seed: g.seed, MTU: mtu, LEMode: le, LatencyMs: 10,
		Sessions: []SessSpec{x}, LingerMs: 150, BudgetMin: 10, FateSeed: g.r.U64()}
}

func (g *gen) exhaustiveFault(base *Schedule, i int, kind string) *Schedule {
	g.n++
	s := *base
	s.ID = fmt.Sprintf("e%04d", g.n)
	s.Sessions = append([]SessSpec(nil), base.Sessions...)
	s.Faults = []*Fault{{Target: "index", Side: -1, K: i, Kind: kind, DelayMs: 25}}
	if kind == "dup-now" {
		s.Faults[0].Kind, s.Faults[0].DelayMs = "dup", 1
	}
	if kind == "delay" {
		s.Faults[0].DelayMs = 45
	}
	return &s
}

// the receive window closes EXACTLY (nothing in flight at the sender when the backlog reaches segmentTreeCapacity) and is
// reopened only by the receiver's heartbeat ack: one-segment messages, the last ones paced one per round trip; the receiving
// application does not read until its endpoint has advertised window 0, then reads everything
func (g *gen) exact(up bool, kind string) *Schedule {
	s := g.base("exact")
	s.ID = "x" + s.ID[1:]
	s.LEMode, s.LERot = 0, 0
	s.LatencyMs = g.r.Range(1, 4)
	s.LingerMs = 50
	shape := "exact-up"
	if !up {
		shape = "exact-down"
	}
	x := SessSpec{Shape: shape, Seed: g.r.U64(), MaxWrite: 64, ReadStyle: 1, MsgSize: g.r.Range(8, 48), Msgs: 4096 + 8,
		Unpaced: g.r.Range(3000, 3800), PaceMs: 2*s.LatencyMs + g.r.Range(6, 12)}
	if up {
		x.CBytes, x.SBytes, x.FirstWrite = x.Msgs*x.MsgSize, g.r.Range(1, 16), x.MsgSize
	} else {
		x.SBytes, x.CBytes, x.FirstWrite = x.Msgs*x.MsgSize, g.r.Range(1, 16), 0
	}
	s.Sessions = []SessSpec{x}
	if kind != "" {
		side := 1
		if !up {
			side = 0
		}
		s.Faults = []*Fault{{Target: "reopen", Side: side, Kind: kind, DelayMs: 3*s.LatencyMs + 20}}
	}
	s.BudgetMin = 3
	return s
}

// Close is called on the client while a client Write is in progress and the output loop sits in a slow WriteTo (holding the
// output lock): the close session request and the data fragment compete for the next sequence number
func (g *gen) closeRace() *Schedule {
	s := g.base("closerace")
	s.ID = "c" + s.ID[1:]
	s.LEMode, s.LERot = 0, 0
	s.LatencyMs = g.r.Range(1, 5)
	s.LingerMs = 0
	s.SlowSock, s.StallMs = true, g.r.Range(3, 8)
	s.Procs = 2 // the race needs real parallelism between the woken Close and the output loop (more Ps make faketime very slow)
	x := SessSpec{Shape: "close-race", Seed: g.r.U64(), MaxWrite: 1024, ReadStyle: 1, MsgSize: g.r.Range(300, 1000), Msgs: g.r.Range(6, 30),
		FirstWrite: g.r.Range(1, 64)}
	x.ArmAfter = g.r.Range(1, x.Msgs-2)
	x.Variant = 1 // variant 2 is kept for -only replays; it rarely gets the data fragment onto the wire (the closed server stops acknowledging)
	if x.Variant == 2 {
		x.Msgs += 40 // the writer must still be writing when the server's close request arrives
		s.StallMs = g.r.Range(4, 9)
	}
	x.CBytes, x.SBytes = x.FirstWrite+x.Msgs*x.MsgSize, g.r.Range(1, 16)
	s.Sessions = []SessSpec{x}
	s.BudgetMin = 2
	return s
}

// the two ends use different legal MTUs; bulk data in both directions so that full-size fragments of the larger-MTU end
// travel to the smaller-MTU end; fault-free or under sustained loss
func (g *gen) mtuPair(cm, sm int, lossy bool) *Schedule {
	s := g.base("mtu")
	s.MTU, s.ServerMTU = cm, sm
	s.LatencyMs = g.r.Range(1, 10)
	total := expUniform(g.r, 12*1024, 48*1024)
	shape := []string{"duplex", "duplex", "reqresp", "download", "upload"}[g.r.Intn(5)]
	x := sess(g.r, shape, total)
	if shape == "reqresp" {
		x.Rounds = 2
	}
	s.Sessions = []SessSpec{x}
	if lossy {
		s.LossPct, s.DupPct, s.ReorderPct = g.r.Range(2, 15), g.r.Intn(6), g.r.Intn(15)
		s.ExtraMs = g.r.Range(1, 4*s.LatencyMs+10)
	}
	return s
}

// several sessions on ONE UDP underlay: session A floods a peer whose application does not read until far more than
// segmentTreeCapacity segments have been sent (window closes, overshoot, retransmissions), session B does small echo
// exchanges all the time and every one of them must complete promptly; afterwards A's reader resumes and A completes too
func (g *gen) muxStall(up bool) *Schedule {
	s := g.base("muxstall")
	s.LEMode, s.LERot = 0, 0
	s.ServerMTU = 0
	s.LatencyMs = g.r.Range(15, 30) // stale window advertisements: the flooding sender overshoots the closing window
	s.Multiplex = 10
	shape := "slow-up"
	if !up {
		shape = "slow-down"
	}
	a := sess(g.r, shape, g.r.Range(4700, 5200)*33)
	a.PauseMs = 40000
	b := SessSpec{Shape: "echo", Seed: g.r.U64(), MaxWrite: 2048, ReadStyle: 1, Rounds: g.r.Range(100, 140), PaceMs: g.r.Range(150, 250),
		FirstWrite: g.r.Range(10, 900), RoundBoundMs: 6000, StartMs: g.r.Range(5, 60)}
	b.CBytes = b.Rounds * g.r.Range(100, 1000)
	b.SBytes = b.Rounds * g.r.Range(100, 1000)
	s.Sessions = []SessSpec{a, b}
	s.BudgetMin = 5
	return s
}

// write deadlines: the client socket stalls in WriteTo of every data datagram (the output loop holds the output lock for the
// whole batch), the client writes multi-fragment messages each under a write deadline shorter than, around or longer than
// that wait; timed-out Writes are retried, the session stays in use, the server answers at the end
func (g *gen) deadline(i int) *Schedule {
	s := g.base("deadline")
	s.ID = "d" + s.ID[1:]
	s.LEMode, s.LERot = 0, 0
	s.LatencyMs = g.r.Range(1, 8)
	s.SlowSock, s.StallMs = true, g.r.Range(8, 30)
	s.Procs = 1
	x := SessSpec{Shape: "deadline", Seed: g.r.U64(), MaxWrite: 8192, ReadStyle: 1, FirstWrite: g.r.Range(1, 900)}
	x.MsgSize = g.r.Range(2, 5)*(s.MTU-104) + g.r.Range(1, 300)
	x.Msgs = g.r.Range(5, 12)
	x.CBytes, x.SBytes = x.FirstWrite+x.Msgs*x.MsgSize, g.r.Range(1, 40)
	switch i % 3 {
	case 0:
		x.DeadlineMs = s.StallMs/2 + 1 // shorter than one stall
	case 1:
		x.DeadlineMs = s.StallMs * g.r.Range(1, 3) // around the time the writer waits for the lock
	default:
		x.DeadlineMs = s.StallMs * 12 // longer
	}
	s.Sessions = []SessSpec{x}
	s.BudgetMin = 3
	return s
}

// the client closes with data in flight and one of the data datagrams in front of the close request is lost: what the
// server emits while it closes must not acknowledge past the hole (safety only)
func (g *gen) closeLoss() *Schedule {
	s := g.base("closeloss")
	s.ID = "l" + s.ID[1:]
	s.LEMode, s.LERot = 0, 0
	s.LatencyMs = g.r.Range(1, 10)
	s.LingerMs = 0
	nf := g.r.Range(3, 6)
	x := SessSpec{Shape: "close-loss", Seed: g.r.U64(), MaxWrite: 1 << 20, ReadStyle: 1, FirstWrite: g.r.Range(1, 900)}
	x.SFirst = g.r.Range(1, 16)
	x.CBytes, x.SBytes = x.FirstWrite+(nf-1)*(s.MTU-104)+g.r.Range(1, 800), x.SFirst+g.r.Range(8, 60)*1024
	s.Sessions = []SessSpec{x}
	s.Faults = []*Fault{{Target: "data", Side: 0, K: g.r.Intn(nf - 1), Kind: "drop"}}
	s.BudgetMin = 2
	return s
}

// witness of the recorded finding stateless-close-reply-reuses-sequence-number: an early ack of the client is delayed until the
// server has closed and forgotten the session; the server's underlay answers it with a closeSessionRequest whose sequence field
// is the ack number of that old ack - a number the server has meanwhile used for a data segment
func (g *gen) statelessClose(delayMs int) *Schedule {
	g.n++
	x := SessSpec{Shape: "reqresp", Rounds: 3, CBytes: 240, SBytes: 480, MaxWrite: 200 * 1024, ReadStyle: 1, Seed: 7}
	return &Schedule{ID: fmt.Sprintf("k%04d", g.n), Family: "statelessclose", Seed: g.seed, MTU: 1400, LatencyMs: 10,
		Sessions: []SessSpec{x}, LingerMs: 100, PostCloseMs: 12000, BudgetMin: 2, FateSeed: 1,
		// the first late ack makes the server's event loop come round to its 5 s session clean-up, the second one finds the session gone
		Faults: []*Fault{{Target: "ack", Side: 0, K: 0, Kind: "delay", DelayMs: delayMs}, {Target: "ack", Side: 0, K: 1, Kind: "delay", DelayMs: delayMs + 1500}}}
}
