package main

import (
	"context"
	"errors"
	"fmt"
	"net"
	"runtime"
	"sync"
	"sync/atomic"
	"time"

	"github.com/enfein/mieru/v3/pkg/appctl/appctlpb"
	"github.com/enfein/mieru/v3/pkg/cipher"
	"github.com/enfein/mieru/v3/pkg/common"
	"github.com/enfein/mieru/v3/pkg/protocol"
	"github.com/enfein/mieru/v3/pkg/stderror"
	"verifharness/refcodec"
	"verifharness/rig"
	"verifharness/simnet"
	"verifharness/vh"
)

const markPrefix = "app-"

// ---------------------------------------------------------------- application scripts

type op struct {
	kind byte // 'w' write n bytes, 'r' read n bytes, 's' sleep d, 'z' wait until this side's endpoint advertised window 0 then sleep d,
	// 'a' arm the slow client socket, 'c' wait until the client socket stalls inside WriteTo, sleep d, then Close the client (and the session)
	n    int
	d    time.Duration
}

type sessRun struct {
	idx      int
	spec     SessSpec
	sid      uint32
	haveSID  bool
	cli, srv net.Conn
	data     [2][]byte // data[side] = bytes that side writes
	threads  [2][][]op
	srvCh    chan net.Conn
	mu       sync.Mutex
	errs     []string
	closing  atomic.Bool
	armCh    chan struct{} // close-race: the writer reached its arming point
	closeCh  chan struct{} // closed when closing is set
	done     chan struct{} // all threads finished
	finished atomic.Bool   // all threads finished without error
	timeouts atomic.Int64
	wtimeouts atomic.Int64 // Writes that returned (0, ErrTimeout) under a write deadline
	stallMsg string // echo: a reply took longer than RoundBoundMs (guarded by mu)
}

func (s *sessRun) fail(format string, a ...interface{}) {
	if s.closing.Load() {
		return
	}
	s.mu.Lock()
	s.errs = append(s.errs, fmt.Sprintf(format, a...))
	s.mu.Unlock()
}

// writes splits total bytes into Write sizes.
func writes(r *vh.Rng, total, first, max int) []op {
	var out []op
	if first > 0 {
		if first > total {
			first = total
		}
		out = append(out, op{kind: 'w', n: first})
		total -= first
	}
	for total > 0 {
		n := logUniform(r, 1, max)
		if r.Intn(4) == 0 && max > 1500 {
			n = r.Range(1000, 1500) // around one fragment
		}
		if n > total {
			n = total
		}
		out = append(out, op{kind: 'w', n: n})
		total -= n
		if r.Intn(16) == 0 {
			out = append(out, op{kind: 's', d: time.Duration(r.Intn(30000)) * time.Microsecond})
		}
	}
	return out
}

func split(r *vh.Rng, total, parts int) []int {
	out := make([]int, parts)
	for i := range out {
		out[i] = 1
	}
	rest := total - parts
	for i := 0; i < parts-1 && rest > 0; i++ {
		v := r.Intn(rest + 1)
		if r.Bool() {
			v = r.Intn(rest/(parts-i) + 1)
		}
		out[i] += v
		rest -= v
	}
	out[parts-1] += rest
	return out
}

func plan(idx int, spec SessSpec) *sessRun {
	s := &sessRun{idx: idx, spec: spec, srvCh: make(chan net.Conn, 1), done: make(chan struct{}), closeCh: make(chan struct{}), armCh: make(chan struct{}, 1)}
	r := vh.NewRng(spec.Seed)
	s.data[0] = r.Bytes(spec.CBytes)
	s.data[1] = r.Bytes(spec.SBytes)
	switch spec.Shape {
	case "reqresp", "idle", "upload", "download", "echo":
		rounds := spec.Rounds
		if rounds < 1 {
			rounds = 1
		}
		req := split(r, spec.CBytes, rounds)
		resp := split(r, spec.SBytes, rounds)
		var c, v []op
		for i := 0; i < rounds; i++ {
			first := 0
			if i == 0 {
				first = spec.FirstWrite
			}
			c = append(c, writes(r, req[i], first, spec.MaxWrite)...)
			c = append(c, op{kind: 'r', n: resp[i]})
			v = append(v, op{kind: 'r', n: req[i]})
			v = append(v, writes(r, resp[i], 0, spec.MaxWrite)...)
			if spec.Shape == "echo" && i+1 < rounds {
				c = append(c, op{kind: 's', d: ms(spec.PaceMs)})
			}
			if spec.Shape == "idle" && i+1 < rounds {
				// longer than the heartbeat interval: heartbeat acks appear
				c = append(c, op{kind: 's', d: time.Duration(6500+r.Intn(6000)) * time.Millisecond})
			}
		}
		s.threads[0] = [][]op{c}
		s.threads[1] = [][]op{v}
	case "duplex":
		s.threads[0] = [][]op{writes(r, spec.CBytes, spec.FirstWrite, spec.MaxWrite), {{kind: 'r', n: spec.SBytes}}}
		s.threads[1] = [][]op{writes(r, spec.SBytes, spec.SFirst, spec.MaxWrite), {{kind: 'r', n: spec.CBytes}}}
	case "slow-up":
		s.threads[0] = [][]op{append(writes(r, spec.CBytes, spec.FirstWrite, spec.MaxWrite), op{kind: 'r', n: spec.SBytes})}
		s.threads[1] = [][]op{append([]op{{kind: 'r', n: 1}, {kind: 's', d: ms(spec.PauseMs)}, {kind: 'r', n: spec.CBytes - 1}}, writes(r, spec.SBytes, 0, 16)...)}
	case "slow-down":
		s.threads[0] = [][]op{append(writes(r, spec.CBytes, spec.FirstWrite, spec.MaxWrite), op{kind: 'r', n: 1}, op{kind: 's', d: ms(spec.PauseMs)}, op{kind: 'r', n: spec.SBytes - 1})}
		s.threads[1] = [][]op{append([]op{{kind: 'r', n: spec.CBytes}}, writes(r, spec.SBytes, 0, spec.MaxWrite)...)}
	case "exact-up", "exact-down":
		snd, total := 0, spec.CBytes
		if spec.Shape == "exact-down" {
			snd, total = 1, spec.SBytes
		}
		var w []op
		if snd == 1 {
			w = append(w, op{kind: 'r', n: spec.CBytes})
		}
		for i := 0; i < spec.Msgs; i++ {
			n := spec.MsgSize
			if n > total {
				n = total
			}
			total -= n
			w = append(w, op{kind: 'w', n: n})
			if i == spec.Unpaced {
				w = append(w, op{kind: 's', d: 2 * time.Second})
			}
			if i > spec.Unpaced {
				w = append(w, op{kind: 's', d: ms(spec.PaceMs)})
			}
		}
		var rd []op
		if snd == 0 {
			w = append(w, op{kind: 'r', n: spec.SBytes})
			rd = append([]op{{kind: 'z', d: 300 * time.Millisecond}, {kind: 'r', n: spec.CBytes}}, writes(r, spec.SBytes, 0, 16)...)
		} else {
			rd = append(writes(r, spec.CBytes, 0, 16), op{kind: 'z', d: 300 * time.Millisecond}, op{kind: 'r', n: spec.SBytes})
		}
		s.threads[snd] = [][]op{w}
		s.threads[1-snd] = [][]op{rd}
	case "deadline":
		// the client uploads multi-fragment messages, every Write under a write deadline, over a socket whose WriteTo stalls
		// (the output loop holds the output lock meanwhile); then the server answers
		c := []op{{kind: 'a'}, {kind: 'w', n: spec.FirstWrite}}
		rest := spec.CBytes - spec.FirstWrite
		for rest > 0 {
			n := spec.MsgSize
			if n > rest {
				n = rest
			}
			rest -= n
			c = append(c, op{kind: 'w', n: n, d: ms(spec.DeadlineMs)})
		}
		c = append(c, op{kind: 'r', n: spec.SBytes})
		s.threads[0] = [][]op{c}
		s.threads[1] = [][]op{append([]op{{kind: 'r', n: spec.CBytes}}, writes(r, spec.SBytes, 0, 64)...)}
	case "close-loss":
		// one round trip, a multi-fragment Write, Close at once; one of the fragments is lost (fault schedule)
		c := []op{{kind: 'w', n: spec.FirstWrite}, {kind: 'r', n: spec.SFirst}, {kind: 'w', n: spec.CBytes - spec.FirstWrite}, {kind: 'x'}}
		s.threads[0] = [][]op{c}
		// the server keeps streaming after its short reply, so that it still has data to send and resend when the close request arrives
		v := append([]op{{kind: 'r', n: spec.FirstWrite}}, writes(r, spec.SFirst, 0, 16)...)
		v = append(v, writes(r, spec.SBytes-spec.SFirst, 0, 4096)...)
		s.threads[1] = [][]op{v}
	case "close-race":
		// client: small first write, reads the reply (session established), then single-fragment messages back to back;
		// a second client thread closes the session while a Write is in progress and the socket stalls
		c := []op{{kind: 'w', n: spec.FirstWrite}, {kind: 'r', n: spec.SBytes}}
		for i := 0; i < spec.Msgs; i++ {
			if i == spec.ArmAfter {
				c = append(c, op{kind: 'a'})
			}
			c = append(c, op{kind: 'w', n: spec.MsgSize})
		}
		s.threads[0] = [][]op{c, {{kind: 'c', d: time.Millisecond}}}
		s.threads[1] = [][]op{append(append([]op{{kind: 'r', n: spec.FirstWrite}}, writes(r, spec.SBytes, 0, 16)...), op{kind: 'r', n: spec.CBytes - spec.FirstWrite})}
	default:
		panic("shape " + spec.Shape)
	}
	return s
}

// ---------------------------------------------------------------- slow client socket

// slowCtl makes WriteTo of the client's socket sleep (like a full socket buffer) for data-sized datagrams once armed.
// The session's output loop calls WriteTo while it holds the output lock, so the lock is held for the whole stall.
type slowCtl struct {
	armed   atomic.Bool
	stall   time.Duration
	stalled chan struct{}
	n       atomic.Int64
	mu      sync.Mutex
	dec     *decoder
	protos  map[uint8]bool // segment types whose WriteTo stalls
}

func (c *slowCtl) hit(b []byte) bool {
	if !c.armed.Load() {
		return false
	}
	c.mu.Lock()
	seg := c.dec.decode(time.Now(), b)
	c.mu.Unlock()
	return seg != nil && c.protos[seg.Meta.Proto]
}

type slowConn struct {
	net.PacketConn
	ctl *slowCtl
}

func (c slowConn) WriteTo(b []byte, addr net.Addr) (int, error) {
	if c.ctl.hit(b) {
		c.ctl.n.Add(1)
		select {
		case c.ctl.stalled <- struct{}{}:
		default:
		}
		time.Sleep(c.ctl.stall)
	}
	return c.PacketConn.WriteTo(b, addr)
}

type slowDialer struct {
	inner simnet.PacketDialer
	ctl   *slowCtl
}

func (d slowDialer) ListenPacket(ctx context.Context, network, laddr, raddr string) (net.PacketConn, error) {
	pc, err := d.inner.ListenPacket(ctx, network, laddr, raddr)
	if err != nil {
		return nil, err
	}
	return slowConn{pc, d.ctl}, nil
}

// ---------------------------------------------------------------- one schedule

type schedResult struct {
	sc       *Schedule
	events   []simnet.Event
	segs     map[int]*refcodec.Segment
	server   string
	sess     []*sessRun
	timedOut bool
	startErr string
	virtual  time.Duration
	wallMs   int64
	fst      fateStats
	rigHung  bool
	stalls   int64 // WriteTo calls of the client socket that were stalled
}

func lePattern(mode, rot int) *appctlpb.TrafficPattern {
	if mode == 0 {
		return nil
	}
	return &appctlpb.TrafficPattern{LowEntropy: &appctlpb.LowEntropyPattern{
		Mode: appctlpb.LowEntropyMode(mode).Enum(), MaskRotation: appctlpb.LowEntropyMaskRotation(rot).Enum()}}
}

func runSchedule(sc *Schedule) *schedResult {
	res := &schedResult{sc: sc}
	procs := sc.Procs
	if procs < 1 {
		procs = 1
	}
	runtime.GOMAXPROCS(procs)
	w0 := wallNow()
	t0 := time.Now()
	nw := simnet.New()
	nw.Latency = ms(sc.LatencyMs)
	opts := rig.Opts{Transport: "udp", MTU: sc.MTU, ServerMTU: sc.ServerMTU, Multiplex: sc.Multiplex, Net: nw,
		ClientPattern: lePattern(sc.LEMode, sc.LERot), ServerPattern: lePattern(sc.LEMode, sc.LERot)}
	var rg *rig.Rig
	var err error
	ctl := &slowCtl{stall: ms(sc.StallMs), stalled: make(chan struct{}, 1), dec: newDecoder(), protos: map[uint8]bool{6: true}}
	if len(sc.Sessions) > 0 && sc.Sessions[0].Variant == 2 {
		ctl.protos = map[uint8]bool{5: true}
	}
	if sc.SlowSock {
		// same as rig.Start, but the client's socket is wrapped (rig.NewClient hard-wires simnet's dialer)
		rg, err = rig.StartServer(opts)
		if err == nil {
			o := rg.Opts
			cp := protocol.NewUnderlayProperties(o.MTU, common.PacketTransport, nil, &net.UDPAddr{IP: net.ParseIP(o.ServerIP), Port: o.ServerPort})
			rg.Client = protocol.NewMux(true).
				SetClientUserNamePassword(o.ClientUser, cipher.HashPassword([]byte(o.ClientPass), []byte(o.ClientUser))).
				SetClientMultiplexFactor(o.Multiplex).
				SetPacketDialer(slowDialer{simnet.PacketDialer{N: nw}, ctl}).
				SetResolver(nil).
				SetEndpoints([]protocol.UnderlayProperties{cp})
		}
	} else {
		rg, err = rig.Start(opts)
	}
	if err != nil {
		res.startErr = err.Error()
		return res
	}
	res.server = net.JoinHostPort(rg.Opts.ServerIP, fmt.Sprint(rg.Opts.ServerPort))
	ft := newFate(sc, res.server)
	nw.Fate = ft.decide

	mark := func(kind string, side int, s *sessRun, data []byte) {
		nw.SendRaw(simnet.Addr{Net: "app", IP: fmt.Sprintf("%s%s.%d.%d", markPrefix, kind, side, s.idx), Prt: 0}, "0.0.0.0:0", data)
	}

	for i, sp := range sc.Sessions {
		res.sess = append(res.sess, plan(i, sp))
	}

	// route accepted server sessions to their session by id
	var regMu sync.Mutex
	bySID := map[uint32]*sessRun{}
	var orphans []net.Conn
	stopAccept := make(chan struct{})
	go func() {
		for {
			select {
			case c := <-rg.Accepted:
				id, _ := protocol.VerifC02SessionID(c)
				regMu.Lock()
				s := bySID[id]
				if s == nil {
					orphans = append(orphans, c)
				}
				regMu.Unlock()
				if s != nil {
					select {
					case s.srvCh <- c:
					default:
					}
				}
			case <-stopAccept:
				return
			}
		}
	}()

	runThread := func(s *sessRun, side int, c net.Conn, ops []op, woff *int, wg *sync.WaitGroup) {
		defer wg.Done()
		rr := vh.NewRng(s.spec.Seed ^ uint64(side+1)*0x9e37)
		buf := make([]byte, 65536)
		for _, o := range ops {
			if s.closing.Load() {
				return
			}
			switch o.kind {
			case 's':
				time.Sleep(o.d)
			case 'z':
				for !ft.sawZero(s.sid, side) {
					if s.closing.Load() {
						return
					}
					time.Sleep(20 * time.Millisecond)
				}
				time.Sleep(o.d)
			case 'a':
				ctl.armed.Store(true)
				select {
				case s.armCh <- struct{}{}:
				default:
				}
			case 'c':
				if s.spec.Variant == 2 {
					// the server application closes first; the client keeps writing; the client application calls Close while the
					// client's input loop is stalled inside WriteTo of the close session response
					select {
					case <-s.armCh:
					case <-s.closeCh:
						return
					}
					regMu.Lock()
					v := s.srv
					regMu.Unlock()
					if v == nil {
						return
					}
					mark("X", 1, s, nil)
					go v.Close()
					select {
					case <-ctl.stalled:
						time.Sleep(1500 * time.Microsecond)
					case <-time.After(2 * time.Second):
					case <-s.closeCh:
						return
					}
					closeSessionFrom(s, 0, nil, &regMu)
					return
				}
				select {
				case <-ctl.stalled:
				case <-s.closeCh:
					return
				}
				time.Sleep(o.d)
				closeSessionFrom(s, 0, mark, &regMu)
				return
			case 'w':
				b := s.data[side][*woff : *woff+o.n]
				*woff += o.n
				if o.d > 0 {
					// a Write under a write deadline (set before every Write): a Write that times out before any byte was taken
					// (0, ErrTimeout) is retried with a longer deadline and finally without one; the session stays in use
					dl := o.d
					ok := false
					for attempt := 0; attempt < 8 && !ok; attempt++ {
						if s.closing.Load() {
							return
						}
						mark("W", side, s, b)
						if attempt < 6 {
							c.SetWriteDeadline(time.Now().Add(dl))
						} else {
							c.SetWriteDeadline(time.Time{})
						}
						n, err := c.Write(b)
						switch {
						case err == nil && n == len(b):
							ok = true
						case n == 0 && errors.Is(err, stderror.ErrTimeout):
							mark("U", side, s, nil) // nothing was written: take the W back
							s.wtimeouts.Add(1)
							dl *= 3
							time.Sleep(time.Millisecond)
						default:
							s.fail("side %d Write(%d bytes at offset %d, deadline %v) returned (%d, %v)", side, len(b), *woff-o.n, dl, n, err)
							return
						}
					}
					c.SetWriteDeadline(time.Time{})
					if !ok {
						s.fail("side %d Write(%d bytes at offset %d) timed out 8 times", side, len(b), *woff-o.n)
						return
					}
					continue
				}
				mark("W", side, s, b)
				n, err := c.Write(b)
				if err != nil || n != len(b) {
					s.fail("side %d Write(%d bytes at offset %d) returned (%d, %v)", side, len(b), *woff-o.n, n, err)
					return
				}
			case 'x':
				// Close right away, with data still in flight (safety-only sessions)
				closeSessionFrom(s, side, mark, &regMu)
				return
			case 'r':
				left := o.n
				rt0 := time.Now()
				for left > 0 {
					if s.closing.Load() {
						return
					}
					sz := 65536
					switch s.spec.ReadStyle {
					case 0:
						sz = logUniform(rr, 1, 4096)
						if o.n > 65536 {
							sz = logUniform(rr, 512, 8192)
						}
					case 2:
						sz = logUniform(rr, 64, 65536)
					}
					if sz > left {
						sz = left
					}
					n, err := c.Read(buf[:sz])
					if n > 0 {
						mark("A", side, s, append([]byte(nil), buf[:n]...))
						left -= n
					}
					if err != nil {
						if errors.Is(err, stderror.ErrTimeout) {
							// the client arms a 10 s read deadline after every write (API-level timeout, not a transport failure): retry
							s.timeouts.Add(1)
							continue
						}
						s.fail("side %d Read returned (%d, %v) with %d bytes outstanding", side, n, err, left)
						return
					}
				}
				if bound := s.spec.RoundBoundMs; bound > 0 && side == 0 {
					// the request was written just before: the reply must arrive promptly on a loss-free network
					if el := time.Since(rt0); el > ms(bound) {
						s.mu.Lock()
						if s.stallMsg == "" {
							s.stallMsg = fmt.Sprintf("an echo exchange of %d bytes took %v of virtual time (bound %d ms) on a loss-free network", o.n, el.Round(time.Millisecond), bound)
						}
						s.mu.Unlock()
					}
				}
			}
		}
	}

	var all sync.WaitGroup
	for _, s := range res.sess {
		s := s
		all.Add(1)
		go func() {
			defer all.Done()
			defer close(s.done)
			if s.spec.StartMs > 0 {
				time.Sleep(ms(s.spec.StartMs))
			}
			c, err := rg.Dial()
			if err != nil {
				s.fail("Dial: %v", err)
				return
			}
			id, ok := protocol.VerifC02SessionID(c)
			if !ok {
				s.fail("client conn is not a *Session")
				c.Close()
				return
			}
			regMu.Lock()
			s.sid, s.haveSID, s.cli = id, true, c
			bySID[id] = s
			regMu.Unlock()
			var wg sync.WaitGroup
			var woffC, woffS int
			for _, th := range s.threads[0] {
				wg.Add(1)
				go runThread(s, 0, c, th, &woffC, &wg)
			}
			wg.Add(1)
			go func() {
				defer wg.Done()
				var vc net.Conn
				select {
				case vc = <-s.srvCh:
				case <-s.closeCh:
					return
				}
				regMu.Lock()
				s.srv = vc
				regMu.Unlock()
				if !sc.ServerFirst {
					// virtual time advances only when every goroutine is blocked: after this sleep the session's input
					// loop has processed the open session request and queued the open session response
					time.Sleep(time.Millisecond)
				}
				var wg2 sync.WaitGroup
				for _, th := range s.threads[1] {
					wg2.Add(1)
					go runThread(s, 1, vc, th, &woffS, &wg2)
				}
				wg2.Wait()
			}()
			wg.Wait()
			s.mu.Lock()
			ok = len(s.errs) == 0
			s.mu.Unlock()
			if ok && !s.closing.Load() {
				s.finished.Store(true)
				if sc.LingerMs > 0 {
					time.Sleep(ms(sc.LingerMs))
				}
				closeSession(s, mark, &regMu)
			}
		}()
	}

	allDone := make(chan struct{})
	go func() { all.Wait(); close(allDone) }()
	select {
	case <-allDone:
	case <-time.After(time.Duration(sc.BudgetMin) * time.Minute):
		res.timedOut = true
	}
	res.virtual = time.Since(t0)
	// end of the scenario: cut and close whatever is still open, never wait forever
	for _, s := range res.sess {
		closeSession(s, mark, &regMu)
	}
	if sc.PostCloseMs > 0 {
		time.Sleep(ms(sc.PostCloseMs))
	}
	close(stopAccept)
	rigDone := make(chan struct{})
	go func() { rg.Close(); close(rigDone) }()
	select {
	case <-rigDone:
	case <-time.After(5 * time.Minute):
		res.rigHung = true
	}
	if !res.timedOut {
		select {
		case <-allDone:
		case <-time.After(time.Minute):
		}
	}
	regMu.Lock()
	for _, c := range orphans {
		go c.Close()
	}
	regMu.Unlock()
	res.events = nw.Log.Snapshot()
	nw.Log.Off = true
	ft.mu.Lock()
	res.segs = ft.segs
	res.fst = ft.st
	ft.mu.Unlock()
	res.stalls = ctl.n.Load()
	res.wallMs = wallNow() - w0
	return res
}

// closeSession logs the X marker (the cut of the case) and closes both ends; idempotent.
func closeSession(s *sessRun, mark func(string, int, *sessRun, []byte), regMu *sync.Mutex) {
	closeSessionFrom(s, int(s.spec.Seed>>7)&1, mark, regMu)
}

func closeSessionFrom(s *sessRun, first int, mark func(string, int, *sessRun, []byte), regMu *sync.Mutex) {
	if s.closing.Swap(true) {
		return
	}
	close(s.closeCh)
	regMu.Lock()
	c, v := s.cli, s.srv
	regMu.Unlock()
	if mark != nil {
		mark("X", first, s, nil)
	}
	conns := []net.Conn{c, v}
	if first == 1 {
		conns = []net.Conn{v, c}
	}
	for _, x := range conns {
		if x != nil {
			x := x
			done := make(chan struct{})
			go func() { x.Close(); close(done) }()
			select {
			case <-done:
			case <-time.After(10 * time.Second):
			}
		}
	}
}
