// Driver for C02 (reliable, ordered, exactly-once byte streams over the UDP transport, with progress under fair
// loss) and C13 (acks never ahead of receipt, retransmissions never change content, gapless sequence numbers).
//
// One SCHEDULE = one fresh simnet network with a real server Mux and a real client Mux (pkg/protocol) under Go's
// faketime runtime, a fault schedule applied through Net.Fate, and one or more sessions with scripted application
// traffic.  Application events (Write about to be called, Read returned, Close about to be called) are written
// into the same totally ordered simnet event log as the datagram events (Net.SendRaw to nowhere), the log is split
// per session and written as an acceptor trace (cases.txt, one event per line; impl.txt says OK for every line):
//
//	B <label> | W <side> <hex> | S <side> <type> <seq> <unack> <window> <frag> <hex> | R <side> <k> | A <side> <hex> | F
//
// Independently of the model, the ORACLE judges every session over the decoded event list: bytes-differ, stalled,
// abandoned, ack-ahead, retx-differs, seq-gap.
package main

import (
	"flag"
	"fmt"
	"os"
	"path/filepath"
	"strings"
	"time"

	"verifharness/vh"
)

func main() {
	prop := flag.String("prop", "C02", "C02|C13 (only changes the report header)")
	only := flag.String("only", "", "run only the schedule with this id (replay)")
	families := flag.String("family", "", "comma separated list of schedule families to run (default: all): exhaustive scripted slow exact mtu muxstall deadline closeloss statelessclose closerace random baseline big serverfirst")
	serverFirst := flag.Int("serverfirst", 0, "number of extra fault-free schedules in which the server application writes >= 17 fragments immediately after Accept (race fixed by fixes/C02-server-write-before-open-response.diff; oracle sig server-write-overtakes-open-response)")
	mutate := flag.String("mutate", "", "self-test of the oracle: corrupt the recorded observation of the first suitable schedule (retx|ack|gap|bytes)")
	r := vh.Start("c02")
	propC13 = strings.EqualFold(*prop, "C13")
	if strings.EqualFold(*prop, "C13") {
		r.Rep.Driver = "c02(C13)"
	}
	lg, err := os.Create(filepath.Join(r.Out, "log.txt"))
	if err != nil {
		panic(err)
	}
	defer lg.Close()
	w0 := wallNow()

	g := &gen{r: r.Rng, seed: r.Seed}
	thorough := r.Thorough()

	tot := struct {
		schedules, sessions, complete, datagrams, lines, sLines, rLines, shared, multi int
		virtual                                                                        time.Duration
		bytes                                                                          int64
	}{}

	nRun := 0
	mutated := false
	runOne := func(sc *Schedule) (*schedResult, schedSummary) {
		if *only != "" && sc.ID != *only {
			return nil, schedSummary{}
		}
		if *families != "" && !strings.Contains(","+*families+",", ","+sc.Family+",") {
			return nil, schedSummary{}
		}
		nRun++
		if nRun%8 == 0 && sc.totalBytes() <= 128*1024 {
			sc.Procs = 2
		}
		res := runSchedule(sc)
		if res.startErr != "" {
			r.Fail("rig-start", sc.ID+": "+res.startErr, sc)
			fmt.Fprintf(lg, "%s START-ERROR %s\n", sc.ID, res.startErr)
			return res, schedSummary{}
		}
		if *mutate != "" && !mutated && mutateResult(res, *mutate) {
			mutated = true
			fmt.Fprintf(lg, "MUTATED %s (%s)\n", sc.ID, *mutate)
		}
		sum := analyse(r, res)
		tot.schedules++
		tot.sessions += sum.sessions
		tot.complete += sum.complete
		tot.datagrams += res.fst.datagrams
		tot.lines += sum.lines
		tot.sLines += sum.sLines
		tot.rLines += sum.rLines
		tot.virtual += res.virtual
		tot.bytes += int64(sc.totalBytes())
		if len(sc.Sessions) > 1 {
			tot.multi++
			if sum.shared {
				tot.shared++
			}
		}
		d := r.Rep.Distribution
		r.Count("schedule:" + sc.Family)
		r.Count(fmt.Sprintf("mtu:%d", sc.MTU))
		if sc.serverMTU() != sc.MTU {
			r.Count("schedules-with-different-client-and-server-mtu")
		}
		if sc.LEMode > 0 {
			r.Count("low-entropy-schedules")
		}
		if res.timedOut {
			r.Count("schedules-timed-out")
		}
		if res.rigHung {
			r.Count("rig-close-hung")
		}
		d["sessions"] += sum.sessions
		d["sessions-complete"] += sum.complete
		d["datagrams"] += res.fst.datagrams
		d["drops"] += res.fst.drops
		d["dups"] += res.fst.dups
		d["delays"] += res.fst.delays
		d["retransmissions-emitted"] += res.fst.retx
		d["window0-adverts-emitted"] += res.fst.win0
		d["window-reopen-datagrams"] += res.fst.reopen
		d["fairness-forced-deliveries"] += res.fst.forced
		d["undecodable-datagrams"] += res.fst.undecodable
		d["scripted-faults-fired"] += res.fst.faultsFired
		notFired := 0
		for _, f := range sc.Faults {
			if !f.fired {
				notFired++
			}
		}
		d["scripted-faults-not-fired"] += notFired
		for _, s := range sc.Sessions {
			r.Count("shape:" + s.Shape)
			fw := "first-write<=1024"
			if s.FirstWrite > 1024 {
				fw = "first-write>1024"
			}
			r.Count(fw)
			le := "plain"
			if sc.LEMode > 0 {
				le = "le"
			}
			multi := "single"
			if len(sc.Sessions) > 1 {
				multi = "multi"
			}
			r.Distinct(fmt.Sprintf("%s|%s|%d/%d|%s|%s|%s|%s", sc.Family, sc.faultName(), sc.MTU, sc.serverMTU(), s.Shape, fw, le, multi))
		}
		fmt.Fprintf(lg, "%s %s fault=%s mtu=%d le=%d lat=%dms loss=%d dup=%d reorder=%d sessions=%d bytes=%d datagrams=%d drops=%d dups=%d delays=%d retx=%d win0=%d reopen=%d forced=%d fired=%d/%d complete=%d/%d timedout=%v virtual=%v wall=%dms lines=%d stalls=%d variant=%d failures=%v\n",
			sc.ID, sc.Family, sc.faultName(), sc.MTU, sc.LEMode, sc.LatencyMs, sc.LossPct, sc.DupPct, sc.ReorderPct, len(sc.Sessions), sc.totalBytes(),
			res.fst.datagrams, res.fst.drops, res.fst.dups, res.fst.delays, res.fst.retx, res.fst.win0, res.fst.reopen, res.fst.forced,
			res.fst.faultsFired, len(sc.Faults), sum.complete, sum.sessions, res.timedOut, res.virtual.Round(time.Millisecond), res.wallMs, sum.lines, res.stalls, sc.Sessions[0].Variant, sum.failures)
		return res, sum
	}

	// ---- family (b): every single-fault position of a short session
	exhaustiveN := []int{}
	variants := 1
	if thorough {
		variants = 3
	}
	for v := 0; v < variants; v++ {
		base := g.exhaustiveBase(v)
		res, _ := runOne(base)
		n := 0
		if res != nil {
			n = res.fst.datagrams
		} else {
			n = runSchedule(base).fst.datagrams // filtered out (-only / -family): keep positions and ids as in the full run
		}
		exhaustiveN = append(exhaustiveN, n)
		for i := 0; i < n; i++ {
			for _, k := range exKinds {
				runOne(g.exhaustiveFault(base, i, k))
			}
		}
	}

	// ---- family (a): scripted single faults
	targets := []string{"open-req", "open-resp", "data", "ack", "retx"}
	small := func() int {
		if r.Rng.Bool() {
			return expUniform(r.Rng, 2*1024, 16*1024)
		}
		return expUniform(r.Rng, 2*1024, 64*1024)
	}
	if thorough {
		for rep := 0; rep < 17; rep++ {
			for _, t := range targets {
				for _, k := range kinds {
					runOne(g.scripted(small(), t, k, r.Rng.Intn(4) == 0))
				}
			}
		}
	} else {
		// quick: every target once with a random kind, plus a dropped retransmission and two more
		for _, t := range targets {
			runOne(g.scripted(small(), t, kinds[r.Rng.Intn(3)], r.Rng.Intn(4) == 0))
		}
		runOne(g.scripted(small(), "retx", "drop", false))
		for i := 0; i < 2; i++ {
			runOne(g.scripted(small(), targets[r.Rng.Intn(5)], kinds[r.Rng.Intn(3)], true))
		}
	}
	// window closes and reopens; fault on the datagram that reopens it
	slowKinds := []string{"", kinds[r.Rng.Intn(3)]}
	if thorough {
		slowKinds = []string{"", "drop", "dup", "delay", "drop", "delay"}
	}
	for _, k := range slowKinds {
		runOne(g.slow(k, 4600*33))
	}

	// the window closes exactly (nothing in flight) and only the receiver's heartbeat ack can reopen it
	exactKinds := []string{""}
	if thorough {
		exactKinds = []string{"", "", "dup", "delay"}
	}
	for i, k := range exactKinds {
		runOne(g.exact(i%2 == 0, k))
	}
	// the two ends configured with different legal MTUs, both orders and a middle value, fault-free and under loss
	pairs := [][2]int{{1280, 1500}, {1500, 1280}, {1400, 1280}, {1280, 1400}, {1500, 1400}, {1400, 1500}}
	reps := 1
	if thorough {
		reps = 8
	}
	for rep := 0; rep < reps; rep++ {
		for i, pr := range pairs {
			runOne(g.mtuPair(pr[0], pr[1], false))
			if thorough || i < 3 {
				runOne(g.mtuPair(pr[0], pr[1], true))
			}
		}
	}
	// several sessions on one underlay, one of them flooding a peer that does not read
	nMux := 3
	if thorough {
		nMux = 8
	}
	for i := 0; i < nMux; i++ {
		runOne(g.muxStall(i%2 == 0))
	}
	// write deadlines shorter than / around / longer than the time a Write waits behind the output loop
	nDl := 6
	if thorough {
		nDl = 45
	}
	for i := 0; i < nDl; i++ {
		runOne(g.deadline(i))
	}
	// Close with data in flight and a lost fragment in front of the close request
	nCl := 16
	if thorough {
		nCl = 60
	}
	for i := 0; i < nCl; i++ {
		runOne(g.closeLoss())
	}
	// witness of the recorded C13 finding (thorough tier of C13 only, or -family statelessclose)
	if (thorough && propC13) || strings.Contains(","+*families+",", ",statelessclose,") {
		for _, d := range []int{6000, 8000, 10500} {
			runOne(g.statelessClose(d))
		}
	}
	// Close while a Write is in progress and the output loop is inside a slow WriteTo
	nRace := 600
	if thorough {
		nRace = 3000
	}
	for i := 0; i < nRace; i++ {
		runOne(g.closeRace())
	}

	// ---- family (c): sustained random loss / duplication / reordering under the fairness bounds
	nRandom := 12
	if thorough {
		nRandom = 700
	}
	for i := 0; i < nRandom; i++ {
		total := small()
		if !thorough && i < 2 {
			total = 256 * 1024
		}
		runOne(g.random(total, r.Rng.Intn(4) == 0, 40))
	}
	// fault-free and idle (heartbeat) baselines
	nBase := 3
	if thorough {
		nBase = 30
	}
	for i := 0; i < nBase; i++ {
		s := g.base("baseline")
		if i%3 == 2 {
			s.Sessions = []SessSpec{sess(r.Rng, "idle", small())}
		} else {
			g.sessions(s, small(), i%3 == 1)
		}
		runOne(s)
	}
	if thorough {
		// about 20 schedules of 1 MiB
		for i := 0; i < 16; i++ {
			s := g.random(1<<20, false, 25)
			s.Family = "big"
			s.ID = "B" + s.ID[1:]
			s.LatencyMs = r.Rng.Range(1, 20)
			if i%5 == 4 {
				s.LossPct, s.DupPct, s.ReorderPct = 0, 0, 0
			}
			s.BudgetMin = 60
			runOne(s)
		}
		// two of 4 MiB: one lossy stream, one slow reader whose window closes
		s := g.random(4<<20, false, 10)
		s.Family, s.ID, s.BudgetMin, s.LatencyMs = "big", "B"+s.ID[1:], 120, 5
		s.Sessions = []SessSpec{sess(r.Rng, "duplex", 4<<20)}
		runOne(s)
		s = g.slow("", 4<<20)
		s.Family, s.ID, s.BudgetMin = "big", "B"+s.ID[1:], 120
		s.LossPct, s.ExtraMs = 2, 5
		for i := range s.Sessions {
			s.Sessions[i].MaxWrite = 1500
			s.Sessions[i].PauseMs = 10000
		}
		runOne(s)
	}

	// ---- server application writes immediately after Accept (races with the queuing of the open session response)
	for i := 0; i < *serverFirst; i++ {
		s := g.base("serverfirst")
		s.ID = "f" + s.ID[1:]
		s.LatencyMs = r.Rng.Range(1, 5)
		x := sess(r.Rng, "duplex", 64*1024)
		x.CBytes, x.FirstWrite = r.Rng.Range(1, 2000), 0
		x.SBytes = r.Rng.Range(17, 40) * (s.MTU - 104)
		x.SFirst = x.SBytes
		s.Sessions = []SessSpec{x}
		s.Procs = 2
		s.ServerFirst = true
		runOne(s)
	}

	r.Rep.Rule = "Each case is the per-session event trace (application Write/Read markers and every decoded datagram emission/delivery, in the total order of the simnet log; an X line marks the first Close, after it only emissions are recorded and only content equality per sequence number is judged) " +
		"of a real client Mux and server Mux talking UDP over an in-memory network in virtual time. Schedules: (a) scripted single faults (drop / duplicate / delay-reorder of the open request, " +
		"open response, k-th data datagram, k-th ack, a retransmission, the datagram that reopens a closed receive window); (b) for a short request/response session the fault-free run is " +
		"counted (n datagrams) and then every position i<n x {drop, duplicate, delay} is run with exactly that fault on the i-th datagram - this family is exhaustive for that session " +
		fmt.Sprintf("(n per variant: %v); ", exhaustiveN) +
		"the short session has three request/response rounds so that data flows in both directions after the fault, the fault kinds are drop, duplicate right behind the original, duplicate 25 ms later, delay 45 ms, and the positions include the close request/response datagrams; " +
		"(x) the receive window closes EXACTLY (one-segment messages, the last ones paced one per round trip, nothing in flight when the backlog reaches segmentTreeCapacity; the receiving application reads only after its endpoint advertised window 0) so that only the receiver's heartbeat ack can reopen it; " +
		"(r) close races: the client application calls Close while a client Write is in progress and the output loop sits in a slow WriteTo of the wrapped client socket (holding the output lock), GOMAXPROCS 2; these sessions are judged on safety only; " +
		"(c) sustained random loss 1..40 %, duplication 0..10 %, reordering 0..30 %, latency 1..50 ms under the fairness bounds in notes.fairness; plus fault-free, idle (heartbeat) and slow-reader " +
		"(receive window closes and reopens) schedules, MTU in {1280,1281,1350,1400,1499,1500} chosen per end (a third of the schedules give client and server different MTUs; family mtu runs the pairs 1280/1500, 1500/1280 and the middle value 1400 in both orders with bulk data in both directions, fault-free and under loss), family muxstall (two sessions on one underlay: one floods a peer that does not read for 40 s, the other does paced echo exchanges each of which must complete within 6 s, then the first completes too), low-entropy patterns, 1..4 sessions per underlay, request/response and concurrent duplex traffic, " +
		"first Write <= 1024 bytes and > 1024 bytes. The server application starts 1 ms (virtual) after Accept, except in the optional -serverfirst schedules. All sizes, contents and fault choices derive from -seed. A class (distinct_nontrivial) is (family, fault kind, MTU, traffic shape, first-write class, " +
		"low entropy, single/multi session). The oracle checks each session directly: bytes read = bytes written per direction in order (prefix at all times), completion within the virtual-time budget, " +
		"no Write/Read error, unAckSeq never ahead of delivered sequenced segments, identical content of all transmissions of a seq, gapless first transmissions."
	if r.Rep.Notes == nil {
		r.Rep.Notes = map[string]string{}
	}
	r.Rep.Notes["property"] = strings.ToUpper(*prop)
	r.Rep.Notes["fairness"] = fmt.Sprintf("random-loss schedules never drop more than %d consecutive transmissions of one (session, direction, seq) (txCountLimit-5) and never more than %d consecutive datagrams of one direction; "+
		"in addition a sequenced segment at its %dth or later transmission is delivered and every datagram of its session is delivered during the following %v (so the first bound is never the binding one)",
		fairSeq, fairDir, fairTx, fairGrace)
	r.Rep.Notes["totals"] = fmt.Sprintf("schedules=%d sessions=%d complete=%d datagrams=%d lines=%d (S=%d R=%d) app-bytes=%d virtual=%v wall=%dms multi-session-schedules=%d of-which-sharing-one-client-socket=%d",
		tot.schedules, tot.sessions, tot.complete, tot.datagrams, tot.lines, tot.sLines, tot.rLines, tot.bytes, tot.virtual.Round(time.Second), wallNow()-w0, tot.multi, tot.shared)
	r.Rep.Notes["read-timeouts"] = "a client Read that returns stderror.ErrTimeout (the client arms a 10 s read deadline after every write) is retried and counted (read-timeouts-retried); it is not an oracle failure"
	fmt.Fprintf(lg, "TOTAL %s\n", r.Rep.Notes["totals"])
	r.Finish()
}
