// Driver for C19: the time series counter of pkg/metrics (add, roll-up, window query, dump/load) and the
// quota decision of pkg/protocol (Session.checkQuota).
// Built with -tags "verif faketime": time.Now starts at 2009-11-10 23:00 UTC and advances only in time.Sleep,
// so the instant read by time.Since inside doRollUp and by time.Now inside checkQuota is known exactly.
// Every operation of the real code is written as a case line for the extracted Coq model together with the
// implementation's state after it; independently of the model every state is judged against the property text.
package main

import (
	"encoding/hex"
	"fmt"
	"runtime"
	"runtime/debug"
	"sort"
	"strings"
	"time"

	"github.com/enfein/mieru/v3/pkg/appctl/appctlcommon"
	"github.com/enfein/mieru/v3/pkg/appctl/appctlpb"
	"github.com/enfein/mieru/v3/pkg/metrics"
	"github.com/enfein/mieru/v3/pkg/protocol"
	"github.com/enfein/mieru/v3/pkg/protocol/serveruser"
	"google.golang.org/protobuf/proto"
	"verifharness/vh"
)

const (
	msNs  = int64(time.Millisecond)
	secNs = int64(time.Second)
	minNs = int64(time.Minute)
	hrNs  = int64(time.Hour)
	dayNs = 24 * int64(time.Hour)
	mib   = int64(1) << 20
)

type hist = []metrics.VerifHistoryEntry

func nowNs() int64 { return time.Now().UnixNano() }

func ent(e metrics.VerifHistoryEntry) string {
	return fmt.Sprintf("%d:%d:%d", e.TimeUnixMilli, e.Delta, e.RollUp)
}

func hsum(h hist) int64 {
	var s int64
	for _, e := range h {
		s += e.Delta
	}
	return s
}

func full(c *metrics.Counter) string {
	v, op, h := metrics.VerifState(c)
	var sb strings.Builder
	fmt.Fprintf(&sb, "F %d %d %d", v, op, len(h))
	for _, e := range h {
		sb.WriteByte(' ')
		sb.WriteString(ent(e))
	}
	return sb.String()
}

func short(c *metrics.Counter) string {
	v, op, h := metrics.VerifState(c)
	last := "-"
	if len(h) > 0 {
		last = ent(h[len(h)-1])
	}
	return fmt.Sprintf("S %d %d %d %d %s", v, op, len(h), hsum(h), last)
}

func afterAdd(c *metrics.Counter) string {
	_, op, h := metrics.VerifState(c)
	if len(h) <= 48 || op%uint64(metrics.VerifRollUpInterval) == 0 {
		return full(c)
	}
	return short(c)
}

func histFields(h hist) string {
	var sb strings.Builder
	fmt.Fprintf(&sb, "%d", len(h))
	for _, e := range h {
		fmt.Fprintf(&sb, " %d %d %d", e.TimeUnixMilli, e.Delta, e.RollUp)
	}
	return sb.String()
}

// tracked expectations of one counter object, independent of the model
type track struct {
	c      *metrics.Counter
	sumInc int64 // sum of all increments handed to the counter (plus the value it was set/loaded to)
	cons   bool  // value = history sum is expected
	mono   bool  // increments came with non-decreasing timestamps and labels were never forged
	lastMs int64
	nonneg bool
}

type drv struct {
	r      *vh.Run
	hid    int
	step   int
	failed map[string]bool
	tempo  int
}

func (d *drv) fail(sig, what string, extra map[string]interface{}) {
	key := fmt.Sprintf("%s/%d", sig, d.hid)
	if d.failed[key] {
		return
	}
	d.failed[key] = true
	c := map[string]interface{}{"seed": d.r.Seed, "tier": d.r.Tier, "history": d.hid, "step": d.step, "case_line": d.r.NCase}
	for k, v := range extra {
		c[k] = v
	}
	d.r.Fail(sig, what, c)
}

// judge: conservation, order and window bounds, straight from the property text
func (d *drv) judge(t *track, ctx string) {
	v, _, h := metrics.VerifState(t.c)
	if t.cons {
		if hsum(h) != v {
			d.fail("history-sum-differs-from-value", fmt.Sprintf("%s: sum of history %d != value %d", ctx, hsum(h), v), nil)
		}
		if v != t.sumInc {
			d.fail("value-differs-from-increments", fmt.Sprintf("%s: value %d != sum of increments %d", ctx, v, t.sumInc), nil)
		}
	}
	if t.mono {
		for i := 1; i < len(h); i++ {
			if h[i].TimeUnixMilli < h[i-1].TimeUnixMilli {
				d.fail("history-out-of-order", fmt.Sprintf("%s: entry %d at %d ms follows entry at %d ms", ctx, i, h[i].TimeUnixMilli, h[i-1].TimeUnixMilli), nil)
				break
			}
		}
	}
}

// windowScan is the window sum by definition: entries with t1 < t <= t2
func windowScan(h hist, t1, t2 int64) int64 {
	var s int64
	for _, e := range h {
		// e.TimeUnixMilli*1e6 cannot overflow for the instants used here
		tn := e.TimeUnixMilli * msNs
		if tn > t1 && tn <= t2 {
			s += e.Delta
		}
	}
	return s
}

func sortedHist(h hist) bool {
	for i := 1; i < len(h); i++ {
		if h[i].TimeUnixMilli < h[i-1].TimeUnixMilli {
			return false
		}
	}
	return true
}

var gapChoices = []int64{0, 0, 0, 1, 999, 999999, msNs, 7 * msNs, 999 * msNs, secNs, 2 * secNs, 2*secNs + 1, 59 * secNs, minNs, 2 * minNs, 119 * secNs, 121 * secNs,
	59 * minNs, hrNs, 2 * hrNs, 2*hrNs + msNs, 23 * hrNs, dayNs, 7 * dayNs, 8 * dayNs, 8*dayNs + secNs, 21 * dayNs}

// gap draws the distance to the next increment; tempo 0 stays below minutes, 1 below hours, 2 goes up to weeks
func (d *drv) gap(g *vh.Rng) int64 {
	k := g.Intn(10)
	if (d.tempo == 0 && (k == 6 || k >= 8)) || (d.tempo == 1 && (k == 6 || k == 9)) || time.Now().Year() > 2200 {
		k = 5
	}
	switch k {
	case 0, 1, 2, 3:
		return 0 // burst inside one instant
	case 4:
		return g.I64n(msNs) // inside a millisecond
	case 5:
		return g.I64n(3 * secNs)
	case 6:
		return gapChoices[g.Intn(len(gapChoices))]
	case 7:
		return g.I64n(4 * minNs)
	case 8:
		return g.I64n(5 * hrNs)
	default:
		return g.I64n(21 * dayNs)
	}
}

func opStart(g *vh.Rng) uint64 {
	iv := uint64(metrics.VerifRollUpInterval)
	switch g.Intn(8) {
	case 0:
		return 0
	case 1:
		return iv - 1 - uint64(g.Intn(4))
	case 2:
		return iv*uint64(g.Range(1, 50)) - uint64(g.Range(1, 40))
	case 3:
		return ^uint64(0) - uint64(g.Intn(30)) // the uint64 wraps during the history
	case 4:
		return g.U64()
	default:
		return uint64(g.Intn(2000))
	}
}

func delta(g *vh.Rng) int64 {
	switch g.Intn(8) {
	case 0:
		return 1
	case 1:
		return 1 << 20
	case 2:
		return g.I64n(1 << 40)
	default:
		return 1 + g.I64n(70000)
	}
}

// counterHistory drives one generated operation history of a counter.
func (d *drv) counterHistory(g *vh.Rng, steps int, wild bool) {
	r := d.r
	d.hid++
	d.step = 0
	iv := uint64(metrics.VerifRollUpInterval)
	d.tempo = []int{0, 0, 0, 0, 0, 1, 1, 1, 2, 2}[g.Intn(10)]
	if d.tempo == 2 && steps > 150 {
		steps = 150
	}
	cur := &track{c: metrics.VerifNewTimeSeriesCounter("c"), cons: true, mono: !wild, nonneg: true, lastMs: -1 << 62}
	aux := &track{c: metrics.VerifNewTimeSeriesCounter("c"), cons: true, mono: !wild, nonneg: true, lastMs: -1 << 62}
	op0 := opStart(g)
	metrics.VerifSetOp(cur.c, op0)
	r.Case(fmt.Sprintf("N %d", op0), "-")
	r.Case("M 0", "-")
	spans := []int64{0, secNs, 3 * secNs, 2 * minNs, 3 * minNs, 2 * hrNs, 3 * hrNs, dayNs, 8 * dayNs, 9 * dayNs, 30 * dayNs, 60 * dayNs}
	span := spans[g.Intn(len(spans))] + g.I64n(secNs)
	t := nowNs() - span
	shape := fmt.Sprintf("span=%d/tempo=%d/wild=%v/op0=%d", span/secNs, d.tempo, wild, op0%iv)
	nroll := 0
	for d.step = 0; d.step < steps; d.step++ {
		now := nowNs()
		k := g.Intn(100)
		switch {
		case k < 66: // increment with an explicit timestamp
			var ts int64
			if wild && g.Intn(3) == 0 {
				ts = now - 40*dayNs + g.I64n(50*dayNs) // anywhere, also the future, also decreasing
			} else {
				t += d.gap(g)
				if t > now {
					// the history has caught up with the clock: let the clock run
					time.Sleep(time.Duration(t - now))
					now = nowNs()
				}
				ts = t
			}
			dl := delta(g)
			if g.Intn(25) == 0 {
				dl = 0
			}
			var got int64
			if ts == now && g.Bool() {
				got = cur.c.Add(dl) // the public entry point reads the clock itself
			} else {
				got = metrics.VerifAddWithTime(cur.c, dl, time.Unix(0, ts))
			}
			cur.sumInc += dl
			if dl != 0 {
				ms := time.Unix(0, ts).UnixMilli()
				if ms < cur.lastMs {
					cur.mono = false
				}
				cur.lastMs = ms
			}
			r.Case(fmt.Sprintf("A %d %d %d", dl, ts, now), afterAdd(cur.c))
			r.Count("add")
			if cur.cons && got != cur.sumInc {
				d.fail("add-returns-wrong-total", fmt.Sprintf("Add returned %d, increments sum to %d", got, cur.sumInc), nil)
			}
			_, op, _ := metrics.VerifState(cur.c)
			if op%iv == 0 && dl != 0 {
				nroll++
				r.Count("rollup-natural")
			}
		case k < 70: // Load
			v := cur.c.Load()
			r.Case("V", fmt.Sprintf("%d | %s", v, short(cur.c)))
			r.Count("load")
			if cur.cons && v != cur.sumInc {
				d.fail("load-differs-from-increments", fmt.Sprintf("Load %d != sum of increments %d", v, cur.sumInc), nil)
			}
		case k < 82: // window query
			_, _, h := metrics.VerifState(cur.c)
			var t1, t2 int64
			switch g.Intn(5) {
			case 0:
				t1, t2 = now-dayNs*int64(g.Range(1, 40)), now
			case 1:
				if len(h) > 0 {
					e := h[g.Intn(len(h))]
					t1 = e.TimeUnixMilli*msNs - int64(g.Intn(3)) + 1 // at / just before / just after an entry
					t2 = t1 + g.I64n(10*dayNs)
				}
			case 2:
				t1 = now - g.I64n(70*dayNs)
				t2 = t1 + g.I64n(70*dayNs)
			case 3:
				t1, t2 = now-g.I64n(5*secNs), now
			default:
				t1 = now - 70*dayNs
				t2 = now + dayNs
			}
			got := cur.c.DeltaBetween(time.Unix(0, t1), time.Unix(0, t2))
			r.Case(fmt.Sprintf("Q %d %d", t1, t2), fmt.Sprintf("%d | %s", got, short(cur.c)))
			r.Count("query")
			nonneg := true
			for _, e := range h {
				if e.Delta < 0 {
					nonneg = false
				}
			}
			if nonneg && cur.cons && got > cur.sumInc {
				d.fail("window-exceeds-total", fmt.Sprintf("DeltaBetween(%d,%d) = %d > total %d", t1, t2, got, cur.sumInc), nil)
			}
			if nonneg && got < 0 {
				d.fail("window-negative", fmt.Sprintf("DeltaBetween(%d,%d) = %d", t1, t2, got), nil)
			}
			if sortedHist(h) {
				if want := windowScan(h, t1, t2); got != want {
					d.fail("window-differs-from-scan", fmt.Sprintf("DeltaBetween(%d,%d) = %d, entries in (t1,t2] sum to %d", t1, t2, got, want), nil)
				}
			}
		case k < 90: // roll-up forced at this operation count
			if g.Intn(4) != 0 {
				nop := iv * uint64(g.Range(0, 1000))
				metrics.VerifSetOp(cur.c, nop)
				r.Case(fmt.Sprintf("O %d", nop), "-")
				nroll++
				r.Count("rollup-forced")
			} else {
				r.Count("rollup-not-due")
			}
			metrics.VerifRollUp(cur.c)
			r.Case(fmt.Sprintf("R %d", now), full(cur.c))
		case k < 92: // the next increments run into a natural roll-up
			nop := iv*uint64(g.Range(1, 9)) - uint64(g.Range(1, 3))
			metrics.VerifSetOp(cur.c, nop)
			r.Case(fmt.Sprintf("O %d", nop), "-")
		case k < 94: // let the clock run
			time.Sleep(time.Duration(d.gap(g) + 1))
			r.Count("sleep")
		case k < 97: // dump and load into the auxiliary counter
			same := g.Intn(6) != 0
			pbm := metrics.ToMetricPB(cur.c)
			if !same {
				pbm.Name = proto.String("other")
			}
			if g.Intn(3) == 0 { // FromMetricPB on a fresh counter
				aux = &track{c: metrics.VerifNewTimeSeriesCounter("c"), cons: true, mono: cur.mono, nonneg: true, lastMs: cur.lastMs}
				r.Case("M 0", "-")
			}
			vOld, _, _ := metrics.VerifState(aux.c)
			vSrc, _, hSrc := metrics.VerifState(cur.c)
			metrics.VerifLoadCounterFromMetricPB(aux.c, pbm)
			r.Case(fmt.Sprintf("L %d %d", b2i(same), now), full(cur.c)+" || "+full(aux.c))
			r.Count("dump-load")
			vNew, _, hNew := metrics.VerifState(aux.c)
			if vNew < vOld {
				d.fail("load-decreases-total", fmt.Sprintf("total went from %d to %d on load", vOld, vNew), nil)
			}
			if same {
				if vNew < vSrc {
					d.fail("load-loses-traffic", fmt.Sprintf("dump had %d, counter has %d after load", vSrc, vNew), nil)
				}
				if vOld == 0 && cur.cons && (vNew != vSrc || hsum(hNew) != vNew || histFields(hNew) != histFields(hSrc)) {
					d.fail("reload-not-lossless", fmt.Sprintf("fresh counter after load: value %d history sum %d, dump had %d", vNew, hsum(hNew), vSrc), nil)
				}
				aux.cons = cur.cons && vOld <= vSrc
				aux.sumInc = vNew
				aux.mono = cur.mono
				aux.lastMs = cur.lastMs
			}
			if g.Intn(3) == 0 { // go on with the loaded counter
				cur, aux = aux, cur
				r.Case("X", "-")
			}
		case k < 98:
			r.Case("F", full(cur.c))
		default:
			if !wild {
				continue
			}
			if g.Bool() { // a history as a dump file could contain it: any labels, any order
				n := g.Intn(12)
				h := make(hist, n)
				tt := now - g.I64n(30*dayNs)
				for i := range h {
					tt += d.gap(g) - g.I64n(2*secNs)
					h[i] = metrics.VerifHistoryEntry{TimeUnixMilli: tt / msNs, Delta: delta(g) - int64(g.Intn(2))*5, RollUp: int32(g.Intn(7))}
					if g.Intn(3) == 0 {
						h[i].TimeUnixMilli = h[i].TimeUnixMilli / 1000 * 1000
					}
				}
				val := hsum(h)
				metrics.VerifSetState(cur.c, val, h)
				cur.sumInc = val
				cur.cons = true
				cur.nonneg = false
				r.Case(fmt.Sprintf("S %d %s", val, histFields(h)), "-")
				r.Count("set-history")
			} else { // one pass with arbitrary parameters
				durs := []int64{0, 1, 2 * secNs, 120 * secNs, 120 * minNs, 8 * dayNs, -secNs, 30 * dayNs}
				truncs := []int64{secNs, minNs, hrNs, dayNs, 7 * secNs, 1500 * msNs, 0, -secNs, 1, 7 * dayNs, 100 * msNs}
				from, to := g.Intn(6), g.Intn(6)
				du, tr := durs[g.Intn(len(durs))], truncs[g.Intn(len(truncs))]
				metrics.VerifDoRollUp(cur.c, int32(from), int32(to), time.Duration(du), time.Duration(tr))
				r.Case(fmt.Sprintf("P %d %d %d %d %d", from, to, du, tr, now), full(cur.c))
				r.Count("single-pass")
			}
		}
		d.judge(cur, "after operation")
	}
	r.Case("F", full(cur.c))
	_, _, h := metrics.VerifState(cur.c)
	labels := map[int32]bool{}
	for _, e := range h {
		labels[e.RollUp] = true
	}
	var ls []string
	for l := range labels {
		ls = append(ls, fmt.Sprint(l))
	}
	sort.Strings(ls)
	if nroll > 0 {
		r.Distinct(fmt.Sprintf("counter/%s/rolls=%d/labels=%s", shape, nroll, strings.Join(ls, ",")))
	}
}

func b2i(b bool) int {
	if b {
		return 1
	}
	return 0
}

// ------------------------------------------------------------------------------------------- quotas

type quser struct {
	name   string
	quotas [][2]int32 // days, megabytes
	up     *metrics.Counter
	down   *metrics.Counter
}

func hexName(s string) string { return hex.EncodeToString([]byte(s)) }

func (d *drv) publish(u *quser) {
	if u.up != nil {
		_, _, h := metrics.VerifState(u.up)
		d.r.Case(fmt.Sprintf("KH %s 0 %s", hexName(u.name), histFields(h)), "-")
	}
	if u.down != nil {
		_, _, h := metrics.VerifState(u.down)
		d.r.Case(fmt.Sprintf("KH %s 1 %s", hexName(u.name), histFields(h)), "-")
	}
}

func register(u *quser, up, down bool) {
	g := fmt.Sprintf(metrics.UserMetricGroupFormat, u.name)
	if up {
		u.up = metrics.RegisterMetric(g, metrics.UserMetricUploadBytes, metrics.COUNTER_TIME_SERIES).(*metrics.Counter)
	}
	if down {
		u.down = metrics.RegisterMetric(g, metrics.UserMetricDownloadBytes, metrics.COUNTER_TIME_SERIES).(*metrics.Counter)
	}
}

// checkQuota on the real code; "P" when DeltaBetween panics
func callCheckQuota(pol *appctlpb.User, user string) (res string) {
	defer func() {
		if e := recover(); e != nil {
			res = "P"
		}
	}()
	ok, err := protocol.VerifCheckQuota(pol, user)
	switch {
	case !ok:
		return "R"
	case err != nil:
		return "AE"
	default:
		return "A"
	}
}

func (d *drv) ask(u *quser, withPolicy bool, polName string) string {
	now := nowNs()
	var pol *appctlpb.User
	line := fmt.Sprintf("KQ %d 0 - %s 0", now, hexName(u.name))
	if withPolicy {
		pol = &appctlpb.User{Name: proto.String(polName)}
		var sb strings.Builder
		for _, q := range u.quotas {
			pol.Quotas = append(pol.Quotas, &appctlpb.Quota{Days: proto.Int32(q[0]), Megabytes: proto.Int32(q[1])})
			fmt.Fprintf(&sb, " %d %d", q[0], q[1])
		}
		line = fmt.Sprintf("KQ %d 1 %s %s %d%s", now, hexName(polName), hexName(u.name), len(u.quotas), sb.String())
	}
	res := callCheckQuota(pol, u.name)
	d.r.Case(line, res)
	d.r.Count("quota-" + res)
	return res
}

// expected decision straight from the property: refused iff for some quota the traffic counted inside the
// window, in whole MiB, exceeds the allowance. -1: the window arithmetic overflows (outside the property).
func expectRefused(u *quser, now int64) int {
	if u.up == nil || u.down == nil {
		return 0
	}
	_, _, hu := metrics.VerifState(u.up)
	_, _, hd := metrics.VerifState(u.down)
	for _, q := range u.quotas {
		if int64(q[0]) > (1<<63-1)/dayNs {
			return -1
		}
		then := now - int64(q[0])*dayNs
		tot := windowScan(hu, then, now) + windowScan(hd, then, now)
		if tot/mib > int64(q[1]) {
			return 1
		}
	}
	return 0
}

// fill puts [total] bytes inside the last [days] days (split over both directions and several entries, some
// already rolled up by the real roll-up) and [outside] bytes before the window.
func (d *drv) fill(g *vh.Rng, u *quser, days int32, total, outside int64, edge bool) {
	now := nowNs()
	win := int64(days) * dayNs
	parts := g.Range(1, 6)
	tmp := [2]*metrics.Counter{metrics.VerifNewTimeSeriesCounter("t"), metrics.VerifNewTimeSeriesCounter("t")}
	type inc struct {
		t, d int64
		w    int
	}
	var incs []inc
	if outside > 0 {
		incs = append(incs, inc{now - win - 1 - g.I64n(20*dayNs), outside, g.Intn(2)})
		if edge { // exactly on the boundary: then.After(then) is false, so it is outside
			incs = append(incs, inc{(now - win) / msNs * msNs, 3 * mib, g.Intn(2)})
		}
	}
	rest := total
	for i := 0; i < parts && rest > 0; i++ {
		x := rest
		if i < parts-1 {
			x = g.I64n(rest + 1)
		}
		if x == 0 {
			continue
		}
		rest -= x
		var ts int64
		switch g.Intn(4) {
		case 0:
			ts = now - g.I64n(2*secNs)
		case 1:
			ts = (now-win)/msNs*msNs + msNs + g.I64n(hrNs) // just inside the window
			if edge {
				ts = (now-win)/msNs*msNs + msNs
			}
		default:
			ts = now - g.I64n(win-dayNs+1) - 1
		}
		incs = append(incs, inc{ts, x, g.Intn(2)})
	}
	sort.Slice(incs, func(i, j int) bool { return incs[i].t < incs[j].t })
	for _, in := range incs {
		metrics.VerifAddWithTime(tmp[in.w], in.d, time.Unix(0, in.t))
	}
	for w, c := range tmp {
		if g.Intn(3) == 0 && !edge { // real roll-up; may move an entry across the window start only for days-old data
			metrics.VerifSetOp(c, 0)
			metrics.VerifRollUp(c)
		}
		_, _, h := metrics.VerifState(c)
		dst := u.up
		if w == 1 {
			dst = u.down
		}
		if dst != nil {
			metrics.VerifSetState(dst, hsum(h), h)
		}
	}
}

func (d *drv) quotaScenario(g *vh.Rng) {
	r := d.r
	d.hid++
	d.step = 0
	r.Case("KC", "-")
	nu := g.Range(2, 5)
	users := make([]*quser, nu)
	dayChoices := []int32{1, 1, 2, 7, 30, 365}
	mbChoices := []int32{1, 1, 2, 5, 64, 1000}
	offs := []int64{-mib, -1, 0, 1, mib - 1, mib, mib + 1, 2 * mib, 5*mib + 12345}
	for i := range users {
		u := &quser{name: fmt.Sprintf("c19-%d-%d-%d", r.Seed, d.hid, i)}
		nq := []int{0, 1, 1, 1, 2, 3}[g.Intn(6)]
		for j := 0; j < nq; j++ {
			u.quotas = append(u.quotas, [2]int32{dayChoices[g.Intn(len(dayChoices))], mbChoices[g.Intn(len(mbChoices))]})
		}
		users[i] = u
		kind := g.Intn(12)
		switch kind {
		case 0: // no metric group at all
		case 1:
			register(u, true, false)
		default:
			register(u, true, true)
		}
		// traffic relative to the first quota (or an arbitrary allowance for users without quota)
		days, mb := int32(1), int32(1)
		if nq > 0 {
			q := u.quotas[g.Intn(nq)]
			days, mb = q[0], q[1]
		}
		off := offs[g.Intn(len(offs))]
		total := int64(mb)*mib + off
		if total < 0 {
			total = 0
		}
		outside := int64(0)
		if g.Bool() {
			outside = g.I64n(3000 * mib)
		}
		d.fill(g, u, days, total, outside, g.Intn(4) == 0)
		d.publish(u)
		r.Distinct(fmt.Sprintf("quota/nq=%d/off=%d/reg=%d/out=%v", nq, off, b2i(kind == 0)+2*b2i(kind == 1), outside > 0))
	}
	verdict := make([]string, nu)
	check := func(round string) {
		for i, u := range users {
			now := nowNs()
			res := d.ask(u, true, u.name)
			exp := expectRefused(u, now)
			if exp == 1 && res != "R" {
				d.fail("over-quota-not-refused", fmt.Sprintf("%s: user %s exceeds a quota %v but checkQuota says %s", round, u.name, u.quotas, res), map[string]interface{}{"user": u.name})
			}
			if exp == 0 && res == "R" {
				if len(u.quotas) == 0 {
					d.fail("user-without-quota-refused", fmt.Sprintf("%s: user %s has no quota and is refused", round, u.name), nil)
				} else {
					d.fail("within-quota-refused", fmt.Sprintf("%s: user %s is within every quota %v and is refused", round, u.name, u.quotas), map[string]interface{}{"user": u.name})
				}
			}
			verdict[i] = res
		}
	}
	check("first")
	// the other users' traffic changes (each user in turn gets its neighbour's situation inverted); own unchanged
	for i, u := range users {
		for j, o := range users {
			if j == i || o.up == nil || o.down == nil {
				continue
			}
			_, _, h := metrics.VerifState(o.up)
			save := append(hist(nil), h...)
			var nh hist
			if g.Bool() {
				nh = append(append(hist(nil), h...), metrics.VerifHistoryEntry{TimeUnixMilli: nowNs() / msNs, Delta: 5000 * mib, RollUp: 0})
			}
			metrics.VerifSetState(o.up, hsum(nh), nh)
			r.Case(fmt.Sprintf("KH %s 0 %s", hexName(o.name), histFields(nh)), "-")
			now := nowNs()
			res := d.ask(u, true, u.name)
			if res != verdict[i] {
				d.fail("decision-depends-on-other-users", fmt.Sprintf("user %s: %s before, %s after user %s's upload counter changed", u.name, verdict[i], res, o.name), nil)
			}
			_ = now
			metrics.VerifSetState(o.up, hsum(save), save)
			r.Case(fmt.Sprintf("KH %s 0 %s", hexName(o.name), histFields(save)), "-")
		}
	}
	// sessions without a usable policy are let through (checkQuota reports an error and ok = true)
	u := users[g.Intn(nu)]
	if res := d.ask(u, false, ""); res == "R" {
		d.fail("refused-without-policy", "session without policy snapshot refused for quota", nil)
	}
	if res := d.ask(u, true, users[(g.Intn(nu-1)+1+indexOf(users, u))%nu].name); res == "R" {
		d.fail("refused-by-other-users-policy", "policy snapshot of another user led to a refusal", nil)
	}
	// the clock runs on: traffic leaves the window
	if g.Intn(3) == 0 {
		time.Sleep(time.Duration(g.I64n(2 * dayNs)))
		check("later")
	}
}

// registryScenario: a history of SetUsers calls on a real serveruser.Registry (the object behind
// Mux.SetServerUsers): reloads that change only quotas, nothing, identities, or both. After every reload the
// policy snapshot that discovery would hand to a new session of each user is compared with the model's
// generation and, independently, with the configuration just loaded; the decision checkQuota takes with that
// snapshot must be the one of the quotas now in force.
func (d *drv) registryScenario(g *vh.Rng) {
	r := d.r
	d.hid++
	d.step = 0
	r.Case("KC", "-")
	r.Case("GN", "-")
	reg := &serveruser.Registry{}
	type ru struct {
		u    *quser
		pass int
		in   bool
	}
	nu := g.Range(2, 4)
	us := make([]*ru, nu)
	dayChoices := []int32{1, 1, 2, 7, 30}
	mbChoices := []int32{1, 1, 2, 5, 64, 1000}
	randQuotas := func() [][2]int32 {
		var q [][2]int32
		for j := []int{0, 1, 1, 2, 3}[g.Intn(5)]; j > 0; j-- {
			q = append(q, [2]int32{dayChoices[g.Intn(len(dayChoices))], mbChoices[g.Intn(len(mbChoices))]})
		}
		return q
	}
	for i := range us {
		u := &quser{name: fmt.Sprintf("c19r-%d-%d-%d", r.Seed, d.hid, i), quotas: randQuotas()}
		register(u, true, true)
		d.fill(g, u, 1, int64(mbChoices[g.Intn(len(mbChoices))])*mib+[]int64{-1, 0, mib - 1, mib, 3 * mib}[g.Intn(5)], 0, false)
		d.publish(u)
		us[i] = &ru{u: u, pass: i, in: true}
	}
	steps := g.Range(3, 8)
	shape := ""
	for d.step = 0; d.step < steps; d.step++ {
		kind := "first"
		if d.step > 0 {
			switch g.Intn(8) {
			case 0:
				kind = "identical"
			case 1:
				kind = "identity" // a user leaves or comes back, or a password changes; quotas change too
				x := us[g.Intn(nu)]
				if g.Bool() {
					x.in = !x.in
				} else {
					x.pass += 100
				}
				us[g.Intn(nu)].u.quotas = randQuotas()
			default:
				kind = "quota-only"
				x := us[g.Intn(nu)]
				old := fmt.Sprint(x.u.quotas)
				for fmt.Sprint(x.u.quotas) == old {
					x.u.quotas = randQuotas()
				}
			}
		}
		shape += kind[:1]
		cfg := map[string]*appctlpb.User{}
		var sb strings.Builder
		n := 0
		for _, x := range us {
			if !x.in {
				continue
			}
			n++
			pu := &appctlpb.User{Name: proto.String(x.u.name), Password: proto.String(fmt.Sprintf("pw%d", x.pass))}
			fmt.Fprintf(&sb, " %s %d %d", hexName(x.u.name), x.pass, len(x.u.quotas))
			for _, q := range x.u.quotas {
				pu.Quotas = append(pu.Quotas, &appctlpb.Quota{Days: proto.Int32(q[0]), Megabytes: proto.Int32(q[1])})
				fmt.Fprintf(&sb, " %d %d", q[0], q[1])
			}
			cfg[x.u.name] = pu
		}
		reg.SetUsers(cfg)
		r.Case(fmt.Sprintf("GR %d%s", n, sb.String()), "-")
		r.Count("reload-" + kind)
		for _, x := range us {
			pol, ok := serveruser.VerifPolicyInForce(reg, x.u.name)
			line, want := "none", "none"
			var inForce [][2]int32
			if ok {
				line = fmt.Sprint(len(pol.Quotas()))
				for _, q := range pol.Quotas() {
					line += fmt.Sprintf(" %d %d", q.Days(), q.Megabytes())
					inForce = append(inForce, [2]int32{q.Days(), q.Megabytes()})
				}
			}
			if x.in {
				want = fmt.Sprint(len(x.u.quotas))
				for _, q := range x.u.quotas {
					want += fmt.Sprintf(" %d %d", q[0], q[1])
				}
			}
			r.Case("GP "+hexName(x.u.name), line)
			c := map[string]interface{}{"user": x.u.name, "reload": kind, "in_force": line, "configured": want}
			if line != want {
				sig := "reload-not-in-force"
				if kind == "quota-only" {
					sig = "reload-quota-only-dropped"
				}
				d.fail(sig, fmt.Sprintf("after a %s reload the policy handed to new sessions of %s is [%s], the configuration says [%s]", kind, x.u.name, line, want), c)
			}
			if !ok {
				continue
			}
			// the decision with the snapshot in force, judged against the configured quotas
			now := nowNs()
			snap := &quser{name: x.u.name, quotas: inForce, up: x.u.up, down: x.u.down}
			res := d.ask(snap, true, x.u.name)
			exp := expectRefused(x.u, now)
			if (exp == 1) != (res == "R") {
				d.fail("reload-decision-by-stale-quota", fmt.Sprintf("after a %s reload user %s has quotas %v configured; checkQuota with the snapshot in force says %s", kind, x.u.name, x.u.quotas, res), c)
			}
		}
	}
	r.Distinct("registry/" + shape)
}

// readScenario: the real Session.Read of a bare server session over a receive queue of given payloads, cut into
// reads by a list of buffer sizes; compared call by call with the model (returned bytes, counted total) and
// judged directly: after every call UploadBytes = bytes returned so far, the returned bytes are the front of
// the stream, and another partition of the same stream ends with the same total.
func (d *drv) readScenario(g *vh.Rng, corpus int) {
	r := d.r
	d.hid++
	d.step = 0
	segSizes := []int{0, 1, 2, 3, 4, 7, 8, 10, 16, 33, 64, 100, 333, 1000}
	bufSizes := []int{0, 1, 1, 2, 2, 3, 4, 5, 7, 8, 16, 50, 100, 333, 500, 999, 1000, 1001, 4096}
	var payloads [][]byte
	var wants []int
	total := 0
	switch corpus {
	case 1: // one segment read in two halves (the leftover exactly fills the second buffer)
		payloads, wants, total = [][]byte{g.Bytes(1000)}, []int{500, 500, 1}, 1000
	case 2: // byte by byte
		payloads, total = [][]byte{g.Bytes(5), g.Bytes(3)}, 8
		wants = []int{1, 1, 1, 1, 1, 1, 1, 1, 1}
	case 3: // thirds, leftover larger than the buffer
		payloads, wants, total = [][]byte{g.Bytes(1000), g.Bytes(1000)}, []int{333, 333, 333, 333, 333, 333, 333}, 2000
	default:
		for i := g.Range(1, 8); i > 0; i-- {
			n := segSizes[g.Intn(len(segSizes))]
			payloads = append(payloads, g.Bytes(n))
			total += n
		}
		style := g.Intn(3)
		fixed := bufSizes[1+g.Intn(len(bufSizes)-1)]
		for rem, extra := total, 2; rem > 0 || extra > 0; {
			w := fixed
			if style != 0 {
				w = bufSizes[g.Intn(len(bufSizes))]
			}
			wants = append(wants, w)
			if rem > 0 {
				if w > rem {
					w = rem
				}
				rem -= w // upper bound of what this read can take
				if w == 0 && len(wants) > 400 {
					break
				}
			} else {
				extra--
			}
			if len(wants) > 600 {
				break
			}
		}
	}
	cnt := metrics.VerifNewTimeSeriesCounter("UploadBytes")
	out, counted := protocol.VerifC19ReadStream(cnt, payloads, wants)
	var cs, is strings.Builder
	fmt.Fprintf(&cs, "RS %d", len(payloads))
	var stream []byte
	for _, p := range payloads {
		cs.WriteString(" " + vh.Hex(p))
		stream = append(stream, p...)
	}
	fmt.Fprintf(&cs, " %d", len(wants))
	var got []byte
	small := false
	for i, w := range wants {
		fmt.Fprintf(&cs, " %d", w)
		if i > 0 {
			is.WriteByte(' ')
		}
		fmt.Fprintf(&is, "%s:%d", vh.Hex(out[i]), counted[i])
		got = append(got, out[i]...)
		if len(out[i]) > 0 && i > 0 && len(out[i-1]) > 0 {
			small = true
		}
		if counted[i] != int64(len(got)) {
			d.step = i
			d.fail("read-returned-bytes-not-counted", fmt.Sprintf("Read #%d with a %d byte buffer returned %d bytes; the application has %d bytes of the session, UploadBytes says %d",
				i, w, len(out[i]), len(got), counted[i]), map[string]interface{}{"segment_sizes": sizes(payloads), "read_buffers": wants})
		}
	}
	if string(got) != string(stream[:len(got)]) {
		d.fail("read-bytes-not-stream-prefix", "the bytes returned by Read are not the front of the queued stream", map[string]interface{}{"segment_sizes": sizes(payloads), "read_buffers": wants})
	}
	r.Case(cs.String(), is.String())
	r.Count("read-stream")
	// the same stream taken by one large read per segment: same total
	if len(got) == total && total > 0 {
		cnt2 := metrics.VerifNewTimeSeriesCounter("UploadBytes")
		w2 := make([]int, len(payloads)+1)
		for i := range w2 {
			w2[i] = 32768
		}
		_, c2 := protocol.VerifC19ReadStream(cnt2, payloads, w2)
		if c2[len(c2)-1] != counted[len(counted)-1] || c2[len(c2)-1] != int64(total) {
			d.fail("count-depends-on-read-partition", fmt.Sprintf("stream of %d bytes: %d counted when read with buffers %v, %d when read with 32 KiB buffers", total, counted[len(counted)-1], wants, c2[len(c2)-1]),
				map[string]interface{}{"segment_sizes": sizes(payloads), "read_buffers": wants})
		}
	}
	if small {
		r.Distinct(fmt.Sprintf("read/segs=%d/reads=%d/total=%d", len(payloads), len(wants), total))
	}
}

func sizes(p [][]byte) []int {
	l := make([]int, len(p))
	for i := range p {
		l[i] = len(p[i])
	}
	return l
}

func indexOf(us []*quser, u *quser) int {
	for i, x := range us {
		if x == u {
			return i
		}
	}
	return 0
}

// quotaGrid: one user, one quota, traffic on the exact byte boundaries (complete for the listed offsets).
func (d *drv) quotaGrid() {
	r := d.r
	d.hid++
	r.Case("KC", "-")
	n := 0
	for _, days := range []int32{1, 7, 30} {
		for _, mb := range []int32{1, 3, 100, 2047} {
			for _, off := range []int64{-mib - 1, -mib, -1, 0, 1, mib - 1, mib, mib + 1, 2*mib - 1, 2 * mib} {
				for _, split := range []int{0, 1, 2} { // all upload, all download, half each
					n++
					u := &quser{name: fmt.Sprintf("c19g-%d-%d", r.Seed, n), quotas: [][2]int32{{days, mb}}}
					register(u, true, true)
					total := int64(mb)*mib + off
					now := nowNs()
					ms := now/msNs - 5
					upB, downB := total, int64(0)
					if split == 1 {
						upB, downB = 0, total
					} else if split == 2 {
						upB, downB = total/2, total-total/2
					}
					mk := func(b int64) hist {
						h := hist{{TimeUnixMilli: ms - int64(days)*86400000 - 1000, Delta: 7 * mib, RollUp: 1}}
						if b > 0 {
							h = append(h, metrics.VerifHistoryEntry{TimeUnixMilli: ms, Delta: b, RollUp: 0})
						}
						return h
					}
					hu, hd := mk(upB), mk(downB)
					metrics.VerifSetState(u.up, hsum(hu), hu)
					metrics.VerifSetState(u.down, hsum(hd), hd)
					d.publish(u)
					res := d.ask(u, true, u.name)
					r.Count("grid")
					r.Distinct(fmt.Sprintf("grid/%d/%d/%d/%d", days, mb, off, split))
					exceeds := total >= (int64(mb)+1)*mib // more than the allowance, counted in whole MiB as the code does
					if exceeds && res != "R" {
						d.fail("over-quota-not-refused", fmt.Sprintf("grid: %d bytes in %d days against %d MiB: %s", total, days, mb, res), map[string]interface{}{"days": days, "mb": mb, "bytes": total})
					}
					if !exceeds && res != "A" {
						d.fail("within-quota-refused", fmt.Sprintf("grid: %d bytes in %d days against %d MiB: %s", total, days, mb, res), map[string]interface{}{"days": days, "mb": mb, "bytes": total})
					}
				}
			}
		}
	}
	// validated versus unvalidated quota records around the validator's bound (maxQuotaDays = 106751): a record
	// the real validator accepts must never make checkQuota panic and must get the decision of the property;
	// a rejected record can never be installed, its behaviour is only compared with the model (under recover)
	for _, days := range []int32{1, 365, 106750, 106751, 106752, 200000, 213504, 1<<31 - 1, 0, -1} {
		for _, mb := range []int32{1, 5, 0, -3} {
			n++
			u := &quser{name: fmt.Sprintf("c19g-%d-%d", r.Seed, n), quotas: [][2]int32{{days, mb}}}
			rec := &appctlpb.User{Name: proto.String(u.name), Password: proto.String("p"),
				Quotas: []*appctlpb.Quota{{Days: proto.Int32(days), Megabytes: proto.Int32(mb)}}}
			valid := appctlcommon.ValidateServerConfigSingleUser(rec) == nil
			r.Case(fmt.Sprintf("KV %d %d", days, mb), fmt.Sprint(b2i(valid)))
			r.Count(fmt.Sprintf("validate-%d", b2i(valid)))
			register(u, true, true)
			for _, bytes := range []int64{int64(mb)*mib + mib - 1, int64(mb)*mib + mib} {
				if bytes < 0 {
					bytes = 0
				}
				now := nowNs()
				h := hist{{TimeUnixMilli: now/msNs - 86400000*400, Delta: bytes / 2, RollUp: 4}, {TimeUnixMilli: now/msNs - 1000, Delta: bytes - bytes/2, RollUp: 0}}
				metrics.VerifSetState(u.up, hsum(h), h)
				d.publish(u)
				res := d.ask(u, true, u.name)
				r.Count("grid-validated-" + fmt.Sprint(b2i(valid)))
				r.Distinct(fmt.Sprintf("validated/%d/%d/%d/%s", days, mb, bytes, res))
				c := map[string]interface{}{"days": days, "mb": mb, "bytes": bytes}
				if valid {
					if res == "P" {
						d.fail("validated-quota-panics", fmt.Sprintf("record days=%d mb=%d passes ValidateServerConfigSingleUser but checkQuota panics", days, mb), c)
					}
					exp := expectRefused(u, now)
					if (exp == 1) != (res == "R") || exp == -1 {
						d.fail("validated-quota-wrong-decision", fmt.Sprintf("record days=%d mb=%d, %d bytes in the window: checkQuota says %s", days, mb, bytes, res), c)
					}
				} else {
					if r.Rep.Notes == nil {
						r.Rep.Notes = map[string]string{}
					}
					r.Rep.Notes[fmt.Sprintf("unvalidated days=%d mb=%d", days, mb)] = "checkQuota -> " + res
				}
			}
		}
	}
}

func main() {
	r := vh.Start("c19")
	defer r.Finish()
	r.Rep.Rule = "counter: generated operation histories of one metrics.Counter under virtual time (increments in bursts inside one instant / one millisecond, gaps of seconds to three weeks, history start 0 s .. 60 d before the clock, real Add at the clock, roll-up forced at arbitrary operation counts incl. uint64 wrap, natural roll-up at multiples of the interval, Load, window queries on and around entry timestamps, dump/load into fresh and used counters; 'wild' histories add decreasing/future timestamps, forged labels and single passes with arbitrary parameters). quota: boundary grid days x megabytes x byte offset around the allowance x upload/download split, records around the validator's bound on days (106750 .. 2^31-1, 0, -1; megabytes 1, 5, 0, -3) validated by the real ValidateServerConfigSingleUser, then random mixes of 2..5 users with 0..3 quotas, missing metric groups, traffic outside the window and on its edge, other users' counters changed between two decisions. read: the real Session.Read of a bare server session over 1..8 queued payloads of 0..1000 bytes cut by buffer sizes 0..4096 (fixed or mixed), each call compared with the model (bytes returned, counted total) and a second partition of the same stream. registry: histories of 3..8 SetUsers calls on a real serveruser.Registry for 2..4 users with counted traffic (quota-only changes, identical reloads, users leaving/returning or changing password together with quota changes), after each reload the policy snapshot in force for every user and the checkQuota decision taken with it. Non-trivial/distinct = counter histories with at least one roll-up keyed by (span, start operation count mod interval, number of roll-ups, labels present at the end); quota cases keyed by (number of quotas, offset from allowance, registration, traffic outside window)"
	d := &drv{r: r, failed: map[string]bool{}}
	// The Go 1.23 faketime runtime can spin forever inside a garbage collection that starts while virtual timers
	// are pending (seen here: 3 hangs in 6 runs once Session.Read's deadline timers were added; same mitigation
	// as harness/rig). Collect only between scenarios.
	debug.SetGCPercent(-1)
	gc := func(i int) {
		if i%25 == 0 {
			runtime.GC()
		}
	}

	// corpus: the shapes of DESIGN A.6 first (fixed seeds, independent of -seed)
	cg := vh.NewRng(19)
	for i := 0; i < 6; i++ {
		d.counterHistory(cg.Fork(), 120, i%3 == 2)
	}
	d.quotaGrid()

	nh, steps, nq := 60, 220, 40
	if r.Thorough() {
		nh, steps, nq = 400, 1000, 600
	}
	for i := 0; i < nh; i++ {
		g := r.Rng.Fork()
		n := 30 + g.Intn(steps)
		if r.Thorough() && i%50 == 0 {
			n = 3200 // natural roll-ups only come with long histories
		}
		d.counterHistory(g, n, i%4 == 3)
		gc(i)
	}
	for i := 0; i < nq; i++ {
		d.quotaScenario(r.Rng.Fork())
		gc(i)
	}
	for i := 0; i < nq; i++ {
		d.registryScenario(r.Rng.Fork())
		gc(i)
	}
	for i := 1; i <= 3; i++ {
		d.readScenario(vh.NewRng(uint64(190+i)), i)
	}
	for i := 0; i < 6*nq; i++ {
		d.readScenario(r.Rng.Fork(), 0)
		gc(i)
	}
}
