package main

// C19, second half of the end-to-end mode:
//  * byte accounting against every way an application can cut the stream: the server application reads with
//    buffers of 1 .. 32768 bytes (so that segments are consumed in pieces and from the leftover buffer) and
//    writes in pieces of the same sizes; after EVERY Read/Write the per-user counter must equal the bytes the
//    application really got / handed over, and quota enforcement must follow from the counted bytes;
//  * reload histories: the users are reloaded through Mux.SetServerUsers(appctlcommon.UserListToMap(..)) (what
//    the Reload RPC of pkg/appctl/server.go and apis/server do) with only quotas changed, unchanged, and together
//    with an identity change; the next session of the user must be decided by the quota now in force.

import (
	"context"
	"fmt"
	"net"
	"time"

	"github.com/enfein/mieru/v3/pkg/appctl/appctlcommon"
	"github.com/enfein/mieru/v3/pkg/appctl/appctlpb"
	"google.golang.org/protobuf/proto"
	"verifharness/rig"
	"verifharness/vh"
)

type dialer interface {
	DialContext(context.Context) (net.Conn, error)
}

func sumInts(l []int) int {
	s := 0
	for _, v := range l {
		s += v
	}
	return s
}

// acctSession: the client writes [writes], the server application reads everything with a buffer of readBuf
// bytes, then writes [downWrites] piece by piece, the client reads with clientBuf. After every Read and Write
// of the server application the user's counters are compared with the bytes moved so far (one session of the
// user at a time, so the comparison is exact). Returns the bytes the server application read and wrote.
func acctSession(r *vh.Run, rg *rig.Rig, cl dialer, user, tr string, writes []int, readBuf int, downWrites []int, clientBuf int) (int, int) {
	baseUp, baseDown, _ := userCounters(user)
	total, totalDown := sumInts(writes), sumInts(downWrites)
	cas := map[string]interface{}{"transport": tr, "user_class": strings3(user), "client_writes": writes, "server_read_buffer": readBuf,
		"server_writes": downWrites, "client_read_buffer": clientBuf}
	ctx, cancel := context.WithTimeout(context.Background(), 20*time.Second)
	defer cancel()
	c, err := cl.DialContext(ctx)
	if err != nil {
		r.Fail("c19-acct-dial", err.Error(), cas)
		return 0, 0
	}
	defer c.Close()
	type sres struct {
		rd, wr int
		bad    string
		sig    string
	}
	sch := make(chan sres, 1)
	go func() {
		res := sres{}
		defer func() { sch <- res }()
		s, err := rg.Accept(8 * time.Second)
		if err != nil {
			res.bad, res.sig = "server did not accept the session: "+err.Error(), "c19-acct-accept"
			return
		}
		defer s.Close()
		buf := make([]byte, readBuf)
		prevUp := baseUp
		for res.rd < total {
			s.SetReadDeadline(time.Now().Add(60 * time.Second))
			n, err := s.Read(buf)
			res.rd += n
			up, _, ok := userCounters(user)
			if res.bad == "" && (!ok || up != baseUp+int64(res.rd) || up < prevUp) {
				res.sig = "upload-bytes-miscounted"
				res.bad = fmt.Sprintf("after a Read that returned %d bytes (buffer %d) the server application has read %d bytes on this session, the user's UploadBytes moved from %d to %d (want %d)",
					n, readBuf, res.rd, baseUp, up, baseUp+int64(res.rd))
			}
			prevUp = up
			if err != nil {
				if res.bad == "" {
					res.sig, res.bad = "c19-acct-read", fmt.Sprintf("server read failed after %d/%d bytes: %v", res.rd, total, err)
				}
				return
			}
		}
		for _, w := range downWrites {
			n, err := s.Write(make([]byte, w))
			res.wr += n
			_, down, ok := userCounters(user)
			if res.bad == "" && (!ok || down != baseDown+int64(res.wr)) {
				res.sig = "download-bytes-miscounted"
				res.bad = fmt.Sprintf("after a Write of %d bytes (returned %d) the server application has written %d bytes on this session, the user's DownloadBytes moved from %d to %d (want %d)",
					w, n, res.wr, baseDown, down, baseDown+int64(res.wr))
			}
			if err != nil {
				if res.bad == "" {
					res.sig, res.bad = "c19-acct-write", fmt.Sprintf("server write failed after %d/%d bytes: %v", res.wr, totalDown, err)
				}
				return
			}
		}
		// wait for the client to finish reading (it closes afterwards)
		s.SetReadDeadline(time.Now().Add(60 * time.Second))
		s.Read(buf[:1])
	}()
	for _, w := range writes {
		if _, err := c.Write(make([]byte, w)); err != nil {
			r.Fail("c19-acct-client-write", err.Error(), cas)
			break
		}
	}
	got := 0
	cbuf := make([]byte, clientBuf)
	for got < totalDown {
		c.SetReadDeadline(time.Now().Add(60 * time.Second))
		n, err := c.Read(cbuf)
		got += n
		if err != nil {
			r.Fail("c19-acct-client-read", fmt.Sprintf("client read %d/%d: %v", got, totalDown, err), cas)
			break
		}
	}
	c.Close()
	sr := <-sch
	cas["server_read"], cas["server_wrote"] = sr.rd, sr.wr
	if sr.bad != "" {
		r.Fail(sr.sig, sr.bad, cas)
	}
	up, down, ok := userCounters(user)
	if !ok || up != baseUp+int64(sr.rd) {
		r.Fail("upload-bytes-miscounted", fmt.Sprintf("session over: server application read %d bytes with a %d byte buffer, UploadBytes grew by %d", sr.rd, readBuf, up-baseUp), cas)
	}
	if !ok || down != baseDown+int64(sr.wr) {
		r.Fail("download-bytes-miscounted", fmt.Sprintf("session over: server application wrote %d bytes in %d writes, DownloadBytes grew by %d", sr.wr, len(downWrites), down-baseDown), cas)
	}
	r.Case(fmt.Sprintf("ACCT %s %s readbuf=%d writes=%d up=%d down=%d", tr, strings3(user), readBuf, len(downWrites), total, totalDown), "OK")
	r.Count("acct-session-" + tr)
	return sr.rd, sr.wr
}

// pieces cuts n bytes into writes of at most sz bytes.
func pieces(n, sz int) []int {
	var l []int
	for n > 0 {
		w := sz
		if w > n {
			w = n
		}
		l = append(l, w)
		n -= w
	}
	return l
}

func runC19Accounting(r *vh.Run, tr string) {
	tag := fmt.Sprintf("%s%d", tr, r.Seed)
	acc, lim := "acc"+tag, "lm2"+tag
	rg, err := rig.Start(rig.Opts{Transport: tr, MTU: 1400, Users: map[string]string{acc: "pa", lim: "pl"},
		Quotas:     map[string][]*appctlpb.Quota{lim: {{Days: proto.Int32(1), Megabytes: proto.Int32(1)}}},
		ClientUser: acc, ClientPass: "pa", Multiplex: 2})
	if err != nil {
		r.Fail("c19-start", err.Error(), nil)
		return
	}
	defer rg.Close()
	if tr == "udp" {
		rg.Net.Latency = 2 * time.Millisecond
	}
	// client writes around the sizes where a write becomes one segment, several segments, the piggybacked open
	// request payload (<= 1024), the fragment size of the MTU and the 32 KiB PDU
	short := []int{1000, 1000, 1, 999, 1001, 333, 1024, 1025, 1400, 1401, 4096}
	long := append(append([]int{}, short...), 1300, 1399, 2800, 32767, 32768, 32769)
	for _, b := range []int{1, 7, 100, 333, 500, 999, 1000, 4096, 32768} {
		writes := short
		if b >= 333 && (b == 32768 || r.Thorough()) {
			writes = long
		}
		// download: the server application writes the same volume in pieces of b bytes (bounded number of writes)
		downTotal := sumInts(short)
		if b < 100 {
			downTotal = 600 * b
		}
		acctSession(r, rg, rg.Client, acc, tr, writes, b, pieces(downTotal, b), []int{32768, 1, 500, 4096, 7, 333, 1000, 100, 999}[b%9])
		r.Distinct(fmt.Sprintf("acct/%s/buf=%d", tr, b))
	}
	// enforcement follows the counted bytes: 2.2 MiB taken from the session in 500-byte reads, next session refused
	cLim, _ := rg.NewClient(lim, "pl", nil, "10.0.2.9")
	defer cLim.Close()
	rd, _ := acctSession(r, rg, cLim, lim, tr, pieces(2300000, 20000), 500, []int{10}, 100)
	_, _, refused, errs := quotaSession(rg, cLim, 100, 100)
	r.Case(fmt.Sprintf("ACCT %s lim after-small-reads", tr), "OK")
	if !refused {
		r.Fail("quota-exceeded-session-not-refused", fmt.Sprintf("user with 1 MiB/day whose server application read %d bytes in 500-byte reads got a new session relayed", rd),
			map[string]interface{}{"transport": tr, "server_read": rd, "server_read_buffer": 500, "errors": errs})
	}
	r.Distinct(fmt.Sprintf("acct/%s/enforced=%v", tr, refused))
}

// ------------------------------------------------------------------------------------------- reload histories

type ruser struct {
	name, pass string
	quotas     [][2]int32
}

func reloadUsers(rg *rig.Rig, us []ruser) {
	var list []*appctlpb.User
	for _, u := range us {
		pu := &appctlpb.User{Name: proto.String(u.name), Password: proto.String(u.pass)}
		for _, q := range u.quotas {
			pu.Quotas = append(pu.Quotas, &appctlpb.Quota{Days: proto.Int32(q[0]), Megabytes: proto.Int32(q[1])})
		}
		list = append(list, pu)
	}
	// the path of the Reload RPC (pkg/appctl/server.go) and of apis/server: UserListToMap, then Mux.SetServerUsers
	rg.Server.SetServerUsers(appctlcommon.UserListToMap(list))
}

func runC19Reload(r *vh.Run, tr string) {
	tag := fmt.Sprintf("%s%d", tr, r.Seed)
	ra, rb, rd := "rla"+tag, "rlb"+tag, "rld"+tag
	rg, err := rig.Start(rig.Opts{Transport: tr, MTU: 1400, Users: map[string]string{ra: "pa", rb: "pb"},
		Quotas:     map[string][]*appctlpb.Quota{rb: {{Days: proto.Int32(1), Megabytes: proto.Int32(1)}}},
		ClientUser: ra, ClientPass: "pa"})
	if err != nil {
		r.Fail("c19-start", err.Error(), nil)
		return
	}
	defer rg.Close()
	if tr == "udp" {
		rg.Net.Latency = 2 * time.Millisecond
	}
	nclient := 0
	// every decision is taken on a fresh client (new underlay, so the user is discovered in the current generation)
	open := func(user, pass string, up, down int, wantRefused bool, phase, sig string) {
		nclient++
		cl, err := rg.NewClient(user, pass, nil, fmt.Sprintf("10.0.3.%d", nclient))
		if err != nil {
			r.Fail("c19-reload-client", err.Error(), nil)
			return
		}
		defer cl.Close()
		sRead, sWrote, refused, errs := quotaSession(rg, cl, up, down)
		r.Case(fmt.Sprintf("RELOAD %s %s %s", tr, strings3(user), phase), "OK")
		r.Count("reload-session-" + tr)
		r.Distinct(fmt.Sprintf("reload/%s/%s/%s/%v", tr, strings3(user), phase, refused))
		cas := map[string]interface{}{"transport": tr, "user_class": strings3(user), "phase": phase, "server_read": sRead, "server_wrote": sWrote, "errors": errs}
		if wantRefused && (!refused || sRead > 0 || sWrote > 0) {
			r.Fail(sig, fmt.Sprintf("%s: the quota in force after the reload is exceeded, yet the session was served (server application read %d, wrote %d)", phase, sRead, sWrote), cas)
		}
		if !wantRefused && (refused || sRead != up || sWrote != down) {
			r.Fail(sig, fmt.Sprintf("%s: the quota in force after the reload admits the user, yet the session failed: %s", phase, errs), cas)
		}
	}
	q := func(days, mb int32) [][2]int32 { return [][2]int32{{days, mb}} }
	open(ra, "pa", 2300000, 100, false, "no-quota-2.3MB", "within-quota-session-refused")
	open(rb, "pb", 2300000, 100, false, "quota-1MiB-crossing", "within-quota-session-refused")
	open(rb, "pb", 100, 100, true, "quota-1MiB-above", "quota-exceeded-session-not-refused")

	reloadUsers(rg, []ruser{{ra, "pa", q(1, 1)}, {rb, "pb", q(1, 1)}}) // only ra's quota differs
	open(ra, "pa", 100, 100, true, "quota-lowered-below-total", "reload-lowered-quota-not-enforced")
	open(rb, "pb", 100, 100, true, "unchanged-still-above", "reload-changed-unrelated-user")

	reloadUsers(rg, []ruser{{ra, "pa", q(1, 100)}, {rb, "pb", q(1, 100)}}) // both raised, nothing else
	open(ra, "pa", 100, 100, false, "quota-raised", "reload-raised-quota-still-refused")
	open(rb, "pb", 100, 100, false, "quota-raised", "reload-raised-quota-still-refused")

	reloadUsers(rg, []ruser{{ra, "pa", q(1, 100)}, {rb, "pb", q(1, 100)}}) // identical reload
	open(ra, "pa", 100, 100, false, "identical-reload", "reload-identical-changed-decision")

	reloadUsers(rg, []ruser{{ra, "pa", q(1, 1)}, {rb, "pb", nil}, {rd, "pd", nil}}) // quotas and identities in one reload
	open(ra, "pa", 100, 100, true, "quota-lowered-with-new-user", "reload-lowered-quota-not-enforced")
	open(rb, "pb", 100, 100, false, "quota-removed", "reload-removed-quota-still-refused")
	open(rd, "pd", 100, 100, false, "new-user", "reload-new-user-not-served")

	reloadUsers(rg, []ruser{{ra, "pa", [][2]int32{{1, 100}, {30, 1}}}, {rb, "pb", nil}, {rd, "pd", nil}}) // second quota added only
	open(ra, "pa", 100, 100, true, "second-quota-added", "reload-lowered-quota-not-enforced")
	reloadUsers(rg, []ruser{{ra, "pa", [][2]int32{{1, 100}, {30, 3}}}, {rb, "pb", nil}, {rd, "pd", nil}}) // only its megabytes change
	open(ra, "pa", 100, 100, false, "second-quota-raised", "reload-raised-quota-still-refused")
}
