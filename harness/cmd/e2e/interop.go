package main

import (
	"bytes"
	"fmt"
	"io"
	"net"
	"time"

	"verifharness/refcodec"
	"verifharness/rig"
	"verifharness/simnet"
	"verifharness/vh"
)

// runC09Interop lets the reference codec act as a third-party CLIENT against a real mieru
// server (both transports) using every documented freedom: padding lengths 0..255, any valid
// mask / rotation / mode, piggybacked open payload 0..1024, max-size payloads.
func runC09Interop(r *vh.Run) {
	g := r.Rng.Fork()
	n := 12
	if r.Thorough() {
		n = 150
	}
	for i := 0; i < n; i++ {
		for _, tr := range []string{"tcp", "udp"} {
			interopOnce(r, g.Fork(), tr, i)
		}
	}
}

func validMask(g *vh.Rng, mode uint8) uint32 {
	ones := 4 * refcodec.LESourceBytes(mode) // half-mask weight = 4*C
	for {
		var m uint32
		idx := g.Intn(3)
		switch idx {
		case 0: // contiguous
			start := g.Intn(32 - ones + 1)
			for b := 0; b < ones; b++ {
				m |= 1 << uint(start+b)
			}
		default:
			perm := make([]int, 32)
			for j := range perm {
				perm[j] = j
			}
			for j := 31; j > 0; j-- {
				k := g.Intn(j + 1)
				perm[j], perm[k] = perm[k], perm[j]
			}
			for b := 0; b < ones; b++ {
				m |= 1 << uint(perm[b])
			}
		}
		if refcodec.LEValidMask(mode, m) {
			return m
		}
	}
}

var validRots = []uint8{0, 1, 2, 7, 15, 16, 32, 48, 112, 240, 9, 224, 0xf0}

func interopOnce(r *vh.Run, g *vh.Rng, tr string, idx int) {
	dbg("interop %s %d", tr, idx)
	user := fmt.Sprintf("interop%s%d", tr, idx)
	pass := fmt.Sprintf("pw%d", g.Intn(1000000))
	rg, err := rig.StartServer(rig.Opts{Transport: tr, MTU: 1400, Users: map[string]string{user: pass}, ClientUser: user, ClientPass: pass})
	if err != nil {
		r.Fail("interop-server-start", err.Error(), nil)
		return
	}
	defer func() { dbg("closing rig"); rg.Close(); dbg("closed rig") }()
	now := time.Now()
	hp := refcodec.HashedPassword(user, pass)
	slot := refcodec.SlotOf(now) + []int64{0, 0, -120, 120}[g.Intn(4)] // any of the three valid slots
	key := refcodec.DeriveKey(hp, slot)
	sid := uint32(g.U64()) | 1
	ts := refcodec.TimestampOf(now)
	mode := uint8(g.Intn(5))
	rot := validRots[g.Intn(len(validRots))]
	if !refcodec.LEValidRotation(rot) {
		rot = 0
	}
	// application data
	var writes [][]byte
	first := g.Bytes([]int{0, 1, 100, 1023, 1024}[g.Intn(5)])
	maxData := 32768
	if tr == "udp" {
		maxData = 1400 - 104 - 40
		if mode != 0 {
			maxData = ((1400 - 104) / 8) * refcodec.LESourceBytes(mode)
		}
	} else if mode == 1 {
		maxData = 32764
	}
	nseg := g.Range(1, 5)
	for i := 0; i < nseg; i++ {
		sz := []int{1, 2, 7, maxData, maxData - 1, g.Range(1, maxData)}[g.Intn(6)]
		writes = append(writes, g.Bytes(sz))
	}
	pad := func(max int) []byte {
		if max <= 0 {
			return nil
		}
		return g.Bytes([]int{0, 1, max, g.Intn(max + 1)}[g.Intn(4)])
	}
	var segs []refcodec.Segment
	open := refcodec.Segment{Meta: refcodec.Meta{Proto: 2, Timestamp: ts, SessionID: sid, Seq: 0}, Payload: first, Suffix: pad(255)}
	segs = append(segs, open)
	want := append([]byte{}, first...)
	for i, w := range writes {
		m := refcodec.Meta{Proto: 6, Timestamp: ts, SessionID: sid, Seq: uint32(i + 1), WindowSize: 4096}
		if mode != 0 {
			m.Proto = 10
			m.LEMode = mode
			m.LEMask = validMask(g, mode)
			m.LERot = rot
		}
		room := 255
		if tr == "udp" {
			// stay within the MTU: total = 104 + body + pads
			body := len(w)
			if mode != 0 {
				body = refcodec.LEEncodedLen(mode, len(w))
			}
			room = 1400 - 104 - body
			if room > 255 {
				room = 255
			}
			if room < 0 {
				room = 0
			}
		}
		p1 := pad(room)
		p2 := pad(room - len(p1))
		if tr == "tcp" {
			p2 = pad(255)
		}
		segs = append(segs, refcodec.Segment{Meta: m, Payload: w, Prefix: p1, Suffix: p2})
		want = append(want, w...)
	}
	cas := map[string]interface{}{"transport": tr, "mode": mode, "rotation": rot, "slot_offset": slot - refcodec.SlotOf(now), "first_len": len(first), "data_lens": lens(writes), "index": idx, "seed": r.Seed}
	r.Count("interop-" + tr)
	r.Distinct(fmt.Sprintf("interop/%s/m%d/r%d/f%d", tr, mode, rot, len(first)))
	r.Case(fmt.Sprintf("INTEROP %s mode=%d rot=%d first=%d segs=%d", tr, mode, rot, len(first), len(writes)), "OK")

	reply := g.Bytes(g.Range(1, 3000))
	got := make(chan []byte, 1)
	go func() {
		c, err := rg.Accept(20 * time.Second)
		if err != nil {
			got <- nil
			return
		}
		buf := make([]byte, len(want))
		c.SetReadDeadline(time.Now().Add(30 * time.Second))
		if _, err := io.ReadFull(c, buf); err != nil {
			got <- nil
			return
		}
		c.Write(reply)
		got <- buf
		time.Sleep(2 * time.Second)
		c.Close()
	}()

	keys := [][]byte{key}
	var rx []byte
	if tr == "tcp" {
		conn, err := rg.Net.DialFrom("10.0.0.77", "192.0.2.1:8964")
		if err != nil {
			r.Fail("interop-dial", err.Error(), cas)
			return
		}
		nonce := g.Bytes(24)
		refcodec.SetUserHint(user, nonce)
		enc := refcodec.NewStreamEncoder(key, nonce)
		enc.LEPadOne = g.Bool()
		var stream []byte
		for _, s := range segs {
			stream = append(stream, enc.Encode(s)...)
		}
		// arbitrary chunking of the third party's writes
		for len(stream) > 0 {
			n := g.Range(1, 5000)
			if n > len(stream) {
				n = len(stream)
			}
			conn.Write(stream[:n])
			stream = stream[n:]
		}
		b := <-got
		if b == nil || !bytes.Equal(b, want) {
			r.Fail("mieru-server-rejects-documented-tcp-traffic", fmt.Sprintf("real server did not deliver the %d bytes a reference-codec client sent", len(want)), cas)
			conn.Close()
			return
		}
		dec := refcodec.NewStreamDecoder(keys)
		buf := make([]byte, 65536)
		deadline := time.Now().Add(10 * time.Second)
		for len(rx) < len(reply) && time.Now().Before(deadline) {
			conn.SetReadDeadline(time.Now().Add(2 * time.Second))
			n, err := conn.Read(buf)
			if n > 0 {
				ss, derr := dec.Feed(buf[:n])
				for _, s := range ss {
					if s.Meta.IsData() || s.Meta.Proto == 3 {
						rx = append(rx, s.Payload...)
					}
				}
				if derr != nil {
					r.Fail("refcodec-cannot-decode-server-reply", derr.Error(), cas)
					break
				}
			}
			if err != nil && n == 0 {
				if ne, ok := err.(net.Error); ok && ne.Timeout() {
					continue
				}
				break
			}
		}
		conn.Close()
	} else {
		sock, err := rg.Net.NewClientSock("10.0.0.77")
		if err != nil {
			r.Fail("interop-sock", err.Error(), cas)
			return
		}
		defer sock.Close()
		dst := &net.UDPAddr{IP: net.ParseIP("192.0.2.1"), Port: 8964}
		send := func(s refcodec.Segment) {
			nonce := g.Bytes(24)
			refcodec.SetUserHint(user, nonce)
			sock.WriteTo(refcodec.EncodeDatagramPad(key, nonce, s, g.Bool()), dst)
		}
		// a minimal third-party sender: transmit everything, then retransmit until acked
		acked := uint32(0)
		done := make(chan struct{})
		go func() {
			buf := make([]byte, 2048)
			for {
				sock.SetReadDeadline(time.Now().Add(15 * time.Second))
				n, _, err := sock.ReadFrom(buf)
				if err != nil {
					close(done)
					return
				}
				s, _, derr := refcodec.DecodeDatagram(keys, buf[:n])
				if derr != nil {
					r.Fail("refcodec-cannot-decode-server-datagram", derr.Error(), cas)
					continue
				}
				if s.Meta.IsData() || s.Meta.IsAck() {
					if s.Meta.UnAckSeq > acked {
						acked = s.Meta.UnAckSeq
					}
				}
				if s.Meta.IsData() {
					rx = append(rx, s.Payload...) // lossless network: arrives in order
					// acknowledge so that the server stops retransmitting
					send(refcodec.Segment{Meta: refcodec.Meta{Proto: 8, Timestamp: refcodec.TimestampOf(time.Now()), SessionID: sid, Seq: uint32(len(segs) - 1), UnAckSeq: s.Meta.Seq + 1, WindowSize: 4096}})
				}
			}
		}()
		for _, s := range segs {
			send(s)
			time.Sleep(2 * time.Millisecond)
		}
		dbg("udp sent all")
		b := <-got
		dbg("udp got %v", b != nil)
		if b == nil || !bytes.Equal(b, want) {
			r.Fail("mieru-server-rejects-documented-udp-traffic", fmt.Sprintf("real server did not deliver the %d bytes a reference-codec client sent", len(want)), cas)
			return
		}
		deadline := time.Now().Add(8 * time.Second)
		for len(rx) < len(reply) && time.Now().Before(deadline) {
			time.Sleep(50 * time.Millisecond)
		}
		_ = simnet.Addr{}
	}
	if !bytes.Equal(rx, reply) {
		r.Fail("third-party-client-misreads-server-reply", fmt.Sprintf("reference-codec client decoded %d reply bytes, server wrote %d", len(rx), len(reply)), cas)
	}
}

func lens(l [][]byte) []int {
	out := make([]int, len(l))
	for i, b := range l {
		out[i] = len(b)
	}
	return out
}
