package main

import (
	"context"
	"fmt"
	"io"
	"net"
	"strings"
	"time"

	apiclient "github.com/enfein/mieru/v3/apis/client"
	apiserver "github.com/enfein/mieru/v3/apis/server"
	pb "github.com/enfein/mieru/v3/pkg/appctl/appctlpb"
	"github.com/enfein/mieru/v3/pkg/common"
	"google.golang.org/protobuf/proto"
	"verifharness/simnet"
	"verifharness/vh"
)

type fixedListen struct{ n *simnet.Net }

func (f fixedListen) Listen(ctx context.Context, network, address string) (net.Listener, error) {
	_, port, _ := net.SplitHostPort(address)
	return f.n.Listen(ctx, network, net.JoinHostPort("192.0.2.1", port))
}

func (f fixedListen) ListenPacket(ctx context.Context, network, address string) (net.PacketConn, error) {
	_, port, _ := net.SplitHostPort(address)
	return f.n.ListenPacketAt(net.JoinHostPort("192.0.2.1", port))
}

// runC14ConfigPath measures datagrams against the MTU written in the CONFIGURATION (client profile / server
// config), through the public apis/client and apis/server, i.e. including the code that turns a validated
// configuration into underlay properties. 0 means "unset": the documented default applies.
func runC14ConfigPath(r *vh.Run) {
	mtus := []int32{1280, 1281, 1400, 1500, 0}
	if r.Thorough() {
		mtus = []int32{1280, 1281, 1282, 1300, 1399, 1400, 1401, 1499, 1500, 0}
	}
	idx := 0
	for _, cm := range mtus {
		for _, sm := range mtus {
			if !r.Thorough() && cm != sm && !(cm == 1280 || sm == 1280) {
				continue
			}
			idx++
			c14ConfigOnce(r, idx, cm, sm)
		}
	}
}

func effMTU(m int32) int {
	if m == 0 {
		return common.DefaultMTU
	}
	return int(m)
}

func c14ConfigOnce(r *vh.Run, idx int, cm, sm int32) {
	nw := simnet.New()
	nw.Latency = 2 * time.Millisecond
	user := fmt.Sprintf("cfg%d_%d", r.Seed, idx)
	pbind := []*pb.PortBinding{{Port: proto.Int32(8964), Protocol: pb.TransportProtocol_UDP.Enum()}}
	scfg := &pb.ServerConfig{PortBindings: pbind, Users: []*pb.User{{Name: proto.String(user), Password: proto.String("pw-" + user)}}}
	if sm != 0 {
		scfg.Mtu = proto.Int32(sm)
	}
	srv := apiserver.NewServer()
	if err := srv.Store(&apiserver.ServerConfig{Config: scfg, StreamListenerFactory: fixedListen{nw}, PacketListenerFactory: fixedListen{nw}}); err != nil {
		r.Fail("config-path-server-store", err.Error(), map[string]interface{}{"server_mtu": sm})
		return
	}
	if err := srv.Start(); err != nil {
		r.Fail("config-path-server-start", err.Error(), map[string]interface{}{"server_mtu": sm})
		return
	}
	defer srv.Stop()
	prof := &pb.ClientProfile{ProfileName: proto.String("p"), User: &pb.User{Name: proto.String(user), Password: proto.String("pw-" + user)},
		Servers: []*pb.ServerEndpoint{{IpAddress: proto.String("192.0.2.1"), PortBindings: pbind}}, HandshakeMode: pb.HandshakeMode_HANDSHAKE_NO_WAIT.Enum()}
	if cm != 0 {
		prof.Mtu = proto.Int32(cm)
	}
	cli := apiclient.NewClient()
	if err := cli.Store(&apiclient.ClientConfig{Profile: prof, Dialer: nw, PacketDialer: simnet.PacketDialer{N: nw}}); err != nil {
		r.Fail("config-path-client-store", err.Error(), map[string]interface{}{"client_mtu": cm})
		return
	}
	if err := cli.Start(); err != nil {
		r.Fail("config-path-client-start", err.Error(), map[string]interface{}{"client_mtu": cm})
		return
	}
	defer cli.Stop()
	r.Count("config-path-scenario")
	r.Case(fmt.Sprintf("CFG client_mtu=%d server_mtu=%d", cm, sm), "OK")
	up, down := 20000, 20000
	done := make(chan string, 1)
	go func() {
		s, _, err := srv.Accept()
		if err != nil {
			done <- "accept: " + err.Error()
			return
		}
		s.Write([]byte{5, 0, 0, 1, 0, 0, 0, 0, 0, 0}) // socks5 success reply expected by the early connection
		buf := make([]byte, up)
		s.SetReadDeadline(time.Now().Add(60 * time.Second))
		if _, err := io.ReadFull(s, buf); err != nil {
			done <- "server read: " + err.Error()
			return
		}
		if _, err := s.Write(make([]byte, down)); err != nil {
			done <- "server write: " + err.Error()
			return
		}
		fin := make([]byte, 1)
		s.SetReadDeadline(time.Now().Add(30 * time.Second))
		io.ReadFull(s, fin)
		s.Close()
		done <- ""
	}()
	ctx, cancel := context.WithTimeout(context.Background(), 15*time.Second)
	defer cancel()
	c, err := cli.DialContext(ctx, &net.TCPAddr{IP: net.ParseIP("198.51.100.7"), Port: 80})
	cas := map[string]interface{}{"client_mtu": cm, "server_mtu": sm, "via": "apis/client + apis/server from configuration"}
	if err != nil {
		r.Fail("config-path-dial", err.Error(), cas)
		return
	}
	if _, err := c.Write(make([]byte, up)); err != nil {
		r.Fail("config-path-transfer", "client write: "+err.Error(), cas)
	}
	buf := make([]byte, down)
	c.SetReadDeadline(time.Now().Add(60 * time.Second))
	if _, err := io.ReadFull(c, buf); err != nil {
		r.Fail("config-path-transfer", "client read: "+err.Error(), cas)
	}
	c.Write([]byte{1})
	if e := <-done; e != "" {
		r.Fail("config-path-transfer", e, cas)
	}
	time.Sleep(300 * time.Millisecond)
	c.Close()
	longest := map[string]int{}
	for _, e := range nw.Log.Snapshot() {
		if e.Kind != "udp-send" {
			continue
		}
		side, mtu := "client", effMTU(cm)
		if strings.HasPrefix(e.Src, "192.0.2.1:") {
			side, mtu = "server", effMTU(sm)
		}
		r.Count("config-path-dgram")
		if len(e.Data) > longest[side] {
			longest[side] = len(e.Data)
		}
		if len(e.Data) > mtu {
			r.Fail("datagram-exceeds-configured-mtu", fmt.Sprintf("%s configured with MTU %d (0 = default %d) emitted a %d-byte datagram", side, map[string]int32{"client": cm, "server": sm}[side], common.DefaultMTU, len(e.Data)),
				map[string]interface{}{"client_mtu": cm, "server_mtu": sm, "sender": side, "datagram_len": len(e.Data)})
			break
		}
	}
	r.Distinct(fmt.Sprintf("config-path/c%d/s%d/longest%d-%d", cm, sm, longest["client"], longest["server"]))
	// a 20 kB write must produce full-size datagrams: the configured MTU is really used, not a smaller one
	for side, m := range map[string]int{"client": effMTU(cm), "server": effMTU(sm)} {
		if longest[side] != 0 && longest[side] < m-300 {
			r.Fail("configured-mtu-not-used", fmt.Sprintf("%s configured MTU %d but its longest datagram is %d bytes", side, m, longest[side]), cas)
		}
	}
}
