package main

import (
	"fmt"

	"github.com/enfein/mieru/v3/pkg/appctl/appctlcommon"
	"github.com/enfein/mieru/v3/pkg/appctl/appctlpb"
	"github.com/enfein/mieru/v3/pkg/metrics"
	"github.com/enfein/mieru/v3/pkg/protocol"
	"google.golang.org/protobuf/proto"
	"verifharness/vh"
)

// runC10Quota: a server user configuration that PASSES validation must never make the quota check of an
// ordinary open-session request panic (the panic would be on the session's input goroutine and kill the process).
// The quota check is called through the hook under recover().
func runC10Quota(r *vh.Run) {
	r.Rep.Rule = "quota windows (days) on a boundary grid around the largest window representable by time.Duration, plus random values up to 2^31-1, x megabytes; every user record that passes appctlcommon.ValidateServerConfigSingleUser is given registered counters and its quota check is executed under recover(). distinct_nontrivial = distinct (days class, validation verdict) pairs"
	days := []int32{1, 30, 365, 36500, 106750, 106751, 106752, 106753, 200000, 213503, 213504, 1 << 30, 1<<31 - 1}
	n := 40
	if r.Thorough() {
		n = 2000
	}
	for i := 0; i < n; i++ {
		days = append(days, int32(r.Rng.Intn(1<<31-1))+1)
	}
	for i, d := range days {
		name := fmt.Sprintf("qd%d_%d", r.Seed, i)
		u := &appctlpb.User{Name: proto.String(name), Password: proto.String("pw"), Quotas: []*appctlpb.Quota{{Days: proto.Int32(d), Megabytes: proto.Int32(int32(1 + r.Rng.Intn(1000)))}}}
		valid := appctlcommon.ValidateServerConfigSingleUser(u) == nil
		cls := "small"
		switch {
		case d > 213503:
			cls = "wraps-negative"
		case d > 106751:
			cls = "overflows"
		case d > 100000:
			cls = "near-max"
		}
		r.Count("quota-days-" + cls)
		r.Distinct(fmt.Sprintf("%s/%v", cls, valid))
		r.Case(fmt.Sprintf("QD %d %v", d, valid), "OK")
		if !valid {
			continue
		}
		metrics.RegisterMetric(fmt.Sprintf(metrics.UserMetricGroupFormat, name), metrics.UserMetricUploadBytes, metrics.COUNTER_TIME_SERIES).Add(10)
		metrics.RegisterMetric(fmt.Sprintf(metrics.UserMetricGroupFormat, name), metrics.UserMetricDownloadBytes, metrics.COUNTER_TIME_SERIES).Add(10)
		func() {
			defer func() {
				if e := recover(); e != nil {
					r.Fail("panic-quota-days-overflow", fmt.Sprintf("user with a validated quota of %d days: the quota check of an open-session request panics: %v", d, e),
						map[string]interface{}{"days": d, "validated": true})
				}
			}()
			protocol.VerifCheckQuota(u, name)
		}()
	}
}
