// e2e drives real client and server Muxes over simnet (virtual time) through a matrix of
// transports, MTUs and traffic patterns, decodes everything that crossed the network with the
// independent reference codec and judges it against the text of one property:
//
//	-prop C14  every UDP datagram <= the sender's MTU, every length field within its documented limit
//	-prop C16  explicit traffic-pattern settings are what the wire shows
//	-prop C09  every emitted segment decodes with refcodec; refcodec-produced traffic is understood by mieru
//	-prop C19  per-user byte accounting matches application bytes; quotas refuse exactly the exceeding user
//
// It is an oracle driver (no Coq model is paired with it): failures are reported with cause signatures.
package main

import (
	"bytes"
	"context"
	"crypto/sha256"
	"encoding/hex"
	"flag"
	"fmt"
	"io"
	"net"
	"os"
	"strings"
	"sync"
	"time"

	"github.com/enfein/mieru/v3/pkg/appctl/appctlpb"
	"google.golang.org/protobuf/proto"
	"verifharness/refcodec"
	"verifharness/rig"
	"verifharness/simnet"
	"verifharness/trace"
	"verifharness/vh"
)

var prop = flag.String("prop", "C14", "property whose oracle is evaluated")

type scenario struct {
	Name      string
	Transport string
	CMTU      int
	SMTU      int
	CPat      *appctlpb.TrafficPattern
	SPat      *appctlpb.TrafficPattern
	Sessions  int
	Up        [][]int // per session: client->server write sizes
	Down      [][]int // per session: server->client write sizes
	LossPct   int
	Seed      uint64
	// Greeting > 0: the server speaks first. The client opens every session with an empty write, the server writes
	// Greeting bytes as soon as it has accepted the session (before any data of the client has arrived), the client reads
	// them and only then sends its header and data.
	Greeting int
}

type result struct {
	sc      scenario
	events  []simnet.Event
	tcp     []*trace.TCPConn
	udp     []trace.UDPEvent
	ok      bool
	errs    []string
	virtual time.Duration
	upBytes, downBytes int
}

func sum(l []int) int {
	t := 0
	for _, v := range l {
		t += v
	}
	return t
}

var scCounter int

func runScenario(sc scenario) *result {
	scCounter++
	user := fmt.Sprintf("u%d", scCounter)
	pass := fmt.Sprintf("pw-%d-%d", sc.Seed, scCounter)
	res := &result{sc: sc}
	r, err := rig.Start(rig.Opts{Transport: sc.Transport, MTU: sc.CMTU, ServerMTU: sc.SMTU, Users: map[string]string{user: pass},
		ClientUser: user, ClientPass: pass, ClientPattern: sc.CPat, ServerPattern: sc.SPat, Multiplex: 3})
	if err != nil {
		res.errs = append(res.errs, "start: "+err.Error())
		return res
	}
	t0 := time.Now()
	if sc.Transport == "udp" {
		r.Net.Latency = 5 * time.Millisecond
		if sc.LossPct > 0 {
			g := vh.NewRng(sc.Seed ^ 0xfa7e)
			r.Net.Fate = func(d *simnet.Datagram) []simnet.Delivery {
				if g.Intn(100) < sc.LossPct {
					return nil
				}
				return []simnet.Delivery{{}}
			}
		}
	}
	var mu sync.Mutex
	fail := func(f string, a ...interface{}) {
		mu.Lock()
		res.errs = append(res.errs, fmt.Sprintf(f, a...))
		mu.Unlock()
	}
	// server side: each accepted session first reads an 8-byte header (session index, total up bytes)
	var swg sync.WaitGroup
	go func() {
		for i := 0; i < sc.Sessions; i++ {
			c, err := r.Accept(120 * time.Second)
			if err != nil {
				fail("accept: %v", err)
				return
			}
			swg.Add(1)
			go func(c net.Conn) {
				defer swg.Done()
				if sc.Greeting > 0 {
					if _, err := c.Write(vh.NewRng(sc.Seed + 991).Bytes(sc.Greeting)); err != nil {
						fail("server write greeting: %v", err)
						return
					}
				}
				hdr := make([]byte, 8)
				if _, err := io.ReadFull(c, hdr); err != nil {
					fail("server read header: %v", err)
					return
				}
				idx := int(hdr[0])
				total := int(hdr[4])<<24 | int(hdr[5])<<16 | int(hdr[6])<<8 | int(hdr[7])
				buf := make([]byte, total)
				if _, err := io.ReadFull(c, buf); err != nil {
					fail("server read body (%d): %v", total, err)
					return
				}
				h := sha256.Sum256(buf)
				if _, err := c.Write(h[:]); err != nil {
					fail("server write hash: %v", err)
					return
				}
				g := vh.NewRng(sc.Seed + uint64(idx)*77 + 5)
				for _, n := range sc.Down[idx] {
					if _, err := c.Write(g.Bytes(n)); err != nil {
						fail("server write: %v", err)
						return
					}
				}
				// wait for the client's final ack byte so that nothing is in flight at close
				fin := make([]byte, 1)
				io.ReadFull(c, fin)
				c.Close()
			}(c)
		}
	}()
	var cwg sync.WaitGroup
	for i := 0; i < sc.Sessions; i++ {
		cwg.Add(1)
		go func(i int) {
			defer cwg.Done()
			ctx, cancel := context.WithTimeout(context.Background(), 20*time.Second)
			defer cancel()
			c, err := r.Client.DialContext(ctx)
			if err != nil {
				fail("dial: %v", err)
				return
			}
			defer c.Close()
			if sc.Greeting > 0 {
				if _, err := c.Write(nil); err != nil {
					fail("client open (empty write): %v", err)
					return
				}
				greet := make([]byte, sc.Greeting)
				c.SetReadDeadline(time.Now().Add(300 * time.Second))
				if _, err := io.ReadFull(c, greet); err != nil {
					fail("client read greeting: %v", err)
					return
				}
				if !bytes.Equal(greet, vh.NewRng(sc.Seed+991).Bytes(sc.Greeting)) {
					fail("greeting corrupted in session %d", i)
				}
			}
			total := sum(sc.Up[i])
			hdr := []byte{byte(i), 0, 0, 0, byte(total >> 24), byte(total >> 16), byte(total >> 8), byte(total)}
			g := vh.NewRng(sc.Seed + uint64(i)*131 + 1)
			all := []byte{}
			first := true
			for _, n := range sc.Up[i] {
				b := g.Bytes(n)
				all = append(all, b...)
				if first {
					b = append(append([]byte{}, hdr...), b...)
					first = false
				}
				if _, err := c.Write(b); err != nil {
					fail("client write: %v", err)
					return
				}
			}
			if first {
				if _, err := c.Write(hdr); err != nil {
					fail("client write hdr: %v", err)
					return
				}
			}
			want := sha256.Sum256(all)
			got := make([]byte, 32)
			c.SetReadDeadline(time.Now().Add(300 * time.Second))
			if _, err := io.ReadFull(c, got); err != nil {
				fail("client read hash: %v", err)
				return
			}
			if !bytes.Equal(got, want[:]) {
				fail("upload corrupted in session %d", i)
			}
			gd := vh.NewRng(sc.Seed + uint64(i)*77 + 5)
			for _, n := range sc.Down[i] {
				exp := gd.Bytes(n)
				buf := make([]byte, n)
				c.SetReadDeadline(time.Now().Add(300 * time.Second))
				if _, err := io.ReadFull(c, buf); err != nil {
					fail("client read down: %v", err)
					return
				}
				if !bytes.Equal(buf, exp) {
					fail("download corrupted in session %d", i)
				}
			}
			c.Write([]byte{1})
			time.Sleep(200 * time.Millisecond)
			mu.Lock()
			res.upBytes += total + 8 + 1
			res.downBytes += sum(sc.Down[i]) + 32 + sc.Greeting
			mu.Unlock()
		}(i)
	}
	cwg.Wait()
	swg.Wait()
	res.virtual = time.Since(t0)
	time.Sleep(50 * time.Millisecond)
	r.Close()
	res.events = r.Net.Log.Snapshot()
	creds := []trace.Cred{{User: user, Pass: pass}}
	if sc.Transport == "tcp" {
		res.tcp = trace.TCP(res.events, creds)
	} else {
		res.udp = trace.UDP(res.events, creds)
	}
	res.ok = len(res.errs) == 0
	return res
}

// ------------------------------------------------------------------ pattern helpers

func pat(mid, end int, nonce *appctlpb.NoncePattern, le appctlpb.LowEntropyMode, rot appctlpb.LowEntropyMaskRotation, frag bool) *appctlpb.TrafficPattern {
	p := &appctlpb.TrafficPattern{Seed: proto.Int32(7)}
	if mid >= 0 || end >= 0 {
		p.Padding = &appctlpb.PaddingPattern{}
		if mid >= 0 {
			p.Padding.MaxMiddlePaddingLen = proto.Int32(int32(mid))
		}
		if end >= 0 {
			p.Padding.MaxEndPaddingLen = proto.Int32(int32(end))
		}
	}
	if nonce != nil {
		p.Nonce = nonce
	}
	p.LowEntropy = &appctlpb.LowEntropyPattern{Mode: le.Enum(), MaskRotation: rot.Enum()}
	p.TcpFragment = &appctlpb.TCPFragment{Enable: proto.Bool(frag), MaxSleepMs: proto.Int32(1)}
	switch fragSleepVariant % 3 {
	case 1:
		p.TcpFragment.MaxSleepMs = proto.Int32(0)
	case 2:
		p.TcpFragment.MaxSleepMs = nil // implicit: derived from the seed
	}
	fragSleepVariant++
	return p
}

// fragSleepVariant cycles the TCP fragmentation sleep setting through 1 ms, explicit 0 and unset.
var fragSleepVariant int

func patName(p *appctlpb.TrafficPattern) string {
	if p == nil {
		return "nil"
	}
	s := ""
	if p.Padding != nil {
		s += fmt.Sprintf("pad%d/%d", p.Padding.GetMaxMiddlePaddingLen(), p.Padding.GetMaxEndPaddingLen())
		if p.Padding.MaxMiddlePaddingLen == nil {
			s += "(mid-unset)"
		}
		if p.Padding.MaxEndPaddingLen == nil {
			s += "(end-unset)"
		}
	}
	if p.Nonce != nil {
		s += fmt.Sprintf(",nonce%d[%d,%d]all=%v", p.Nonce.GetType(), p.Nonce.GetMinLen(), p.Nonce.GetMaxLen(), p.Nonce.GetApplyToAllUDPPacket())
	}
	if p.LowEntropy != nil {
		s += fmt.Sprintf(",le%d/rot%d", p.LowEntropy.GetMode(), p.LowEntropy.GetMaskRotation())
	}
	if p.TcpFragment.GetEnable() {
		s += ",frag"
		if p.TcpFragment.MaxSleepMs == nil {
			s += "(sleep-unset)"
		} else {
			s += fmt.Sprintf("(sleep%d)", p.TcpFragment.GetMaxSleepMs())
		}
	}
	return s
}

var rotations = []appctlpb.LowEntropyMaskRotation{0, 1, 7, 15, 16, 48, 240, 32, 112}

func isPrintable(b byte) bool { return b >= 0x20 && b <= 0x7e }

// ------------------------------------------------------------------ oracles

type senderInfo struct {
	side string // "client" or "server"
	mtu  int
	pat  *appctlpb.TrafficPattern
}

func (res *result) sender(src string) senderInfo {
	if strings.HasPrefix(src, "192.0.2.1:") {
		return senderInfo{"server", res.sc.SMTU, res.sc.SPat}
	}
	return senderInfo{"client", res.sc.CMTU, res.sc.CPat}
}

func caseOf(res *result, extra map[string]interface{}) map[string]interface{} {
	m := map[string]interface{}{"scenario": res.sc.Name, "transport": res.sc.Transport, "client_mtu": res.sc.CMTU, "server_mtu": res.sc.SMTU, "server_greeting": res.sc.Greeting,
		"client_pattern": patName(res.sc.CPat), "server_pattern": patName(res.sc.SPat), "up": res.sc.Up, "down": res.sc.Down, "loss_pct": res.sc.LossPct, "seed": res.sc.Seed}
	for k, v := range extra {
		m[k] = v
	}
	return m
}

func checkTransfer(r *vh.Run, res *result) {
	for _, e := range res.errs {
		sig := "transfer-failed"
		if strings.Contains(e, "corrupted") {
			sig = "transfer-corrupted"
		}
		r.Fail(sig, "scenario "+res.sc.Name+": "+e, caseOf(res, nil))
	}
}

// allSegs iterates over every decoded segment with its sender and raw datagram (UDP) or nil.
func (res *result) eachSegment(f func(si senderInfo, seg *refcodec.Segment, raw []byte, first bool)) {
	if res.sc.Transport == "tcp" {
		for _, c := range res.tcp {
			for _, d := range []*trace.Dir{&c.C2S, &c.S2C} {
				for i := range d.Segs {
					f(res.sender(d.Src), &d.Segs[i], nil, i == 0)
				}
			}
		}
		return
	}
	seenFirst := map[string]bool{}
	for i := range res.udp {
		u := &res.udp[i]
		if u.Kind != "send" || u.Seg == nil {
			continue
		}
		first := !seenFirst[u.Src]
		seenFirst[u.Src] = true
		f(res.sender(u.Src), u.Seg, u.Raw, first)
	}
}

func checkC14(r *vh.Run, res *result) {
	// datagram size against the sender's own MTU
	for _, u := range res.udp {
		if u.Kind != "send" {
			continue
		}
		si := res.sender(u.Src)
		r.Count("dgram")
		kind := "undecoded"
		if u.Seg != nil {
			kind = fmt.Sprint(u.Seg.Meta.Proto)
		}
		r.Distinct(fmt.Sprintf("%s/mtu%d/%s/k%s/len%d", si.side, si.mtu, patName(si.pat), kind, len(u.Raw)/64))
		r.Case(fmt.Sprintf("DG %s %d %s %d", si.side, si.mtu, kind, len(u.Raw)), "OK")
		if len(u.Raw) > si.mtu {
			r.Fail("datagram-exceeds-mtu", fmt.Sprintf("%s emitted a %d-byte datagram (type %s) with MTU %d", si.side, len(u.Raw), kind, si.mtu),
				caseOf(res, map[string]interface{}{"datagram_len": len(u.Raw), "sender": si.side, "type": kind}))
		}
	}
	res.eachSegment(func(si senderInfo, seg *refcodec.Segment, raw []byte, first bool) {
		m := seg.Meta
		if m.IsSession() && int(m.PayloadLen) > 1024 {
			r.Fail("session-payload-exceeds-1024", fmt.Sprintf("%s session segment payload %d", si.side, m.PayloadLen), caseOf(res, nil))
		}
		if m.IsData() {
			plain := len(seg.Payload)
			if plain > 32768 {
				r.Fail("fragment-exceeds-32768", fmt.Sprintf("%s data fragment of %d bytes", si.side, plain), caseOf(res, nil))
			}
			if m.IsLowEntropy() && int(m.ExtractedLen) != plain {
				r.Fail("le-extracted-len-mismatch", fmt.Sprintf("extractedLen %d but %d plaintext bytes", m.ExtractedLen, plain), caseOf(res, nil))
			}
		}
		if len(seg.Prefix) > 255 || len(seg.Suffix) > 255 {
			r.Fail("padding-exceeds-255", "padding longer than 255", caseOf(res, nil))
		}
	})
}

// checkTCPFragmentation: with tcpFragment.enable explicitly true every session-control segment (the only segments
// the code fragments) must leave in at least two writes; with it explicitly false every segment leaves in one write.
func checkTCPFragmentation(r *vh.Run, res *result) {
	for _, c := range res.tcp {
		for _, d := range []*trace.Dir{&c.C2S, &c.S2C} {
			si := res.sender(d.Src)
			if si.pat == nil || si.pat.TcpFragment == nil || si.pat.TcpFragment.Enable == nil || d.Err != nil {
				continue
			}
			enable := si.pat.TcpFragment.GetEnable()
			// write boundaries as stream offsets
			bounds := []int{}
			off := 0
			for _, w := range d.Writes {
				off += w
				bounds = append(bounds, off)
			}
			start := 0
			for i := range d.Segs {
				end := d.SegEnd[i]
				writes := 0
				prev := 0
				for _, b := range bounds {
					if b > start && prev < end {
						writes++
					}
					prev = b
				}
				seg := d.Segs[i]
				r.Count("tcp-segment-writes")
				if seg.Meta.IsSession() && enable && writes < 2 {
					r.Fail("tcp-fragmentation-enabled-but-single-write", fmt.Sprintf("%s has tcpFragment.enable=true (%s) but its session segment type %d (%d bytes) left in %d write", si.side, patName(si.pat), seg.Meta.Proto, end-start, writes),
						caseOf(res, map[string]interface{}{"sender": si.side, "segment_bytes": end - start}))
				}
				if !enable && writes != 1 {
					r.Fail("tcp-fragmentation-disabled-but-split", fmt.Sprintf("%s has tcpFragment.enable=false but a segment left in %d writes", si.side, writes), caseOf(res, nil))
				}
				start = end
			}
		}
	}
}

func checkC16(r *vh.Run, res *result) {
	checkTCPFragmentation(r, res)
	clientUsedLE := false
	res.eachSegment(func(si senderInfo, seg *refcodec.Segment, raw []byte, first bool) {
		m := seg.Meta
		p := si.pat
		r.Count("segment")
		r.Distinct(fmt.Sprintf("%s/%s/%s/t%d", res.sc.Transport, si.side, patName(p), m.Proto))
		if p == nil {
			return
		}
		if p.Padding != nil {
			if p.Padding.MaxMiddlePaddingLen != nil && len(seg.Prefix) > int(p.Padding.GetMaxMiddlePaddingLen()) {
				r.Fail("middle-padding-exceeds-config", fmt.Sprintf("%s sent %d bytes of middle padding, configured maximum %d", si.side, len(seg.Prefix), p.Padding.GetMaxMiddlePaddingLen()),
					caseOf(res, map[string]interface{}{"sender": si.side, "type": m.Proto}))
			}
			if p.Padding.MaxEndPaddingLen != nil && len(seg.Suffix) > int(p.Padding.GetMaxEndPaddingLen()) {
				r.Fail("end-padding-exceeds-config", fmt.Sprintf("%s sent %d bytes of end padding (segment type %d), configured maximum %d", si.side, len(seg.Suffix), m.Proto, p.Padding.GetMaxEndPaddingLen()),
					caseOf(res, map[string]interface{}{"sender": si.side, "type": m.Proto}))
			}
		}
		// low entropy: only when configured, with the configured mode and rotation; server only after the client
		mode, rot := appctlpb.LowEntropyMode_LOW_ENTROPY_MODE_OFF, appctlpb.LowEntropyMaskRotation(0)
		if p.LowEntropy != nil {
			mode, rot = p.LowEntropy.GetMode(), p.LowEntropy.GetMaskRotation()
		}
		if m.IsLowEntropy() {
			if si.side == "client" {
				clientUsedLE = true
			}
			if mode == appctlpb.LowEntropyMode_LOW_ENTROPY_MODE_OFF {
				r.Fail("low-entropy-used-while-off", si.side+" emitted a low-entropy segment although its pattern says OFF", caseOf(res, nil))
			} else if uint8(mode) != m.LEMode || uint8(rot) != m.LERot {
				r.Fail("low-entropy-params-differ", fmt.Sprintf("%s used mode %d rotation %d, configured %d/%d", si.side, m.LEMode, m.LERot, mode, rot), caseOf(res, nil))
			}
			if si.side == "server" && !clientUsedLE {
				r.Fail("server-low-entropy-before-client", "server used low entropy toward a client that had not used it", caseOf(res, nil))
			}
		} else if m.IsData() && mode != appctlpb.LowEntropyMode_LOW_ENTROPY_MODE_OFF {
			if si.side == "client" {
				r.Fail("low-entropy-configured-but-plain-data", "client pattern enables low entropy but a plain data segment was sent", caseOf(res, nil))
			} else if clientUsedLE {
				r.Fail("low-entropy-configured-but-plain-data", "server pattern enables low entropy and the client used it, but a plain data segment was sent", caseOf(res, nil))
			}
		}
		// nonce prefix
		if p.Nonce != nil && seg.Nonce != nil {
			apply := first || p.Nonce.GetApplyToAllUDPPacket() || res.sc.Transport == "tcp"
			if apply {
				checkNonce(r, res, si, p.Nonce, seg.Nonce)
			}
		}
	})
}

func checkNonce(r *vh.Run, res *result, si senderInfo, np *appctlpb.NoncePattern, nonce []byte) {
	minLen := int(np.GetMinLen())
	if np.MinLen == nil {
		return // implicit: generated value unknown to this oracle
	}
	switch np.GetType() {
	case appctlpb.NonceType_NONCE_TYPE_PRINTABLE:
		for i := 0; i < minLen && i < len(nonce); i++ {
			if !isPrintable(nonce[i]) {
				r.Fail("nonce-prefix-not-printable", fmt.Sprintf("%s nonce %s: byte %d not printable, minLen %d", si.side, hex.EncodeToString(nonce), i, minLen), caseOf(res, nil))
				return
			}
		}
	case appctlpb.NonceType_NONCE_TYPE_PRINTABLE_SUBSET:
		for i := 0; i < minLen && i < len(nonce); i++ {
			c := nonce[i]
			ok := (c >= '0' && c <= '9') || (c >= 'a' && c <= 'z') || (c >= 'A' && c <= 'Z') || isPrintable(c)
			if !ok {
				r.Fail("nonce-prefix-not-in-subset", fmt.Sprintf("%s nonce %s: byte %d outside the printable subset", si.side, hex.EncodeToString(nonce), i), caseOf(res, nil))
				return
			}
		}
	case appctlpb.NonceType_NONCE_TYPE_FIXED:
		if len(np.GetCustomHexStrings()) == 0 {
			return
		}
		for _, h := range np.GetCustomHexStrings() {
			b, _ := hex.DecodeString(h)
			if bytes.HasPrefix(nonce, b) {
				return
			}
		}
		r.Fail("nonce-fixed-prefix-missing", fmt.Sprintf("%s nonce %s starts with none of the configured prefixes", si.side, hex.EncodeToString(nonce)), caseOf(res, nil))
	}
}

func checkC09Decode(r *vh.Run, res *result) {
	if res.sc.Transport == "tcp" {
		for _, c := range res.tcp {
			for _, d := range []*trace.Dir{&c.C2S, &c.S2C} {
				r.Count("tcp-direction")
				if len(d.Bytes) == 0 {
					continue
				}
				if d.Err != nil || d.Left != 0 || d.User == "" {
					r.Fail("refcodec-cannot-decode-tcp-stream", fmt.Sprintf("stream %s>%s: %d segments decoded, err=%v, %d bytes left", d.Src, d.Dst, len(d.Segs), d.Err, d.Left), caseOf(res, nil))
				}
				for i := range d.Segs {
					r.Distinct(fmt.Sprintf("tcp/%s/t%d/le%d", patName(res.sender(d.Src).pat), d.Segs[i].Meta.Proto, d.Segs[i].Meta.LEMode))
				}
			}
		}
		return
	}
	for _, u := range res.udp {
		if u.Kind != "send" {
			continue
		}
		r.Count("udp-datagram")
		if u.Seg == nil {
			r.Fail("refcodec-cannot-decode-datagram", fmt.Sprintf("datagram %d %s>%s (%d bytes) does not decode", u.ID, u.Src, u.Dst, len(u.Raw)), caseOf(res, nil))
		} else {
			r.Distinct(fmt.Sprintf("udp/%s/t%d/le%d", patName(res.sender(u.Src).pat), u.Seg.Meta.Proto, u.Seg.Meta.LEMode))
		}
	}
}

// ------------------------------------------------------------------ scenario matrices

func sizesAround(g *vh.Rng, frag int, thorough bool) []int {
	out := []int{1, 2, 1015, 1016, 1017, 1024, 1025, frag - 9, frag - 8, frag - 7, frag, frag + 1, 2*frag - 8, 2 * frag, 3*frag + 5}
	if thorough {
		out = append(out, 4*frag-1, 10*frag+3, 32768, 32769, 70000)
	}
	res := []int{}
	for _, v := range out {
		if v > 0 {
			res = append(res, v)
		}
	}
	return res
}

func matrix(r *vh.Run) []scenario {
	g := r.Rng
	var scs []scenario
	th := r.Thorough()
	add := func(sc scenario) {
		sc.Seed = g.U64() % 1000000
		if sc.Sessions == 0 {
			sc.Sessions = len(sc.Up)
		}
		for len(sc.Down) < len(sc.Up) {
			sc.Down = append(sc.Down, []int{100})
		}
		sc.Name = fmt.Sprintf("%s-%d", sc.Transport, len(scs))
		scs = append(scs, sc)
	}
	switch *prop {
	case "C14":
		mtus := []int{1280, 1281, 1400, 1499, 1500}
		if th {
			mtus = []int{1280, 1281, 1300, 1350, 1399, 1400, 1401, 1450, 1499, 1500}
		}
		pads := [][2]int{{-1, -1}, {0, 0}, {255, 255}, {1, 127}}
		if th {
			pads = append(pads, [2]int{127, 1}, [2]int{255, 0}, [2]int{0, 255})
		}
		modes := []appctlpb.LowEntropyMode{0, 1, 2, 3, 4}
		for mi, mtu := range mtus {
			for pi, pd := range pads {
				for _, mode := range modes {
					if !th && (mi+pi+int(mode))%3 != 0 {
						continue
					}
					smtu := mtus[(mi+2)%len(mtus)]
					frag := mtu - 104
					cp := pat(pd[0], pd[1], nil, mode, rotations[(mi+pi)%len(rotations)], false)
					sp := pat(pd[1], pd[0], nil, mode, rotations[(mi+pi+1)%len(rotations)], false)
					up := sizesAround(g, frag, th)
					down := sizesAround(g, smtu-104, th)
					add(scenario{Transport: "udp", CMTU: mtu, SMTU: smtu, CPat: cp, SPat: sp, Up: [][]int{up, {1024}, {1025, 5}}, Down: [][]int{down, {1}, {3000}}, LossPct: []int{0, 0, 5}[(mi+pi)%3]})
				}
			}
		}
		// the server speaks first (greeting before any client data), then answers with writes around and above its fragment
		// sizes: the server's send mode may change between its first and its later writes (low entropy only after the client used it)
		for mi, mtu := range mtus {
			for _, mode := range modes {
				if !th && (mi+int(mode))%2 != 0 {
					continue
				}
				cp := pat(-1, -1, nil, mode, rotations[mi%len(rotations)], false)
				sp := pat(0, 0, nil, mode, rotations[(mi+1)%len(rotations)], false)
				sc := scenario{Transport: "udp", CMTU: mtu, SMTU: mtu, CPat: cp, SPat: sp, Up: [][]int{{40, 2000}, {1}}, Down: [][]int{{mtu - 88, 8192, 3}, {2 * (mtu - 88)}},
					Greeting: []int{1, 300, mtu - 88, 4000}[(mi+int(mode))%4]}
				add(sc)
			}
		}
		add(scenario{Transport: "tcp", CMTU: 1400, SMTU: 1400, CPat: pat(1, 1, nil, 1, 1, false), SPat: pat(1, 1, nil, 1, 16, true), Up: [][]int{{10}}, Down: [][]int{{40000}}, Greeting: 700})
		// TCP length fields
		for _, mode := range modes {
			add(scenario{Transport: "tcp", CMTU: 1400, SMTU: 1400, CPat: pat(255, 255, nil, mode, 1, false), SPat: pat(255, 255, nil, mode, 16, true),
				Up: [][]int{{1024}, {1025}, {32764, 32768, 32769, 100000}}, Down: [][]int{{32768, 32769}, {70000}, {1}}})
		}
	case "C16":
		nonces := []*appctlpb.NoncePattern{
			nil,
			{Type: appctlpb.NonceType_NONCE_TYPE_PRINTABLE.Enum(), MinLen: proto.Int32(12), MaxLen: proto.Int32(12), ApplyToAllUDPPacket: proto.Bool(true)},
			{Type: appctlpb.NonceType_NONCE_TYPE_PRINTABLE.Enum(), MinLen: proto.Int32(3), MaxLen: proto.Int32(3), ApplyToAllUDPPacket: proto.Bool(false)},
			{Type: appctlpb.NonceType_NONCE_TYPE_PRINTABLE_SUBSET.Enum(), MinLen: proto.Int32(6), MaxLen: proto.Int32(12), ApplyToAllUDPPacket: proto.Bool(true)},
			{Type: appctlpb.NonceType_NONCE_TYPE_FIXED.Enum(), CustomHexStrings: []string{"000102030405060708090a0b"}, ApplyToAllUDPPacket: proto.Bool(true), MinLen: proto.Int32(0), MaxLen: proto.Int32(0)},
			{Type: appctlpb.NonceType_NONCE_TYPE_FIXED.Enum(), CustomHexStrings: []string{"aabb", "ccddee", "01"}, ApplyToAllUDPPacket: proto.Bool(true), MinLen: proto.Int32(0), MaxLen: proto.Int32(0)},
			{Type: appctlpb.NonceType_NONCE_TYPE_RANDOM.Enum()},
		}
		pads := [][2]int{{0, 0}, {0, 255}, {255, 0}, {1, 1}, {17, 200}, {-1, 3}, {3, -1}}
		modes := []appctlpb.LowEntropyMode{0, 1, 2, 3, 4}
		n := 0
		for _, tr := range []string{"tcp", "udp"} {
			for ni := range nonces {
				for pi, pd := range pads {
					for _, cm := range modes {
						n++
						if !th && n%5 != 0 {
							continue
						}
						sm := modes[(int(cm)+pi+ni)%len(modes)]
						cp := pat(pd[0], pd[1], nonces[ni], cm, rotations[n%len(rotations)], tr == "tcp" && n%2 == 0)
						sp := pat(pd[1], pd[0], nonces[(ni+3)%len(nonces)], sm, rotations[(n+4)%len(rotations)], tr == "tcp" && n%3 == 0)
						add(scenario{Transport: tr, CMTU: 1400, SMTU: 1350, CPat: cp, SPat: sp, Up: [][]int{{10, 2000, 1}, {1500}}, Down: [][]int{{3000, 7}, {40000}}})
					}
				}
			}
		}
	case "C09":
		modes := []appctlpb.LowEntropyMode{0, 1, 2, 3, 4}
		n := 0
		for _, tr := range []string{"tcp", "udp"} {
			for _, cm := range modes {
				for ri, rot := range rotations {
					n++
					if !th && n%4 != 0 {
						continue
					}
					sm := modes[(int(cm)+ri)%len(modes)]
					cp := pat(255, 255, nil, cm, rot, false)
					sp := pat(64, 64, nil, sm, rotations[(ri+3)%len(rotations)], tr == "tcp")
					add(scenario{Transport: tr, CMTU: 1400, SMTU: 1400, CPat: cp, SPat: sp, Up: [][]int{{1, 1024, 1025, 40000}, {5000}}, Down: [][]int{{1, 32768, 9}, {100}}, LossPct: (n % 2) * 5})
				}
			}
		}
		add(scenario{Transport: "tcp", CMTU: 1400, SMTU: 1400, Up: [][]int{{100}}, Down: [][]int{{100}}})
		add(scenario{Transport: "udp", CMTU: 1280, SMTU: 1500, Up: [][]int{{100000}}, Down: [][]int{{100000}}})
	}
	return scs
}

func dbg(f string, a ...interface{}) {
	if p := os.Getenv("E2E_DEBUG"); p != "" {
		fh, _ := os.OpenFile(p, os.O_APPEND|os.O_CREATE|os.O_WRONLY, 0o644)
		fmt.Fprintf(fh, f+"\n", a...)
		fh.Close()
	}
}

func main() {
	r := vh.Start("e2e")
	r.Rep.Driver = "e2e-" + *prop
	defer r.Finish()
	switch *prop {
	case "C19":
		runC19(r)
		return
	case "C10":
		runC10Quota(r)
		return
	}
	r.Rep.Rule = "real client and server Mux over simnet under virtual time; scenario matrix over transport x MTU x per-side traffic patterns (padding maxima, nonce patterns, low-entropy mode x rotation, TCP fragmentation) x write sizes around the fragment/piggyback boundaries; everything that crossed the network is decoded with refcodec and judged against the property text. distinct_nontrivial = distinct (side, pattern, segment type, size class) tuples observed on the wire"
	scs := matrix(r)
	for _, sc := range scs {
		dbg("scenario %s %s c=%s s=%s", sc.Name, sc.Transport, patName(sc.CPat), patName(sc.SPat))
		res := runScenario(sc)
		r.Count("scenario-" + sc.Transport)
		r.Case(fmt.Sprintf("SC %s %s c=%s s=%s mtu=%d/%d greet=%d", sc.Name, sc.Transport, patName(sc.CPat), patName(sc.SPat), sc.CMTU, sc.SMTU, sc.Greeting), "OK")
		checkTransfer(r, res)
		switch *prop {
		case "C14":
			checkC14(r, res)
		case "C16":
			checkC16(r, res)
		case "C09":
			checkC09Decode(r, res)
			checkC09Hint(r, res)
		}
	}
	if *prop == "C14" {
		runC14ConfigPath(r)
	}
	if *prop == "C16" {
		runC16TwoClients(r)
	}
	if *prop == "C09" {
		runC09NonceMatrix(r)
		runC09Interop(r)
		runC09InteropServer(r)
		runC09InteropUDPServer(r)
		runC09Rekey(r)
	}
}
