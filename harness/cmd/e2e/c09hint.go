package main

// C09: the user hint on EVERY nonce of a trace, and the traffic-pattern (nonce pattern) dimension of the
// end-to-end runs.
//
// docs/protocol.md: "the last 4 bytes of the nonce is replace by the first 4 bytes of a SHA-256 output. The input of
// SHA-256 is user name concatenate by the first 16 bytes of the nonce" and "When using UDP protocol, each segment will
// include a nonce". A server written from the document finds the user of a datagram with the hint, so the hint has
// to be in the documented position of every datagram (Coq statement of the position: C09_user_hint_placement), not
// only of the first datagram of a cipher, and whatever the nonce pattern does to the prefix.

import (
	"encoding/hex"
	"fmt"

	"github.com/enfein/mieru/v3/pkg/appctl/appctlpb"
	"google.golang.org/protobuf/proto"
	"verifharness/refcodec"
	"verifharness/trace"
	"verifharness/vh"
)

// checkC09Hint requires the documented hint of the sending user on every UDP datagram and on the nonce of every TCP
// direction of the trace.
func checkC09Hint(r *vh.Run, res *result) {
	if res.sc.Transport == "tcp" {
		for _, c := range res.tcp {
			for _, d := range []*trace.Dir{&c.C2S, &c.S2C} {
				if len(d.Segs) == 0 || d.User == "" || d.Segs[0].Nonce == nil {
					continue
				}
				si := res.sender(d.Src)
				r.Count("hint-tcp-nonce")
				if !refcodec.HasUserHint(d.User, d.Segs[0].Nonce) {
					n := d.Segs[0].Nonce
					want := refcodec.UserHint(d.User, n)
					r.Fail("user-hint-missing-on-tcp-nonce", fmt.Sprintf("%s (%s): the nonce %x of stream %s>%s ends with %x, the documented hint of %q is %x", si.side, patName(si.pat), n, d.Src, d.Dst, n[20:], d.User, want),
						caseOf(res, map[string]interface{}{"sender": si.side, "nonce": hex.EncodeToString(n), "user": d.User}))
				}
			}
		}
		return
	}
	nth := map[string]int{}
	reported := map[string]bool{}
	for i := range res.udp {
		u := &res.udp[i]
		if u.Kind != "send" || u.Seg == nil || u.User == "" {
			continue
		}
		si := res.sender(u.Src)
		nth[u.Src]++
		r.Count("hint-udp-datagram-" + si.side)
		r.Distinct(fmt.Sprintf("hint/udp/%s/%s/k%d", si.side, patName(si.pat), c09min(nth[u.Src], 6)))
		if !refcodec.HasUserHint(u.User, u.Seg.Nonce) && !reported[u.Src] {
			reported[u.Src] = true
			n := u.Seg.Nonce
			want := refcodec.UserHint(u.User, n)
			r.Fail("user-hint-missing-on-udp-datagram", fmt.Sprintf("%s (%s): datagram number %d from %s (type %d) has nonce %x ending with %x, the documented hint of %q is %x; a server that finds the user by the hint drops it",
				si.side, patName(si.pat), nth[u.Src], u.Src, u.Seg.Meta.Proto, n, n[20:], u.User, want),
				caseOf(res, map[string]interface{}{"sender": si.side, "datagram_number": nth[u.Src], "nonce": hex.EncodeToString(n), "user": u.User}))
		}
	}
}

// c09NoncePatterns: explicit patterns (applyToAllUDPPacket true and false) and nil (the implicit pattern is then derived
// from the traffic-pattern seed, which the scenario varies).
func c09NoncePatterns() []*appctlpb.NoncePattern {
	return []*appctlpb.NoncePattern{
		nil,
		{Type: appctlpb.NonceType_NONCE_TYPE_PRINTABLE.Enum(), MinLen: proto.Int32(8), MaxLen: proto.Int32(12), ApplyToAllUDPPacket: proto.Bool(false)},
		{Type: appctlpb.NonceType_NONCE_TYPE_PRINTABLE.Enum(), MinLen: proto.Int32(8), MaxLen: proto.Int32(12), ApplyToAllUDPPacket: proto.Bool(true)},
		{Type: appctlpb.NonceType_NONCE_TYPE_FIXED.Enum(), CustomHexStrings: []string{"000102030405060708090a0b"}, ApplyToAllUDPPacket: proto.Bool(false)},
		{Type: appctlpb.NonceType_NONCE_TYPE_FIXED.Enum(), CustomHexStrings: []string{"aabb", "ccddee"}, ApplyToAllUDPPacket: proto.Bool(true)},
		{Type: appctlpb.NonceType_NONCE_TYPE_PRINTABLE_SUBSET.Enum(), MinLen: proto.Int32(12), MaxLen: proto.Int32(12), ApplyToAllUDPPacket: proto.Bool(false)},
		{Type: appctlpb.NonceType_NONCE_TYPE_RANDOM.Enum(), ApplyToAllUDPPacket: proto.Bool(false)},
		{Type: appctlpb.NonceType_NONCE_TYPE_PRINTABLE.Enum(), MinLen: proto.Int32(3), MaxLen: proto.Int32(12)}, // applyToAll unset: derived from the seed
	}
}

// runC09NonceMatrix: real client and real server over simnet with the nonce-pattern dimension on both sides and several
// traffic-pattern seeds (implicit settings are derived from the seed); several sessions per underlay so that open session
// requests also appear late in the life of a cipher.
func runC09NonceMatrix(r *vh.Run) {
	g := r.Rng.Fork()
	nps := c09NoncePatterns()
	seeds := []int32{7, 1, 2, 3, 12345}
	if r.Thorough() {
		for i := 0; i < 20; i++ {
			seeds = append(seeds, int32(g.Intn(1<<30)))
		}
	}
	n := 0
	for _, tr := range []string{"udp", "tcp"} {
		for ni := range nps {
			for si, seed := range seeds {
				n++
				if tr == "tcp" && !r.Thorough() && (ni+si)%3 != 0 {
					continue // the hint of a TCP direction is on its single nonce; UDP is where the k-th nonce matters
				}
				if tr == "udp" && !r.Thorough() && si >= 2 && nps[ni] != nil && nps[ni].ApplyToAllUDPPacket != nil {
					continue // fully explicit patterns do not depend on the seed
				}
				cp := &appctlpb.TrafficPattern{Seed: proto.Int32(seed), Nonce: nps[ni]}
				sp := &appctlpb.TrafficPattern{Seed: proto.Int32(seed + 1), Nonce: nps[(ni+3)%len(nps)]}
				// TCP fragmentation is C16's dimension; left implicit it can be switched on by the seed, and a fragmented
				// close segment cut short by the teardown of the scenario would look like an undecodable stream tail
				cp.TcpFragment = &appctlpb.TCPFragment{Enable: proto.Bool(false)}
				sp.TcpFragment = &appctlpb.TCPFragment{Enable: proto.Bool(false)}
				if n%4 == 0 {
					cp.UnlockAll = proto.Bool(true)
					sp.UnlockAll = proto.Bool(true)
				}
				sc := scenario{Transport: tr, CMTU: 1400, SMTU: 1400, CPat: cp, SPat: sp, Sessions: 2,
					Up: [][]int{{10, 3000}, {1500}}, Down: [][]int{{2500, 7}, {100}}, Seed: g.U64() % 1000000}
				sc.Name = fmt.Sprintf("nonce-%s-%d", tr, n)
				dbg("scenario %s c=%s s=%s seed=%d", sc.Name, patName(cp), patName(sp), seed)
				res := runScenario(sc)
				r.Count("scenario-nonce-" + tr)
				r.Case(fmt.Sprintf("SC %s %s c=%s s=%s seed=%d", sc.Name, tr, patName(cp), patName(sp), seed), "OK")
				checkTransfer(r, res)
				checkC09Decode(r, res)
				checkC09Hint(r, res)
			}
		}
	}
}

func c09min(a, b int) int {
	if a < b {
		return a
	}
	return b
}
