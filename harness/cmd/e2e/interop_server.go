package main

import (
	"bytes"
	"context"
	"fmt"
	"io"
	"net"
	"time"

	"verifharness/refcodec"
	"verifharness/rig"
	"verifharness/simnet"
	"verifharness/vh"
)

// runC09InteropServer lets the reference codec act as a third-party SERVER for a real mieru client (TCP):
// it decodes the client's first segment (open request with piggybacked data), answers with an
// openSessionResponse that carries the first bytes of its answer (documented: session segments may carry up to
// 1024 bytes), followed by data segments with arbitrary paddings; the client application must read exactly
// the bytes the third-party server sent, and refcodec must decode everything the client emits.
func runC09InteropServer(r *vh.Run) {
	g := r.Rng.Fork()
	n := 10
	if r.Thorough() {
		n = 120
	}
	for i := 0; i < n; i++ {
		interopServerOnce(r, g.Fork(), i)
	}
}

func interopServerOnce(r *vh.Run, g *vh.Rng, idx int) {
	user := fmt.Sprintf("srvinterop%d", idx)
	pass := fmt.Sprintf("pw%d", g.Intn(1000000))
	nw := simnet.New()
	lis, err := nw.Listen(context.Background(), "tcp", "192.0.2.1:8964")
	if err != nil {
		r.Fail("interop-listen", err.Error(), nil)
		return
	}
	defer lis.Close()
	// a rig without a mieru server: only the client mux on this network
	rg := &rig.Rig{Opts: rig.Opts{Transport: "tcp", MTU: 1400, ServerIP: "192.0.2.1", ServerPort: 8964}, Net: nw}
	cl, err := rg.NewClient(user, pass, nil, "10.0.0.5")
	if err != nil {
		r.Fail("interop-client", err.Error(), nil)
		return
	}
	defer cl.Close()

	respPayload := g.Bytes([]int{0, 1, 100, 1023, 1024}[g.Intn(5)])
	var dataSegs [][]byte
	for i, k := 0, g.Range(0, 4); i < k; i++ {
		dataSegs = append(dataSegs, g.Bytes([]int{1, 45, 1000, 32768, g.Range(1, 32768)}[g.Intn(5)]))
	}
	want := append([]byte{}, respPayload...)
	for _, d := range dataSegs {
		want = append(want, d...)
	}
	request := g.Bytes([]int{1, 10, 1024, 1025, 5000}[g.Intn(5)])
	cas := map[string]interface{}{"role": "third-party-server", "transport": "tcp", "response_payload": len(respPayload), "data_segments": lens(dataSegs), "request_len": len(request), "index": idx, "seed": r.Seed}
	r.Count("interop-server-tcp")
	r.Distinct(fmt.Sprintf("interop-server/resp%d/segs%d/req%d", len(respPayload), len(dataSegs), len(request)))
	r.Case(fmt.Sprintf("INTEROP-SERVER tcp resp=%d segs=%d req=%d", len(respPayload), len(dataSegs), len(request)), "OK")

	type srvResult struct {
		got []byte
		err string
	}
	sch := make(chan srvResult, 1)
	go func() {
		c, err := lis.Accept()
		if err != nil {
			sch <- srvResult{nil, "accept: " + err.Error()}
			return
		}
		defer c.Close()
		hp := refcodec.HashedPassword(user, pass)
		k3 := refcodec.KeysAt(hp, time.Now())
		dec := refcodec.NewStreamDecoder([][]byte{k3[0], k3[1], k3[2]})
		var got []byte
		var sid uint32
		buf := make([]byte, 65536)
		replied := false
		var enc *refcodec.StreamEncoder
		deadline := time.Now().Add(20 * time.Second)
		for time.Now().Before(deadline) {
			c.SetReadDeadline(time.Now().Add(2 * time.Second))
			nr, err := c.Read(buf)
			if nr > 0 {
				segs, derr := dec.Feed(buf[:nr])
				if derr != nil {
					sch <- srvResult{got, "refcodec cannot decode the client's stream: " + derr.Error()}
					return
				}
				for _, s := range segs {
					if s.Meta.Proto == 2 {
						sid = s.Meta.SessionID
					}
					if s.Meta.Proto == 2 || s.Meta.IsData() {
						got = append(got, s.Payload...)
					}
				}
			}
			if !replied && len(got) >= len(request) && sid != 0 {
				nonce := g.Bytes(24)
				enc = refcodec.NewStreamEncoder(dec.Key(), nonce)
				ts := refcodec.TimestampOf(time.Now())
				out := enc.Encode(refcodec.Segment{Meta: refcodec.Meta{Proto: 3, Timestamp: ts, SessionID: sid, Seq: 0}, Payload: respPayload, Suffix: g.Bytes(g.Intn(256))})
				for i, d := range dataSegs {
					out = append(out, enc.Encode(refcodec.Segment{Meta: refcodec.Meta{Proto: 7, Timestamp: ts, SessionID: sid, Seq: uint32(i + 1), WindowSize: 4096},
						Payload: d, Prefix: g.Bytes(g.Intn(256)), Suffix: g.Bytes(g.Intn(256))})...)
				}
				for len(out) > 0 {
					k := g.Range(1, 9000)
					if k > len(out) {
						k = len(out)
					}
					c.Write(out[:k])
					out = out[k:]
				}
				replied = true
			}
			if err != nil && nr == 0 {
				if ne, ok := err.(net.Error); ok && ne.Timeout() {
					if replied {
						break
					}
					continue
				}
				break
			}
		}
		time.Sleep(500 * time.Millisecond)
		sch <- srvResult{got, ""}
	}()

	ctx, cancel := context.WithTimeout(context.Background(), 10*time.Second)
	defer cancel()
	conn, err := cl.DialContext(ctx)
	if err != nil {
		r.Fail("interop-server-dial", err.Error(), cas)
		return
	}
	if _, err := conn.Write(request); err != nil {
		r.Fail("interop-server-write", err.Error(), cas)
		return
	}
	rx := make([]byte, len(want))
	conn.SetReadDeadline(time.Now().Add(15 * time.Second))
	nr, rerr := io.ReadFull(conn, rx)
	sr := <-sch
	conn.Close()
	if sr.err != "" {
		r.Fail("refcodec-cannot-decode-client-stream", sr.err, cas)
		return
	}
	if !bytes.Equal(sr.got, request) {
		r.Fail("third-party-server-misreads-client-request", fmt.Sprintf("reference-codec server decoded %d request bytes, client wrote %d", len(sr.got), len(request)), cas)
	}
	if len(want) > 0 && (rerr != nil || !bytes.Equal(rx[:nr], want)) {
		r.Fail("mieru-client-loses-documented-server-traffic", fmt.Sprintf("real client application read %d of the %d bytes a reference-codec server sent (%d of them on the openSessionResponse): err=%v", nr, len(want), len(respPayload), rerr), cas)
	}
}
