package main

import (
	"context"
	"fmt"
	"io"
	"net"
	"strings"
	"time"

	"github.com/enfein/mieru/v3/pkg/appctl/appctlpb"
	"github.com/enfein/mieru/v3/pkg/protocol"
	"verifharness/rig"
	"verifharness/trace"
	"verifharness/vh"
)

// runC16TwoClients: "a server uses low entropy only toward a client that used it first" with MORE THAN ONE client on one
// server endpoint (one UDP socket / several TCP connections serve them all): client A has low entropy on and speaks first,
// client B (another user, another source address) has it off and exchanges data afterwards - and before, in the second
// order.  Judged per client address: a low-entropy data segment from the server toward an address whose client has not
// sent one is a failure.
func runC16TwoClients(r *vh.Run) {
	type order struct {
		name   string
		first  string // which client transfers first
		bEarly bool   // B opens its session before A has sent anything and uses it again afterwards
	}
	orders := []order{{"le-client-first", "A", false}, {"plain-client-first", "B", false}, {"plain-session-open-across", "A", true}}
	for _, tr := range []string{"udp", "tcp"} {
		for mi, mode := range []appctlpb.LowEntropyMode{1, 3} {
			for _, od := range orders {
				if !r.Thorough() && mi == 1 && od.name != "le-client-first" {
					continue
				}
				name := fmt.Sprintf("two-clients-%s-mode%d-%s", tr, mode, od.name)
				sp := pat(0, 0, nil, mode, 1, false)
				ap := pat(0, 0, nil, mode, 16, false)
				bp := pat(0, 0, nil, 0, 0, false)
				users := map[string]string{"ua": "pw-a-" + name, "ub": "pw-b-" + name}
				rg, err := rig.Start(rig.Opts{Transport: tr, MTU: 1400, Users: users, ClientUser: "ua", ClientPass: users["ua"], ClientPattern: ap, ServerPattern: sp, Multiplex: 3})
				if err != nil {
					r.Fail("transfer-failed", name+": start: "+err.Error(), map[string]string{"scenario": name})
					continue
				}
				if tr == "udp" {
					rg.Net.Latency = 5 * time.Millisecond
				}
				bmux, err := rg.NewClient("ub", users["ub"], bp, "198.51.100.77")
				if err != nil {
					r.Fail("transfer-failed", name+": client B: "+err.Error(), map[string]string{"scenario": name})
					rg.Close()
					continue
				}
				var errs []string
				// server application: every session reads requests of 100 bytes and answers each with 3000 bytes, until EOF
				go func() {
					for {
						c, err := rg.Accept(60 * time.Second)
						if err != nil {
							return
						}
						go func(c net.Conn) {
							defer c.Close()
							req := make([]byte, 100)
							for {
								if _, err := io.ReadFull(c, req); err != nil {
									return
								}
								if _, err := c.Write(make([]byte, 3000)); err != nil {
									return
								}
							}
						}(c)
					}
				}()
				exchange := func(who string, c net.Conn) {
					if _, err := c.Write(make([]byte, 100)); err != nil {
						errs = append(errs, who+" write: "+err.Error())
						return
					}
					c.SetReadDeadline(time.Now().Add(60 * time.Second))
					if _, err := io.ReadFull(c, make([]byte, 3000)); err != nil {
						errs = append(errs, who+" read: "+err.Error())
					}
				}
				dial := func(m *protocol.Mux) net.Conn {
					ctx, cancel := context.WithTimeout(context.Background(), 20*time.Second)
					defer cancel()
					c, err := m.DialContext(ctx)
					if err != nil {
						errs = append(errs, "dial: "+err.Error())
						return nil
					}
					return c
				}
				var bc net.Conn
				if od.bEarly {
					if bc = dial(bmux); bc != nil {
						exchange("B(early)", bc)
					}
				}
				seq := []string{"A", "B"}
				if od.first == "B" {
					seq = []string{"B", "A", "B"}
				}
				for _, who := range seq {
					if who == "A" {
						if c := dial(rg.Client); c != nil {
							exchange("A", c)
							exchange("A", c)
							c.Close()
						}
						continue
					}
					if bc == nil {
						bc = dial(bmux)
					}
					if bc != nil {
						exchange("B", bc)
						exchange("B", bc)
					}
				}
				if bc != nil {
					bc.Close()
				}
				time.Sleep(300 * time.Millisecond)
				bmux.Close()
				rg.Close()
				ev := rg.Net.Log.Snapshot()
				creds := []trace.Cred{{User: "ua", Pass: users["ua"]}, {User: "ub", Pass: users["ub"]}}
				cs := map[string]interface{}{"scenario": name, "transport": tr, "server_pattern": patName(sp), "client_a_pattern": patName(ap), "client_b_pattern": patName(bp)}
				r.Count("scenario-two-clients-" + tr)
				r.Case("SC2 "+name, "OK")
				for _, e := range errs {
					r.Fail("transfer-failed", "scenario "+name+": "+e, cs)
				}
				used := map[string]bool{}   // client address -> that client has sent a low-entropy data segment
				leTo, plainTo := map[string]int{}, map[string]int{}
				judge := func(src, dst string, le, data bool) {
					if !strings.HasPrefix(src, "192.0.2.1:") {
						if le {
							used[src] = true
						}
						return
					}
					if !data {
						return
					}
					if le {
						leTo[dst]++
						if !used[dst] {
							r.Fail("server-low-entropy-toward-client-that-never-used-it", fmt.Sprintf("%s: the server sent a low-entropy data segment to %s, whose client has sent none (another client of the same endpoint had)", name, dst), cs)
						}
					} else {
						plainTo[dst]++
					}
				}
				if tr == "udp" {
					for _, u := range trace.UDP(ev, creds) {
						if u.Kind == "send" && u.Seg != nil {
							judge(u.Src, u.Dst, u.Seg.Meta.IsLowEntropy(), u.Seg.Meta.IsData())
						}
					}
				} else {
					for _, c := range trace.TCP(ev, creds) {
						for i := range c.C2S.Segs {
							judge(c.C2S.Src, c.C2S.Dst, c.C2S.Segs[i].Meta.IsLowEntropy(), c.C2S.Segs[i].Meta.IsData())
						}
						for i := range c.S2C.Segs {
							judge(c.S2C.Src, c.S2C.Dst, c.S2C.Segs[i].Meta.IsLowEntropy(), c.S2C.Segs[i].Meta.IsData())
						}
					}
				}
				r.Distinct(fmt.Sprintf("two-clients/%s/%s/le-dsts=%d/plain-dsts=%d", tr, od.name, len(leTo), len(plainTo)))
				if len(leTo) == 0 && len(errs) == 0 {
					r.Fail("low-entropy-configured-but-plain-data", name+": the server never used low entropy although client A did", cs)
				}
			}
		}
	}
}
