package main

import (
	"context"
	"fmt"
	"io"
	"net"
	"time"

	"github.com/enfein/mieru/v3/pkg/appctl/appctlpb"
	"github.com/enfein/mieru/v3/pkg/metrics"
	"google.golang.org/protobuf/proto"
	"verifharness/rig"
	"verifharness/vh"
)

func userCounters(user string) (up, down int64, ok bool) {
	g := metrics.GetMetricGroupByName(fmt.Sprintf(metrics.UserMetricGroupFormat, user))
	if g == nil {
		return 0, 0, false
	}
	u, f1 := g.GetMetric(metrics.UserMetricUploadBytes)
	d, f2 := g.GetMetric(metrics.UserMetricDownloadBytes)
	if !f1 || !f2 {
		return 0, 0, false
	}
	return u.Load(), d.Load(), true
}

// session: client writes up bytes, server reads them all and writes down bytes, client reads them.
// returns (bytes the server app read, bytes the server app wrote, refused, error text)
func quotaSession(r *rig.Rig, client interface {
	DialContext(context.Context) (net.Conn, error)
}, up, down int) (sRead, sWrote int, refused bool, errs string) {
	ctx, cancel := context.WithTimeout(context.Background(), 20*time.Second)
	defer cancel()
	c, err := client.DialContext(ctx)
	if err != nil {
		return 0, 0, false, "dial: " + err.Error()
	}
	defer c.Close()
	type sres struct{ rd, wr int }
	sch := make(chan sres, 1)
	go func() {
		s, err := r.Accept(8 * time.Second)
		if err != nil {
			sch <- sres{-1, -1}
			return
		}
		defer s.Close()
		buf := make([]byte, up)
		s.SetReadDeadline(time.Now().Add(60 * time.Second))
		n, _ := io.ReadFull(s, buf)
		w := 0
		if n == up {
			w, _ = s.Write(make([]byte, down))
		}
		fin := make([]byte, 1)
		s.SetReadDeadline(time.Now().Add(60 * time.Second))
		io.ReadFull(s, fin)
		sch <- sres{n, w}
	}()
	if _, err := c.Write(make([]byte, up)); err != nil {
		errs += "client write: " + err.Error() + "; "
	}
	buf := make([]byte, down)
	c.SetReadDeadline(time.Now().Add(60 * time.Second))
	n, err := io.ReadFull(c, buf)
	if err != nil {
		refused = true
		errs += fmt.Sprintf("client read %d/%d: %v; ", n, down, err)
	}
	c.Write([]byte{1})
	time.Sleep(300 * time.Millisecond)
	c.Close()
	sr := <-sch
	return sr.rd, sr.wr, refused, errs
}

func runC19(r *vh.Run) {
	r.Rep.Rule = "real server with users with and without quotas on simnet (virtual time): sessions moving traffic just below / above the allowance, then new sessions of the exceeding user and of other users; per-user upload/download counters compared with the bytes the server application really read and wrote; then (c19acct.go) one user's stream consumed by the server application with read buffers of 1, 7, 100, 333, 500, 999, 1000, 4096, 32768 bytes against client writes around the open-request payload limit, the MTU fragment and the 32 KiB PDU, and produced in writes of the same sizes, the counters compared after every single Read and Write, a 1 MiB/day user read in 500-byte pieces refused on the next session; then reload histories through Mux.SetServerUsers(UserListToMap(..)): only quotas lowered / raised / unchanged / removed / second quota added, and quotas changed together with a new user, each decided on a fresh underlay. distinct_nontrivial = distinct (transport, user class, below/above, phase) tuples"
	for _, tr := range []string{"tcp", "udp"} {
		tag := fmt.Sprintf("%s%d", tr, r.Seed)
		limited, free, other := "lim"+tag, "free"+tag, "oth"+tag
		users := map[string]string{limited: "p1", free: "p2", other: "p3"}
		quotas := map[string][]*appctlpb.Quota{
			limited: {{Days: proto.Int32(1), Megabytes: proto.Int32(1)}},
			other:   {{Days: proto.Int32(1), Megabytes: proto.Int32(1)}, {Days: proto.Int32(30), Megabytes: proto.Int32(100)}},
		}
		// Multiplex > 0: later sessions are multiplexed on existing underlays (on TCP only the first segment of a
		// connection carries the authentication; the quota must still bind sessions opened later on it)
		rg, err := rig.Start(rig.Opts{Transport: tr, MTU: 1400, Users: users, Quotas: quotas, ClientUser: limited, ClientPass: "p1", Multiplex: 6})
		if err != nil {
			r.Fail("c19-start", err.Error(), nil)
			continue
		}
		if tr == "udp" {
			rg.Net.Latency = 2 * time.Millisecond
		}
		cFree, _ := rg.NewClient(free, "p2", nil, "10.0.0.3")
		cOther, _ := rg.NewClient(other, "p3", nil, "10.0.0.4")
		var expUp, expDown = map[string]int64{}, map[string]int64{}
		step := func(user string, cl interface {
			DialContext(context.Context) (net.Conn, error)
		}, up, down int, wantRefused bool, phase string) {
			rd, wr, refused, errs := quotaSession(rg, cl, up, down)
			r.Count("session-" + tr)
			r.Distinct(fmt.Sprintf("%s/%s/%s/%v", tr, strings3(user), phase, refused))
			r.Case(fmt.Sprintf("Q %s %s %s up=%d down=%d", tr, strings3(user), phase, up, down), "OK")
			cas := map[string]interface{}{"transport": tr, "user_class": strings3(user), "phase": phase, "up": up, "down": down, "server_read": rd, "server_wrote": wr, "errors": errs}
			if rd > 0 {
				expUp[user] += int64(rd)
			}
			if wr > 0 {
				expDown[user] += int64(wr)
			}
			if wantRefused {
				if !refused {
					r.Fail("quota-exceeded-session-not-refused", fmt.Sprintf("user over quota still got %d bytes relayed", down), cas)
				}
				if rd > 0 || wr > 0 {
					r.Fail("quota-exceeded-data-relayed", fmt.Sprintf("server application read %d / wrote %d bytes on a session of a user over quota", rd, wr), cas)
				}
			} else if refused || rd != up || wr != down {
				r.Fail("within-quota-session-refused", "session of a user within allowance (or without quota) failed: "+errs, cas)
			}
		}
		// limited user: 0.9 MiB fine, then push the window total above 1 MiB * ... totalBytes/1048576 > 1 needs >= 2 MiB
		step(limited, rg.Client, 400000, 500000, false, "below")
		step(free, cFree, 300000, 300000, false, "noquota")
		step(limited, rg.Client, 600000, 650000, false, "crossing") // total now ~2.15 MB > 2 MiB => 2 > 1
		step(limited, rg.Client, 1000, 1000, true, "above")
		step(limited, rg.Client, 10, 10, true, "above-again")
		// keep opening sessions until some were multiplexed on an already established underlay
		reused := 0
		for i := 0; i < 10 && reused < 3; i++ {
			before := countDials(rg)
			step(limited, rg.Client, 20+i, 20, true, "above-multiplexed")
			if countDials(rg) == before {
				reused++
			}
		}
		r.Count(fmt.Sprintf("above-quota-sessions-on-existing-underlay-%s", tr))
		if reused == 0 {
			r.Rep.Notes = map[string]string{"multiplex-" + tr: "no over-quota session was multiplexed on an existing underlay in this run"}
		}
		step(free, cFree, 2500000, 100, false, "noquota-large")
		step(other, cOther, 100000, 100000, false, "other-within")
		// accounting: counters equal what the server application really moved
		for _, u := range []string{limited, free, other} {
			up, down, ok := userCounters(u)
			cas := map[string]interface{}{"transport": tr, "user_class": strings3(u), "counter_up": up, "counter_down": down, "app_read": expUp[u], "app_wrote": expDown[u]}
			if !ok {
				r.Fail("user-counters-missing", "no per-user counters registered for "+strings3(u), cas)
				continue
			}
			r.Case(fmt.Sprintf("ACC %s %s up=%d down=%d", tr, strings3(u), expUp[u], expDown[u]), "OK")
			// the 1-byte final ack read by the server app is counted too: allow exactly the bytes handed to the app
			if up < expUp[u] || up > expUp[u]+int64(8) {
				r.Fail("upload-bytes-miscounted", fmt.Sprintf("counter says %d, server application read %d", up, expUp[u]), cas)
			}
			if down != expDown[u] {
				r.Fail("download-bytes-miscounted", fmt.Sprintf("counter says %d, server application wrote %d", down, expDown[u]), cas)
			}
		}
		cFree.Close()
		cOther.Close()
		rg.Close()
		// c19acct.go: the stream cut into reads/writes of every size; reload histories
		runC19Accounting(r, tr)
		runC19Reload(r, tr)
	}
}

func strings3(u string) string { return u[:3] }

// countDials counts underlays created so far (TCP dials / distinct UDP client sockets).
func countDials(rg *rig.Rig) int {
	n := 0
	socks := map[string]bool{}
	for _, e := range rg.Net.Log.Snapshot() {
		switch e.Kind {
		case "tcp-dial":
			n++
		case "udp-send":
			if !socks[e.Src] {
				socks[e.Src] = true
				n++
			}
		}
	}
	return n
}
