package main

// C09, UDP, third-party roles written from docs/protocol.md only (refcodec):
//
//   runC09InteropUDPServer  a STRICT document-only UDP server for a real mieru client: it has several registered
//                           users and finds the user of EVERY datagram by the user hint in the last 4 nonce bytes
//                           (a datagram whose nonce carries no registered user's hint is a failure), derives the
//                           three keys of its current time, opens the datagram, answers open / data / ack / close.
//                           The client runs with the nonce-pattern dimension (none = implicit from the seed,
//                           printable, fixed prefix; applyToAllUDPPacket true and false).
//
//   runC09Rekey             a document-only UDP client that derives its key from ITS CURRENT TIME for every
//                           datagram ("Round the time of unixTime to the nearest 2 minutes ...") and keeps one
//                           session in use across 1..3 changes of the time salt, against a real mieru server.
//                           Every server datagram must open under one of the three salts around the client's
//                           current time, and the echo must continue.

import (
	"bytes"
	"context"
	"fmt"
	"io"
	"net"
	"sync"
	"time"

	"github.com/enfein/mieru/v3/pkg/appctl/appctlpb"
	"google.golang.org/protobuf/proto"
	"verifharness/refcodec"
	"verifharness/rig"
	"verifharness/simnet"
	"verifharness/vh"
)

func runC09InteropUDPServer(r *vh.Run) {
	g := r.Rng.Fork()
	nps := c09NoncePatterns()
	seeds := []int32{7, 2}
	if r.Thorough() {
		for i := 0; i < 12; i++ {
			seeds = append(seeds, int32(g.Intn(1<<30)))
		}
	}
	idx := 0
	for ni := range nps {
		for _, seed := range seeds {
			if !r.Thorough() && seed != 7 && nps[ni] != nil && nps[ni].ApplyToAllUDPPacket != nil {
				continue
			}
			idx++
			interopUDPServerOnce(r, g.Fork(), idx, &appctlpb.TrafficPattern{Seed: proto.Int32(seed), Nonce: nps[ni]})
		}
	}
}

type docUser struct {
	name string
	hp   []byte
}

func interopUDPServerOnce(r *vh.Run, g *vh.Rng, idx int, cp *appctlpb.TrafficPattern) {
	user := fmt.Sprintf("udpsrv%d", idx)
	pass := fmt.Sprintf("pw%d", g.Intn(1000000))
	registered := []docUser{{"carol", refcodec.HashedPassword("carol", "c-pass")}, {user, refcodec.HashedPassword(user, pass)}, {"dave", refcodec.HashedPassword("dave", "d-pass")}}
	nw := simnet.New()
	sock, err := nw.ListenPacketAt("192.0.2.1:8964")
	if err != nil {
		r.Fail("interop-listen", err.Error(), nil)
		return
	}
	defer sock.Close()
	rg := &rig.Rig{Opts: rig.Opts{Transport: "udp", MTU: 1400, ServerIP: "192.0.2.1", ServerPort: 8964}, Net: nw}
	cl, err := rg.NewClient(user, pass, cp, "10.0.0.5")
	if err != nil {
		r.Fail("interop-client", err.Error(), nil)
		return
	}
	defer cl.Close()

	request := g.Bytes([]int{3000, 5000, 1, 1300}[g.Intn(4)])
	second := g.Bytes(2600) // written after the first answer: late datagrams of the same cipher
	reply := g.Bytes(g.Range(1, 3000))
	reply2 := g.Bytes(g.Range(1, 2000))
	cas := map[string]interface{}{"role": "third-party-udp-server", "client_pattern": patName(cp), "traffic_pattern_seed": cp.GetSeed(), "request_len": len(request), "index": idx, "seed": r.Seed}
	r.Count("interop-server-udp")
	r.Distinct(fmt.Sprintf("interop-udp-server/%s/req%d", patName(cp), len(request)))
	r.Case(fmt.Sprintf("INTEROP-SERVER udp c=%s seed=%d req=%d", patName(cp), cp.GetSeed(), len(request)), "OK")

	var mu sync.Mutex
	var fails []string // first failure of each kind
	failed := map[string]bool{}
	fail := func(sig, what string) {
		mu.Lock()
		if !failed[sig] {
			failed[sig] = true
			fails = append(fails, sig+"\x00"+what)
		}
		mu.Unlock()
	}
	var got []byte
	stop := make(chan struct{})
	done := make(chan struct{})
	go func() {
		defer close(done)
		buf := make([]byte, 2048)
		var sid uint32
		var peer net.Addr
		var key []byte
		expected := uint32(0) // next client sequence number to deliver
		mySeq := uint32(0)    // next sequence number of this server
		sentReply, sentReply2 := false, false
		k := 0
		send := func(s refcodec.Segment) {
			s.Meta.Timestamp = refcodec.TimestampOf(time.Now())
			s.Meta.SessionID = sid
			nonce := g.Bytes(24)
			refcodec.SetUserHint(user, nonce)
			sock.WriteTo(refcodec.EncodeDatagramPad(key, nonce, s, g.Bool()), peer)
		}
		sendData := func(b []byte) {
			for len(b) > 0 {
				n := g.Range(1, 1100)
				if n > len(b) {
					n = len(b)
				}
				send(refcodec.Segment{Meta: refcodec.Meta{Proto: 7, Seq: mySeq, UnAckSeq: expected, WindowSize: 4096}, Payload: b[:n], Prefix: g.Bytes(g.Intn(60)), Suffix: g.Bytes(g.Intn(60))})
				mySeq++
				b = b[n:]
			}
		}
		for {
			select {
			case <-stop:
				return
			default:
			}
			sock.SetReadDeadline(time.Now().Add(1 * time.Second))
			n, from, err := sock.ReadFrom(buf)
			if err != nil {
				continue
			}
			d := append([]byte(nil), buf[:n]...)
			k++
			if n < 24+48 {
				fail("refcodec-cannot-decode-client-datagram", fmt.Sprintf("client datagram number %d has only %d bytes", k, n))
				continue
			}
			// the document's user lookup: the hint in the last 4 nonce bytes
			var cand *docUser
			for i := range registered {
				if refcodec.HasUserHint(registered[i].name, d[:24]) {
					cand = &registered[i]
					break
				}
			}
			if cand == nil {
				// diagnosis only: would the datagram have opened for the real user?
				k3 := refcodec.KeysAt(registered[1].hp, time.Now())
				_, _, derr := refcodec.DecodeDatagram(k3[:], d)
				fail("user-hint-missing-on-udp-datagram", fmt.Sprintf("a document-only server finds no registered user for client datagram number %d: its nonce %x ends with %x, the documented hint of %q is %x (the datagram is otherwise valid for that user: %v)",
					k, d[:24], d[20:24], user, refcodec.UserHint(user, d[:24]), derr == nil))
				continue
			}
			k3 := refcodec.KeysAt(cand.hp, time.Now())
			seg, kk, derr := refcodec.DecodeDatagram(k3[:], d)
			if derr != nil {
				fail("refcodec-cannot-decode-client-datagram", fmt.Sprintf("client datagram number %d (%d bytes, user %q by hint): %v", k, n, cand.name, derr))
				continue
			}
			key, peer = kk, from
			m := seg.Meta
			switch {
			case m.Proto == 2:
				if sid == 0 {
					sid = m.SessionID
					expected = m.Seq + 1
					got = append(got, seg.Payload...)
					send(refcodec.Segment{Meta: refcodec.Meta{Proto: 3, Seq: mySeq}, Suffix: g.Bytes(g.Intn(200))})
					mySeq++
				}
			case m.IsData() && m.SessionID == sid:
				if m.Seq == expected {
					expected++
					mu.Lock()
					got = append(got, seg.Payload...)
					mu.Unlock()
				}
				send(refcodec.Segment{Meta: refcodec.Meta{Proto: 9, Seq: mySeq, UnAckSeq: expected, WindowSize: 4096}})
			case m.Proto == 4 && m.SessionID == sid:
				send(refcodec.Segment{Meta: refcodec.Meta{Proto: 5, Seq: mySeq}})
			}
			mu.Lock()
			ng := len(got)
			mu.Unlock()
			if !sentReply && ng >= len(request) {
				sentReply = true
				sendData(reply)
			}
			if !sentReply2 && ng >= len(request)+len(second) {
				sentReply2 = true
				sendData(reply2)
			}
		}
	}()

	appErr := func() string {
		ctx, cancel := context.WithTimeout(context.Background(), 10*time.Second)
		defer cancel()
		conn, err := cl.DialContext(ctx)
		if err != nil {
			return "dial: " + err.Error()
		}
		defer conn.Close()
		if _, err := conn.Write(request); err != nil {
			return "write: " + err.Error()
		}
		rx := make([]byte, len(reply))
		conn.SetReadDeadline(time.Now().Add(20 * time.Second))
		if n, err := io.ReadFull(conn, rx); err != nil || !bytes.Equal(rx, reply) {
			return fmt.Sprintf("read %d of the %d bytes of the first answer: %v", n, len(reply), err)
		}
		if _, err := conn.Write(second); err != nil {
			return "second write: " + err.Error()
		}
		rx = make([]byte, len(reply2))
		conn.SetReadDeadline(time.Now().Add(20 * time.Second))
		if n, err := io.ReadFull(conn, rx); err != nil || !bytes.Equal(rx, reply2) {
			return fmt.Sprintf("read %d of the %d bytes of the second answer: %v", n, len(reply2), err)
		}
		return ""
	}()
	time.Sleep(300 * time.Millisecond)
	close(stop)
	<-done
	for _, f := range fails {
		parts := bytes.SplitN([]byte(f), []byte{0}, 2)
		r.Fail(string(parts[0]), fmt.Sprintf("client pattern %s: %s", patName(cp), parts[1]), cas)
	}
	if len(fails) > 0 {
		return
	}
	if appErr != "" {
		r.Fail("mieru-client-loses-documented-server-traffic", "real UDP client against a document-only server: "+appErr, cas)
		return
	}
	if !bytes.Equal(got, append(append([]byte{}, request...), second...)) {
		r.Fail("third-party-server-misreads-client-request", fmt.Sprintf("document-only UDP server decoded %d bytes, the client wrote %d", len(got), len(request)+len(second)), cas)
	}
}

// ------------------------------------------------------------------ re-keying client

func runC09Rekey(r *vh.Run) {
	g := r.Rng.Fork()
	// (slot changes to live through, seconds between two echoes)
	plans := [][2]int{{3, 25}, {1, 40}}
	if r.Thorough() {
		plans = append(plans, [2]int{2, 7}, [2]int{3, 55}, [2]int{2, 31}, [2]int{4, 19})
	}
	for i, p := range plans {
		rekeyOnce(r, g.Fork(), i, p[0], p[1])
	}
}

func rekeyOnce(r *vh.Run, g *vh.Rng, idx, changes, gap int) {
	user := fmt.Sprintf("rekey%d", idx)
	pass := fmt.Sprintf("pw%d", g.Intn(1000000))
	rg, err := rig.StartServer(rig.Opts{Transport: "udp", MTU: 1400, Users: map[string]string{user: pass, "someoneelse": "x"}, ClientUser: user, ClientPass: pass})
	if err != nil {
		r.Fail("interop-server-start", err.Error(), nil)
		return
	}
	defer rg.Close()
	cas := map[string]interface{}{"role": "re-keying-udp-client", "slot_changes": changes, "gap_s": gap, "index": idx, "seed": r.Seed}
	r.Count("rekey-udp")
	r.Case(fmt.Sprintf("REKEY udp changes=%d gap=%d", changes, gap), "OK")

	// server application: echo
	go func() {
		c, err := rg.Accept(30 * time.Second)
		if err != nil {
			return
		}
		buf := make([]byte, 4096)
		for {
			c.SetReadDeadline(time.Now().Add(20 * time.Minute))
			n, err := c.Read(buf)
			if n > 0 {
				c.Write(buf[:n])
			}
			if err != nil {
				c.Close()
				return
			}
		}
	}()

	sock, err := rg.Net.NewClientSock("10.0.0.88")
	if err != nil {
		r.Fail("interop-sock", err.Error(), cas)
		return
	}
	defer sock.Close()
	dst := &net.UDPAddr{IP: net.ParseIP("192.0.2.1"), Port: 8964}
	hp := refcodec.HashedPassword(user, pass)
	sid := uint32(g.U64()) | 1
	t0 := time.Now()
	slot0 := refcodec.SlotOf(t0)
	firstKey := refcodec.DeriveKey(hp, slot0)

	var mu sync.Mutex
	var rx []byte
	srvNext := uint32(0) // next server sequence number expected (open response is 0)
	mySeq := uint32(0)
	var failure [2]string
	setFail := func(sig, what string) {
		mu.Lock()
		if failure[0] == "" {
			failure = [2]string{sig, what}
		}
		mu.Unlock()
	}
	// the document's client: the key of the CURRENT time for every datagram
	send := func(m refcodec.Meta, payload []byte) {
		now := time.Now()
		key := refcodec.DeriveKey(hp, refcodec.SlotOf(now))
		m.Timestamp = refcodec.TimestampOf(now)
		m.SessionID = sid
		nonce := g.Bytes(24)
		refcodec.SetUserHint(user, nonce)
		sock.WriteTo(refcodec.EncodeDatagram(key, nonce, refcodec.Segment{Meta: m, Payload: payload, Suffix: g.Bytes(g.Intn(40))}), dst)
	}
	stop := make(chan struct{})
	done := make(chan struct{})
	go func() {
		defer close(done)
		buf := make([]byte, 2048)
		for {
			select {
			case <-stop:
				return
			default:
			}
			sock.SetReadDeadline(time.Now().Add(1 * time.Second))
			n, _, err := sock.ReadFrom(buf)
			if err != nil {
				continue
			}
			now := time.Now()
			k3 := refcodec.KeysAt(hp, now)
			s, kk, derr := refcodec.DecodeDatagram(k3[:], buf[:n])
			if derr != nil {
				why := "it opens under none of the three time salts around the client's current time"
				if _, _, e0 := refcodec.DecodeDatagram([][]byte{firstKey}, buf[:n]); e0 == nil {
					why += fmt.Sprintf("; it opens under the key of the session's FIRST datagram (time salt %d, the client's current salt is %d, %d salt changes later)", slot0, refcodec.SlotOf(now), (refcodec.SlotOf(now)-slot0)/120)
				}
				setFail("udp-server-reply-not-under-current-time-key", fmt.Sprintf("%d s into a UDP session a server datagram of %d bytes cannot be read by a client that derives its key from the time as documented: %s (%v)", int(now.Sub(t0).Seconds()), n, why, derr))
				continue
			}
			if !bytes.Equal(kk, k3[1]) {
				r.Count("rekey-reply-under-neighbour-salt")
			} else {
				r.Count("rekey-reply-under-current-salt")
			}
			if s.Meta.SessionID != sid {
				continue
			}
			mu.Lock()
			if (s.Meta.Proto == 3 || s.Meta.IsData()) && s.Meta.Seq == srvNext {
				srvNext++
				if s.Meta.IsData() {
					rx = append(rx, s.Payload...)
				}
			}
			next := srvNext
			ms := mySeq
			mu.Unlock()
			if s.Meta.IsData() {
				send(refcodec.Meta{Proto: 8, Seq: ms, UnAckSeq: next, WindowSize: 4096}, nil)
			}
		}
	}()

	var want []byte
	total := time.Duration(changes)*120*time.Second + 30*time.Second
	round := 0
	echoFail := ""
	for time.Since(t0) < total && echoFail == "" {
		msg := []byte(fmt.Sprintf("round %d at +%ds|", round, int(time.Since(t0).Seconds())))
		msg = append(msg, g.Bytes(g.Range(1, 600))...)
		want = append(want, msg...)
		mu.Lock()
		next := srvNext
		mu.Unlock()
		if round == 0 {
			send(refcodec.Meta{Proto: 2, Seq: 0}, msg)
			mySeq = 1
		} else {
			mu.Lock()
			seq := mySeq
			mySeq++
			mu.Unlock()
			send(refcodec.Meta{Proto: 6, Seq: seq, UnAckSeq: next, WindowSize: 4096}, msg)
		}
		// wait for the echo of everything written so far
		deadline := time.Now().Add(12 * time.Second)
		for {
			mu.Lock()
			n := len(rx)
			f := failure[0]
			mu.Unlock()
			if n >= len(want) || f != "" {
				break
			}
			if time.Now().After(deadline) {
				echoFail = fmt.Sprintf("the echo stopped: %d s into the session (time salt changed %d times since its first datagram) %d of %d bytes came back", int(time.Since(t0).Seconds()), (refcodec.SlotOf(time.Now())-slot0)/120, n, len(want))
				break
			}
			time.Sleep(20 * time.Millisecond)
		}
		mu.Lock()
		f := failure[0]
		mu.Unlock()
		if f != "" {
			break
		}
		r.Distinct(fmt.Sprintf("rekey/salt+%d", (refcodec.SlotOf(time.Now())-slot0)/120))
		round++
		time.Sleep(time.Duration(gap) * time.Second)
	}
	send(refcodec.Meta{Proto: 4, Seq: mySeq}, nil)
	time.Sleep(200 * time.Millisecond)
	close(stop)
	<-done
	cas["rounds"] = round
	cas["virtual_s"] = int(time.Since(t0).Seconds())
	mu.Lock()
	defer mu.Unlock()
	if failure[0] != "" {
		r.Fail(failure[0], failure[1], cas)
		return
	}
	if echoFail != "" {
		r.Fail("udp-session-dies-when-peer-rekeys", echoFail, cas)
		return
	}
	if !bytes.Equal(rx, want) {
		r.Fail("third-party-client-misreads-server-reply", fmt.Sprintf("re-keying client: %d bytes echoed, %d written, prefix equal %v", len(rx), len(want), bytes.HasPrefix(want, rx)), cas)
	}
}
