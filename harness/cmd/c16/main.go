// Driver for C16 (configuration/generation half): traffic-pattern validation, implicit generation,
// encoding, and the quantities the runtime derives from a pattern (nonce rewrite length and apply
// decision, padding maxima, low-entropy send decision).
//
// Case kinds (cases.txt) and what the implementation printed (impl.txt):
//
//		O seed tag n v          oracle table: v = rng.FixedInt(n, "<seed>:<field>")            impl "-"
//		G hostseed <pattern>    trafficpattern.NewConfig                                       "ERR k" | "OK <effective pattern> V k"
//		R size min max          cipher.nonceRewriteLen, 64 calls (min/max as set on the cipher) sorted distinct lengths
//		U implicit all k        which of k consecutive newNonce calls applied the pattern      k bits
//		K type nhex hex...      class of the prefix newNonce produces (min=max=12)             0 none 1 printable 2 subset 3 fixed
//		P mtu stream frag existing pos has <pattern>   maxPaddingSizeWithTrafficPattern        number
//		E client used has <pattern>                    Session.lowEntropySendConfig            "mode rotation send"
//
//	  W n has <pattern>       StreamUnderlay.writeWithPossibleFragment on a recording conn (n bytes)  sizes of the conn.Write calls ("-" = none)
//	  Q n                     int(math.Sqrt(float64(n))) as the Go compiler evaluates it              number
//
// History independence (oracle only, no model line): the contract of rng.FixedInt - docs/traffic-pattern.md: "with the same
// seed and unlockAll values, the generated implicit traffic patterns do not change", "if seed is provided, the generated
// patterns are stable"; rng.go: FixedInt "stays the same if the same hint is provided" (no version, no host), the hint cache
// only "accelerates look up" - is: FixedInt(n, hint) is a pure function of (n, hint), namely
// (big-endian uint32 of sha256(hint)[:4], top bit cleared) mod n, whatever was asked before in the process.  The driver
// (1) checks every O value against that derivation, asking each hint with its n in ascending or descending order,
// (2) evaluates NewConfig inputs that share hints (unlockAll true/false, explicit/implicit minLen) in both orders in
//
//	FRESH child processes (this binary re-executed with the argument "c16fresh") and alone, and in this process,
//	and requires equal effective patterns for equal inputs,
//
// (3) re-evaluates a sample of the G cases in a fresh child process each.
// <pattern> = seed unlock T|t enable sleep N|n type all min max nhex hex... P|p mid end L|l mode rot
// (upper-case letter: sub-message present; "-" = field unset; hex strings as hex of their bytes).
package main

import (
	"bufio"
	"bytes"
	"crypto/sha256"
	"encoding/binary"
	"encoding/hex"
	"fmt"
	"math"
	"net"
	"os"
	"os/exec"
	"sort"
	"strings"
	"time"

	"github.com/enfein/mieru/v3/apis/trafficpattern"
	pb "github.com/enfein/mieru/v3/pkg/appctl/appctlpb"
	"github.com/enfein/mieru/v3/pkg/cipher"
	"github.com/enfein/mieru/v3/pkg/common"
	"github.com/enfein/mieru/v3/pkg/protocol"
	"github.com/enfein/mieru/v3/pkg/rng"
	"google.golang.org/protobuf/proto"
	"verifharness/vh"
)

var tagNames = []string{
	"tcpFragment.enable", "tcpFragment.maxSleepMs", "nonce.type", "nonce.applyToAllUDPPacket", "nonce.minLen",
	"nonce.maxLen", "padding.maxMiddlePaddingLen", "padding.maxEndPaddingLen", "lowEntropy.mode", "lowEntropy.maskRotation",
}

var oracleNs = []int{1, 2, 3, 4, 5, 6, 7, 8, 9, 10, 11, 12, 13, 31, 100, 256}

func oi32(p *int32) string {
	if p == nil {
		return "-"
	}
	return fmt.Sprint(*p)
}
func ob(p *bool) string {
	if p == nil {
		return "-"
	}
	if *p {
		return "1"
	}
	return "0"
}
func pres(present bool, c string) string {
	if present {
		return strings.ToUpper(c)
	}
	return c
}

func patTokens(p *pb.TrafficPattern) string {
	var t []string
	t = append(t, oi32(p.Seed), ob(p.UnlockAll))
	f := p.TcpFragment
	t = append(t, pres(f != nil, "t"))
	if f == nil {
		f = &pb.TCPFragment{}
	}
	t = append(t, ob(f.Enable), oi32(f.MaxSleepMs))
	n := p.Nonce
	t = append(t, pres(n != nil, "n"))
	if n == nil {
		n = &pb.NoncePattern{}
	}
	ty := "-"
	if n.Type != nil {
		ty = fmt.Sprint(int32(*n.Type))
	}
	t = append(t, ty, ob(n.ApplyToAllUDPPacket), oi32(n.MinLen), oi32(n.MaxLen), fmt.Sprint(len(n.CustomHexStrings)))
	for _, s := range n.CustomHexStrings {
		t = append(t, vh.Hex([]byte(s)))
	}
	pd := p.Padding
	t = append(t, pres(pd != nil, "p"))
	if pd == nil {
		pd = &pb.PaddingPattern{}
	}
	t = append(t, oi32(pd.MaxMiddlePaddingLen), oi32(pd.MaxEndPaddingLen))
	le := p.LowEntropy
	t = append(t, pres(le != nil, "l"))
	if le == nil {
		le = &pb.LowEntropyPattern{}
	}
	m, ro := "-", "-"
	if le.Mode != nil {
		m = fmt.Sprint(int32(*le.Mode))
	}
	if le.MaskRotation != nil {
		ro = fmt.Sprint(int32(*le.MaskRotation))
	}
	t = append(t, m, ro)
	return strings.Join(t, " ")
}

func errCode(err error) int {
	if err == nil {
		return 0
	}
	s := err.Error()
	s = strings.TrimPrefix(s, "TrafficPattern is invalid: ")
	switch {
	case strings.HasPrefix(s, "TCPFragment"):
		return 1
	case strings.HasPrefix(s, "NoncePattern"):
		return 2
	case strings.HasPrefix(s, "PaddingPattern"):
		return 3
	case strings.HasPrefix(s, "LowEntropyPattern"):
		return 4
	}
	return 9
}

// shaFixedInt is the contract of rng.FixedInt written down independently: a pure function of (n, hint).
func shaFixedInt(n int, hint string) int {
	if n <= 0 {
		return 0
	}
	b := sha256.Sum256([]byte(hint))
	b[0] &= 0x7f
	return int(binary.BigEndian.Uint32(b[:4])) % n
}

// evalTokens is what one NewConfig evaluation looks like from outside.
func evalTokens(p *pb.TrafficPattern) string {
	cfg, err := trafficpattern.NewConfig(p)
	if err != nil {
		return fmt.Sprintf("ERR %d", errCode(err))
	}
	return fmt.Sprintf("OK %s V %d", patTokens(cfg.Effective()), errCode(trafficpattern.Validate(cfg.Effective())))
}

// freshChild is the body of the re-executed driver ("c16fresh"): one base64 pattern per stdin line, evaluated in the
// order given in a process that has not called rng.FixedInt before; prints one result line per input.
func freshChild() {
	sc := bufio.NewScanner(os.Stdin)
	sc.Buffer(make([]byte, 1<<20), 1<<20)
	w := bufio.NewWriter(os.Stdout)
	defer w.Flush()
	if len(os.Args) > 2 && os.Args[2] == "hostseed" {
		fmt.Fprintf(w, "HOSTSEED %d\n", rng.FixedIntVH(math.MaxInt32))
	}
	for sc.Scan() {
		p, err := trafficpattern.Decode(strings.TrimSpace(sc.Text()))
		if err != nil {
			fmt.Fprintln(w, "DECODE-ERROR")
			continue
		}
		fmt.Fprintln(w, evalTokens(p))
	}
}

// freshEval evaluates the patterns, in this order, in one fresh process.
func freshEval(ps []*pb.TrafficPattern) []string {
	exe, err := os.Executable()
	if err != nil {
		panic(err)
	}
	var in bytes.Buffer
	for _, p := range ps {
		in.WriteString(trafficpattern.Encode(p) + "\n")
	}
	cmd := exec.Command(exe, "c16fresh")
	cmd.Stdin = &in
	out, err := cmd.Output()
	if err != nil {
		panic(fmt.Errorf("fresh child failed: %v", err))
	}
	lines := strings.Split(strings.TrimRight(string(out), "\n"), "\n")
	if len(lines) != len(ps) {
		panic(fmt.Sprintf("fresh child printed %d lines for %d inputs", len(lines), len(ps)))
	}
	return lines
}

const otherHostName = "c16-another-host"

// otherHostEval evaluates the patterns in one fresh process that runs under a DIFFERENT host name (private UTS
// namespace: unshare -u; hostname). The first output line is the child's host-derived default seed. ok=false when the
// sandbox does not permit it.
func otherHostEval(ps []*pb.TrafficPattern) (lines []string, childHostSeed string, ok bool) {
	exe, err := os.Executable()
	if err != nil {
		panic(err)
	}
	var in bytes.Buffer
	for _, p := range ps {
		in.WriteString(trafficpattern.Encode(p) + "\n")
	}
	cmd := exec.Command("unshare", "-u", "sh", "-c", "hostname "+otherHostName+" && exec \"$0\" c16fresh hostseed", exe)
	cmd.Stdin = &in
	out, err := cmd.Output()
	if err != nil {
		return nil, "", false
	}
	all := strings.Split(strings.TrimRight(string(out), "\n"), "\n")
	if len(all) != len(ps)+1 || !strings.HasPrefix(all[0], "HOSTSEED ") {
		return nil, "", false
	}
	return all[1:], strings.TrimPrefix(all[0], "HOSTSEED "), true
}

// stripSeed removes the echoed seed token of an "OK <pattern> V k" line (first pattern token).
func sameButSeed(a, b string) bool {
	fa, fb := strings.Fields(a), strings.Fields(b)
	if len(fa) != len(fb) || len(fa) < 3 {
		return false
	}
	for i := range fa {
		if i != 1 && fa[i] != fb[i] {
			return false
		}
	}
	return true
}

// explicitSeedCases: an explicit seed - 0 included - decides the implicit values alone: the same message gives the
// same effective pattern on a machine with another host name, and it does not behave like an unset seed.
func (d *drv) explicitSeedCases() {
	r := d.r
	bp := func(b bool) *bool { return &b }
	ip := func(i int32) *int32 { return &i }
	rg := r.Rng.Fork()
	seeds := []int32{0, 1, -1, math.MaxInt32, math.MinInt32, 2, 7}
	nmask := 10
	if r.Thorough() {
		nmask = 60
	}
	var ps []*pb.TrafficPattern
	for _, s := range seeds {
		for _, u := range []*bool{nil, bp(false), bp(true)} {
			ps = append(ps, &pb.TrafficPattern{Seed: ip(s), UnlockAll: u})
			for k := 0; k < nmask; k++ {
				mask := rg.Intn(1 << 11)
				if k == 0 {
					mask = 1<<11 - 1
				}
				ps = append(ps, build(rg, mask, 1+k%3, ip(s), u, k%2 == 0))
			}
		}
	}
	// (1) not like an unset seed (in this process; the host-derived seed differs from every boundary seed used)
	for _, s := range seeds {
		if int(s) == d.hostSeed {
			continue
		}
		for _, u := range []*bool{nil, bp(true)} {
			with := evalTokens(&pb.TrafficPattern{Seed: ip(s), UnlockAll: u})
			without := evalTokens(&pb.TrafficPattern{UnlockAll: u})
			r.Count("explicit-seed-vs-unset")
			if sameButSeed(with, without) {
				r.Fail("explicit-seed-treated-as-unset", fmt.Sprintf("explicit seed %d gives exactly the implicit values of an unset seed (host-derived seed %d): %q", s, d.hostSeed, with),
					map[string]interface{}{"seed": s, "unlockAll": ob(u), "input": encAll([]*pb.TrafficPattern{{Seed: ip(s), UnlockAll: u}})})
			}
		}
	}
	// (2) same result under another host name
	other, childSeed, ok := otherHostEval(ps)
	if !ok {
		r.Rep.Notes["other_host"] = "unshare -u / hostname not permitted here: the other-host comparison was skipped"
		return
	}
	r.Rep.Notes["other_host"] = fmt.Sprintf("fresh process under host name %s (host-derived seed %s; here %d): %d explicit-seed inputs compared", otherHostName, childSeed, d.hostSeed, len(ps))
	if childSeed == fmt.Sprint(d.hostSeed) {
		r.Rep.Notes["other_host"] += " (WARNING: same host-derived seed, comparison is weak)"
	}
	for i, p := range ps {
		here := evalTokens(proto.Clone(p).(*pb.TrafficPattern))
		r.Count("explicit-seed-other-host")
		r.Distinct(fmt.Sprintf("otherhost/%d/%s/%s", p.GetSeed(), ob(p.UnlockAll), explicitMask(p)))
		if here != other[i] {
			r.Fail("explicit-seed-depends-on-host", fmt.Sprintf("explicit seed %d: this host %q, host %s %q", p.GetSeed(), here, otherHostName, other[i]),
				map[string]interface{}{"seed": p.GetSeed(), "input": encAll([]*pb.TrafficPattern{p}), "other_host_name": otherHostName})
		}
	}
}

func encAll(ps []*pb.TrafficPattern) []string {
	var out []string
	for _, p := range ps {
		out = append(out, trafficpattern.Encode(p)+" = "+patTokens(p))
	}
	return out
}

// historyGroup: a and b share rng hints.  Evaluates [a], [b], [a,b], [b,a] in fresh processes and (a,b | b,a by parity)
// in this process; every evaluation of the same input must give the same effective pattern, and that pattern must validate.
func (d *drv) historyGroup(a, b *pb.TrafficPattern, kind string, inProcAFirst bool) {
	r := d.r
	r.Count("history/" + kind)
	r.Distinct("history/" + kind + "/" + explicitMask(a) + "/" + explicitMask(b))
	alone := []string{freshEval([]*pb.TrafficPattern{a})[0], freshEval([]*pb.TrafficPattern{b})[0]}
	ab := freshEval([]*pb.TrafficPattern{a, b})
	ba := freshEval([]*pb.TrafficPattern{b, a})
	var ipa, ipb string
	if inProcAFirst {
		ipa, ipb = evalTokens(proto.Clone(a).(*pb.TrafficPattern)), evalTokens(proto.Clone(b).(*pb.TrafficPattern))
	} else {
		ipb, ipa = evalTokens(proto.Clone(b).(*pb.TrafficPattern)), evalTokens(proto.Clone(a).(*pb.TrafficPattern))
	}
	ipa2 := evalTokens(proto.Clone(a).(*pb.TrafficPattern))
	type obs struct{ where, got string }
	check := func(which string, p *pb.TrafficPattern, ref string, others []obs) {
		for _, o := range others {
			if o.got != ref {
				r.Fail("effective-pattern-depends-on-evaluation-history",
					fmt.Sprintf("%s: evaluated alone in a fresh process: %q; %s: %q (inputs that share the seed were evaluated before it)", which, ref, o.where, o.got),
					map[string]interface{}{"kind": kind, "input": encAll([]*pb.TrafficPattern{p}), "group_in_order_a_b": encAll([]*pb.TrafficPattern{a, b}), "differs_in": o.where})
				return
			}
		}
		if !strings.HasSuffix(ref, " V 0") {
			r.Fail("effective-pattern-fails-validation", "fresh process: "+ref, replayCase(p))
		}
	}
	check("a", a, alone[0], []obs{{"fresh process, order a,b", ab[0]}, {"fresh process, order b,a", ba[1]}, {"this process", ipa}, {"this process, again", ipa2}})
	check("b", b, alone[1], []obs{{"fresh process, order a,b", ab[1]}, {"fresh process, order b,a", ba[0]}, {"this process", ipb}})
}

// recConn records every Write (a copy of the bytes); everything else is inert.
type recConn struct{ writes [][]byte }

func (c *recConn) Write(b []byte) (int, error) {
	c.writes = append(c.writes, append([]byte(nil), b...))
	return len(b), nil
}
func (c *recConn) Read(b []byte) (int, error)         { select {} }
func (c *recConn) Close() error                       { return nil }
func (c *recConn) LocalAddr() net.Addr                { return &net.TCPAddr{} }
func (c *recConn) RemoteAddr() net.Addr               { return &net.TCPAddr{} }
func (c *recConn) SetDeadline(t time.Time) error      { return nil }
func (c *recConn) SetReadDeadline(t time.Time) error  { return nil }
func (c *recConn) SetWriteDeadline(t time.Time) error { return nil }

// fragCase writes n bytes through writeWithPossibleFragment with pattern tp and judges the recorded writes.
func (d *drv) fragCase(n int, tp *pb.TrafficPattern) {
	r := d.r
	data := make([]byte, n)
	for i := range data {
		data[i] = byte(i*7 + 3 + i>>8)
	}
	c := &recConn{}
	t0 := time.Now()
	err := protocol.VerifC16WriteWithPossibleFragment(c, tp, data)
	el := time.Since(t0)
	enabled := tp != nil && tp.TcpFragment != nil && tp.TcpFragment.Enable != nil && *tp.TcpFragment.Enable
	rc := map[string]interface{}{"n": n, "pattern": patTokens(nil2empty(tp)), "pattern_nil": tp == nil}
	var sizes []string
	var cat []byte
	for _, w := range c.writes {
		sizes = append(sizes, fmt.Sprint(len(w)))
		cat = append(cat, w...)
		if enabled && len(w) == 0 {
			r.Fail("tcp-fragment-empty-write", "a fragment is empty", rc)
		}
	}
	if err != nil {
		r.Fail("tcp-fragment-write-error", err.Error(), rc)
	}
	if !bytes.Equal(cat, data) {
		r.Fail("tcp-fragment-bytes-differ", fmt.Sprintf("the %d writes do not concatenate to the %d byte buffer", len(c.writes), n), rc)
	}
	if enabled && n >= 3 && len(c.writes) < 2 {
		r.Fail("tcp-fragment-not-honoured", fmt.Sprintf("tcpFragment.enable=true but %d bytes left in %d write", n, len(c.writes)), rc)
	}
	if !enabled && len(c.writes) != 1 {
		r.Fail("tcp-fragment-without-enable", fmt.Sprintf("fragmentation not enabled but %d writes", len(c.writes)), rc)
	}
	if ms := tp.GetTcpFragment().GetMaxSleepMs(); !enabled || ms <= 0 {
		if el > 500*time.Millisecond {
			r.Fail("tcp-fragment-sleeps-without-maxsleep", fmt.Sprintf("write took %v although no sleep is configured", el), rc)
		}
	}
	has := "0"
	if tp != nil {
		has = "1 " + patTokens(tp)
	}
	line := strings.Join(sizes, " ")
	if line == "" {
		line = "-"
	}
	r.Case(fmt.Sprintf("W %d %s", n, has), line)
	r.Count("tcp-fragment")
	cls := "n>=3"
	if n < 3 {
		cls = fmt.Sprint(n)
	}
	var msp *int32
	if tp != nil && tp.TcpFragment != nil {
		msp = tp.TcpFragment.MaxSleepMs
	}
	r.Distinct(fmt.Sprintf("W/%v/%s/%s/%v", enabled, cls, oi32(msp), tp == nil))
}

type drv struct {
	r        *vh.Run
	hostSeed int
	seenSeed map[int]bool
	nValid   int
}

func (d *drv) emitOracle(seed int) {
	if d.seenSeed[seed] {
		return
	}
	d.seenSeed[seed] = true
	for ti, name := range tagNames {
		// the same hint is asked with 16 different n: ascending for some (seed, field), descending for others
		ns := append([]int(nil), oracleNs...)
		if (len(d.seenSeed)+ti)%2 == 0 {
			sort.Sort(sort.Reverse(sort.IntSlice(ns)))
		}
		prev := 0
		for _, n := range ns {
			hint := fmt.Sprintf("%d:%s", seed, name)
			v := rng.FixedInt(n, hint)
			if want := shaFixedInt(n, hint); v != want {
				d.r.Fail("fixedint-depends-on-call-history", fmt.Sprintf("rng.FixedInt(%d, %q) = %d, the documented derivation (sha256 of the hint, 31 bits, mod n) gives %d; the previous call with this hint used n=%d", n, hint, v, want, prev),
					map[string]interface{}{"n": n, "hint": hint, "previous_n_same_hint": prev, "got": v, "want": want})
			}
			prev = n
			if v < 0 || v >= n {
				d.r.Fail("fixedint-out-of-range", fmt.Sprintf("rng.FixedInt(%d, %d:%s) = %d", n, seed, name, v), map[string]interface{}{"n": n, "seed": seed, "field": name})
			}
			if v != rng.FixedInt(n, fmt.Sprintf("%d:%s", seed, name)) {
				d.r.Fail("fixedint-not-stable", "two calls of rng.FixedInt with the same arguments differ", map[string]interface{}{"n": n, "seed": seed, "field": name})
			}
			d.r.Case(fmt.Sprintf("O %d %d %d %d", seed, ti, n, v), "-")
		}
	}
	d.r.Count("oracle-seeds")
}

// explicitMask lists which leaf fields are set (for the distinct key / distribution).
func explicitMask(p *pb.TrafficPattern) string {
	b := []byte("..........")
	set := func(i int, c bool) {
		if c {
			b[i] = 'x'
		}
	}
	if f := p.TcpFragment; f != nil {
		set(0, f.Enable != nil)
		set(1, f.MaxSleepMs != nil)
	}
	if n := p.Nonce; n != nil {
		set(2, n.Type != nil)
		set(3, n.ApplyToAllUDPPacket != nil)
		set(4, n.MinLen != nil)
		set(5, n.MaxLen != nil)
	}
	if pd := p.Padding; pd != nil {
		set(6, pd.MaxMiddlePaddingLen != nil)
		set(7, pd.MaxEndPaddingLen != nil)
	}
	if le := p.LowEntropy; le != nil {
		set(8, le.Mode != nil)
		set(9, le.MaskRotation != nil)
	}
	return string(b)
}

type explicitDiff struct{ field, want, got string }

// explicitChanged compares every explicitly set field of orig with eff (independent of the model).
func explicitChanged(orig, eff *pb.TrafficPattern) []explicitDiff {
	var out []explicitDiff
	chk := func(name, o, e string) {
		if o != "-" && o != e {
			out = append(out, explicitDiff{name, o, e})
		}
	}
	chk("seed", oi32(orig.Seed), oi32(eff.Seed))
	chk("unlockAll", ob(orig.UnlockAll), ob(eff.UnlockAll))
	if f := orig.TcpFragment; f != nil {
		e := eff.GetTcpFragment()
		if e == nil {
			e = &pb.TCPFragment{}
		}
		chk("tcpFragment.enable", ob(f.Enable), ob(e.Enable))
		chk("tcpFragment.maxSleepMs", oi32(f.MaxSleepMs), oi32(e.MaxSleepMs))
	}
	if n := orig.Nonce; n != nil {
		e := eff.GetNonce()
		if e == nil {
			e = &pb.NoncePattern{}
		}
		if n.Type != nil && (e.Type == nil || *e.Type != *n.Type) {
			out = append(out, explicitDiff{"nonce.type", fmt.Sprint(*n.Type), fmt.Sprint(e.Type)})
		}
		chk("nonce.applyToAllUDPPacket", ob(n.ApplyToAllUDPPacket), ob(e.ApplyToAllUDPPacket))
		chk("nonce.minLen", oi32(n.MinLen), oi32(e.MinLen))
		chk("nonce.maxLen", oi32(n.MaxLen), oi32(e.MaxLen))
		if strings.Join(n.CustomHexStrings, ",") != strings.Join(e.CustomHexStrings, ",") || len(n.CustomHexStrings) != len(e.CustomHexStrings) {
			out = append(out, explicitDiff{"nonce.customHexStrings", fmt.Sprint(n.CustomHexStrings), fmt.Sprint(e.CustomHexStrings)})
		}
	}
	if pd := orig.Padding; pd != nil {
		e := eff.GetPadding()
		if e == nil {
			e = &pb.PaddingPattern{}
		}
		chk("padding.maxMiddlePaddingLen", oi32(pd.MaxMiddlePaddingLen), oi32(e.MaxMiddlePaddingLen))
		chk("padding.maxEndPaddingLen", oi32(pd.MaxEndPaddingLen), oi32(e.MaxEndPaddingLen))
	}
	if le := orig.LowEntropy; le != nil {
		e := eff.GetLowEntropy()
		if e == nil {
			e = &pb.LowEntropyPattern{}
		}
		if le.Mode != nil && (e.Mode == nil || *e.Mode != *le.Mode) {
			out = append(out, explicitDiff{"lowEntropy.mode", fmt.Sprint(*le.Mode), fmt.Sprint(e.Mode)})
		}
		if le.MaskRotation != nil && (e.MaskRotation == nil || *e.MaskRotation != *le.MaskRotation) {
			out = append(out, explicitDiff{"lowEntropy.maskRotation", fmt.Sprint(*le.MaskRotation), fmt.Sprint(e.MaskRotation)})
		}
	}
	return out
}

func allSet(e *pb.TrafficPattern) bool {
	return e.TcpFragment != nil && e.TcpFragment.Enable != nil && e.TcpFragment.MaxSleepMs != nil &&
		e.Nonce != nil && e.Nonce.Type != nil && e.Nonce.ApplyToAllUDPPacket != nil && e.Nonce.MinLen != nil && e.Nonce.MaxLen != nil &&
		e.Padding != nil && e.Padding.MaxMiddlePaddingLen != nil && e.Padding.MaxEndPaddingLen != nil &&
		e.LowEntropy != nil && e.LowEntropy.Mode != nil && e.LowEntropy.MaskRotation != nil
}

func replayCase(p *pb.TrafficPattern) map[string]interface{} {
	return map[string]interface{}{"pattern": patTokens(p), "encoded": trafficpattern.Encode(p)}
}

var theCipher cipher.BlockCipher

func newCipher(stateless bool) cipher.BlockCipher {
	c, err := cipher.BlockCipherFromPassword([]byte("c16-password"), stateless)
	if err != nil {
		panic(err)
	}
	return c
}

// runsWithoutError sets the nonce pattern on ciphers and draws nonces; a panic is reported.
func (d *drv) runsWithoutError(eff *pb.TrafficPattern, orig *pb.TrafficPattern) {
	defer func() {
		if e := recover(); e != nil {
			d.r.Fail("effective-pattern-panics-at-runtime", fmt.Sprintf("newNonce panicked with the effective pattern: %v", e), replayCase(orig))
		}
	}()
	for _, stateless := range []bool{true, false} {
		c := theCipher.Clone()
		c.SetImplicitNonceMode(!stateless)
		c.SetNoncePattern(eff.GetNonce())
		for i := 0; i < 3; i++ {
			nonce, err := cipher.VerifC16NewNonce(c)
			if err != nil {
				d.r.Fail("effective-pattern-error-at-runtime", "newNonce: "+err.Error(), replayCase(orig))
				return
			}
			// explicit (and effective) length range is honoured on the produced nonce
			if t := eff.GetNonce().GetType(); (t == pb.NonceType_NONCE_TYPE_PRINTABLE || t == pb.NonceType_NONCE_TYPE_PRINTABLE_SUBSET) && (i == 0 || !stateless || eff.GetNonce().GetApplyToAllUDPPacket()) {
				lo := int(eff.GetNonce().GetMinLen())
				if mx := int(eff.GetNonce().GetMaxLen()); lo > mx {
					lo = mx
				}
				for j := 0; j < lo && j < len(nonce); j++ {
					if nonce[j] < 0x20 || nonce[j] > 0x7e {
						d.r.Fail("nonce-prefix-shorter-than-minlen", fmt.Sprintf("nonce %x: byte %d not printable although minLen=%d", nonce, j, lo), replayCase(orig))
						return
					}
				}
			}
		}
	}
	// padding maxima and low entropy decision accept the effective pattern
	for pos := 0; pos < 2; pos++ {
		m := protocol.VerifC16MaxPaddingSizeWithTrafficPattern(1400, common.StreamTransport, 100, 0, eff, pos)
		cfg := eff.GetPadding().GetMaxMiddlePaddingLen()
		if pos == 1 {
			cfg = eff.GetPadding().GetMaxEndPaddingLen()
		}
		if m > int(cfg) || m < 0 {
			d.r.Fail("padding-maximum-above-configured", fmt.Sprintf("position %d: budget %d, configured %d", pos, m, cfg), replayCase(orig))
		}
	}
}

// genCase runs NewConfig on p, writes the G line and applies the oracle. wantValid: the driver built p valid.
func (d *drv) genCase(p *pb.TrafficPattern, wantValid bool, kind string) {
	r := d.r
	seed := d.hostSeed
	if p.Seed != nil {
		seed = int(*p.Seed)
	}
	d.emitOracle(seed)
	before := proto.Clone(p).(*pb.TrafficPattern)
	caseLine := fmt.Sprintf("G %d %s", d.hostSeed, patTokens(p))
	cfg, err := trafficpattern.NewConfig(p)
	r.Count(kind)
	if err != nil {
		r.Case(caseLine, fmt.Sprintf("ERR %d", errCode(err)))
		if wantValid {
			r.Fail("newconfig-rejects-valid-pattern", "NewConfig returned an error for a pattern inside the documented ranges: "+err.Error(), replayCase(p))
		}
		if verr := trafficpattern.Validate(p); (verr == nil) || errCode(verr) != errCode(err) {
			r.Fail("newconfig-validate-disagree", fmt.Sprintf("NewConfig: %v, Validate: %v", err, verr), replayCase(p))
		}
		r.Distinct("err/" + fmt.Sprint(errCode(err)) + "/" + explicitMask(p))
		return
	}
	eff := cfg.Effective()
	verr := trafficpattern.Validate(eff)
	r.Case(caseLine, fmt.Sprintf("OK %s V %d", patTokens(eff), errCode(verr)))
	if !wantValid {
		r.Fail("newconfig-accepts-invalid-pattern", "NewConfig accepted a pattern outside the documented ranges", replayCase(p))
		return
	}
	r.Distinct(fmt.Sprintf("ok/%s/u%s/s%v", explicitMask(p), ob(p.UnlockAll), p.Seed != nil))
	// ---- oracle: judged against the property text, independent of the model
	if !proto.Equal(before, p) || !proto.Equal(before, cfg.Original()) {
		r.Fail("original-pattern-modified", "NewConfig changed the message it was given", replayCase(before))
	}
	for _, dd := range explicitChanged(before, eff) {
		r.Fail("explicit-field-overridden:"+dd.field, fmt.Sprintf("explicit %s=%s became %s in the effective pattern", dd.field, dd.want, dd.got), replayCase(before))
	}
	if !allSet(eff) {
		r.Fail("effective-field-unset", "a field of the effective pattern is unset", replayCase(before))
	}
	if verr != nil {
		sig := "effective-pattern-fails-validation"
		n := before.GetNonce()
		if n != nil && n.MaxLen != nil && n.MinLen == nil && eff.GetNonce().GetMinLen() > eff.GetNonce().GetMaxLen() {
			sig = "implicit-nonce-minlen-above-explicit-maxlen"
		}
		r.Fail(sig, "Validate(Effective()) fails: "+verr.Error(), replayCase(before))
	}
	// a sample is evaluated again in a fresh process (no earlier rng.FixedInt call): same input, same effective pattern
	d.nValid++
	every := 1000
	if r.Thorough() {
		every = 2000
	}
	if d.nValid%every == 1 {
		r.Count("fresh-process-sample")
		if got, here := freshEval([]*pb.TrafficPattern{before})[0], fmt.Sprintf("OK %s V %d", patTokens(eff), errCode(verr)); got != here {
			r.Fail("effective-pattern-depends-on-evaluation-history", fmt.Sprintf("this process (after other evaluations): %q; fresh process: %q", here, got),
				map[string]interface{}{"kind": "fresh-process-sample", "input": encAll([]*pb.TrafficPattern{before})})
		}
	}
	cfg2, err2 := trafficpattern.NewConfig(proto.Clone(before).(*pb.TrafficPattern))
	if err2 != nil || !proto.Equal(cfg2.Effective(), eff) {
		r.Fail("generation-not-deterministic", "two NewConfig calls on equal messages give different effective patterns", replayCase(before))
	}
	for _, m := range []*pb.TrafficPattern{before, eff} {
		dec, derr := trafficpattern.Decode(trafficpattern.Encode(m))
		if derr != nil || !proto.Equal(dec, m) {
			r.Fail("encode-decode-not-identity", fmt.Sprintf("Decode(Encode(p)) != p (err %v)", derr), replayCase(m))
		}
	}
	d.runsWithoutError(eff, before)
}

// ---------------------------------------------------------------- generators

var (
	vSleep = []int32{0, 1, 100, 50, 99}
	vType  = []int32{0, 1, 2, 3, 7}
	vMin   = []int32{0, 1, 3, 5, 6, 12, 11}
	vMax   = []int32{0, 1, 3, 5, 6, 12, 2}
	vPad   = []int32{0, 1, 127, 128, 255, 254}
	vMode  = []int32{0, 1, 2, 3, 4}
	vRot   = []int32{0, 1, 15, 16, 240, 128, 32}
	vHex   = [][]string{
		{"00010203"},
		{"000102030405060708090a0b"},
		{"000102030405060708090a0b", "FFEEDDCCBBAA998877665544", "48545450202f20485454502f"},
		{"", "AbCd"},
		{"7e"},
	}
	vSeed = []int32{0, 1, -1, 2, 7, math.MaxInt32, math.MinInt32, 12345}
)

func pick32(r *vh.Rng, l []int32, first bool) int32 {
	if first {
		return l[0]
	}
	return l[r.Intn(len(l))]
}

// build makes a valid pattern with exactly the leaf fields of mask set (bit i = field i of explicitMask, bit 10 = hex strings).
// variant 0 takes the first boundary value of every list, other variants pick at random.
func build(rg *vh.Rng, mask int, variant int, seed *int32, unlock *bool, emptySubs bool) *pb.TrafficPattern {
	p := &pb.TrafficPattern{Seed: seed, UnlockAll: unlock}
	first := variant == 0
	has := func(i int) bool { return mask&(1<<i) != 0 }
	if has(0) || has(1) || emptySubs {
		p.TcpFragment = &pb.TCPFragment{}
		if has(0) {
			p.TcpFragment.Enable = proto.Bool(first || rg.Bool())
		}
		if has(1) {
			p.TcpFragment.MaxSleepMs = proto.Int32(pick32(rg, vSleep, first))
		}
	}
	if has(2) || has(3) || has(4) || has(5) || has(10) || emptySubs {
		n := &pb.NoncePattern{}
		p.Nonce = n
		if has(2) {
			n.Type = pb.NonceType(pick32(rg, vType, false)).Enum()
		}
		if has(3) {
			n.ApplyToAllUDPPacket = proto.Bool(rg.Bool())
		}
		if has(4) {
			n.MinLen = proto.Int32(pick32(rg, vMin, false))
		}
		if has(5) {
			if variant == 0 {
				n.MaxLen = proto.Int32(3) // below every locked implicit minLen
			} else {
				n.MaxLen = proto.Int32(pick32(rg, vMax, false))
			}
			if n.MinLen != nil && *n.MinLen > *n.MaxLen {
				if variant%2 == 1 {
					n.MaxLen = proto.Int32(*n.MinLen) // minLen = maxLen
				} else {
					n.MinLen, n.MaxLen = n.MaxLen, n.MinLen
				}
			}
		}
		if has(10) {
			n.CustomHexStrings = append([]string(nil), vHex[rg.Intn(len(vHex))]...)
		}
	}
	if has(6) || has(7) || emptySubs {
		p.Padding = &pb.PaddingPattern{}
		if has(6) {
			p.Padding.MaxMiddlePaddingLen = proto.Int32(pick32(rg, vPad, first))
		}
		if has(7) {
			p.Padding.MaxEndPaddingLen = proto.Int32(pick32(rg, vPad, first))
		}
	}
	if has(8) || has(9) || emptySubs {
		p.LowEntropy = &pb.LowEntropyPattern{}
		if has(8) {
			p.LowEntropy.Mode = pb.LowEntropyMode(pick32(rg, vMode, false)).Enum()
		}
		if has(9) {
			p.LowEntropy.MaskRotation = pb.LowEntropyMaskRotation(pick32(rg, vRot, false)).Enum()
		}
	}
	return p
}

// invalidate breaks one or more fields of a valid pattern; returns a short label.
func invalidate(rg *vh.Rng, p *pb.TrafficPattern) string {
	var labels []string
	k := 1 + rg.Intn(2)
	for i := 0; i < k; i++ {
		switch rg.Intn(12) {
		case 0:
			if p.TcpFragment == nil {
				p.TcpFragment = &pb.TCPFragment{}
			}
			p.TcpFragment.MaxSleepMs = proto.Int32([]int32{-1, 101, 1000, math.MinInt32}[rg.Intn(4)])
			labels = append(labels, "sleep")
		case 1, 2:
			if p.Nonce == nil {
				p.Nonce = &pb.NoncePattern{}
			}
			p.Nonce.MinLen = proto.Int32([]int32{-1, 13, 255}[rg.Intn(3)])
			labels = append(labels, "minLen")
		case 3:
			if p.Nonce == nil {
				p.Nonce = &pb.NoncePattern{}
			}
			p.Nonce.MaxLen = proto.Int32([]int32{-1, 13, 24}[rg.Intn(3)])
			labels = append(labels, "maxLen")
		case 4:
			if p.Nonce == nil {
				p.Nonce = &pb.NoncePattern{}
			}
			a := int32(1 + rg.Intn(12))
			p.Nonce.MinLen, p.Nonce.MaxLen = proto.Int32(a), proto.Int32(a-1)
			labels = append(labels, "min>max")
		case 5, 6:
			if p.Nonce == nil {
				p.Nonce = &pb.NoncePattern{}
			}
			bad := []string{"abc", "zz", "000102030405060708090a0b0c", "0g", "0", "00 01", "0x00"}[rg.Intn(7)]
			p.Nonce.CustomHexStrings = append(p.Nonce.CustomHexStrings, bad)
			labels = append(labels, "hex")
		case 7:
			if p.Padding == nil {
				p.Padding = &pb.PaddingPattern{}
			}
			p.Padding.MaxMiddlePaddingLen = proto.Int32([]int32{-1, 256, 65535}[rg.Intn(3)])
			labels = append(labels, "mid")
		case 8:
			if p.Padding == nil {
				p.Padding = &pb.PaddingPattern{}
			}
			p.Padding.MaxEndPaddingLen = proto.Int32([]int32{-1, 256, math.MaxInt32}[rg.Intn(3)])
			labels = append(labels, "end")
		case 9:
			if p.LowEntropy == nil {
				p.LowEntropy = &pb.LowEntropyPattern{}
			}
			p.LowEntropy.Mode = pb.LowEntropyMode([]int32{-1, 5, 32}[rg.Intn(3)]).Enum()
			labels = append(labels, "mode")
		default:
			if p.LowEntropy == nil {
				p.LowEntropy = &pb.LowEntropyPattern{}
			}
			p.LowEntropy.MaskRotation = pb.LowEntropyMaskRotation([]int32{-1, 17, 241, 256, 31}[rg.Intn(5)]).Enum()
			labels = append(labels, "rot")
		}
	}
	sort.Strings(labels)
	return strings.Join(labels, "+")
}

func isPrintable(b byte) bool { return b >= 0x20 && b <= 0x7e }

const common64 = "ABCDEFGHIJKLMNOPQRSTUVWXYZabcdefghijklmnopqrstuvwxyz0123456789"

func main() {
	if len(os.Args) > 1 && os.Args[1] == "c16fresh" {
		freshChild()
		return
	}
	r := vh.Start("c16")
	defer r.Finish()
	r.Rep.Rule = "G: every subset of the 10 optional leaf fields + custom hex strings (2^11 masks) x value variants (variant 0: first boundary value of every list and maxLen=3, i.e. below every locked implicit minLen; others random from the boundary lists 0/1/max/max-1, minLen=maxLen, 12-byte and several prefixes) x seeds (unset, 0, 1, -1, int32 extremes, random) x unlockAll (unset/false/true) x nil-vs-empty sub-messages, plus a malformed stream (out-of-range, min>max, bad hex; 1-2 faults per message). R/U/K/P/E: nonce rewrite length on a (min,max,size) grid incl. unvalidated values, apply decision, prefix class, padding maxima on an (mtu, transport, fragment, existing, position) grid x patterns, low-entropy decision on role x clientUsed x patterns. Non-trivial/distinct = distinct (outcome, explicit-field mask, unlockAll, seed set) for G and distinct argument classes for the others."
	d := &drv{r: r, hostSeed: rng.FixedIntVH(math.MaxInt32), seenSeed: map[int]bool{}}
	theCipher = newCipher(true)
	rg := r.Rng
	bp := func(b bool) *bool { return &b }
	ip := func(i int32) *int32 { return &i }

	// ---------- history independence (before anything else touched rng.FixedInt in this process)
	ngroups := 4
	if r.Thorough() {
		ngroups = 24
	}
	for i := 0; i < ngroups; i++ {
		s := ip(int32(700000 + 4*i))
		// unlockAll true / false share "<seed>:nonce.type" and "<seed>:nonce.minLen" with different ranges
		d.historyGroup(&pb.TrafficPattern{Seed: s, UnlockAll: bp(true)}, &pb.TrafficPattern{Seed: s, UnlockAll: bp(false)}, "unlock-true-false", i%2 == 0)
		// explicit minLen changes the range asked for "<seed>:nonce.maxLen"
		s = ip(int32(700001 + 4*i))
		u := bp(i%3 == 0)
		d.historyGroup(&pb.TrafficPattern{Seed: s, UnlockAll: u, Nonce: &pb.NoncePattern{MinLen: ip(int32(i % 13))}}, &pb.TrafficPattern{Seed: s, UnlockAll: u}, "explicit-implicit-minlen", i%2 == 1)
		// explicit maxLen (clamp) vs implicit, and unset unlockAll vs true
		s = ip(int32(700002 + 4*i))
		d.historyGroup(&pb.TrafficPattern{Seed: s, Nonce: &pb.NoncePattern{MaxLen: ip(int32(i % 13))}}, &pb.TrafficPattern{Seed: s, UnlockAll: bp(true)}, "explicit-maxlen-locked-vs-unlocked", i%2 == 0)
	}

	// ---------- an explicit seed (0 included) decides alone; other host name
	r.Rep.Notes = map[string]string{}
	d.explicitSeedCases()

	// ---------- corpus: the C16 witness first (explicit maxLen below the implicit minLen)
	d.genCase(&pb.TrafficPattern{Seed: ip(1), Nonce: &pb.NoncePattern{MaxLen: ip(3)}}, true, "corpus")
	for _, s := range vSeed {
		for _, u := range []*bool{nil, bp(false), bp(true)} {
			for _, mx := range []int32{0, 3, 5, 12} {
				d.genCase(&pb.TrafficPattern{Seed: ip(s), UnlockAll: u, Nonce: &pb.NoncePattern{MaxLen: ip(mx)}}, true, "corpus")
			}
			d.genCase(&pb.TrafficPattern{Seed: ip(s), UnlockAll: u}, true, "corpus")
			d.genCase(&pb.TrafficPattern{Seed: ip(s), UnlockAll: u, Nonce: &pb.NoncePattern{MinLen: ip(12)}}, true, "corpus")
			d.genCase(&pb.TrafficPattern{Seed: ip(s), UnlockAll: u, Nonce: &pb.NoncePattern{MinLen: ip(0), MaxLen: ip(0)}}, true, "corpus")
			d.genCase(&pb.TrafficPattern{Seed: ip(s), UnlockAll: u, Padding: &pb.PaddingPattern{MaxMiddlePaddingLen: ip(0), MaxEndPaddingLen: ip(0)}}, true, "corpus")
		}
	}
	d.genCase(&pb.TrafficPattern{}, true, "corpus")
	d.genCase(&pb.TrafficPattern{UnlockAll: bp(true)}, true, "corpus") // seed from the host name

	// ---------- every subset of explicit fields
	variants, seedsPer := 2, 1
	if r.Thorough() {
		variants, seedsPer = 6, 4
	}
	unlocks := []*bool{nil, bp(false), bp(true)}
	for mask := 0; mask < 1<<11; mask++ {
		for v := 0; v < variants; v++ {
			for s := 0; s < seedsPer; s++ {
				var seed *int32
				switch k := (mask + v + s) % 5; {
				case k == 0 && s == 0:
					seed = nil
				case k < 3:
					seed = ip(vSeed[rg.Intn(len(vSeed))])
				default:
					if r.Thorough() {
						seed = ip(int32(rg.Intn(64)) + 100)
					} else {
						seed = ip(int32(rg.Intn(6)) + 100)
					}
				}
				for ui, u := range unlocks {
					if !r.Thorough() && ui == 0 && v > 0 {
						continue
					}
					d.genCase(build(rg, mask, v, seed, u, (mask+v)%3 == 0), true, "subset")
				}
			}
		}
	}

	// ---------- malformed stream
	nbad := 1500
	if r.Thorough() {
		nbad = 20000
	}
	for i := 0; i < nbad; i++ {
		p := build(rg, rg.Intn(1<<11), 1+rg.Intn(3), ip(vSeed[rg.Intn(len(vSeed))]), unlocks[rg.Intn(3)], rg.Bool())
		label := invalidate(rg, p)
		r.Count("malformed/" + label)
		d.genCase(p, false, "malformed")
	}

	// ---------- R: nonce rewrite length
	optv := []*int32{nil, ip(0), ip(1), ip(3), ip(6), ip(11), ip(12), ip(13), ip(23), ip(24), ip(25), ip(30)}
	for _, stateless := range []bool{true, false} {
		c := newCipher(stateless)
		size := c.NonceSize()
		for _, mn := range optv {
			for _, mx := range optv {
				c.SetNoncePattern(&pb.NoncePattern{MinLen: mn, MaxLen: mx})
				seen := map[int]bool{}
				for i := 0; i < 64; i++ {
					seen[cipher.VerifC16NonceRewriteLen(c)] = true
				}
				var vals []int
				for v := range seen {
					vals = append(vals, v)
				}
				sort.Ints(vals)
				lo, hi := 0, 0
				if mn != nil {
					lo = int(*mn)
				}
				if mx != nil {
					hi = int(*mx)
				}
				// oracle: within [minLen, maxLen] clamped to the nonce size
				chi := hi
				if chi > size {
					chi = size
				}
				clo := lo
				if clo > chi {
					clo = chi
				}
				for _, v := range vals {
					if v < clo || v > chi {
						r.Fail("nonce-rewrite-length-out-of-range", fmt.Sprintf("nonceRewriteLen=%d with minLen=%d maxLen=%d nonce size %d", v, lo, hi, size), map[string]interface{}{"min": lo, "max": hi})
					}
				}
				r.Case(fmt.Sprintf("R %d %s %s", size, oi32(mn), oi32(mx)), strings.Trim(fmt.Sprint(vals), "[]"))
				r.Count("rewrite-len")
				r.Distinct(fmt.Sprintf("R/%v/%v/%v", lo < hi, hi > size, lo > hi))
			}
		}
	}

	// ---------- U: which nonces get the pattern (fixed 12-byte prefix makes it observable)
	prefix := "48545450202f20485454502f"
	pbytes, _ := hex.DecodeString(prefix)
	for _, stateless := range []bool{true, false} {
		for _, all := range []*bool{nil, bp(false), bp(true)} {
			c := newCipher(stateless)
			c.SetImplicitNonceMode(!stateless)
			c.SetNoncePattern(&pb.NoncePattern{Type: pb.NonceType_NONCE_TYPE_FIXED.Enum(), ApplyToAllUDPPacket: all, CustomHexStrings: []string{prefix}})
			k := 6
			bits := make([]string, k)
			for i := 0; i < k; i++ {
				nonce, err := cipher.VerifC16NewNonce(c)
				if err != nil {
					panic(err)
				}
				applied := bytes.HasPrefix(nonce, pbytes)
				bits[i] = map[bool]string{true: "1", false: "0"}[applied]
				want := !stateless || i == 0 || (all != nil && *all)
				if applied != want {
					r.Fail("nonce-pattern-apply-rule", fmt.Sprintf("stateless=%v applyToAllUDPPacket=%s call %d: pattern applied=%v", stateless, ob(all), i, applied), map[string]interface{}{"stateless": stateless, "all": ob(all), "call": i})
				}
			}
			r.Case(fmt.Sprintf("U %s %s %d", map[bool]string{true: "0", false: "1"}[stateless], ob(all), k), strings.Join(bits, " "))
			r.Count("apply")
			r.Distinct(fmt.Sprintf("U/%v/%s", stateless, ob(all)))
		}
	}

	// ---------- K: class of the produced prefix
	types := []*pb.NonceType{nil, pb.NonceType(0).Enum(), pb.NonceType(1).Enum(), pb.NonceType(2).Enum(), pb.NonceType(3).Enum(), pb.NonceType(7).Enum()}
	hexsets := [][]string{nil, {"000102030405060708090a0b"}, {"000102030405060708090a0b", "FFEEDDCCBBAA998877665544", "48545450202f20485454502f"}, {"00010203040506"}}
	for _, ty := range types {
		for _, hs := range hexsets {
			c := newCipher(false)
			c.SetImplicitNonceMode(true)
			c.SetNoncePattern(&pb.NoncePattern{Type: ty, MinLen: ip(12), MaxLen: ip(12), CustomHexStrings: hs})
			fixedAll, subsetAll, printAll := len(hs) > 0, true, true
			used := map[int]bool{}
			for i := 0; i < 48; i++ {
				nonce, err := cipher.VerifC16NewNonce(c)
				if err != nil {
					panic(err)
				}
				okf := false
				for hi, h := range hs {
					b, _ := hex.DecodeString(h)
					if bytes.HasPrefix(nonce, b) {
						okf = true
						used[hi] = true
					}
				}
				fixedAll = fixedAll && okf
				for j := 0; j < 12; j++ {
					printAll = printAll && isPrintable(nonce[j])
					subsetAll = subsetAll && strings.IndexByte(common64, nonce[j]) >= 0
				}
			}
			class := 0
			switch {
			case fixedAll:
				class = 3
			case subsetAll:
				class = 2
			case printAll:
				class = 1
			}
			want := 0
			if ty != nil {
				switch *ty {
				case 1:
					want = 1
				case 2:
					want = 2
				case 3:
					if len(hs) > 0 {
						want = 3
					}
				}
			}
			if class != want {
				r.Fail("nonce-prefix-type-not-honoured", fmt.Sprintf("type %v, %d prefixes: observed class %d, documented %d", ty, len(hs), class, want), map[string]interface{}{"type": fmt.Sprint(ty), "hex": hs})
			}
			if want == 3 && len(hs) == 3 && len(used) < 2 {
				r.Fail("nonce-fixed-prefix-not-varied", "with three prefixes configured only one was ever used in 48 nonces", map[string]interface{}{"hex": hs})
			}
			tys := "-"
			if ty != nil {
				tys = fmt.Sprint(int32(*ty))
			}
			line := fmt.Sprintf("K %s %d", tys, len(hs))
			for _, h := range hs {
				line += " " + vh.Hex([]byte(h))
			}
			r.Case(line, fmt.Sprint(class))
			r.Count("prefix-class")
			r.Distinct(fmt.Sprintf("K/%s/%d", tys, len(hs)))
		}
	}

	// ---------- P: padding maxima
	var pats []*pb.TrafficPattern
	pats = append(pats, nil, &pb.TrafficPattern{}, &pb.TrafficPattern{Padding: &pb.PaddingPattern{}})
	for _, m := range []*int32{nil, ip(0), ip(1), ip(100), ip(255), ip(300), ip(-1)} {
		for _, e := range []*int32{nil, ip(0), ip(7), ip(255), ip(-5)} {
			pats = append(pats, &pb.TrafficPattern{Padding: &pb.PaddingPattern{MaxMiddlePaddingLen: m, MaxEndPaddingLen: e}})
		}
	}
	for i := 0; i < 6; i++ {
		c, err := trafficpattern.NewConfig(&pb.TrafficPattern{Seed: ip(int32(i)), UnlockAll: bp(i%2 == 0)})
		if err != nil {
			panic(err)
		}
		pats = append(pats, c.Effective())
	}
	mtus := []int{1280, 1400, 1500}
	frags := []int{0, 1, 1000, 1191, 1192, 1193, 1300, 1311, 1312, 1313, 1412, 1500}
	exist := []int{0, 1, 100, 255}
	if r.Thorough() {
		mtus = append(mtus, 576, 9000)
		frags = append(frags, 100, 400, 487, 488, 489, 1056, 1057, 1058, 1156, 1157)
	}
	for _, tp := range pats {
		for _, tr := range []common.TransportProtocol{common.StreamTransport, common.PacketTransport} {
			for _, mtu := range mtus {
				for _, fr := range frags {
					for _, ex := range exist {
						for _, pos := range []int{0, 1, 2} {
							got := protocol.VerifC16MaxPaddingSizeWithTrafficPattern(mtu, tr, fr, ex, tp, pos)
							base := protocol.VerifC16MaxPaddingSize(mtu, tr, fr, ex)
							// oracle: never above the configured maximum (0 = none), never above the transport's budget
							var cfg *int32
							if tp != nil && tp.Padding != nil {
								if pos == 0 {
									cfg = tp.Padding.MaxMiddlePaddingLen
								} else if pos == 1 {
									cfg = tp.Padding.MaxEndPaddingLen
								}
							}
							bad := got < 0 || got > base
							if cfg != nil && *cfg >= 0 && (got > int(*cfg) || (got != base && got != int(*cfg))) {
								bad = true
							}
							if cfg == nil && got != base {
								bad = true
							}
							if bad {
								r.Fail("padding-maximum-not-honoured", fmt.Sprintf("budget %d, transport budget %d, configured %s", got, base, oi32(cfg)), map[string]interface{}{"mtu": mtu, "transport": int(tr), "frag": fr, "existing": ex, "pos": pos, "pattern": patTokens(nil2empty(tp))})
							}
							has := "0"
							if tp != nil {
								has = "1 " + patTokens(tp)
							}
							st := "0"
							if tr == common.StreamTransport {
								st = "1"
							}
							r.Case(fmt.Sprintf("P %d %s %d %d %d %s", mtu, st, fr, ex, pos, has), fmt.Sprint(got))
							r.Distinct(fmt.Sprintf("P/%s/%v/%v/%d/%v", st, cfg == nil, cfg != nil && *cfg == 0, pos, got == base))
						}
					}
				}
			}
		}
	}
	r.Count("padding-max")

	// ---------- E: low entropy send decision
	var lps []*pb.TrafficPattern
	lps = append(lps, nil, &pb.TrafficPattern{}, &pb.TrafficPattern{LowEntropy: &pb.LowEntropyPattern{}})
	for _, m := range []*int32{nil, ip(0), ip(1), ip(2), ip(3), ip(4), ip(9)} {
		for _, ro := range []*int32{nil, ip(0), ip(1), ip(15), ip(16), ip(240)} {
			le := &pb.LowEntropyPattern{}
			if m != nil {
				le.Mode = pb.LowEntropyMode(*m).Enum()
			}
			if ro != nil {
				le.MaskRotation = pb.LowEntropyMaskRotation(*ro).Enum()
			}
			lps = append(lps, &pb.TrafficPattern{LowEntropy: le})
		}
	}
	for _, tp := range lps {
		for _, isClient := range []bool{true, false} {
			for _, used := range []bool{true, false} {
				m, ro, send := protocol.VerifC16LowEntropySendConfig(tp, isClient, used)
				cm := tp.GetLowEntropy().GetMode()
				want := cm != pb.LowEntropyMode_LOW_ENTROPY_MODE_OFF && (isClient || used)
				if send != want {
					r.Fail("low-entropy-send-decision", fmt.Sprintf("client=%v clientUsed=%v configured mode %d: send=%v", isClient, used, cm, send), map[string]interface{}{"client": isClient, "used": used, "mode": int32(cm)})
				}
				if send && (m != int32(cm) || ro != int32(tp.GetLowEntropy().GetMaskRotation())) {
					r.Fail("low-entropy-mode-rotation-not-configured", fmt.Sprintf("sends mode %d rotation %d, configured %d %d", m, ro, cm, tp.GetLowEntropy().GetMaskRotation()), map[string]interface{}{"mode": int32(cm)})
				}
				if !isClient && !used && send {
					r.Fail("server-low-entropy-before-client", "server decides to send low entropy although the client never did", map[string]interface{}{"mode": int32(cm)})
				}
				has := "0"
				if tp != nil {
					has = "1 " + patTokens(tp)
				}
				bs := map[bool]string{true: "1", false: "0"}
				r.Case(fmt.Sprintf("E %s %s %s", bs[isClient], bs[used], has), fmt.Sprintf("%d %d %s", m, ro, bs[send]))
				r.Distinct(fmt.Sprintf("E/%v/%v/%v/%v", isClient, used, tp == nil, cm))
			}
		}
	}
	r.Count("low-entropy-decision")

	// ---------- W: TCP fragmentation of one stream write
	fsizes := []int{0, 1, 2, 3, 4, 5, 8, 9, 10, 15, 16, 17, 24, 25, 26, 48, 72, 73, 100, 121, 143, 144, 145, 255, 256, 327, 328, 1000, 1024, 1400, 1472, 4095, 4096, 4097, 16384, 32768, 32768 + 343, 65535, 66000}
	nrandSizes := 40
	if r.Thorough() {
		nrandSizes = 600
		for n := 0; n <= 300; n++ {
			fsizes = append(fsizes, n)
		}
	}
	for i := 0; i < nrandSizes; i++ {
		switch i % 3 {
		case 0:
			fsizes = append(fsizes, rg.Intn(200))
		case 1:
			fsizes = append(fsizes, rg.Intn(3000))
		default:
			fsizes = append(fsizes, rg.Intn(66000))
		}
	}
	fpats := []*pb.TrafficPattern{
		nil, {}, {TcpFragment: &pb.TCPFragment{}}, {TcpFragment: &pb.TCPFragment{Enable: bp(false)}},
		{TcpFragment: &pb.TCPFragment{Enable: bp(false), MaxSleepMs: ip(100)}}, {TcpFragment: &pb.TCPFragment{MaxSleepMs: ip(100)}},
		{TcpFragment: &pb.TCPFragment{Enable: bp(true)}}, {TcpFragment: &pb.TCPFragment{Enable: bp(true), MaxSleepMs: ip(0)}},
	}
	for _, n := range fsizes {
		for _, tp := range fpats {
			d.fragCase(n, tp)
		}
		// effective patterns of generated configurations (enable and maxSleepMs implicit, unlockAll off: never enabled)
		if n%5 == 0 {
			cfg, err := trafficpattern.NewConfig(&pb.TrafficPattern{Seed: ip(int32(n)), TcpFragment: &pb.TCPFragment{Enable: bp(n%2 == 0)}})
			if err != nil {
				panic(err)
			}
			d.fragCase(n, cfg.Effective())
		}
	}
	// with sleeps (few and small buffers: every piece sleeps up to maxSleepMs)
	for _, n := range []int{3, 10, 100, 1000} {
		for _, ms := range []int32{1, 2} {
			d.fragCase(n, &pb.TrafficPattern{TcpFragment: &pb.TCPFragment{Enable: bp(true), MaxSleepMs: ip(ms)}})
		}
	}

	// ---------- Q: Go's int(math.Sqrt(float64(n))) against the model's floor square root
	qn := func(n int) {
		r.Case(fmt.Sprintf("Q %d", n), fmt.Sprint(int(math.Sqrt(float64(n)))))
	}
	for n := 0; n <= 70000; n++ {
		qn(n)
	}
	for k := 265; k <= 46340; k += 1 + k/50 {
		qn(k*k - 1)
		qn(k * k)
		qn(k*k + 1)
	}
	qn(math.MaxInt32)
	r.Count("isqrt")
	r.Distinct("Q/all")
	for k, v := range map[string]string{
		"host_seed":    fmt.Sprint(d.hostSeed),
		"round_trip":   "Decode(Encode(p)) == p is a test of google.golang.org/protobuf + encoding/base64 (library round trip): tested on every valid original and effective pattern, not proved",
		"oracle_seeds": fmt.Sprint(len(d.seenSeed)),
	} {
		r.Rep.Notes[k] = v
	}
}

func nil2empty(p *pb.TrafficPattern) *pb.TrafficPattern {
	if p == nil {
		return &pb.TrafficPattern{}
	}
	return p
}
