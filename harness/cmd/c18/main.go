// Driver for C18: UDP-associate tunnelling (PacketOverStreamTunnel framing, SOCKS5 UDP headers,
// the relay loop RunUDPAssociateLoop, the API wrapper UDPAssociateWrapper).
// Runs the real code on boundary corpora and generated inputs, writes case lines for the extracted
// Coq model and the implementation's observations, and judges every case against the property text:
// boundaries and bytes preserved for every size and chunking, destination = header address,
// reply header = sender, violations reported as errors and never as a wrong datagram.
package main

import (
	"bytes"
	"context"
	"crypto/md5"
	"errors"
	"fmt"
	"io"
	"net"
	"os"
	"strconv"
	"strings"
	"time"

	apicommon "github.com/enfein/mieru/v3/apis/common"
	"github.com/enfein/mieru/v3/apis/model"
	"github.com/enfein/mieru/v3/pkg/socks5"
	"github.com/enfein/mieru/v3/pkg/stderror"
	"verifharness/vh"
)

// render: "-" empty, hex up to 32 bytes, else <len>:<md5>
func render(b []byte) string {
	if len(b) <= 32 {
		return vh.Hex(b)
	}
	return fmt.Sprintf("%d:%x", len(b), md5.Sum(b))
}

// ---------------------------------------------------------------- in-memory conns

type addrStub struct{}

func (addrStub) Network() string { return "mem" }
func (addrStub) String() string  { return "mem" }

type baseConn struct{}

func (baseConn) Close() error                     { return nil }
func (baseConn) LocalAddr() net.Addr              { return addrStub{} }
func (baseConn) RemoteAddr() net.Addr             { return addrStub{} }
func (baseConn) SetDeadline(time.Time) error      { return nil }
func (baseConn) SetReadDeadline(time.Time) error  { return nil }
func (baseConn) SetWriteDeadline(time.Time) error { return nil }

// recConn records what is written and how many Write calls were made.
type recConn struct {
	baseConn
	buf    bytes.Buffer
	writes int
}

func (c *recConn) Read([]byte) (int, error) { return 0, io.EOF }
func (c *recConn) Write(p []byte) (int, error) {
	c.writes++
	return c.buf.Write(p)
}

// chunkConn serves a stream in the given chunks: one Read never crosses a chunk border.
type chunkConn struct {
	baseConn
	data   []byte
	chunks []int
	ci     int
	left   int
}

func (c *chunkConn) Write(p []byte) (int, error) { return len(p), nil }
func (c *chunkConn) Read(p []byte) (int, error) {
	for c.left == 0 {
		if c.ci >= len(c.chunks) {
			return 0, io.EOF
		}
		c.left = c.chunks[c.ci]
		c.ci++
	}
	if len(p) == 0 {
		return 0, nil
	}
	n := len(p)
	if n > c.left {
		n = c.left
	}
	if n > len(c.data) {
		n = len(c.data)
	}
	if n == 0 {
		return 0, io.EOF
	}
	copy(p, c.data[:n])
	c.data = c.data[n:]
	c.left -= n
	return n, nil
}

// ---------------------------------------------------------------- frames

func readErrKind(err error) string {
	switch {
	case err == io.EOF:
		return "EOF"
	case err == io.ErrUnexpectedEOF:
		return "UEOF"
	case err == io.ErrShortBuffer:
		return "SHORTBUF"
	case strings.Contains(err.Error(), "prefix"):
		return "BADSTART"
	case strings.Contains(err.Error(), "suffix"):
		return "BADEND"
	}
	return "OTHER"
}

type chunking struct {
	spec  string // "k:<n>" uniform, "l:a,b,c" explicit
	sizes []int
}

func uniform(total, k int) chunking {
	var s []int
	for left := total; left > 0; left -= k {
		if left < k {
			s = append(s, left)
		} else {
			s = append(s, k)
		}
	}
	return chunking{fmt.Sprintf("k:%d", k), s}
}

func explicit(total int, cuts []int) chunking {
	// cuts: positions in (0,total), any order, duplicates allowed
	seen := map[int]bool{}
	var cs []int
	for _, c := range cuts {
		if c > 0 && c < total && !seen[c] {
			seen[c] = true
			cs = append(cs, c)
		}
	}
	for i := 1; i < len(cs); i++ {
		for j := i; j > 0 && cs[j] < cs[j-1]; j-- {
			cs[j], cs[j-1] = cs[j-1], cs[j]
		}
	}
	var sizes []string
	var s []int
	prev := 0
	for _, c := range append(cs, total) {
		if c-prev > 0 {
			s = append(s, c-prev)
			sizes = append(sizes, strconv.Itoa(c-prev))
		}
		prev = c
	}
	if len(s) == 0 {
		return chunking{"l:-", nil}
	}
	return chunking{"l:" + strings.Join(sizes, ","), s}
}

// fieldCuts returns every field boundary of a stream of well-formed frames, each -1, +0, +1.
func fieldCuts(ds [][]byte) []int {
	var cuts []int
	pos := 0
	for _, d := range ds {
		for _, b := range []int{pos, pos + 1, pos + 2, pos + 3, pos + 3 + len(d), pos + 4 + len(d)} {
			cuts = append(cuts, b-1, b, b+1)
		}
		pos += 4 + len(d)
	}
	return cuts
}

type readResult struct {
	events []string
	dgrams [][]byte // delivered before the first error (what a caller loop sees)
	first  string   // first error
}

func runReader(stream []byte, ch chunking, cap_ int) readResult {
	c := &chunkConn{data: append([]byte(nil), stream...), chunks: ch.sizes}
	t := apicommon.NewPacketOverStreamTunnel(c)
	buf := make([]byte, cap_)
	var res readResult
	for i := 0; i <= len(stream)+2; i++ {
		n, err := t.Read(buf)
		if err != nil {
			k := readErrKind(err)
			if n != 0 {
				k += "+n"
			}
			res.events = append(res.events, "E:"+k)
			if res.first == "" {
				res.first = k
			}
			if k == "EOF" || k == "UEOF" {
				break
			}
			continue
		}
		d := append([]byte(nil), buf[:n]...)
		res.events = append(res.events, "D:"+render(d))
		if res.first == "" {
			res.dgrams = append(res.dgrams, d)
		}
	}
	return res
}

func frameCase(r *vh.Run, stream []byte, ch chunking, cap_ int) readResult {
	res := runReader(stream, ch, cap_)
	r.Case(fmt.Sprintf("F %d %s %s", cap_, vh.Hex(stream), ch.spec), strings.Join(res.events, " "))
	return res
}

func sameList(a, b [][]byte) bool {
	if len(a) != len(b) {
		return false
	}
	for i := range a {
		if !bytes.Equal(a[i], b[i]) {
			return false
		}
	}
	return true
}

func sizesOf(ds [][]byte) []int {
	var s []int
	for _, d := range ds {
		s = append(s, len(d))
	}
	return s
}

// markerHeavy generates n bytes in one of several styles rich in 0x00 / 0xff.
func markerHeavy(rng *vh.Rng, n int) []byte {
	b := make([]byte, n)
	switch rng.Intn(6) {
	case 0: // zeros
	case 1:
		for i := range b {
			b[i] = 0xff
		}
	case 2:
		for i := range b {
			if i%2 == 1 {
				b[i] = 0xff
			}
		}
	case 3: // looks like nested frames
		pat := []byte{0x00, 0x00, 0x01, 0x41, 0xff}
		for i := range b {
			b[i] = pat[i%len(pat)]
		}
	case 4:
		rb := rng.Bytes(n)
		for i := range b {
			switch rb[i] & 3 {
			case 0:
				b[i] = 0
			case 1:
				b[i] = 0xff
			default:
				b[i] = rb[i]
			}
		}
	default:
		copy(b, rng.Bytes(n))
	}
	return b
}

// writeAll frames ds with the real writer; returns the stream. Oracle: one conn.Write per datagram.
func writeAll(r *vh.Run, ds [][]byte) ([]byte, bool) {
	rc := &recConn{}
	t := apicommon.NewPacketOverStreamTunnel(rc)
	for _, d := range ds {
		before := rc.writes
		n, err := t.Write(d)
		if err != nil {
			return rc.buf.Bytes(), false
		}
		if n != len(d) || rc.writes != before+1 {
			r.Fail("write-not-atomic", fmt.Sprintf("Write of %d bytes returned n=%d using %d conn writes", len(d), n, rc.writes-before), map[string]interface{}{"len": len(d)})
		}
	}
	return rc.buf.Bytes(), true
}

func chunkersFor(rng *vh.Rng, ds [][]byte, total int, heavy bool) []chunking {
	cs := []chunking{uniform(total, total), explicit(total, fieldCuts(ds))}
	if total <= 20000 || heavy {
		cs = append(cs, uniform(total, 1))
	}
	var cuts []int
	for i := 0; i < 1+rng.Intn(12); i++ {
		cuts = append(cuts, rng.Intn(total+1))
	}
	cs = append(cs, explicit(total, cuts), uniform(total, 2+rng.Intn(7)))
	return cs
}

func roundTrip(r *vh.Run, rng *vh.Rng, ds [][]byte, cap_ int, heavy bool) {
	stream, ok := writeAll(r, ds)
	if !ok {
		r.Fail("write-refused-legal", "Write refused a datagram of legal size", map[string]interface{}{"sizes": sizesOf(ds)})
		return
	}
	if len(stream) == 0 {
		res := frameCase(r, stream, chunking{"l:-", nil}, cap_)
		if len(res.dgrams) != 0 || res.first != "EOF" {
			r.Fail("empty-stream", "empty stream did not give a clean EOF", nil)
		}
		return
	}
	for _, ch := range chunkersFor(rng, ds, len(stream), heavy) {
		res := frameCase(r, stream, ch, cap_)
		r.Count("roundtrip")
		if !sameList(res.dgrams, ds) || res.first != "EOF" {
			r.Fail("roundtrip-mismatch", fmt.Sprintf("datagrams of sizes %v over chunking %.60s: delivered sizes %v, first error %s", sizesOf(ds), ch.spec, sizesOf(res.dgrams), res.first),
				map[string]interface{}{"stream": render(stream), "sizes": sizesOf(ds), "chunking": ch.spec, "cap": cap_})
		}
		for _, d := range ds {
			r.Distinct(fmt.Sprintf("rt/%s/%s", sizeClass(len(d)), ch.spec[:1]+chunkClass(ch)))
		}
	}
}

func sizeClass(n int) string {
	switch {
	case n <= 2:
		return strconv.Itoa(n)
	case n == 255 || n == 256 || n == 65534 || n == 65535:
		return strconv.Itoa(n)
	case n < 255:
		return "<255"
	case n < 1500:
		return "<1500"
	case n < 16384:
		return "<16k"
	}
	return "big"
}

func chunkClass(c chunking) string {
	if len(c.sizes) <= 1 {
		return "one"
	}
	if c.sizes[0] == 1 && c.sizes[len(c.sizes)-1] == 1 {
		return "bytes"
	}
	return "many"
}

// malformed: good prefix ds, then a violation; a caller loop must see exactly ds and then an error.
func malformed(r *vh.Run, rng *vh.Rng, ds [][]byte, bad []byte, kind string, cap_ int) {
	good, _ := writeAll(r, ds)
	stream := append(append([]byte(nil), good...), bad...)
	chs := []chunking{uniform(len(stream), len(stream)), uniform(len(stream), 1), explicit(len(stream), []int{len(good) - 1, len(good), len(good) + 1, len(good) + 2, len(good) + 3, len(good) + 4, rng.Intn(len(stream) + 1)})}
	for _, ch := range chs {
		res := frameCase(r, stream, ch, cap_)
		r.Count("malformed/" + kind)
		r.Distinct("mal/" + kind + "/" + chunkClass(ch) + "/" + strconv.Itoa(len(ds)))
		if !sameList(res.dgrams, ds) {
			r.Fail("malformed-wrong-datagram", fmt.Sprintf("%s after %d good frames: the loop delivered sizes %v (expected exactly the good ones %v) before error %q", kind, len(ds), sizesOf(res.dgrams), sizesOf(ds), res.first),
				map[string]interface{}{"stream": vh.Hex(stream), "chunking": ch.spec, "cap": cap_, "kind": kind})
		} else if res.first == "" {
			r.Fail("malformed-swallowed", kind+": no error reported", map[string]interface{}{"stream": vh.Hex(stream), "chunking": ch.spec, "cap": cap_})
		} else if kind != "truncated" && (res.first == "EOF" || res.first == "UEOF") {
			r.Fail("malformed-swallowed", kind+": reported as end of stream", map[string]interface{}{"stream": vh.Hex(stream), "chunking": ch.spec, "cap": cap_})
		}
	}
}

func rawFrame(d []byte, start, end byte) []byte {
	f := []byte{start, byte(len(d) >> 8), byte(len(d))}
	f = append(f, d...)
	return append(f, end)
}

func frames(r *vh.Run) {
	rng := r.Rng.Fork()
	const relayBuf = 1 << 16
	// boundary corpus: every special size alone and in sequence, marker-heavy contents
	special := []int{0, 1, 2, 255, 256, 1500, 65534, 65535}
	for _, n := range special {
		for k := 0; k < 2; k++ {
			roundTrip(r, rng, [][]byte{markerHeavy(rng, n)}, relayBuf, n <= 1500)
		}
	}
	roundTrip(r, rng, nil, relayBuf, true)
	roundTrip(r, rng, [][]byte{{}, {}, {}}, relayBuf, true)
	roundTrip(r, rng, [][]byte{{0x00}, {0xff}, {0x00, 0xff}, {0xff, 0x00}, {0x00, 0x00, 0x00, 0xff}}, relayBuf, true)
	var seq [][]byte
	for _, n := range []int{0, 1, 2, 255, 256, 1500, 0, 65535, 1, 65534, 0} {
		seq = append(seq, markerHeavy(rng, n))
	}
	roundTrip(r, rng, seq, relayBuf, false)
	// a payload that is itself a well-formed stream of frames
	inner, _ := writeAll(r, [][]byte{{1, 2, 3}, {}, {0xff}})
	roundTrip(r, rng, [][]byte{inner, inner[:5], inner[1:]}, relayBuf, true)
	// caller's buffer exactly the datagram size / one more
	for _, n := range []int{0, 1, 2, 255, 256, 1500} {
		roundTrip(r, rng, [][]byte{markerHeavy(rng, n)}, n, true)
		roundTrip(r, rng, [][]byte{markerHeavy(rng, n)}, n+1, true)
	}
	// generated sequences
	nseq := 40
	if r.Thorough() {
		nseq = 600
	}
	for i := 0; i < nseq; i++ {
		cnt := 1 + rng.Intn(8)
		var ds [][]byte
		for j := 0; j < cnt; j++ {
			var n int
			switch rng.Intn(10) {
			case 0:
				n = special[rng.Intn(6)]
			case 1:
				if r.Thorough() || i%8 == 0 {
					n = 65535 - rng.Intn(3)
				} else {
					n = 1400 + rng.Intn(200)
				}
			case 2, 3:
				n = rng.Intn(4)
			case 4:
				n = 250 + rng.Intn(12)
			default:
				n = rng.Intn(2000)
			}
			ds = append(ds, markerHeavy(rng, n))
		}
		roundTrip(r, rng, ds, relayBuf, false)
	}

	// the writer's limit
	for _, n := range []int{65535, 65536, 65537, 70000, 131071} {
		d := markerHeavy(rng, n)
		rc := &recConn{}
		t := apicommon.NewPacketOverStreamTunnel(rc)
		wn, err := t.Write(d)
		impl := "ERR"
		if err == nil {
			impl = "OK " + render(rc.buf.Bytes())
		}
		r.Case("W "+vh.Hex(d), impl)
		r.Count("write-limit")
		r.Distinct("write/" + strconv.Itoa(n))
		if n > 65535 && (err == nil || rc.buf.Len() != 0 || wn != 0) {
			r.Fail("oversize-written", fmt.Sprintf("Write of %d bytes: err=%v, %d bytes reached the conn", n, err, rc.buf.Len()), map[string]interface{}{"len": n})
		}
		if n <= 65535 && err != nil {
			r.Fail("write-refused-legal", fmt.Sprintf("Write of %d bytes refused", n), map[string]interface{}{"len": n})
		}
	}

	// malformed streams
	prefixes := [][][]byte{nil, {{7}}, {{}, {0x00, 0xff}, markerHeavy(rng, 300)}}
	small := []byte{0x00, 0xff, 0x41}
	for _, ds := range prefixes {
		for _, b := range []byte{0x01, 0xff, 0x7f, 0x80} {
			malformed(r, rng, ds, append(rawFrame(small, b, 0xff), rawFrame([]byte{9}, 0, 0xff)...), "bad-start", relayBuf)
		}
		for _, b := range []byte{0x00, 0xfe, 0x7f, 0x01} {
			malformed(r, rng, ds, append(rawFrame(small, 0, b), rawFrame([]byte{9}, 0, 0xff)...), "bad-end", relayBuf)
			malformed(r, rng, ds, append(rawFrame(nil, 0, b), rawFrame([]byte{9}, 0, 0xff)...), "bad-end", relayBuf)
		}
		// truncated at every position of a small frame and of an empty one
		for _, d := range [][]byte{small, {}, {0xff}} {
			f := rawFrame(d, 0, 0xff)
			for cut := 0; cut < len(f); cut++ {
				if cut == 0 && len(ds) == 0 {
					continue
				}
				malformed(r, rng, ds, f[:cut], "truncated", relayBuf)
			}
		}
		// length larger than the reader's buffer (the data contains a well-formed frame: a reader that
		// skipped the error would deliver it)
		for _, c := range []int{0, 1, 4, 7, 8, 255, 1500} {
			d := append(rawFrame([]byte{0x42}, 0, 0xff), markerHeavy(rng, c+1)...)
			d = d[:c+1+rng.Intn(3)]
			if len(d) <= c {
				d = append(d, make([]byte, c+1-len(d))...)
			}
			var fit [][]byte // good frames must fit the small buffer
			for _, g := range ds {
				if len(g) <= c {
					fit = append(fit, g)
				}
			}
			malformed(r, rng, fit, append(rawFrame(d, 0, 0xff), rawFrame([]byte{9}, 0, 0xff)...), "oversize", c)
		}
	}
	// length field 65535 / 65534 against a 65534-byte buffer (off-by-one of the buffer test)
	for _, n := range []int{65534, 65535} {
		d := markerHeavy(rng, n)
		stream, _ := writeAll(r, [][]byte{d})
		res := frameCase(r, stream, uniform(len(stream), 4096), 65534)
		r.Count("buffer-edge")
		if n == 65534 && (!sameList(res.dgrams, [][]byte{d}) || res.first != "EOF") {
			r.Fail("roundtrip-mismatch", "datagram exactly filling the buffer not delivered", map[string]interface{}{"len": n, "cap": 65534})
		}
		if n == 65535 && (len(res.dgrams) != 0 || res.first != "SHORTBUF") {
			r.Fail("oversize-not-reported", fmt.Sprintf("65535-byte frame into a 65534-byte buffer: delivered %v first error %q", sizesOf(res.dgrams), res.first), map[string]interface{}{"len": n, "cap": 65534})
		}
	}
	// arbitrary byte soup (model comparison only; oracle: whatever the loop delivered is literally framed at the front)
	nsoup := 300
	if r.Thorough() {
		nsoup = 6000
	}
	for i := 0; i < nsoup; i++ {
		n := rng.Intn(40)
		s := make([]byte, n)
		for j := range s {
			switch rng.Intn(5) {
			case 0, 1:
				s[j] = 0
			case 2:
				s[j] = 0xff
			case 3:
				s[j] = byte(rng.Intn(4))
			default:
				s[j] = byte(rng.Intn(256))
			}
		}
		cap_ := []int{0, 1, 2, 3, 8, 65536}[rng.Intn(6)]
		var ch chunking
		if n == 0 {
			ch = chunking{"l:-", nil}
		} else if rng.Bool() {
			ch = uniform(n, 1+rng.Intn(4))
		} else {
			ch = explicit(n, []int{rng.Intn(n + 1), rng.Intn(n + 1), rng.Intn(n + 1)})
		}
		res := frameCase(r, s, ch, cap_)
		r.Count("soup")
		var front []byte
		for _, d := range res.dgrams {
			front = append(front, rawFrame(d, 0, 0xff)...)
		}
		if !bytes.HasPrefix(s, front) {
			r.Fail("soup-wrong-datagram", "delivered datagrams are not the frames at the front of the stream", map[string]interface{}{"stream": vh.Hex(s), "chunking": ch.spec, "cap": cap_})
		}
		if len(res.dgrams) > 0 {
			r.Distinct(fmt.Sprintf("soup/%d/%s", len(res.dgrams), res.first))
		}
	}
}

// ---------------------------------------------------------------- SOCKS5 UDP headers

func parseErrKind(err error) string {
	switch {
	case errors.Is(err, stderror.ErrNoEnoughData), errors.Is(err, io.EOF), errors.Is(err, io.ErrUnexpectedEOF):
		return "NODATA"
	case errors.Is(err, stderror.ErrInvalidArgument):
		return "INVALID"
	case errors.Is(err, stderror.ErrUnsupported):
		return "UNSUPPORTED"
	case errors.Is(err, model.ErrUnrecognizedAddrType):
		return "ADDRTYPE"
	case errors.Is(err, errParsePanic):
		return "PANIC"
	}
	return "OTHER"
}

var errParsePanic = errors.New("panic in parseSocks5UDPDatagram")

// safeParse calls the real parser; a panic (e.g. an index out of range on a short packet) is an error kind of its
// own, reported by the callers' oracles instead of killing the driver.
func safeParse(pkt []byte) (a model.AddrSpec, h, p []byte, err error) {
	defer func() {
		if x := recover(); x != nil {
			err = fmt.Errorf("%w: %v", errParsePanic, x)
		}
	}()
	return socks5.VerifC18ParseSocks5UDPDatagram(pkt)
}

func headerParseCase(r *vh.Run, pkt []byte) (model.AddrSpec, []byte, []byte, error) {
	in := append([]byte(nil), pkt...)
	a, h, p, err := safeParse(in)
	impl := ""
	if err != nil {
		impl = "ERR " + parseErrKind(err)
	} else {
		impl = fmt.Sprintf("OK %s %s %d %s %s", vh.Hex([]byte(a.FQDN)), vh.Hex(a.IP), a.Port, vh.Hex(h), render(p))
	}
	r.Case("H "+vh.Hex(pkt), impl)
	if errors.Is(err, errParsePanic) {
		r.Fail("header-parse-panic", err.Error(), map[string]interface{}{"pkt": vh.Hex(pkt)})
	}
	return a, h, p, err
}

func headerBuildCase(r *vh.Run, a model.AddrSpec, payload []byte) ([]byte, error) {
	pkt, err := socks5.VerifC18NewSocks5UDPDatagram(a, payload)
	impl := "ERR"
	if err == nil {
		impl = "OK " + render(pkt)
	}
	r.Case(fmt.Sprintf("B %s %s %d %s", vh.Hex([]byte(a.FQDN)), vh.Hex(a.IP), a.Port, vh.Hex(payload)), impl)
	return pkt, err
}

func randAddr(rng *vh.Rng, kind int) model.AddrSpec {
	port := []int{0, 1, 53, 255, 256, 65535, rng.Intn(65536)}[rng.Intn(7)]
	switch kind {
	case 0:
		return model.AddrSpec{IP: net.IP(rng.Bytes(4)), Port: port}
	case 1:
		ip := rng.Bytes(16)
		if ip[10] == 0xff && ip[11] == 0xff {
			ip[0] |= 0x20
		}
		return model.AddrSpec{IP: net.IP(ip), Port: port}
	case 2: // v4-mapped
		ip := append([]byte{0, 0, 0, 0, 0, 0, 0, 0, 0, 0, 0xff, 0xff}, rng.Bytes(4)...)
		return model.AddrSpec{IP: net.IP(ip), Port: port}
	default:
		n := []int{1, 2, 63, 254, 255, 1 + rng.Intn(255)}[rng.Intn(6)]
		name := make([]byte, n)
		for i := range name {
			name[i] = "abcdefghijklmnopqrstuvwxyz0123456789-.\x00\xff"[rng.Intn(40)]
		}
		return model.AddrSpec{FQDN: string(name), Port: port}
	}
}

func headers(r *vh.Run) {
	rng := r.Rng.Fork()
	n := 60
	if r.Thorough() {
		n = 1500
	}
	payloads := func() []byte {
		return markerHeavy(rng, []int{0, 0, 1, 2, 255, 1500, rng.Intn(3000)}[rng.Intn(7)])
	}
	for kind := 0; kind < 4; kind++ {
		for i := 0; i < n; i++ {
			a := randAddr(rng, kind)
			pl := payloads()
			pkt, err := headerBuildCase(r, a, pl)
			r.Count("header-build")
			if err != nil {
				r.Fail("header-build-refused", fmt.Sprintf("newSocks5UDPDatagram refused %v", a), map[string]interface{}{"fqdn": a.FQDN, "ip": a.IP, "port": a.Port})
				continue
			}
			pa, h, pp, err := headerParseCase(r, pkt)
			r.Count("header-parse-ok")
			r.Distinct(fmt.Sprintf("hdr/%d/%s/%d", kind, sizeClass(len(pl)), len(a.FQDN)))
			okAddr := err == nil && pa.Port == a.Port && pa.FQDN == a.FQDN && (a.FQDN != "" || pa.IP.Equal(a.IP))
			if err != nil || !okAddr || !bytes.Equal(pp, pl) || !bytes.Equal(append(append([]byte(nil), h...), pp...), pkt) {
				r.Fail("header-roundtrip", fmt.Sprintf("parse(build(%v, %d bytes)) = (%v, %d bytes, err %v)", a, len(pl), pa, len(pp), err), map[string]interface{}{"pkt": vh.Hex(pkt)})
			}
			// malformed variants of this packet
			if i%3 == 0 {
				for _, m := range mutateHeader(rng, pkt, len(h)) {
					_, _, mp, err := headerParseCase(r, m.pkt)
					r.Count("header-malformed/" + m.kind)
					r.Distinct("hdrmal/" + m.kind + "/" + strconv.Itoa(kind))
					if m.mustFail && err == nil {
						r.Fail("header-malformed-accepted", m.kind+": accepted with payload of "+strconv.Itoa(len(mp))+" bytes", map[string]interface{}{"pkt": vh.Hex(m.pkt)})
					}
				}
			}
		}
	}
	// boundary corpus: zero-length name, exact minimal lengths, every address type value
	headerParseCase(r, []byte{0, 0, 0, 3, 0, 0, 80})
	headerParseCase(r, []byte{0, 0, 0, 3, 0, 0, 80, 0x41})
	headerParseCase(r, []byte{0, 0, 0, 3, 0, 0})
	for t := 0; t < 256; t++ {
		pkt := append([]byte{0, 0, 0, byte(t)}, rng.Bytes(24)...)
		_, _, _, err := headerParseCase(r, pkt)
		r.Count("header-atyp-sweep")
		if t != 1 && t != 3 && t != 4 && err == nil {
			r.Fail("header-malformed-accepted", fmt.Sprintf("address type %d accepted", t), map[string]interface{}{"pkt": vh.Hex(pkt)})
		}
	}
	for l := 0; l <= 12; l++ {
		headerParseCase(r, append([]byte{0, 0, 0, 1}, rng.Bytes(12)...)[:l])
	}
	// 256-byte name: length byte wraps (documented in the model; AddrSpec.From refuses such names)
	long := model.AddrSpec{FQDN: strings.Repeat("a", 256), Port: 80}
	if pkt, err := headerBuildCase(r, long, nil); err == nil {
		headerParseCase(r, pkt)
	}
	headerBuildCase(r, model.AddrSpec{Port: 80}, []byte{1})
	headerBuildCase(r, model.AddrSpec{IP: net.IP{1, 2, 3}, Port: 80}, []byte{1})
	// aliasing: two different datagrams parsed out of ONE reused buffer (as the relay loop does); what the first
	// parse returned as Header must be a value, i.e. unchanged after the buffer is reused
	buf := make([]byte, 1<<16)
	for i := 0; i < n; i++ {
		a1, a2 := randAddr(rng, i%4), randAddr(rng, rng.Intn(4))
		p1, _ := socks5.VerifC18NewSocks5UDPDatagram(a1, markerHeavy(rng, rng.Intn(40)))
		p2, _ := socks5.VerifC18NewSocks5UDPDatagram(a2, markerHeavy(rng, rng.Intn(40)))
		k1 := copy(buf, p1)
		_, h1, _, err1 := safeParse(buf[:k1])
		snap := append([]byte(nil), h1...)
		k2 := copy(buf, p2)
		_, h2, _, err2 := safeParse(buf[:k2])
		impl := "ERR"
		if err1 == nil && err2 == nil {
			impl = vh.Hex(h1) + " " + vh.Hex(h2) // h1 as it is AFTER the second parse
		}
		r.Case(fmt.Sprintf("A %s %s", vh.Hex(p1), vh.Hex(p2)), impl)
		r.Count("header-aliasing")
		r.Distinct(fmt.Sprintf("alias/%d/%d", len(snap), len(h2)))
		if err1 == nil && !bytes.Equal(h1, snap) {
			r.Fail("header-aliases-buffer", fmt.Sprintf("the Header returned by parseSocks5UDPDatagram changed from %s to %s when the caller's buffer was reused for the next datagram (the relay remembers it per destination for reply headers)", vh.Hex(snap), vh.Hex(h1)),
				map[string]interface{}{"first": vh.Hex(p1), "second": vh.Hex(p2)})
		}
	}
	// udpAddrToHeader
	for i := 0; i < n; i++ {
		a := randAddr(rng, i%3)
		u := &net.UDPAddr{IP: a.IP, Port: a.Port}
		h := socks5.VerifC18UDPAddrToHeader(u)
		r.Case(fmt.Sprintf("U %s %d", vh.Hex(a.IP), a.Port), vh.Hex(h))
		r.Count("udp-addr-to-header")
		pa, _, pp, err := safeParse(append(append([]byte(nil), h...), 0x55))
		if err != nil || !pa.IP.Equal(a.IP) || pa.Port != a.Port || !bytes.Equal(pp, []byte{0x55}) {
			r.Fail("reply-header-not-sender", fmt.Sprintf("udpAddrToHeader(%v) parses to %v err %v", u, pa, err), map[string]interface{}{"ip": vh.Hex(a.IP), "port": a.Port})
		}
	}
}

type mutated struct {
	kind     string
	pkt      []byte
	mustFail bool
}

func mutateHeader(rng *vh.Rng, pkt []byte, hlen int) []mutated {
	var out []mutated
	cp := func() []byte { return append([]byte(nil), pkt...) }
	m := cp()
	m[2] = byte(1 + rng.Intn(255))
	out = append(out, mutated{"frag", m, true})
	m = cp()
	m[rng.Intn(2)] = byte(1 + rng.Intn(255))
	out = append(out, mutated{"rsv", m, true})
	m = cp()
	m[3] = []byte{0, 2, 5, 6, 0x7f, 0xff}[rng.Intn(6)]
	out = append(out, mutated{"atyp", m, true})
	for _, cut := range []int{0, 1, 2, 3, 4, 5, 6, 7, hlen - 2, hlen - 1} {
		if cut >= 0 && cut < hlen {
			out = append(out, mutated{"short", cp()[:cut], true})
		}
	}
	out = append(out, mutated{"header-only", cp()[:hlen], false})
	return out
}

// ---------------------------------------------------------------- API wrapper

type onePacket struct {
	net.PacketConn
	in    []byte
	from  net.Addr
	out   []byte
	outTo net.Addr
}

func (c *onePacket) ReadFrom(p []byte) (int, net.Addr, error) { return copy(p, c.in), c.from, nil }
func (c *onePacket) WriteTo(p []byte, a net.Addr) (int, error) {
	c.out = append([]byte(nil), p...)
	c.outTo = a
	return len(p), nil
}

func wrapErrKind(err error) string {
	s := err.Error()
	switch {
	case strings.Contains(s, "too short"):
		return "SHORT"
	case strings.Contains(s, "invalid UDP header"):
		return "INVALID"
	case strings.Contains(s, "fragment"):
		return "FRAG"
	case strings.Contains(s, "FQDN"):
		return "FQDN"
	}
	k := parseErrKind(err)
	if k == "NODATA" || k == "ADDRTYPE" {
		return k
	}
	return "OTHER"
}

func wrapperReadCase(r *vh.Run, cap_ int, b []byte) (n int, addr net.Addr, err error, got []byte) {
	w := apicommon.NewUDPAssociateWrapper(&onePacket{in: b, from: addrStub{}})
	p := make([]byte, cap_)
	n, addr, err = w.ReadFrom(p)
	impl := ""
	if err != nil {
		impl = "ERR " + wrapErrKind(err)
	} else {
		u := addr.(*net.UDPAddr)
		got = append([]byte(nil), p[:n]...)
		impl = fmt.Sprintf("OK %s %s %d", render(got), vh.Hex(u.IP), u.Port)
	}
	r.Case(fmt.Sprintf("P %d %s", cap_, vh.Hex(b)), impl)
	return
}

func wrapper(r *vh.Run) {
	rng := r.Rng.Fork()
	// the witness first: a header-only datagram (empty payload) is a legal datagram
	witness := []byte{0, 0, 0, 1, 127, 0, 0, 1, 0x27, 0x0f}
	n, addr, err, _ := wrapperReadCase(r, 1500, witness)
	r.Count("wrapper-empty")
	r.Distinct("wrap/empty/witness")
	if err != nil || n != 0 {
		r.Fail("wrapper-empty-payload-eof", fmt.Sprintf("UDPAssociateWrapper.ReadFrom on a header-only datagram (empty payload to 127.0.0.1:9999): n=%d addr=%v err=%v; expected n=0, the address, nil", n, addr, err),
			map[string]interface{}{"datagram": vh.Hex(witness), "cap": 1500})
	}
	cnt := 80
	if r.Thorough() {
		cnt = 2000
	}
	for i := 0; i < cnt; i++ {
		kind := i % 3
		a := randAddr(rng, kind)
		pl := markerHeavy(rng, []int{0, 0, 1, 2, 255, 1500, rng.Intn(2000)}[rng.Intn(7)])
		to := &net.UDPAddr{IP: a.IP, Port: a.Port}
		inner := &onePacket{}
		w := apicommon.NewUDPAssociateWrapper(inner)
		wn, err := w.WriteTo(pl, to)
		impl := "ERR"
		if err == nil {
			impl = "OK " + render(inner.out)
		}
		r.Case(fmt.Sprintf("Q %s %s %d", vh.Hex(pl), vh.Hex(a.IP), a.Port), impl)
		r.Count("wrapper-write")
		if err != nil || wn != len(pl) {
			r.Fail("wrapper-write", fmt.Sprintf("WriteTo(%d bytes, %v) = %d, %v", len(pl), to, wn, err), nil)
			continue
		}
		cap_ := len(pl) + []int{0, 0, 1, 100}[rng.Intn(4)]
		rn, raddr, rerr, got := wrapperReadCase(r, cap_, inner.out)
		r.Count("wrapper-read")
		r.Distinct(fmt.Sprintf("wrap/%d/%s", kind, sizeClass(len(pl))))
		if rerr != nil || rn != len(pl) || !bytes.Equal(got, pl) {
			sig := "wrapper-roundtrip"
			if len(pl) == 0 {
				sig = "wrapper-empty-payload-eof"
			}
			r.Fail(sig, fmt.Sprintf("wrapper round trip of %d bytes to %v: n=%d err=%v", len(pl), to, rn, rerr), map[string]interface{}{"datagram": vh.Hex(inner.out), "cap": cap_})
			continue
		}
		if u := raddr.(*net.UDPAddr); !u.IP.Equal(a.IP) || u.Port != a.Port {
			r.Fail("wrapper-address", fmt.Sprintf("wrapper round trip: address %v became %v", to, u), nil)
		}
		// caller's buffer smaller than the payload (truncation, as the model says), malformed inner datagrams
		if i%4 == 0 && len(pl) > 1 {
			wrapperReadCase(r, len(pl)-1, inner.out)
			wrapperReadCase(r, 0, inner.out)
		}
		if i%5 == 0 {
			for _, m := range mutateHeader(rng, inner.out, len(inner.out)-len(pl)) {
				if m.kind == "header-only" {
					continue
				}
				_, _, err, _ := wrapperReadCase(r, 2000, m.pkt)
				r.Count("wrapper-malformed/" + m.kind)
				if err == nil {
					r.Fail("wrapper-malformed-accepted", m.kind, map[string]interface{}{"datagram": vh.Hex(m.pkt)})
				}
			}
		}
	}
	// a domain header is refused by the wrapper
	wrapperReadCase(r, 100, []byte{0, 0, 0, 3, 1, 0x61, 0, 80, 1, 2, 3})
	wrapperReadCase(r, 100, []byte{0, 0, 0, 3, 0, 0, 80, 1, 2, 3})
	// the real composition: wrapper over PacketOverStreamTunnel over a pipe, empty and non-empty payloads
	c1, c2 := net.Pipe()
	w1 := apicommon.NewUDPAssociateWrapper(apicommon.NewPacketOverStreamTunnel(c1))
	w2 := apicommon.NewUDPAssociateWrapper(apicommon.NewPacketOverStreamTunnel(c2))
	to := &net.UDPAddr{IP: net.IP{10, 1, 2, 3}, Port: 4242}
	for _, pl := range [][]byte{{}, {0}, {0xff}, markerHeavy(rng, 1500), {}} {
		go w1.WriteTo(pl, to)
		p := make([]byte, 2048)
		c2.SetReadDeadline(time.Now().Add(5 * time.Second))
		n, a, err := w2.ReadFrom(p)
		r.Count("wrapper-over-tunnel")
		if err != nil || !bytes.Equal(p[:n], pl) || a.String() != to.String() {
			sig := "wrapper-roundtrip"
			if len(pl) == 0 {
				sig = "wrapper-empty-payload-eof"
			}
			r.Fail(sig, fmt.Sprintf("wrapper over tunnel: %d bytes to %v arrived as n=%d addr=%v err=%v", len(pl), to, n, a, err), map[string]interface{}{"payload": vh.Hex(pl)})
		}
	}
	c1.Close()
	c2.Close()
}

// ---------------------------------------------------------------- the relay loop (real sockets on loopback)

type mapResolver map[string]net.IP

func (m mapResolver) LookupIP(ctx context.Context, network, host string) ([]net.IP, error) {
	if ip, ok := m[host]; ok {
		return []net.IP{ip}, nil
	}
	return nil, fmt.Errorf("no such host %q", host)
}

func relay(r *vh.Run) {
	rng := r.Rng.Fork()
	lo := net.IPv4(127, 0, 0, 1).To4()
	relaySock, err := net.ListenUDP("udp", &net.UDPAddr{IP: lo})
	if err != nil {
		r.Rep.Notes = map[string]string{"relay": "skipped: cannot open loopback UDP sockets: " + err.Error()}
		return
	}
	relayAddr := relaySock.LocalAddr().(*net.UDPAddr)
	var dests []*net.UDPConn
	for i := 0; i < 4; i++ {
		d, err := net.ListenUDP("udp", &net.UDPAddr{IP: lo})
		if err != nil {
			r.Rep.Notes = map[string]string{"relay": "skipped: " + err.Error()}
			return
		}
		defer d.Close()
		dests = append(dests, d)
	}
	port := func(i int) int { return dests[i].LocalAddr().(*net.UDPAddr).Port }
	resolver := mapResolver{"one.test": lo, "two.test": lo}
	cliConn, srvConn := net.Pipe()
	cli := apicommon.NewPacketOverStreamTunnel(cliConn)
	done := make(chan error, 1)
	go func() {
		done <- socks5.RunUDPAssociateLoop(relaySock, apicommon.NewPacketOverStreamTunnel(srvConn), resolver)
	}()

	var caseParts, implParts []string
	fail := func(sig, what string) {
		r.Fail(sig, what, map[string]interface{}{"history": strings.Join(caseParts, " ; ")})
	}
	recvAt := func(i int, wait time.Duration) ([]byte, *net.UDPAddr, bool) {
		buf := make([]byte, 1<<16)
		dests[i].SetReadDeadline(time.Now().Add(wait))
		n, from, err := dests[i].ReadFromUDP(buf)
		if err != nil {
			return nil, nil, false
		}
		return buf[:n], from, true
	}
	// lastHdr[i] = the header the client most recently used for destination i (what replies from i must carry);
	// nil = never addressed (a reply then carries the sender's own address)
	lastHdr := map[int][]byte{}
	const attempts = 3
	const wait = 6 * time.Second
	// up: the client sends pkt (header for destination i + payload) through the tunnel.
	// A datagram lost on the loopback path is re-sent (the relay's state after processing the same header twice
	// is the same); only the successful attempt is recorded. Wrong content is never retried.
	up := func(hdr []byte, payload []byte, i int, dns string) {
		pkt := append(append([]byte(nil), hdr...), payload...)
		step := fmt.Sprintf("up %s %s", vh.Hex(pkt), dns)
		r.Count("relay-up")
		if i < 0 {
			caseParts = append(caseParts, step)
			cliConn.SetWriteDeadline(time.Now().Add(wait))
			if _, err := cli.Write(pkt); err != nil {
				implParts = append(implParts, "writefail")
				fail("relay-tunnel-write", "tunnel write failed: "+err.Error())
				return
			}
			// expected to be dropped: nothing may arrive anywhere
			time.Sleep(150 * time.Millisecond)
			for k := range dests {
				if got, _, ok := recvAt(k, time.Millisecond); ok {
					implParts = append(implParts, fmt.Sprintf("send %s %d %s", vh.Hex(lo), port(k), render(got)))
					fail("relay-undeliverable-sent", "a datagram whose destination does not resolve was sent somewhere")
					return
				}
			}
			implParts = append(implParts, "drop")
			return
		}
		var got []byte
		var from *net.UDPAddr
		ok := false
		for a := 0; a < attempts && !ok; a++ {
			cliConn.SetWriteDeadline(time.Now().Add(wait))
			if _, err := cli.Write(pkt); err != nil {
				caseParts = append(caseParts, step)
				implParts = append(implParts, "writefail")
				fail("relay-tunnel-write", "tunnel write failed: "+err.Error())
				return
			}
			got, from, ok = recvAt(i, wait)
			if !ok {
				r.Count("relay-loopback-retry")
			}
		}
		caseParts = append(caseParts, step)
		lastHdr[i] = append([]byte(nil), hdr...)
		if !ok {
			implParts = append(implParts, "lost")
			fail("relay-not-delivered", fmt.Sprintf("datagram of %d bytes for destination %d did not arrive at the destination named in its header (%d attempts)", len(payload), i, attempts))
			return
		}
		implParts = append(implParts, fmt.Sprintf("send %s %d %s", vh.Hex(lo), port(i), render(got)))
		if !bytes.Equal(got, payload) {
			fail("relay-payload-changed", fmt.Sprintf("destination %d received %d bytes, the client sent %d", i, len(got), len(payload)))
		}
		if from.Port != relayAddr.Port {
			fail("relay-wrong-source", "datagram did not come from the relay socket")
		}
		for k := range dests {
			if k != i {
				if _, _, ok := recvAt(k, time.Millisecond); ok {
					fail("relay-wrong-destination", fmt.Sprintf("destination %d also received a datagram addressed to %d", k, i))
				}
			}
		}
	}
	var v4 func(i int) []byte
	// down: destination i sends payload to the relay; the client reads the reply from the tunnel.
	// Oracle: the reply frame is EXACTLY (header the client last used for i, or i's own address) ++ payload.
	down := func(i int, payload []byte) {
		step := fmt.Sprintf("down %s %d %s", vh.Hex(lo), port(i), vh.Hex(payload))
		r.Count("relay-down")
		buf := make([]byte, 1<<16)
		n := 0
		var err error
		for a := 0; a < attempts; a++ {
			dests[i].WriteToUDP(payload, relayAddr)
			cliConn.SetReadDeadline(time.Now().Add(wait))
			n, err = cli.Read(buf)
			if err == nil {
				break
			}
			if ne, isNet := err.(net.Error); !(isNet && ne.Timeout()) && !errors.Is(err, os.ErrDeadlineExceeded) {
				break // a framing error is not a lost loopback datagram: never retried
			}
			r.Count("relay-loopback-retry")
		}
		caseParts = append(caseParts, step)
		if err != nil {
			implParts = append(implParts, "lost")
			fail("relay-reply-lost", fmt.Sprintf("reply of %d bytes from destination %d did not reach the client: %v", len(payload), i, err))
			return
		}
		pkt := buf[:n]
		implParts = append(implParts, "client "+render(pkt))
		want := lastHdr[i]
		if want == nil {
			want = v4(i)
		}
		if !bytes.Equal(pkt, append(append([]byte(nil), want...), payload...)) {
			a, h, pl, perr := safeParse(append([]byte(nil), pkt...))
			switch {
			case perr != nil:
				fail("reply-header-not-sender", fmt.Sprintf("reply from 127.0.0.1:%d: header does not parse (%v); frame starts %s, expected header %s", port(i), perr, vh.Hex(pkt[:minInt(len(pkt), 24)]), vh.Hex(want)))
			case !bytes.Equal(h, want):
				fail("reply-header-not-sender", fmt.Sprintf("reply from 127.0.0.1:%d carries header %s (address %v), expected %s", port(i), vh.Hex(h), a, vh.Hex(want)))
			default:
				fail("relay-reply-changed", fmt.Sprintf("reply from destination %d: payload changed (%d -> %d bytes)", i, len(payload), len(pl)))
			}
		}
	}
	hdr := func(a model.AddrSpec) []byte {
		h, err := socks5.VerifC18NewSocks5UDPDatagram(a, nil)
		if err != nil {
			panic(err)
		}
		return h
	}
	v4 = func(i int) []byte { return hdr(model.AddrSpec{IP: lo, Port: port(i)}) }
	mapped := func(i int) []byte {
		h := []byte{0, 0, 0, 4, 0, 0, 0, 0, 0, 0, 0, 0, 0, 0, 0xff, 0xff, 127, 0, 0, 1}
		return append(h, byte(port(i)>>8), byte(port(i)))
	}
	dom := func(name string, i int) []byte { return hdr(model.AddrSpec{FQDN: name, Port: port(i)}) }

	pick := func(i int, kind int) ([]byte, string) {
		switch kind {
		case 0:
			return v4(i), "-"
		case 1:
			return mapped(i), "-"
		}
		return dom([]string{"one.test", "two.test"}[rng.Intn(2)], i), vh.Hex(lo)
	}
	// unsolicited sender first: its own address
	down(3, []byte{0x00, 0xff})
	// three destinations, three header kinds of DIFFERENT length (10 / 15 / 22 bytes), datagrams of different
	// sizes: A, B, C are addressed first, THEN they reply, in several orders, with further sends in between.
	// (A relay that remembers a view into its receive buffer instead of the header bytes answers with the
	// header of whatever the client sent last.)
	up(v4(0), nil, 0, "-")
	up(dom("one.test", 1), markerHeavy(rng, 700), 1, vh.Hex(lo))
	up(mapped(2), markerHeavy(rng, 1500), 2, "-")
	down(0, nil)
	down(1, []byte{1, 2, 3})
	down(2, markerHeavy(rng, 1500))
	down(1, markerHeavy(rng, 300))
	down(0, markerHeavy(rng, 9000))
	up(mapped(2), []byte{7}, 2, "-")
	down(0, []byte{0xff})
	up(v4(0), markerHeavy(rng, 2000), 0, "-")
	down(1, nil)
	down(2, []byte{0})
	up(dom("one.test", 1), nil, 1, vh.Hex(lo))
	down(2, markerHeavy(rng, 40))
	down(0, []byte{0})
	down(3, nil) // still never addressed
	// the same destination under another name / another kind: latest header wins
	up(dom("two.test", 1), []byte{9}, 1, vh.Hex(lo))
	up(v4(0), []byte{1}, 0, "-")
	down(1, []byte{})
	up(v4(1), []byte{}, 1, "-")
	up(mapped(0), []byte{2}, 0, "-")
	down(1, []byte{0})
	down(0, []byte{3})
	// name that does not resolve / zero-length name: dropped, the association goes on, memo untouched
	up(dom("nx.test", 0), []byte{5}, -1, "-")
	up([]byte{0, 0, 0, 3, 0, byte(port(0) >> 8), byte(port(0))}, []byte{5}, -1, "-")
	down(0, []byte{4})
	down(2, []byte{5})
	steps := 24
	if r.Thorough() {
		steps = 300
	}
	for s := 0; s < steps; s++ {
		if rng.Intn(5) < 3 {
			i := rng.Intn(3)
			n := []int{0, 1, 2, 255, 256, 1500, 9000, 65000, rng.Intn(3000)}[rng.Intn(9)]
			h, dns := pick(i, rng.Intn(3))
			up(h, markerHeavy(rng, n), i, dns)
			r.Distinct(fmt.Sprintf("relay/up/%d/%d/%s", i, h[3], sizeClass(n)))
		} else {
			// a reply from ANY destination, most of the time not the one addressed last
			i := rng.Intn(4)
			n := []int{0, 1, 1500, 9000, 65000, rng.Intn(3000)}[rng.Intn(6)]
			down(i, markerHeavy(rng, n))
			k := byte(0)
			if lastHdr[i] != nil {
				k = lastHdr[i][3]
			}
			r.Distinct(fmt.Sprintf("relay/down/%d/%d/%s", i, k, sizeClass(n)))
		}
	}
	// a malformed header ends the association with an error (it is not skipped silently)
	bad := append(v4(0), 1)
	bad[2] = 1
	caseParts = append(caseParts, fmt.Sprintf("up %s -", vh.Hex(bad)))
	cli.Write(bad)
	select {
	case err := <-done:
		k := "OTHER"
		if err != nil {
			k = parseErrKind(err)
		}
		implParts = append(implParts, "stop "+k)
		if err == nil {
			fail("relay-bad-header-swallowed", "fragmented datagram: loop ended without error")
		}
	case <-time.After(wait):
		implParts = append(implParts, "running")
		fail("relay-bad-header-swallowed", "fragmented datagram did not end the association")
	}
	cliConn.Close()
	srvConn.Close()
	r.Case("R "+strings.Join(caseParts, " ; "), strings.Join(implParts, " ; "))
}

func minInt(a, b int) int {
	if a < b {
		return a
	}
	return b
}

func main() {
	r := vh.Start("c18")
	r.Rep.Rule = "frames: every special size {0,1,2,255,256,1500,65534,65535} alone and in sequences plus generated sequences, contents in six marker-heavy styles, each stream read through the real PacketOverStreamTunnel under five chunkers (one chunk, every field boundary -1/0/+1, single bytes, random cuts, small uniform); malformed streams (bad start, bad end, truncation at every position, length > buffer with a well-formed frame inside the skipped data) after 0/1/3 good frames; byte soup; writer limit; SOCKS5 UDP headers built and parsed for IPv4/IPv6/v4-mapped/domain (1..255-byte names), all 256 address types, every truncation; the API wrapper; parsing two datagrams out of one reused buffer (the first result must not change); one real association over loopback sockets with four destinations and three header kinds of different length, where destinations are addressed first and reply later in other orders with further sends in between (every reply frame must equal the header the client last used for that sender, or the sender's own address, ++ the exact payload). Non-trivial class = (size class, chunking class) / (violation kind, chunking class, number of good frames) / (address kind, payload class)."
	wrapper(r)
	frames(r)
	headers(r)
	relay(r)
	r.Finish()
}
