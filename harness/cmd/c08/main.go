// Driver for C08: key slots, segment timestamps and the key cache.
// Runs the real pkg/cipher and pkg/mathext code on boundary grids and generated
// histories; writes case lines for the extracted Coq model and the
// implementation's observations, and judges every case against the property text.
package main

import (
	"bytes"
	"crypto/sha256"
	"encoding/binary"
	"fmt"
	"strings"
	"time"

	"github.com/enfein/mieru/v3/pkg/cipher"
	"github.com/enfein/mieru/v3/pkg/mathext"
	"golang.org/x/crypto/chacha20poly1305"
	"golang.org/x/crypto/pbkdf2"
	"verifharness/vh"
)

const ns = int64(1000000000)

// slotOfSalt finds the unix second whose documented salt SHA-256(be64(sec)) equals salt,
// searching +-1000 s around t. Independent of mieru's code.
func slotOfSalt(salt []byte, tsec int64) int64 {
	var b [8]byte
	for d := int64(0); d <= 1000; d++ {
		for _, s := range []int64{tsec - d, tsec + d} {
			binary.BigEndian.PutUint64(b[:], uint64(s))
			h := sha256.Sum256(b[:])
			if bytes.Equal(h[:], salt) {
				return s
			}
		}
	}
	return -1
}

var keyCache = map[string][]byte{}

// docKey derives the key as docs/protocol.md says: PBKDF2-SHA256(pw, SHA-256(be64(slot)), 64, 32).
func docKey(pw []byte, slot int64) []byte {
	id := fmt.Sprintf("%x/%d", pw, slot)
	if k, ok := keyCache[id]; ok {
		return k
	}
	var b [8]byte
	binary.BigEndian.PutUint64(b[:], uint64(slot))
	salt := sha256.Sum256(b[:])
	k := pbkdf2.Key(pw, salt[:], 64, 32, sha256.New)
	keyCache[id] = k
	return k
}

func slotOfKey(pw, key []byte, tsec int64) int64 {
	base := tsec / 60 * 60
	for d := int64(0); d <= 1200; d += 60 {
		for _, s := range []int64{base - d, base + d} {
			if bytes.Equal(docKey(pw, s), key) {
				return s
			}
		}
	}
	return -1
}

func implSlots(t time.Time) (int64, []int64) {
	ep := cipher.VerifCipherKeyEpoch(t)
	var out []int64
	for _, s := range cipher.VerifSaltFromTime(t) {
		out = append(out, slotOfSalt(s, t.Unix()))
	}
	return ep, out
}

func contains(l []int64, x int64) bool {
	for _, v := range l {
		if v == x {
			return true
		}
	}
	return false
}

func minuteOf(t time.Time) uint32 { return uint32(t.Unix() / 60) }

func abs64(x int64) int64 {
	if x < 0 {
		return -x
	}
	return x
}

func main() {
	r := vh.Start("c08")
	defer r.Finish()
	r.Rep.Rule = "instants on a ns-resolution grid around multiples of 60 s and 120 s (+-60 s), random instants 2001..2099, skews at 0, +-1ns, +-60 s, +-120 s, +-240 s and around them; cache histories with arbitrary (also decreasing) times. Non-trivial/distinct = distinct (boundary class of t, skew class) pairs and distinct cache-history shapes (reuse/refresh patterns)"

	// ---------- instants ----------
	var instants []int64
	bases := []int64{1700000040, 1700000100, 1257894000, 4102444800, 946684800 + 60}
	offs := []int64{0, 1, -1, ns, -ns, 60*ns - 1, 60 * ns, 60*ns + 1, -60 * ns, -60*ns - 1, -60*ns + 1, 30 * ns, 120*ns - 1, 120 * ns, 59*ns + 999999999}
	for _, b := range bases {
		for _, o := range offs {
			instants = append(instants, b*ns+o)
		}
	}
	nrand := 300
	if r.Thorough() {
		nrand = 20000
		// every second over two full slots
		for s := int64(0); s < 240; s++ {
			instants = append(instants, (1700000040+s)*ns, (1700000040+s)*ns+ns-1)
		}
	}
	for i := 0; i < nrand; i++ {
		instants = append(instants, 978307200*ns+r.Rng.I64n(3124137600*ns)) // 2001..2099
	}
	skews := []int64{0, 1, -1, 59 * ns, -59 * ns, 60*ns - 1, 60 * ns, -60 * ns, -60*ns + 1, 60*ns + 1, -60*ns - 1,
		90 * ns, -90 * ns, 120*ns - 1, 120 * ns, -120 * ns, 120*ns + 1, 180 * ns, 240*ns - 1, 240 * ns, -240 * ns, 240*ns + 1, -240*ns - 1, 3600 * ns, -3600 * ns}

	classT := func(t int64) string {
		m := ((t % (120 * ns)) + 120*ns) % (120 * ns)
		switch {
		case m == 60*ns || m == 60*ns-1:
			return "slot-edge"
		case m%(60*ns) == 0 || m%(60*ns) == 60*ns-1:
			return "minute-edge"
		default:
			return fmt.Sprintf("in-%d", m/(30*ns))
		}
	}
	for _, t := range instants {
		tt := time.Unix(0, t)
		ep, sl := implSlots(tt)
		r.Case(fmt.Sprintf("E %d", t), fmt.Sprintf("%d %d %d %d", ep, sl[0], sl[1], sl[2]))
		r.Count("E")
		// oracle: skews
		for _, d := range skews {
			if r.Tier == "quick" && r.NCase > 4000 && r.Rng.Intn(4) != 0 {
				continue
			}
			t2 := time.Unix(0, t+d)
			ep2, sl2 := implSlots(t2)
			wr := mathext.WithinRange(minuteOf(t2), minuteOf(tt), 1)
			wr2 := mathext.WithinRange(minuteOf(tt), minuteOf(t2), 1)
			r.Case(fmt.Sprintf("W %d %d 1", minuteOf(t2), minuteOf(tt)), vh.Hex([]byte{b2i(wr)}))
			r.Case(fmt.Sprintf("T %d %d", t+d, t), vh.Hex([]byte{b2i(wr)}))
			r.Count("skew")
			r.Distinct(classT(t) + "/" + fmt.Sprint(d))
			c := map[string]int64{"t_ns": t, "skew_ns": d}
			if abs64(d) <= 60*ns {
				if !contains(sl2, ep) || !contains(sl, ep2) {
					r.Fail("skew60-no-common-key", fmt.Sprintf("clocks %d ns apart share no key: epoch %d slots %v / epoch %d slots %v", d, ep, sl, ep2, sl2), c)
				}
				if !wr || !wr2 {
					r.Fail("skew60-timestamp-refused", fmt.Sprintf("timestamps of clocks %d ns apart refused", d), c)
				}
			}
			if abs64(d) <= 120*ns && !contains(sl2, ep) {
				r.Fail("skew120-key-missing", "key derived within 120 s not among the receiver's three", c)
			}
			if abs64(d) >= 120*ns && (wr || wr2) {
				r.Fail("stale-minute-accepted", fmt.Sprintf("timestamp %d ns away accepted", d), c)
			}
			if abs64(d) >= 240*ns && (contains(sl2, ep) || contains(sl, ep2)) {
				r.Fail("stale-key-accepted", fmt.Sprintf("key derived %d ns away still accepted", d), c)
			}
		}
	}

	// WithinRange at uint32 on a wrap-around grid (correspondence only)
	edge := []uint32{0, 1, 2, 3, 100, 28333334, 28333335, 28333336, 0x7fffffff, 0x80000000, 0xfffffffd, 0xfffffffe, 0xffffffff}
	for _, v := range edge {
		for _, tg := range edge {
			for _, m := range []uint32{0, 1, 2} {
				r.Case(fmt.Sprintf("W %d %d %d", v, tg, m), vh.Hex([]byte{b2i(mathext.WithinRange(v, tg, m))}))
				r.Count("W-grid")
			}
		}
	}

	// ---------- cache histories ----------
	nh := 40
	if r.Thorough() {
		nh = 1500
	}
	for h := 0; h < nh; h++ {
		g := r.Rng.Fork()
		pw := []byte(fmt.Sprintf("pw-%d-%d", r.Seed, h))
		cipher.VerifCacheReset()
		dec, _ := cipher.NewStatelessDecryptor(pw)
		r.Case("C", "-")
		now := 1700000040*ns + g.I64n(240*ns)
		shape := ""
		steps := g.Range(3, 14)
		for i := 0; i < steps; i++ {
			switch g.Intn(8) {
			case 0:
				now += g.I64n(3 * ns)
			case 1:
				now += 24*ns + g.I64n(8*ns) // around the 25..30 s validity edge
			case 2:
				now -= g.I64n(40 * ns) // clock steps backwards
			case 3:
				now += 100*ns + g.I64n(60*ns)
			case 4:
				now = (now/(120*ns))*120*ns + 60*ns - 1 + g.I64n(3) // slot edge
			case 5:
				now += 30 * ns
			case 6:
				now += g.I64n(ns)
			default:
				now += 25*ns + g.I64n(2) // exact jitter edge
			}
			tn := time.Unix(0, now)
			if g.Intn(3) != 0 {
				ep, cr, keys, reused, err := cipher.VerifCacheLookup(string(pw), tn)
				if err != nil {
					panic(err)
				}
				ks := make([]int64, len(keys))
				for i, k := range keys {
					ks[i] = slotOfKey(pw, k, tn.Unix())
				}
				r.Case(fmt.Sprintf("L %d", now), fmt.Sprintf("%s %d %d %s", vh.Hex([]byte{b2i(reused)}), ep, cr.UnixNano(), i64s(ks)))
				r.Count("L")
				shape += map[bool]string{true: "r", false: "n"}[reused]
				// oracle: the keys handed out are the keys of now's own slots
				_, want := implSlots(tn)
				if i64s(ks) != i64s(want) {
					r.Fail("cache-wrong-slot", fmt.Sprintf("lookup at %d returned keys of slots %v, want %v", now, ks, want), map[string]interface{}{"seed": r.Seed, "history": h, "now": now})
				}
			} else {
				// a ciphertext sealed by a sender whose clock is sk away, with its middle key
				sk := []int64{0, 60 * ns, -60 * ns, 120 * ns, -120 * ns, 240 * ns, -240 * ns, 59 * ns, -179 * ns}[g.Intn(9)]
				sep, _ := implSlots(time.Unix(0, now+sk))
				key := docKey(pw, sep)
				aead, _ := chacha20poly1305.NewX(key)
				nonce := g.Bytes(24)
				ct := aead.Seal(append([]byte(nil), nonce...), nonce, []byte("hello"), nil)
				p, err := cipher.VerifDecryptorTryAt(dec, ct, tn)
				ok := err == nil && string(p) == "hello"
				ep, cr, _, _ := cipher.VerifDecryptorEntry(dec)
				r.Case(fmt.Sprintf("D %d %d", now, sep), fmt.Sprintf("%s %d %d", vh.Hex([]byte{b2i(ok)}), ep, cr.UnixNano()))
				r.Count("D")
				shape += map[bool]string{true: "d", false: "x"}[ok]
				c := map[string]interface{}{"seed": r.Seed, "history": h, "now": now, "sender_skew_ns": sk}
				if abs64(sk) <= 120*ns && !ok {
					r.Fail("decryptor-refused-valid-key", fmt.Sprintf("sender %d ns away not decrypted", sk), c)
				}
				if abs64(sk) >= 240*ns && ok {
					r.Fail("decryptor-accepted-stale-key", fmt.Sprintf("sender %d ns away decrypted", sk), c)
				}
			}
		}
		r.Distinct("hist/" + shape)
	}
}

func b2i(b bool) byte {
	if b {
		return 1
	}
	return 0
}

func i64s(l []int64) string {
	var sb strings.Builder
	for i, v := range l {
		if i > 0 {
			sb.WriteByte(' ')
		}
		fmt.Fprint(&sb, v)
	}
	return sb.String()
}
