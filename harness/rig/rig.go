// Package rig starts a real mieru server Mux and client Mux on top of simnet.
package rig

import (
	"context"
	"fmt"
	"io"
	"net"
	"runtime"
	"runtime/debug"
	"sync"
	"time"

	"github.com/enfein/mieru/v3/apis/trafficpattern"
	"github.com/enfein/mieru/v3/pkg/appctl/appctlpb"
	"github.com/enfein/mieru/v3/pkg/cipher"
	"github.com/enfein/mieru/v3/pkg/common"
	"github.com/enfein/mieru/v3/pkg/log"
	"github.com/enfein/mieru/v3/pkg/protocol"
	"google.golang.org/protobuf/proto"
	"verifharness/simnet"
)

type Opts struct {
	Transport     string // "tcp" or "udp"
	MTU           int
	ServerMTU     int               // 0 = MTU
	Users         map[string]string // name -> password (server side)
	ClientUser    string
	ClientPass    string
	ServerPattern *appctlpb.TrafficPattern
	ClientPattern *appctlpb.TrafficPattern
	Multiplex     int
	ServerIP      string
	ServerPort    int
	HintMandatory bool
	Quotas        map[string][]*appctlpb.Quota // optional per-user quotas
	Net           *simnet.Net                  // optional existing network
}

type Rig struct {
	Opts     Opts
	Net      *simnet.Net
	Server   *protocol.Mux
	Client   *protocol.Mux
	Accepted chan net.Conn
	wg       sync.WaitGroup
}

func init() {
	log.SetOutput(io.Discard)
	log.SetLevel("FATAL")
	// The Go 1.23 faketime runtime was seen to deadlock inside a garbage collection that starts while
	// goroutines sleep on virtual timers (observed by the C01 driver: 2 hangs in 26 runs, none in 16 runs
	// with this mitigation). Collect only between scenarios (StartServer), never during one.
	debug.SetGCPercent(-1)
}

func (o *Opts) defaults() {
	if o.Transport == "" {
		o.Transport = "tcp"
	}
	if o.MTU == 0 {
		o.MTU = 1400
	}
	if o.ServerMTU == 0 {
		o.ServerMTU = o.MTU
	}
	if o.Users == nil {
		o.Users = map[string]string{"alice": "alice-password"}
	}
	if o.ClientUser == "" {
		o.ClientUser = "alice"
		o.ClientPass = o.Users["alice"]
	}
	if o.ServerIP == "" {
		o.ServerIP = "192.0.2.1"
	}
	if o.ServerPort == 0 {
		o.ServerPort = 8964
	}
}

func (o *Opts) tp() common.TransportProtocol {
	if o.Transport == "udp" {
		return common.PacketTransport
	}
	return common.StreamTransport
}

func (o *Opts) serverAddr() net.Addr {
	if o.Transport == "udp" {
		return &net.UDPAddr{IP: net.ParseIP(o.ServerIP), Port: o.ServerPort}
	}
	return &net.TCPAddr{IP: net.ParseIP(o.ServerIP), Port: o.ServerPort}
}

// StartServer starts only the server side.
func StartServer(o Opts) (*Rig, error) {
	runtime.GC()
	o.defaults()
	r := &Rig{Opts: o, Net: o.Net, Accepted: make(chan net.Conn, 1024)}
	if r.Net == nil {
		r.Net = simnet.New()
	}
	users := map[string]*appctlpb.User{}
	for n, p := range o.Users {
		users[n] = &appctlpb.User{Name: proto.String(n), Password: proto.String(p), Quotas: o.Quotas[n]}
	}
	sp := protocol.NewUnderlayProperties(o.ServerMTU, o.tp(), o.serverAddr(), nil)
	r.Server = protocol.NewMux(false).
		SetServerUsers(users).
		SetServerUserHintIsMandatory(o.HintMandatory).
		SetStreamListenerFactory(r.Net).
		SetPacketListenerFactory(simnet.PacketListener{N: r.Net}).
		SetResolver(nil).
		SetEndpoints([]protocol.UnderlayProperties{sp})
	if o.ServerPattern != nil {
		cfg, err := trafficpattern.NewConfig(o.ServerPattern)
		if err != nil {
			return nil, fmt.Errorf("server pattern: %w", err)
		}
		r.Server.SetTrafficPattern(cfg)
	}
	if err := r.Server.Start(); err != nil {
		return nil, fmt.Errorf("server Start: %w", err)
	}
	r.wg.Add(1)
	go func() {
		defer r.wg.Done()
		for {
			c, err := r.Server.Accept()
			if err != nil {
				return
			}
			r.Accepted <- c
		}
	}()
	return r, nil
}

// NewClient creates a client Mux for user/pass on this rig's network.
func (r *Rig) NewClient(user, pass string, pattern *appctlpb.TrafficPattern, srcIP string) (*protocol.Mux, error) {
	o := r.Opts
	cp := protocol.NewUnderlayProperties(o.MTU, o.tp(), nil, o.serverAddr())
	m := protocol.NewMux(true).
		SetClientUserNamePassword(user, cipher.HashPassword([]byte(pass), []byte(user))).
		SetClientMultiplexFactor(o.Multiplex).
		SetDialer(dialerFrom{r.Net, srcIP}).
		SetPacketDialer(simnet.PacketDialer{N: r.Net, SrcIP: srcIP}).
		SetResolver(nil).
		SetEndpoints([]protocol.UnderlayProperties{cp})
	if pattern != nil {
		cfg, err := trafficpattern.NewConfig(pattern)
		if err != nil {
			return nil, fmt.Errorf("client pattern: %w", err)
		}
		m.SetTrafficPattern(cfg)
	}
	return m, nil
}

type dialerFrom struct {
	n  *simnet.Net
	ip string
}

func (d dialerFrom) DialContext(ctx context.Context, network, address string) (net.Conn, error) {
	ip := d.ip
	if ip == "" {
		ip = d.n.ClientIP
	}
	c, err := d.n.DialFrom(ip, address)
	if err != nil {
		return nil, err
	}
	return c, nil
}

// Start starts server and one client mux.
func Start(o Opts) (*Rig, error) {
	r, err := StartServer(o)
	if err != nil {
		return nil, err
	}
	r.Client, err = r.NewClient(r.Opts.ClientUser, r.Opts.ClientPass, r.Opts.ClientPattern, "")
	if err != nil {
		return nil, err
	}
	return r, nil
}

// Dial opens a client session.
func (r *Rig) Dial() (net.Conn, error) {
	ctx, cancel := context.WithTimeout(context.Background(), 10*time.Second)
	defer cancel()
	return r.Client.DialContext(ctx)
}

// Accept waits for the next server-side session.
func (r *Rig) Accept(timeout time.Duration) (net.Conn, error) {
	select {
	case c := <-r.Accepted:
		return c, nil
	case <-time.After(timeout):
		return nil, fmt.Errorf("no session accepted within %v", timeout)
	}
}

func (r *Rig) Close() {
	if r.Client != nil {
		r.Client.Close()
	}
	if r.Server != nil {
		r.Server.Close()
	}
	r.wg.Wait()
}
