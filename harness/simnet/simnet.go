// Package simnet is an in-memory network for driving real mieru endpoints:
// TCP byte pipes with adversarial chunking / mutation / bounded buffers / reset,
// and UDP sockets whose datagrams are dropped, duplicated, delayed, reordered or
// tampered with according to a schedule. Every byte and datagram that crosses the
// network and every delivery to an endpoint is appended to one ordered event log.
//
// It plugs into mieru through the public injection points of protocol.Mux /
// apis: Dialer, PacketDialer, StreamListenerFactory, PacketListenerFactory.
// Deadlines behave like real sockets (setting a deadline wakes a blocked read),
// which mieru's event loops rely on. Works under Go's faketime runtime mode.
package simnet

import (
	"context"
	"fmt"
	"io"
	"net"
	"os"
	"sync"
	"time"
)

// ---------------------------------------------------------------- event log

type Event struct {
	T    int64  // unix ns (virtual under faketime)
	Kind string // tcp-write, tcp-read, udp-send, udp-recv, udp-drop, tcp-close, tcp-reset, tcp-dial, tcp-accept
	Conn int    // TCP connection id or 0
	Src  string
	Dst  string
	ID   int // datagram id (udp-send); udp-recv / udp-drop refer to it
	Data []byte
	Note string
}

type Log struct {
	mu     sync.Mutex
	Events []Event
	Off    bool
}

func (l *Log) add(e Event) {
	if l == nil || l.Off {
		return
	}
	e.T = time.Now().UnixNano()
	l.mu.Lock()
	l.Events = append(l.Events, e)
	l.mu.Unlock()
}

func (l *Log) Snapshot() []Event {
	l.mu.Lock()
	defer l.mu.Unlock()
	out := make([]Event, len(l.Events))
	copy(out, l.Events)
	return out
}

// ---------------------------------------------------------------- network

type Addr struct {
	Net string
	IP  string
	Prt int
}

func (a Addr) Network() string { return a.Net }
func (a Addr) String() string  { return net.JoinHostPort(a.IP, fmt.Sprint(a.Prt)) }

// Delivery is one arrival of a datagram at its destination.
type Delivery struct {
	Delay time.Duration // in addition to the network latency
	Data  []byte        // nil = original bytes
}

// Datagram describes one WriteTo call seen by the fate function.
type Datagram struct {
	ID   int
	Src  string
	Dst  string
	Data []byte
	Seq  int // index among datagrams from Src to Dst
}

// PipePolicy shapes one direction of a TCP connection.
type PipePolicy struct {
	// Chunk returns how many of the avail buffered bytes the next Read may return (>=1). nil = all.
	Chunk func(avail int) int
	// Transform may rewrite/insert/delete bytes as they are written; off is the stream offset of data. nil = identity.
	Transform func(off int64, data []byte) []byte
	// Cap bounds the bytes buffered in flight (writer blocks when full). 0 = unbounded.
	Cap int
}

type Net struct {
	mu        sync.Mutex
	listeners map[string]*Listener
	socks     map[string]*PacketConn
	nextPort  int
	nextConn  int
	nextDgram int
	pairSeq   map[string]int

	Log     *Log
	Latency time.Duration
	// Fate decides what happens to a datagram; nil = deliver once.
	Fate func(d *Datagram) []Delivery
	// TCPPolicy returns the policies for the two directions of a new connection (client->server, server->client).
	TCPPolicy func(connID int, clientAddr, serverAddr string) (c2s, s2c *PipePolicy)
	// ClientIP is the source address given to dialed connections / sockets ("10.0.0.2" by default).
	ClientIP string
}

func New() *Net {
	return &Net{listeners: map[string]*Listener{}, socks: map[string]*PacketConn{}, nextPort: 40000, pairSeq: map[string]int{},
		Log: &Log{}, ClientIP: "10.0.0.2"}
}

func (n *Net) allocPort() int {
	n.nextPort++
	return n.nextPort
}

// ---------------------------------------------------------------- TCP

type pipe struct {
	mu       sync.Mutex
	cond     *sync.Cond
	buf      []byte
	wclosed  bool  // writer closed: EOF after drain
	rclosed  bool  // reader closed: writes fail
	reset    error // connection reset
	rdl      time.Time
	wdl      time.Time
	rtimer   *time.Timer
	wtimer   *time.Timer
	pol      *PipePolicy
	written  int64
	log      *Log
	connID   int
	src, dst string
}

func newPipe(pol *PipePolicy, log *Log, connID int, src, dst string) *pipe {
	p := &pipe{pol: pol, log: log, connID: connID, src: src, dst: dst}
	p.cond = sync.NewCond(&p.mu)
	return p
}

func (p *pipe) read(b []byte) (int, error) {
	p.mu.Lock()
	defer p.mu.Unlock()
	for {
		if p.reset != nil {
			return 0, p.reset
		}
		if p.rclosed {
			return 0, net.ErrClosed
		}
		if len(b) == 0 {
			return 0, nil
		}
		if len(p.buf) > 0 {
			n := len(p.buf)
			if n > len(b) {
				n = len(b)
			}
			if p.pol != nil && p.pol.Chunk != nil {
				c := p.pol.Chunk(n)
				if c < 1 {
					c = 1
				}
				if c < n {
					n = c
				}
			}
			copy(b, p.buf[:n])
			p.buf = p.buf[n:]
			if len(p.buf) == 0 {
				p.buf = nil
			}
			p.cond.Broadcast()
			return n, nil
		}
		if p.wclosed {
			return 0, errEOF
		}
		if !p.rdl.IsZero() && !time.Now().Before(p.rdl) {
			return 0, os.ErrDeadlineExceeded
		}
		p.cond.Wait()
	}
}

func (p *pipe) write(b []byte) (int, error) {
	p.mu.Lock()
	defer p.mu.Unlock()
	if p.reset != nil {
		return 0, p.reset
	}
	if p.wclosed {
		return 0, net.ErrClosed
	}
	if p.rclosed {
		return 0, errBrokenPipe
	}
	data := b
	if p.pol != nil && p.pol.Transform != nil {
		data = p.pol.Transform(p.written, append([]byte(nil), b...))
	}
	p.written += int64(len(b))
	p.log.add(Event{Kind: "tcp-write", Conn: p.connID, Src: p.src, Dst: p.dst, Data: append([]byte(nil), b...)})
	if p.pol != nil && p.pol.Cap > 0 {
		// bounded buffer: block while full
		off := 0
		for off < len(data) {
			for len(p.buf) >= p.pol.Cap {
				if p.reset != nil {
					return off, p.reset
				}
				if p.rclosed {
					return off, errBrokenPipe
				}
				if p.wclosed {
					return off, net.ErrClosed
				}
				if !p.wdl.IsZero() && !time.Now().Before(p.wdl) {
					return off, os.ErrDeadlineExceeded
				}
				p.cond.Wait()
			}
			n := p.pol.Cap - len(p.buf)
			if n > len(data)-off {
				n = len(data) - off
			}
			p.buf = append(p.buf, data[off:off+n]...)
			off += n
			p.cond.Broadcast()
		}
		return len(b), nil
	}
	p.buf = append(p.buf, data...)
	p.cond.Broadcast()
	return len(b), nil
}

var errEOF error = io.EOF
var errBrokenPipe = &net.OpError{Op: "write", Net: "tcp", Err: fmt.Errorf("broken pipe")}

// Conn is one end of a simulated TCP connection.
type Conn struct {
	rd, wr        *pipe
	local, remote Addr
	id            int
	once          sync.Once
	net           *Net
}

func (c *Conn) Read(b []byte) (int, error)  { return c.rd.read(b) }
func (c *Conn) Write(b []byte) (int, error) { return c.wr.write(b) }
func (c *Conn) LocalAddr() net.Addr         { return c.local }
func (c *Conn) RemoteAddr() net.Addr        { return c.remote }
func (c *Conn) ID() int                     { return c.id }

func (c *Conn) Close() error {
	c.once.Do(func() {
		c.net.Log.add(Event{Kind: "tcp-close", Conn: c.id, Src: c.local.String(), Dst: c.remote.String()})
		c.wr.mu.Lock()
		c.wr.wclosed = true
		c.wr.cond.Broadcast()
		c.wr.mu.Unlock()
		c.rd.mu.Lock()
		c.rd.rclosed = true
		c.rd.cond.Broadcast()
		c.rd.mu.Unlock()
	})
	return nil
}

// Reset aborts the connection in both directions (both ends see an error).
func (c *Conn) Reset() {
	c.net.Log.add(Event{Kind: "tcp-reset", Conn: c.id, Src: c.local.String(), Dst: c.remote.String()})
	err := &net.OpError{Op: "read", Net: "tcp", Err: fmt.Errorf("connection reset by peer")}
	for _, p := range []*pipe{c.rd, c.wr} {
		p.mu.Lock()
		p.reset = err
		p.cond.Broadcast()
		p.mu.Unlock()
	}
}

func setDL(p *pipe, t time.Time, read bool) {
	p.mu.Lock()
	defer p.mu.Unlock()
	if read {
		p.rdl = t
		if p.rtimer != nil {
			p.rtimer.Stop()
			p.rtimer = nil
		}
	} else {
		p.wdl = t
		if p.wtimer != nil {
			p.wtimer.Stop()
			p.wtimer = nil
		}
	}
	if !t.IsZero() {
		d := time.Until(t)
		if d < 0 {
			d = 0
		}
		tm := time.AfterFunc(d, func() {
			p.mu.Lock()
			p.cond.Broadcast()
			p.mu.Unlock()
		})
		if read {
			p.rtimer = tm
		} else {
			p.wtimer = tm
		}
	}
	p.cond.Broadcast()
}

func (c *Conn) SetDeadline(t time.Time) error {
	setDL(c.rd, t, true)
	setDL(c.wr, t, false)
	return nil
}
func (c *Conn) SetReadDeadline(t time.Time) error  { setDL(c.rd, t, true); return nil }
func (c *Conn) SetWriteDeadline(t time.Time) error { setDL(c.wr, t, false); return nil }

// Pending reports bytes written by the peer that this end has not read yet.
func (c *Conn) Pending() int {
	c.rd.mu.Lock()
	defer c.rd.mu.Unlock()
	return len(c.rd.buf)
}

type Listener struct {
	net    *Net
	addr   Addr
	ch     chan *Conn
	done   chan struct{}
	once   sync.Once
}

func (l *Listener) Accept() (net.Conn, error) {
	select {
	case c := <-l.ch:
		return c, nil
	case <-l.done:
		return nil, net.ErrClosed
	}
}
func (l *Listener) Close() error {
	l.once.Do(func() {
		close(l.done)
		l.net.mu.Lock()
		if l.net.listeners[l.addr.String()] == l {
			delete(l.net.listeners, l.addr.String())
		}
		l.net.mu.Unlock()
	})
	return nil
}
func (l *Listener) Addr() net.Addr { return l.addr }

// Listen implements apis/common.StreamListenerFactory.
func (n *Net) Listen(ctx context.Context, network, address string) (net.Listener, error) {
	host, port, err := splitHostPort(address)
	if err != nil {
		return nil, err
	}
	l := &Listener{net: n, addr: Addr{"tcp", host, port}, ch: make(chan *Conn, 256), done: make(chan struct{})}
	n.mu.Lock()
	defer n.mu.Unlock()
	if _, ok := n.listeners[l.addr.String()]; ok {
		return nil, fmt.Errorf("simnet: address %s already in use", address)
	}
	n.listeners[l.addr.String()] = l
	return l, nil
}

// DialFrom connects to a listener from the given source IP; returns the client end.
func (n *Net) DialFrom(srcIP, address string) (*Conn, error) {
	host, port, err := splitHostPort(address)
	if err != nil {
		return nil, err
	}
	dst := Addr{"tcp", host, port}
	n.mu.Lock()
	l := n.listeners[dst.String()]
	n.nextConn++
	id := n.nextConn
	src := Addr{"tcp", srcIP, n.allocPort()}
	pol := n.TCPPolicy
	n.mu.Unlock()
	if l == nil {
		return nil, &net.OpError{Op: "dial", Net: "tcp", Err: fmt.Errorf("connection refused")}
	}
	var c2sPol, s2cPol *PipePolicy
	if pol != nil {
		c2sPol, s2cPol = pol(id, src.String(), dst.String())
	}
	c2s := newPipe(c2sPol, n.Log, id, src.String(), dst.String())
	s2c := newPipe(s2cPol, n.Log, id, dst.String(), src.String())
	cc := &Conn{rd: s2c, wr: c2s, local: src, remote: dst, id: id, net: n}
	sc := &Conn{rd: c2s, wr: s2c, local: dst, remote: src, id: id, net: n}
	n.Log.add(Event{Kind: "tcp-dial", Conn: id, Src: src.String(), Dst: dst.String()})
	select {
	case l.ch <- sc:
	case <-l.done:
		return nil, &net.OpError{Op: "dial", Net: "tcp", Err: fmt.Errorf("connection refused")}
	}
	return cc, nil
}

// DialContext implements apis/common.Dialer.
func (n *Net) DialContext(ctx context.Context, network, address string) (net.Conn, error) {
	c, err := n.DialFrom(n.ClientIP, address)
	if err != nil {
		return nil, err
	}
	return c, nil
}

// ---------------------------------------------------------------- UDP

type inDgram struct {
	data []byte
	from Addr
	id   int
}

type PacketConn struct {
	net    *Net
	addr   Addr
	mu     sync.Mutex
	cond   *sync.Cond
	q      []inDgram
	closed bool
	rdl    time.Time
	rtimer *time.Timer
}

func (n *Net) newSock(a Addr) (*PacketConn, error) {
	pc := &PacketConn{net: n, addr: a}
	pc.cond = sync.NewCond(&pc.mu)
	n.mu.Lock()
	defer n.mu.Unlock()
	if _, ok := n.socks[a.String()]; ok {
		return nil, fmt.Errorf("simnet: address %s already in use", a.String())
	}
	n.socks[a.String()] = pc
	return pc, nil
}

// ListenPacketAt implements apis/common.PacketListenerFactory (3-arg form is provided by PacketListener).
func (n *Net) ListenPacketAt(address string) (*PacketConn, error) {
	host, port, err := splitHostPort(address)
	if err != nil {
		return nil, err
	}
	return n.newSock(Addr{"udp", host, port})
}

// NewClientSock opens a socket on a fresh port of the given source IP.
func (n *Net) NewClientSock(srcIP string) (*PacketConn, error) {
	n.mu.Lock()
	p := n.allocPort()
	n.mu.Unlock()
	return n.newSock(Addr{"udp", srcIP, p})
}

// PacketListener adapts Net to apis/common.PacketListenerFactory.
type PacketListener struct{ N *Net }

func (p PacketListener) ListenPacket(ctx context.Context, network, address string) (net.PacketConn, error) {
	return p.N.ListenPacketAt(address)
}

// PacketDialer adapts Net to apis/common.PacketDialer.
type PacketDialer struct {
	N     *Net
	SrcIP string
}

func (p PacketDialer) ListenPacket(ctx context.Context, network, laddr, raddr string) (net.PacketConn, error) {
	ip := p.SrcIP
	if ip == "" {
		ip = p.N.ClientIP
	}
	return p.N.NewClientSock(ip)
}

func (pc *PacketConn) LocalAddr() net.Addr { return udpAddr(pc.addr) }

func udpAddr(a Addr) *net.UDPAddr { return &net.UDPAddr{IP: net.ParseIP(a.IP), Port: a.Prt} }

func (pc *PacketConn) ReadFrom(b []byte) (int, net.Addr, error) {
	pc.mu.Lock()
	defer pc.mu.Unlock()
	for {
		if pc.closed {
			return 0, nil, net.ErrClosed
		}
		if len(pc.q) > 0 {
			d := pc.q[0]
			pc.q = pc.q[1:]
			n := copy(b, d.data)
			pc.net.Log.add(Event{Kind: "udp-recv", Src: d.from.String(), Dst: pc.addr.String(), ID: d.id, Data: d.data})
			return n, udpAddr(d.from), nil
		}
		if !pc.rdl.IsZero() && !time.Now().Before(pc.rdl) {
			return 0, nil, os.ErrDeadlineExceeded
		}
		pc.cond.Wait()
	}
}

// Inject places a datagram into this socket's receive queue as if it came from `from`.
func (pc *PacketConn) inject(d inDgram) {
	pc.mu.Lock()
	if !pc.closed {
		pc.q = append(pc.q, d)
		pc.cond.Broadcast()
	}
	pc.mu.Unlock()
}

func (pc *PacketConn) WriteTo(b []byte, addr net.Addr) (int, error) {
	pc.mu.Lock()
	closed := pc.closed
	pc.mu.Unlock()
	if closed {
		return 0, net.ErrClosed
	}
	n := pc.net
	dst := addr.String()
	data := append([]byte(nil), b...)
	n.mu.Lock()
	n.nextDgram++
	id := n.nextDgram
	key := pc.addr.String() + ">" + dst
	seq := n.pairSeq[key]
	n.pairSeq[key] = seq + 1
	fate := n.Fate
	lat := n.Latency
	n.mu.Unlock()
	n.Log.add(Event{Kind: "udp-send", Src: pc.addr.String(), Dst: dst, ID: id, Data: data})
	dg := &Datagram{ID: id, Src: pc.addr.String(), Dst: dst, Data: data, Seq: seq}
	dels := []Delivery{{}}
	if fate != nil {
		dels = fate(dg)
	}
	if len(dels) == 0 {
		n.Log.add(Event{Kind: "udp-drop", Src: pc.addr.String(), Dst: dst, ID: id})
	}
	for _, dl := range dels {
		payload := data
		if dl.Data != nil {
			payload = dl.Data
		}
		from := pc.addr
		deliver := func() {
			n.mu.Lock()
			target := n.socks[dst]
			n.mu.Unlock()
			if target != nil {
				target.inject(inDgram{data: payload, from: from, id: id})
			}
		}
		if lat+dl.Delay <= 0 {
			deliver()
		} else {
			time.AfterFunc(lat+dl.Delay, deliver)
		}
	}
	return len(b), nil
}

// SendRaw sends a datagram from an arbitrary source address (attacker / replayer) without a socket.
func (n *Net) SendRaw(from Addr, dst string, data []byte) {
	n.mu.Lock()
	n.nextDgram++
	id := n.nextDgram
	target := n.socks[dst]
	n.mu.Unlock()
	n.Log.add(Event{Kind: "udp-send", Src: from.String(), Dst: dst, ID: id, Data: data, Note: "raw"})
	if target != nil {
		target.inject(inDgram{data: append([]byte(nil), data...), from: from, id: id})
	}
}

func (pc *PacketConn) Close() error {
	pc.mu.Lock()
	pc.closed = true
	pc.cond.Broadcast()
	pc.mu.Unlock()
	pc.net.mu.Lock()
	if pc.net.socks[pc.addr.String()] == pc {
		delete(pc.net.socks, pc.addr.String())
	}
	pc.net.mu.Unlock()
	return nil
}

func (pc *PacketConn) SetDeadline(t time.Time) error { return pc.SetReadDeadline(t) }
func (pc *PacketConn) SetReadDeadline(t time.Time) error {
	pc.mu.Lock()
	defer pc.mu.Unlock()
	pc.rdl = t
	if pc.rtimer != nil {
		pc.rtimer.Stop()
		pc.rtimer = nil
	}
	if !t.IsZero() {
		d := time.Until(t)
		if d < 0 {
			d = 0
		}
		pc.rtimer = time.AfterFunc(d, func() {
			pc.mu.Lock()
			pc.cond.Broadcast()
			pc.mu.Unlock()
		})
	}
	pc.cond.Broadcast()
	return nil
}
func (pc *PacketConn) SetWriteDeadline(t time.Time) error { return nil }

func splitHostPort(address string) (string, int, error) {
	h, p, err := net.SplitHostPort(address)
	if err != nil {
		return "", 0, err
	}
	var port int
	if _, err := fmt.Sscanf(p, "%d", &port); err != nil {
		return "", 0, err
	}
	return h, port, nil
}
