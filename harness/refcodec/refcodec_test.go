package refcodec

import (
	"bytes"
	"encoding/hex"
	"math/bits"
	"math/rand"
	"reflect"
	"testing"
	"time"
)

func TestSlotOf(t *testing.T) {
	cases := []struct{ in, want int64 }{
		{0, 0}, {59, 0}, {60, 120}, {119, 120}, {120, 120}, {179, 120}, {180, 240}, {1700000000, 1700000040},
	}
	for _, c := range cases {
		if got := SlotOf(time.Unix(c.in, 999999999)); got != c.want {
			t.Errorf("SlotOf(%d)=%d want %d", c.in, got, c.want)
		}
	}
	// must agree with time.Round
	for i := 0; i < 1000; i++ {
		tm := time.Unix(rand.Int63n(4e9), rand.Int63n(1e9))
		if SlotOf(tm) != tm.Round(2*time.Minute).Unix() {
			t.Fatalf("SlotOf(%v) != time.Round", tm)
		}
	}
}

func TestKeys(t *testing.T) {
	hp := HashedPassword("user", "pass")
	if len(hp) != 32 {
		t.Fatal("hashed password length")
	}
	ks := KeysAt(hp, time.Unix(1700000000, 0))
	if !bytes.Equal(ks[1], DeriveKey(hp, 1700000040)) || !bytes.Equal(ks[0], DeriveKey(hp, 1699999920)) || !bytes.Equal(ks[2], DeriveKey(hp, 1700000160)) {
		t.Fatal("KeysAt slots")
	}
	if len(ks[0]) != 32 || bytes.Equal(ks[0], ks[1]) {
		t.Fatal("key")
	}
}

func TestHint(t *testing.T) {
	n := make([]byte, 24)
	for i := range n {
		n[i] = byte(i)
	}
	SetUserHint("alice", n)
	if !HasUserHint("alice", n) || HasUserHint("bob", n) {
		t.Fatal("hint")
	}
	for i := 0; i < 20; i++ {
		if n[i] != byte(i) {
			t.Fatal("hint changed the nonce prefix")
		}
	}
}

func TestNonceInc(t *testing.T) {
	n := bytes.Repeat([]byte{0xff}, 24)
	if !bytes.Equal(NonceInc(n), make([]byte, 24)) {
		t.Fatal("wrap")
	}
	n[0] = 0
	w := make([]byte, 24)
	w[0] = 1
	if !bytes.Equal(NonceInc(n), w) {
		t.Fatal("carry")
	}
}

func randMeta(r *rand.Rand, proto uint8) Meta {
	m := Meta{Proto: proto, Timestamp: r.Uint32(), SessionID: r.Uint32(), Seq: r.Uint32()}
	if m.IsSession() {
		m.StatusCode = uint8(r.Intn(256))
		m.PayloadLen = uint16(r.Intn(1025))
		m.SuffixLen = uint8(r.Intn(256))
		return m
	}
	m.UnAckSeq, m.WindowSize, m.Fragment, m.PrefixLen, m.SuffixLen = r.Uint32(), uint16(r.Intn(65536)), uint8(r.Intn(256)), uint8(r.Intn(256)), uint8(r.Intn(256))
	if m.IsAck() {
		return m
	}
	m.PayloadLen = uint16(r.Intn(32769))
	if m.IsLowEntropy() {
		m.LEMode = uint8(1 + r.Intn(4))
		m.LEMask = randMask(r, m.LEMode)
		m.LERot = randRot(r)
		m.ExtractedLen = uint16(r.Intn(32765))
		m.PayloadLen = uint16(LEEncodedLen(m.LEMode, int(m.ExtractedLen)))
	}
	return m
}

func randMask(r *rand.Rand, mode uint8) uint32 {
	want := 4 * LESourceBytes(mode)
	var m uint32
	for bits.OnesCount32(m) < want {
		m |= 1 << uint(r.Intn(32))
	}
	return m
}

func randRot(r *rand.Rand) uint8 {
	switch r.Intn(3) {
	case 0:
		return 0
	case 1:
		return uint8(1 + r.Intn(15))
	}
	return uint8(16 * (1 + r.Intn(15)))
}

func TestMetaRoundTrip(t *testing.T) {
	r := rand.New(rand.NewSource(1))
	for p := 2; p <= 11; p++ {
		for i := 0; i < 200; i++ {
			m := randMeta(r, uint8(p))
			b := m.Marshal()
			got, err := ParseMeta(b[:])
			if err != nil || !reflect.DeepEqual(got, m) {
				t.Fatalf("proto %d: %+v -> %x -> %+v, %v", p, m, b, got, err)
			}
		}
	}
	for _, p := range []int{0, 1, 12, 255} {
		b := Meta{Proto: uint8(p)}.Marshal()
		if _, err := ParseMeta(b[:]); err == nil {
			t.Fatalf("proto %d accepted", p)
		}
	}
}

func TestMetaOffsets(t *testing.T) {
	m := Meta{Proto: 11, LEMode: 0x01, Timestamp: 0x02030405, SessionID: 0x06070809, Seq: 0x0a0b0c0d, UnAckSeq: 0x0e0f1011,
		WindowSize: 0x1213, Fragment: 0x14, PrefixLen: 0x15, PayloadLen: 0x1617, SuffixLen: 0x18, LEMask: 0x191a1b1c, ExtractedLen: 0x1d1e, LERot: 0x1f}
	b := m.Marshal()
	want, _ := hex.DecodeString("0b0102030405060708090a0b0c0d0e0f101112131415161718191a1b1c1d1e1f")
	if !bytes.Equal(b[:], want) {
		t.Fatalf("low entropy layout: %x", b)
	}
	s := Meta{Proto: 2, Timestamp: 0x02030405, SessionID: 0x06070809, Seq: 0x0a0b0c0d, StatusCode: 0x0e, PayloadLen: 0x0f10, SuffixLen: 0x11}
	b = s.Marshal()
	want, _ = hex.DecodeString("020002030405060708090a0b0c0d0e0f10110000000000000000000000000000")
	if !bytes.Equal(b[:], want) {
		t.Fatalf("session layout: %x", b)
	}
}

func TestLEDocExample(t *testing.T) {
	src := []byte{0x12, 0x34, 0x56, 0x78}
	e0, err := LEEncode(src, 1, 0x0f0f0f0f, 0, false)
	if err != nil || hex.EncodeToString(e0) != "0102030405060708" {
		t.Fatalf("pad 0: %x %v", e0, err)
	}
	e1, _ := LEEncode(src, 1, 0x0f0f0f0f, 0, true)
	if hex.EncodeToString(e1) != "f1f2f3f4f5f6f7f8" {
		t.Fatalf("pad 1: %x", e1)
	}
	for _, e := range [][]byte{e0, e1} {
		d, err := LEDecode(e, 1, 0x0f0f0f0f, 0, 4)
		if err != nil || !bytes.Equal(d, src) {
			t.Fatalf("decode %x: %x %v", e, d, err)
		}
	}
}

func TestLERoundTrip(t *testing.T) {
	r := rand.New(rand.NewSource(2))
	for i := 0; i < 3000; i++ {
		mode := uint8(1 + r.Intn(4))
		mask, rot := randMask(r, mode), randRot(r)
		body := make([]byte, r.Intn(200))
		r.Read(body)
		pad := r.Intn(2) == 1
		enc, err := LEEncode(body, mode, mask, rot, pad)
		if err != nil || len(enc) != LEEncodedLen(mode, len(body)) {
			t.Fatal(err, len(enc))
		}
		dec, err := LEDecode(enc, mode, mask, rot, len(body))
		if err != nil || !bytes.Equal(dec, body) {
			t.Fatalf("mode %d mask %08x rot %d len %d: %v", mode, mask, rot, len(body), err)
		}
		if len(enc) > 8 {
			// flip one padding bit of the last chunk: must be rejected
			c := LESourceBytes(mode)
			last := len(enc)/8 - 1
			k := len(body) - last*c
			data := lowOnes(leMaskFor(mask, rot, last), 8*k)
			bit := uint(bits.TrailingZeros64(^data))
			bad := append([]byte(nil), enc...)
			bad[8*last+7-int(bit/8)] ^= 1 << (bit % 8)
			if _, err := LEDecode(bad, mode, mask, rot, len(body)); err == nil {
				t.Fatal("mixed padding accepted")
			}
		}
	}
	if _, err := LEEncode([]byte{1}, 5, 0, 0, false); err == nil {
		t.Fatal("mode 5")
	}
	if _, err := LEEncode([]byte{1}, 1, 0x0f0f0f0f, 0x11, false); err == nil {
		t.Fatal("rot 0x11")
	}
	if _, err := LEEncode([]byte{1}, 2, 0x0f0f0f0f, 0, false); err == nil {
		t.Fatal("mask population")
	}
}

func segEqual(a, b Segment) bool {
	return reflect.DeepEqual(a.Meta, b.Meta) && bytes.Equal(a.Payload, b.Payload) && bytes.Equal(a.Prefix, b.Prefix) && bytes.Equal(a.Suffix, b.Suffix)
}

func randSeg(r *rand.Rand, proto uint8, maxPayload int) Segment {
	m := randMeta(r, proto)
	s := Segment{Meta: m}
	if !m.IsAck() {
		if m.IsSession() && maxPayload > 1024 {
			maxPayload = 1024
		}
		s.Payload = make([]byte, r.Intn(maxPayload+1))
		r.Read(s.Payload)
		if len(s.Payload) == 0 {
			s.Payload = nil
		}
	}
	if !m.IsSession() {
		s.Prefix = make([]byte, r.Intn(256))
		r.Read(s.Prefix)
	}
	s.Suffix = make([]byte, r.Intn(256))
	r.Read(s.Suffix)
	return s
}

// normalise sets the length fields the encoder computes.
func normalise(s Segment) Segment {
	m, _ := encodeBody(s, false, func(p []byte) []byte { return make([]byte, len(p)+TagLen) })
	s.Meta = m
	return s
}

func TestStreamRoundTripAllChunkings(t *testing.T) {
	r := rand.New(rand.NewSource(3))
	hp := HashedPassword("u", "p")
	now := time.Unix(1700000000, 0)
	keys := KeysAt(hp, now)
	for trial := 0; trial < 40; trial++ {
		nonce := make([]byte, 24)
		r.Read(nonce)
		SetUserHint("u", nonce)
		enc := NewStreamEncoder(keys[r.Intn(3)], nonce)
		enc.LEPadOne = r.Intn(2) == 1
		var want []Segment
		var wire []byte
		n := 1 + r.Intn(8)
		for i := 0; i < n; i++ {
			s := randSeg(r, uint8(2+r.Intn(10)), 300)
			b := enc.Encode(s)
			s = normalise(s)
			s.WireLen = len(b)
			want = append(want, s)
			wire = append(wire, b...)
		}
		dec := NewStreamDecoder(keys[:])
		var got []Segment
		for len(wire) > 0 {
			k := 1 + r.Intn(100)
			if k > len(wire) {
				k = len(wire)
			}
			segs, err := dec.Feed(wire[:k])
			if err != nil {
				t.Fatal(err)
			}
			got = append(got, segs...)
			wire = wire[k:]
		}
		if len(got) != len(want) || dec.Buffered() != 0 {
			t.Fatalf("got %d segments want %d", len(got), len(want))
		}
		for i := range got {
			if !segEqual(got[i], want[i]) || got[i].WireLen != want[i].WireLen {
				t.Fatalf("segment %d differs:\n%+v\n%+v", i, got[i].Meta, want[i].Meta)
			}
			if (i == 0) != (got[i].Nonce != nil) {
				t.Fatal("explicit nonce")
			}
		}
		if !bytes.Equal(got[0].Nonce, nonce) || !HasUserHint("u", got[0].Nonce) {
			t.Fatal("nonce")
		}
	}
}

func TestStreamMaxPayload(t *testing.T) {
	key := make([]byte, 32)
	nonce := make([]byte, 24)
	enc := NewStreamEncoder(key, nonce)
	p := bytes.Repeat([]byte{7}, 32768)
	w := enc.Encode(Segment{Meta: Meta{Proto: 6}, Payload: p})
	p2 := bytes.Repeat([]byte{9}, 32764)
	w = append(w, enc.Encode(Segment{Meta: Meta{Proto: 10, LEMode: 1, LEMask: 0x0f0f0f0f, LERot: 0x30}, Payload: p2})...)
	dec := NewStreamDecoder([][]byte{key})
	segs, err := dec.Feed(w)
	if err != nil || len(segs) != 2 || !bytes.Equal(segs[0].Payload, p) || !bytes.Equal(segs[1].Payload, p2) || segs[1].Meta.PayloadLen != 65528 {
		t.Fatal(err, len(segs))
	}
}

func TestStreamWrongKeyAndTamper(t *testing.T) {
	key := make([]byte, 32)
	other := bytes.Repeat([]byte{1}, 32)
	enc := NewStreamEncoder(key, make([]byte, 24))
	w := enc.Encode(Segment{Meta: Meta{Proto: 6}, Payload: []byte("hello")})
	if _, err := NewStreamDecoder([][]byte{other}).Feed(w); err == nil {
		t.Fatal("wrong key accepted")
	}
	w[len(w)-1] ^= 1
	d := NewStreamDecoder([][]byte{other, key})
	if _, err := d.Feed(w); err == nil {
		t.Fatal("tampered payload accepted")
	}
	if !bytes.Equal(d.Key(), key) {
		t.Fatal("Key()")
	}
}

func TestDatagramRoundTrip(t *testing.T) {
	r := rand.New(rand.NewSource(4))
	keys := KeysAt(HashedPassword("u", "p"), time.Unix(1700000000, 0))
	for i := 0; i < 300; i++ {
		nonce := make([]byte, 24)
		r.Read(nonce)
		s := randSeg(r, uint8(2+r.Intn(10)), 1200)
		k := keys[r.Intn(3)]
		d := EncodeDatagramPad(k, nonce, s, r.Intn(2) == 1)
		got, key, err := DecodeDatagram(keys[:], d)
		if err != nil || !bytes.Equal(key, k) || !segEqual(got, normalise(s)) || got.WireLen != len(d) || !bytes.Equal(got.Nonce, nonce) {
			t.Fatalf("datagram %d: %v", i, err)
		}
		if _, _, err := DecodeDatagram(keys[:], d[:len(d)-1]); err == nil && len(d) > 72 {
			t.Fatal("truncated datagram accepted")
		}
	}
}

func TestFrame(t *testing.T) {
	a, b := []byte("abc"), []byte{}
	s := append(FrameDatagram(a), FrameDatagram(b)...)
	s = append(s, 0x00, 0x00)
	pk, rest, err := UnframeStream(s)
	if err != nil || len(pk) != 2 || !bytes.Equal(pk[0], a) || len(pk[1]) != 0 || len(rest) != 2 {
		t.Fatal(pk, rest, err)
	}
	if hex.EncodeToString(FrameDatagram(a)) != "000003616263ff" {
		t.Fatal("frame bytes")
	}
	if _, _, err := UnframeStream([]byte{0, 0, 1, 5, 0xfe}); err == nil {
		t.Fatal("bad marker 2")
	}
	if _, _, err := UnframeStream([]byte{1}); err == nil {
		t.Fatal("bad marker 1")
	}
}
