package refcodec

import (
	"encoding/binary"
	"errors"
)

// UDP associate encapsulation (docs/protocol.md "UDP Associate Encapsulation"):
//
//	marker 1 = 0x00 | data length (2, big endian) | data | marker 2 = 0xff

var ErrFrame = errors.New("refcodec: malformed UDP associate frame")

// FrameDatagram wraps one socks5 UDP associate packet. len(data) must be <= 65535.
func FrameDatagram(data []byte) []byte {
	if len(data) > 0xffff {
		panic("refcodec: FrameDatagram: data longer than 65535 bytes")
	}
	out := make([]byte, 0, len(data)+4)
	out = append(out, 0x00, 0, 0)
	binary.BigEndian.PutUint16(out[1:3], uint16(len(data)))
	out = append(out, data...)
	return append(out, 0xff)
}

// UnframeStream splits a byte stream into the packets of all complete frames
// and returns the unconsumed tail (an incomplete frame). A wrong marker is an
// error; the packets decoded before it are still returned.
func UnframeStream(stream []byte) (packets [][]byte, rest []byte, err error) {
	for len(stream) > 0 {
		if stream[0] != 0x00 {
			return packets, stream, ErrFrame
		}
		if len(stream) < 3 {
			break
		}
		n := int(binary.BigEndian.Uint16(stream[1:3]))
		if len(stream) < 3+n+1 {
			break
		}
		if stream[3+n] != 0xff {
			return packets, stream, ErrFrame
		}
		packets = append(packets, append([]byte(nil), stream[3:3+n]...))
		stream = stream[4+n:]
	}
	return packets, stream, nil
}
