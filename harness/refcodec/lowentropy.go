package refcodec

import (
	"encoding/binary"
	"errors"
	"fmt"
	"math/bits"
)

var (
	ErrLEMode     = errors.New("refcodec: invalid low entropy mode")
	ErrLERotation = errors.New("refcodec: invalid low entropy rotation")
	ErrLEMask     = errors.New("refcodec: low entropy mask has the wrong population")
	ErrLELength   = errors.New("refcodec: inconsistent encoded and extracted lengths")
	ErrLEPadding  = errors.New("refcodec: mixed low entropy padding")
)

// leMaskFor returns the 64-bit mask of chunk i: the initial mask (half-mask
// repeated) rotated by i*R bits, right for rot 1..15, left for rot 16*R.
func leMaskFor(mask uint32, rot uint8, i int) uint64 {
	m := uint64(mask)<<32 | uint64(mask)
	switch {
	case rot == 0:
		return m
	case rot&0xf0 == 0: // right by rot
		return bits.RotateLeft64(m, -((i * int(rot)) % 64))
	default: // left by rot/16
		return bits.RotateLeft64(m, (i*int(rot>>4))%64)
	}
}

// deposit places the low-order bits of src into the one-positions of mask,
// lowest source bit into the lowest one-position (parallel bit deposit).
func deposit(src, mask uint64) uint64 {
	var out uint64
	for mask != 0 {
		low := mask & -mask
		if src&1 != 0 {
			out |= low
		}
		src >>= 1
		mask &^= low
	}
	return out
}

// extract is the inverse of deposit (parallel bit extract).
func extract(v, mask uint64) uint64 {
	var out uint64
	var k uint
	for mask != 0 {
		low := mask & -mask
		if v&low != 0 {
			out |= 1 << k
		}
		k++
		mask &^= low
	}
	return out
}

// lowOnes keeps the n lowest one-positions of mask.
func lowOnes(mask uint64, n int) uint64 {
	var out uint64
	for ; n > 0 && mask != 0; n-- {
		low := mask & -mask
		out |= low
		mask &^= low
	}
	return out
}

func leCheck(mode uint8, mask uint32, rot uint8) error {
	if mode < 1 || mode > 4 {
		return ErrLEMode
	}
	if !LEValidRotation(rot) {
		return ErrLERotation
	}
	if !LEValidMask(mode, mask) {
		return ErrLEMask
	}
	return nil
}

// LEEncode expands body (the AEAD ciphertext without its tag) into 8-byte
// chunks: every C source bytes, read as a big-endian integer, are deposited
// into the one-positions of the chunk's mask; all other positions carry the
// padding bit (padOne). Mode 0 is an error (README.md item 4).
func LEEncode(body []byte, mode uint8, mask uint32, rot uint8, padOne bool) ([]byte, error) {
	if err := leCheck(mode, mask, rot); err != nil {
		return nil, err
	}
	c := LESourceBytes(mode)
	n := (len(body) + c - 1) / c
	out := make([]byte, 8*n)
	for i := 0; i < n; i++ {
		chunk := body[i*c:]
		if len(chunk) > c {
			chunk = chunk[:c]
		}
		var v uint64
		for _, x := range chunk {
			v = v<<8 | uint64(x)
		}
		m := leMaskFor(mask, rot, i)
		data := lowOnes(m, 8*len(chunk)) // a partial chunk uses the low positions; the rest is padding
		w := deposit(v, data)
		if padOne {
			w |= ^data
		}
		binary.BigEndian.PutUint64(out[8*i:], w)
	}
	return out, nil
}

// LEDecode reverses LEEncode. The padding value is inferred from the first
// chunk; every non-data position of every chunk must carry it.
func LEDecode(enc []byte, mode uint8, mask uint32, rot uint8, extractedLen int) ([]byte, error) {
	if err := leCheck(mode, mask, rot); err != nil {
		return nil, err
	}
	if extractedLen < 0 || len(enc) != LEEncodedLen(mode, extractedLen) {
		return nil, fmt.Errorf("%w: %d encoded bytes for %d extracted bytes in mode %d", ErrLELength, len(enc), extractedLen, mode)
	}
	c := LESourceBytes(mode)
	out := make([]byte, 0, extractedLen)
	var pad uint64
	for i := 0; 8*i < len(enc); i++ {
		k := extractedLen - i*c
		if k > c {
			k = c
		}
		w := binary.BigEndian.Uint64(enc[8*i:])
		m := leMaskFor(mask, rot, i)
		data := lowOnes(m, 8*k)
		if i == 0 {
			// the first chunk always has at least 8 non-data positions
			if w&^data == ^data {
				pad = ^uint64(0)
			} else if w&^data != 0 {
				return nil, ErrLEPadding
			}
		}
		if (w^pad)&^data != 0 {
			return nil, ErrLEPadding
		}
		v := extract(w, data)
		for j := k - 1; j >= 0; j-- {
			out = append(out, byte(v>>(8*uint(j))))
		}
	}
	return out, nil
}
