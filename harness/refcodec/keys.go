// Package refcodec is an independent reference implementation of the mieru
// proxy protocol wire format, written from /repo/docs/protocol.md only.
// It imports only the standard library and golang.org/x/crypto and MUST NOT
// import github.com/enfein/mieru: it is the "third party" of property C09.
//
// Every place where the document was not sufficient and the code had to be
// consulted is listed in README.md.
package refcodec

import (
	"crypto/cipher"
	"crypto/sha256"
	"encoding/binary"
	"errors"
	"time"

	"golang.org/x/crypto/chacha20poly1305"
	"golang.org/x/crypto/pbkdf2"
)

// Protocol constants of docs/protocol.md.
const (
	NonceLen    = 24 // "The nonce length of the AEAD algorithm must be 24 bytes"
	TagLen      = 16 // "auth tag ... 16"
	KeyLen      = 32 // "the length of the key is 32 bytes"
	KeyIter     = 64 // "the number of iterations is 64"
	SlotSeconds = 120
	MetaLen     = 32
	SealedMeta  = MetaLen + TagLen

	HintInputLen = 16 // "the first 16 bytes of the nonce"
	HintLen      = 4  // "the last 4 bytes of the nonce"

	MaxSessionPayload = 1024
	MaxFragment       = 32768
)

// HashedPassword is SHA-256(password || 0x00 || user).
func HashedPassword(user, password string) []byte {
	h := sha256.New()
	h.Write([]byte(password))
	h.Write([]byte{0})
	h.Write([]byte(user))
	return h.Sum(nil)
}

// SlotOf rounds the unix time of t to the nearest 2 minutes (a tie rounds up)
// and returns it in seconds.
func SlotOf(t time.Time) int64 {
	s := t.Unix() // floor of the instant in seconds
	// The rounding threshold (slot + 60 s) is a whole second, so rounding the
	// floor gives the same result as rounding the exact instant.
	q := floorDiv(s+SlotSeconds/2, SlotSeconds)
	return q * SlotSeconds
}

func floorDiv(a, b int64) int64 {
	q := a / b
	if a%b != 0 && (a < 0) != (b < 0) {
		q--
	}
	return q
}

// DeriveKey is PBKDF2-HMAC-SHA256(hashedPassword, salt = SHA-256(be64(slot)), 64, 32).
func DeriveKey(hashedPassword []byte, slotUnix int64) []byte {
	return DeriveKeyIter(hashedPassword, slotUnix, KeyIter)
}

// DeriveKeyIter is DeriveKey with another iteration count (diagnosis of
// non-conforming peers only; the protocol value is KeyIter).
func DeriveKeyIter(hashedPassword []byte, slotUnix int64, iter int) []byte {
	var b [8]byte
	binary.BigEndian.PutUint64(b[:], uint64(slotUnix))
	salt := sha256.Sum256(b[:])
	return pbkdf2.Key(hashedPassword, salt[:], iter, KeyLen, sha256.New)
}

// KeysAt returns the keys of the slots (slot(t)-120 s, slot(t), slot(t)+120 s).
func KeysAt(hashedPassword []byte, t time.Time) [3][]byte {
	s := SlotOf(t)
	return [3][]byte{
		DeriveKey(hashedPassword, s-SlotSeconds),
		DeriveKey(hashedPassword, s),
		DeriveKey(hashedPassword, s+SlotSeconds),
	}
}

// TimestampOf is the metadata timestamp: minutes since the unix epoch (uint32).
func TimestampOf(t time.Time) uint32 { return uint32(floorDiv(t.Unix(), 60)) }

// UserHint returns the first 4 bytes of SHA-256(user || nonce[0:16]).
func UserHint(user string, nonce []byte) [4]byte {
	h := sha256.New()
	h.Write([]byte(user))
	h.Write(nonce[:HintInputLen])
	sum := h.Sum(nil)
	var out [4]byte
	copy(out[:], sum[:4])
	return out
}

// SetUserHint writes the user hint into nonce[20:24].
func SetUserHint(user string, nonce []byte) {
	hint := UserHint(user, nonce)
	copy(nonce[NonceLen-HintLen:NonceLen], hint[:])
}

// HasUserHint tells whether nonce[20:24] is the hint of user.
func HasUserHint(user string, nonce []byte) bool {
	if len(nonce) != NonceLen {
		return false
	}
	h := UserHint(user, nonce)
	return string(h[:]) == string(nonce[NonceLen-HintLen:])
}

// NonceInc returns nonce+1 where the 24 bytes are one big-endian unsigned
// integer (wraps to zero after all-0xff). The argument is not modified.
func NonceInc(nonce []byte) []byte {
	out := append([]byte(nil), nonce...)
	for i := len(out) - 1; i >= 0; i-- {
		out[i]++
		if out[i] != 0 {
			break
		}
	}
	return out
}

var (
	ErrNoKey     = errors.New("refcodec: no candidate key opens the box")
	ErrShort     = errors.New("refcodec: input too short")
	ErrBadLength = errors.New("refcodec: lengths in metadata do not match the input")
)

func aead(key []byte) cipher.AEAD {
	a, err := chacha20poly1305.NewX(key)
	if err != nil {
		panic(err)
	}
	return a
}

// Seal is XChaCha20-Poly1305 with no associated data: ciphertext || tag.
func Seal(key, nonce, plaintext []byte) []byte {
	return aead(key).Seal(nil, nonce, plaintext, nil)
}

// Open reverses Seal.
func Open(key, nonce, box []byte) ([]byte, error) {
	if len(key) != KeyLen || len(nonce) != NonceLen || len(box) < TagLen {
		return nil, ErrShort
	}
	return aead(key).Open(nil, nonce, box, nil)
}

// openAny tries every candidate key; returns the plaintext and the key.
func openAny(keys [][]byte, nonce, box []byte) ([]byte, []byte, error) {
	for _, k := range keys {
		if p, err := Open(k, nonce, box); err == nil {
			return p, k, nil
		}
	}
	return nil, nil, ErrNoKey
}
