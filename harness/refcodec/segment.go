package refcodec

import (
	"fmt"
)

// Segment is one decoded (or to-be-encoded) protocol segment.
//
// Wire layout (docs/protocol.md "Segment Format"; "padding 0" is never used):
//
//	[nonce 24] sealed metadata 48 [padding 1 = Prefix] [body PayloadLen + tag 16] [padding 2 = Suffix]
//
// The body is present iff PayloadLen > 0. For types 10/11 with mode != 0 the
// body is the low entropy encoding of the ciphertext, followed by the unchanged tag.
type Segment struct {
	Meta    Meta
	Payload []byte // plaintext payload (application bytes)
	Prefix  []byte // padding 1 (data layouts only)
	Suffix  []byte // padding 2
	Nonce   []byte // explicit nonce if this segment carried one
	WireLen int    // number of bytes this segment occupied on the wire
	// MetaBytes is the 32-byte plaintext metadata exactly as received
	// (set by the decoders, ignored by the encoders).
	MetaBytes []byte
}

// encodeBody fills the length fields of seg.Meta from the actual data and
// returns the finished metadata and what follows the sealed metadata on the
// wire. seal is called at most once, for the payload.
func encodeBody(seg Segment, padOne bool, seal func(p []byte) []byte) (Meta, []byte) {
	m := seg.Meta
	m.SuffixLen = uint8(len(seg.Suffix))
	var prefix []byte
	if m.usesDataLayout() {
		prefix = seg.Prefix
		m.PrefixLen = uint8(len(prefix))
	}
	var body []byte
	if len(seg.Payload) > 0 {
		box := seal(seg.Payload)
		ct, tag := box[:len(box)-TagLen], box[len(box)-TagLen:]
		if m.IsLowEntropy() {
			enc, err := LEEncode(ct, m.LEMode, m.LEMask, m.LERot, padOne)
			if err != nil {
				panic(fmt.Sprintf("refcodec: Encode: %v", err))
			}
			m.ExtractedLen = uint16(len(ct))
			m.PayloadLen = uint16(len(enc))
			body = append(enc, tag...)
		} else {
			m.PayloadLen = uint16(len(ct))
			body = box
		}
	} else {
		m.PayloadLen = 0
		if m.IsLowEntropy() {
			m.ExtractedLen = 0
		}
	}
	rest := make([]byte, 0, len(prefix)+len(body)+len(seg.Suffix))
	rest = append(rest, prefix...)
	rest = append(rest, body...)
	rest = append(rest, seg.Suffix...)
	return m, rest
}

// decodeBody splits rest (exactly m.restLen() bytes) and opens the payload.
func decodeBody(m Meta, rest []byte, open func(box []byte) ([]byte, error)) (Segment, error) {
	seg := Segment{Meta: m}
	p := m.prefixLen()
	seg.Prefix = append([]byte(nil), rest[:p]...)
	b := m.bodyLen()
	body := rest[p : p+b]
	seg.Suffix = append([]byte(nil), rest[p+b:]...)
	if b == 0 {
		return seg, nil
	}
	box := body
	if m.IsLowEntropy() {
		enc, tag := body[:len(body)-TagLen], body[len(body)-TagLen:]
		ct, err := LEDecode(enc, m.LEMode, m.LEMask, m.LERot, int(m.ExtractedLen))
		if err != nil {
			return seg, err
		}
		box = append(ct, tag...)
	}
	pl, err := open(box)
	if err != nil {
		return seg, fmt.Errorf("refcodec: payload box does not open: %w", err)
	}
	seg.Payload = pl
	return seg, nil
}

// ---------------------------------------------------------------- TCP stream

// StreamEncoder produces one direction of a TCP connection. The nonce is sent
// once, in front of the first segment; the first encryption uses it as sent,
// every later encryption uses the previous nonce + 1.
type StreamEncoder struct {
	key       []byte
	nonce     []byte
	sentNonce bool
	// LEPadOne selects the padding bit of low entropy bodies (false: 0, true: 1).
	LEPadOne bool
}

// NewStreamEncoder uses nonce exactly as given (call SetUserHint first if the
// peer expects a user hint).
func NewStreamEncoder(key []byte, nonce []byte) *StreamEncoder {
	if len(key) != KeyLen || len(nonce) != NonceLen {
		panic("refcodec: NewStreamEncoder: bad key or nonce length")
	}
	return &StreamEncoder{key: append([]byte(nil), key...), nonce: append([]byte(nil), nonce...)}
}

func (e *StreamEncoder) seal(p []byte) []byte {
	out := Seal(e.key, e.nonce, p)
	e.nonce = NonceInc(e.nonce)
	return out
}

// NextNonce is the nonce the next encryption will use.
func (e *StreamEncoder) NextNonce() []byte { return append([]byte(nil), e.nonce...) }

// Encode renders one segment. PayloadLen, PrefixLen, SuffixLen and
// ExtractedLen of seg.Meta are set from len(Payload), len(Prefix), len(Suffix);
// everything else (type, timestamp, ids, window, low entropy mode/mask/rotation)
// is the caller's choice. seg.Prefix is ignored for session types.
func (e *StreamEncoder) Encode(seg Segment) []byte {
	var out []byte
	if !e.sentNonce {
		out = append(out, e.nonce...)
		e.sentNonce = true
	}
	// The metadata is encrypted before the payload, but needs the payload's
	// encoded length; take the nonces in wire order.
	metaNonce := e.nonce
	e.nonce = NonceInc(e.nonce)
	m, rest := encodeBody(seg, e.LEPadOne, e.seal)
	mb := m.Marshal()
	out = append(out, Seal(e.key, metaNonce, mb[:])...)
	return append(out, rest...)
}

// StreamDecoder consumes one direction of a TCP connection in arbitrary chunks.
type StreamDecoder struct {
	cands [][]byte
	key   []byte
	nonce []byte // next nonce
	buf   []byte
	first bool
	err   error
	// pending segment state
	haveMeta bool
	meta     Meta
	metaRaw  []byte
	explicit []byte
	consumed int
}

// NewStreamDecoder takes the candidate keys (e.g. KeysAt(...)[:]); the key that
// opens the first metadata box is used for the rest of the stream.
func NewStreamDecoder(keys [][]byte) *StreamDecoder {
	return &StreamDecoder{cands: keys, first: true}
}

// Key returns the key that opened the first box (nil before that).
func (d *StreamDecoder) Key() []byte { return d.key }

// Err returns the sticky error.
func (d *StreamDecoder) Err() error { return d.err }

// Buffered is the number of fed bytes not yet part of a returned segment.
func (d *StreamDecoder) Buffered() int { return len(d.buf) }

func (d *StreamDecoder) open(box []byte) ([]byte, error) {
	p, err := Open(d.key, d.nonce, box)
	if err != nil {
		return nil, err
	}
	d.nonce = NonceInc(d.nonce)
	return p, nil
}

// Feed appends p to the stream and returns every segment completed by it.
// After an error the decoder stays failed (a TCP stream cannot resynchronise).
func (d *StreamDecoder) Feed(p []byte) ([]Segment, error) {
	if d.err != nil {
		return nil, d.err
	}
	d.buf = append(d.buf, p...)
	var segs []Segment
	for {
		if !d.haveMeta {
			need := SealedMeta
			if d.first {
				need += NonceLen
			}
			if len(d.buf) < need {
				return segs, nil
			}
			var mb []byte
			if d.first {
				nonce := append([]byte(nil), d.buf[:NonceLen]...)
				pt, key, err := openAny(d.cands, nonce, d.buf[NonceLen:need])
				if err != nil {
					d.err = fmt.Errorf("refcodec: first metadata box: %w", err)
					return segs, d.err
				}
				d.key, d.explicit, d.nonce = key, nonce, NonceInc(nonce)
				d.first = false
				mb = pt
			} else {
				pt, err := d.open(d.buf[:need])
				if err != nil {
					d.err = fmt.Errorf("refcodec: metadata box does not open: %w", err)
					return segs, d.err
				}
				mb = pt
			}
			m, err := ParseMeta(mb)
			if err != nil {
				d.err = err
				return segs, d.err
			}
			d.buf = d.buf[need:]
			d.meta, d.metaRaw, d.haveMeta, d.consumed = m, mb, true, need
		}
		rl := d.meta.restLen()
		if len(d.buf) < rl {
			return segs, nil
		}
		seg, err := decodeBody(d.meta, d.buf[:rl], d.open)
		if err != nil {
			d.err = err
			return segs, d.err
		}
		seg.Nonce, seg.WireLen, seg.MetaBytes = d.explicit, d.consumed+rl, d.metaRaw
		d.buf = d.buf[rl:]
		d.haveMeta, d.explicit = false, nil
		segs = append(segs, seg)
	}
}

// ---------------------------------------------------------------- UDP datagram

// EncodeDatagram renders one UDP datagram:
// nonce || sealed metadata || padding 1 || body || padding 2.
// Both boxes of the datagram are sealed with the same nonce ("a nonce used to
// decrypt the current segment"). Lengths in seg.Meta are set as in
// StreamEncoder.Encode. The low entropy padding bit is 0; use
// EncodeDatagramPad to choose.
func EncodeDatagram(key []byte, nonce []byte, seg Segment) []byte {
	return EncodeDatagramPad(key, nonce, seg, false)
}

// EncodeDatagramPad is EncodeDatagram with an explicit low entropy padding bit.
func EncodeDatagramPad(key []byte, nonce []byte, seg Segment, padOne bool) []byte {
	if len(key) != KeyLen || len(nonce) != NonceLen {
		panic("refcodec: EncodeDatagram: bad key or nonce length")
	}
	m, rest := encodeBody(seg, padOne, func(p []byte) []byte { return Seal(key, nonce, p) })
	mb := m.Marshal()
	out := append([]byte(nil), nonce...)
	out = append(out, Seal(key, nonce, mb[:])...)
	return append(out, rest...)
}

// DecodeDatagram opens one UDP datagram with the first candidate key that
// works and returns the segment and that key.
func DecodeDatagram(keys [][]byte, d []byte) (Segment, []byte, error) {
	if len(d) < NonceLen+SealedMeta {
		return Segment{}, nil, ErrShort
	}
	nonce := append([]byte(nil), d[:NonceLen]...)
	mb, key, err := openAny(keys, nonce, d[NonceLen:NonceLen+SealedMeta])
	if err != nil {
		return Segment{}, nil, err
	}
	m, err := ParseMeta(mb)
	if err != nil {
		return Segment{Meta: m, Nonce: nonce}, key, err
	}
	rest := d[NonceLen+SealedMeta:]
	if len(rest) != m.restLen() {
		return Segment{Meta: m, Nonce: nonce}, key, fmt.Errorf("%w: datagram has %d bytes after the metadata, metadata says %d", ErrBadLength, len(rest), m.restLen())
	}
	seg, err := decodeBody(m, rest, func(box []byte) ([]byte, error) { return Open(key, nonce, box) })
	seg.Nonce, seg.WireLen, seg.MetaBytes = nonce, len(d), mb
	return seg, key, err
}
