package refcodec

import (
	"encoding/binary"
	"fmt"
	"math/bits"
)

// Protocol types of docs/protocol.md.
const (
	OpenSessionRequest   = 2
	OpenSessionResponse  = 3
	CloseSessionRequest  = 4
	CloseSessionResponse = 5
	DataClientToServer   = 6
	DataServerToClient   = 7
	AckClientToServer    = 8
	AckServerToClient    = 9
	DataClientToServerLE = 10
	DataServerToClientLE = 11
)

// Meta is the union of the three documented 32-byte metadata layouts.
//
//	session (2..5):  proto@0 unused@1 timestamp@2..5 sessionID@6..9 seq@10..13
//	                 status@14 payloadLen@15..16 suffixLen@17 unused@18..31
//	data/ack (6..9): proto@0 unused@1 timestamp@2..5 sessionID@6..9 seq@10..13
//	                 unAckSeq@14..17 window@18..19 fragment@20 prefixLen@21
//	                 payloadLen@22..23 suffixLen@24 unused@25..31
//	low entropy (10..11): as data, with mode@1 mask@25..28 extractedLen@29..30 rot@31
type Meta struct {
	Proto        uint8
	Timestamp    uint32
	SessionID    uint32
	Seq          uint32
	StatusCode   uint8
	PayloadLen   uint16
	SuffixLen    uint8
	UnAckSeq     uint32
	WindowSize   uint16
	Fragment     uint8
	PrefixLen    uint8
	LEMode       uint8
	LEMask       uint32
	ExtractedLen uint16
	LERot        uint8
}

func IsSessionProto(p uint8) bool    { return p >= 2 && p <= 5 }
func IsDataProto(p uint8) bool       { return p == 6 || p == 7 || p == 10 || p == 11 }
func IsAckProto(p uint8) bool        { return p == 8 || p == 9 }
func IsLowEntropyProto(p uint8) bool { return p == 10 || p == 11 }

// IsSession: the metadata uses the session layout (types 2..5).
func (m Meta) IsSession() bool { return IsSessionProto(m.Proto) }

// IsData: the segment carries stream data (types 6, 7 and their low entropy forms 10, 11).
func (m Meta) IsData() bool { return IsDataProto(m.Proto) }

// IsAck: types 8, 9.
func (m Meta) IsAck() bool { return IsAckProto(m.Proto) }

// IsLowEntropy: types 10, 11.
func (m Meta) IsLowEntropy() bool { return IsLowEntropyProto(m.Proto) }

// usesDataLayout: types 6..11.
func (m Meta) usesDataLayout() bool { return m.Proto >= 6 && m.Proto <= 11 }

// Marshal renders the 32 bytes. Fields that do not belong to the layout of
// m.Proto are ignored; unused bytes are zero. Unknown types use the data layout.
func (m Meta) Marshal() [32]byte {
	var b [32]byte
	b[0] = m.Proto
	binary.BigEndian.PutUint32(b[2:6], m.Timestamp)
	binary.BigEndian.PutUint32(b[6:10], m.SessionID)
	binary.BigEndian.PutUint32(b[10:14], m.Seq)
	if m.IsSession() {
		b[14] = m.StatusCode
		binary.BigEndian.PutUint16(b[15:17], m.PayloadLen)
		b[17] = m.SuffixLen
		return b
	}
	binary.BigEndian.PutUint32(b[14:18], m.UnAckSeq)
	binary.BigEndian.PutUint16(b[18:20], m.WindowSize)
	b[20] = m.Fragment
	b[21] = m.PrefixLen
	binary.BigEndian.PutUint16(b[22:24], m.PayloadLen)
	b[24] = m.SuffixLen
	if m.IsLowEntropy() {
		b[1] = m.LEMode
		binary.BigEndian.PutUint32(b[25:29], m.LEMask)
		binary.BigEndian.PutUint16(b[29:31], m.ExtractedLen)
		b[31] = m.LERot
	}
	return b
}

// ParseMeta decodes 32 bytes of plaintext metadata and applies the checks of
// the document that do not depend on the clock (Validate). When the error is a
// validation error the decoded fields are still returned.
func ParseMeta(b []byte) (Meta, error) {
	var m Meta
	if len(b) != MetaLen {
		return m, fmt.Errorf("refcodec: metadata is %d bytes, want %d", len(b), MetaLen)
	}
	m.Proto = b[0]
	if m.Proto < 2 || m.Proto > 11 {
		return m, fmt.Errorf("refcodec: unknown protocol type %d", m.Proto)
	}
	m.Timestamp = binary.BigEndian.Uint32(b[2:6])
	m.SessionID = binary.BigEndian.Uint32(b[6:10])
	m.Seq = binary.BigEndian.Uint32(b[10:14])
	if m.IsSession() {
		m.StatusCode = b[14]
		m.PayloadLen = binary.BigEndian.Uint16(b[15:17])
		m.SuffixLen = b[17]
		return m, m.Validate()
	}
	m.UnAckSeq = binary.BigEndian.Uint32(b[14:18])
	m.WindowSize = binary.BigEndian.Uint16(b[18:20])
	m.Fragment = b[20]
	m.PrefixLen = b[21]
	m.PayloadLen = binary.BigEndian.Uint16(b[22:24])
	m.SuffixLen = b[24]
	if m.IsLowEntropy() {
		m.LEMode = b[1]
		m.LEMask = binary.BigEndian.Uint32(b[25:29])
		m.ExtractedLen = binary.BigEndian.Uint16(b[29:31])
		m.LERot = b[31]
	}
	return m, m.Validate()
}

// LESourceBytes is the source capacity C of one 8-byte chunk (0 for an invalid or disabled mode).
func LESourceBytes(mode uint8) int {
	if mode >= 1 && mode <= 4 {
		return 3 + int(mode)
	}
	return 0
}

// LEValidRotation: 0, 1..15, or 16*k with k in 1..15.
func LEValidRotation(rot uint8) bool {
	return rot&0xf0 == 0 || rot&0x0f == 0
}

// LEValidMask: the 32-bit half-mask has 4*C one bits.
func LEValidMask(mode uint8, mask uint32) bool {
	c := LESourceBytes(mode)
	return c != 0 && bits.OnesCount32(mask) == 4*c
}

// LEEncodedLen is ceil(n/C)*8.
func LEEncodedLen(mode uint8, n int) int {
	c := LESourceBytes(mode)
	if c == 0 {
		return n
	}
	return (n + c - 1) / c * 8
}

// Validate applies the documented, time-independent validity rules.
func (m Meta) Validate() error {
	switch {
	case m.IsSession():
		if m.PayloadLen > MaxSessionPayload {
			return fmt.Errorf("refcodec: session payload length %d > %d", m.PayloadLen, MaxSessionPayload)
		}
	case m.Proto >= 6 && m.Proto <= 9:
		if int(m.PayloadLen) > MaxFragment {
			return fmt.Errorf("refcodec: payload length %d > %d", m.PayloadLen, MaxFragment)
		}
	case m.IsLowEntropy():
		// README.md item 4: the document says "A value of 0 disables low entropy
		// encoding"; mieru rejects types 10/11 with mode 0, so refcodec does too.
		if m.LEMode < 1 || m.LEMode > 4 {
			return fmt.Errorf("refcodec: low entropy mode %d", m.LEMode)
		}
		if int(m.ExtractedLen) > MaxFragment {
			return fmt.Errorf("refcodec: extracted payload length %d > %d", m.ExtractedLen, MaxFragment)
		}
		if !LEValidRotation(m.LERot) {
			return fmt.Errorf("refcodec: low entropy rotation %#x", m.LERot)
		}
		if !LEValidMask(m.LEMode, m.LEMask) {
			return fmt.Errorf("refcodec: low entropy mask %#08x has the wrong population for mode %d", m.LEMask, m.LEMode)
		}
		if LEEncodedLen(m.LEMode, int(m.ExtractedLen)) != int(m.PayloadLen) {
			return fmt.Errorf("refcodec: payload length %d is not the encoded length of %d bytes in mode %d", m.PayloadLen, m.ExtractedLen, m.LEMode)
		}
	default:
		return fmt.Errorf("refcodec: unknown protocol type %d", m.Proto)
	}
	return nil
}

// prefixLen is the length of "padding 1" (only the data layouts have the field).
func (m Meta) prefixLen() int {
	if m.usesDataLayout() {
		return int(m.PrefixLen)
	}
	return 0
}

// bodyLen is what follows "padding 1" on the wire before "padding 2":
// payload length + tag when there is a payload, nothing otherwise.
func (m Meta) bodyLen() int {
	if m.PayloadLen == 0 {
		return 0
	}
	return int(m.PayloadLen) + TagLen
}

// restLen is the number of bytes that follow the sealed metadata.
func (m Meta) restLen() int { return m.prefixLen() + m.bodyLen() + int(m.SuffixLen) }
