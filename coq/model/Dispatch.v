(* C10 — what one input from the network does to an endpoint (pkg/protocol).

   The model is a TOTAL function from what arrives at readOneSegment (an abstract description
   [wire] of a TCP read / a UDP datagram: does a registered key open the metadata box and whose,
   is it a replay, the 32 metadata bytes as numbers, how the rest of the bytes relate to the
   length fields) and the endpoint state (role, transport, session table) to an [outcome].
   A Go panic is the DISTINCT outcome [Panic site]; nothing is made true by totalisation.

   Code modelled (pinned tree + fixes/C10-cross-user-session-id.diff when [fixed] = true):
     underlay_stream.go  readOneSegment / readSessionSegment / readDataAckSegment, RunEventLoop
     underlay_packet.go  readOneSegment / parseSessionSegment / parseDataAckSegment, RunEventLoop,
                         onOpenSessionRequest / onOpenSessionResponse / onCloseSession,
                         segmentUserOwnsSession (the fix)
     underlay_base.go    deliverSegmentToSession
     session.go          input, inputData, inputAck, inputClose (+ runInputLoop's reaction to an error)
     segment.go          segmentTree.Insert guards (checkSeq, checkProtocolType), Seq()
     stderror/type.go    TypedError, GetErrorType
     server_session_validation.go

   Abstractions (stated, not hidden):
     * user names are numbers, 0 is the empty string;
     * cryptography: [w_auth] says which registered credential opens the metadata box
       (INT-CTXT is what makes "none" the only other case); [w_body] says how the bytes after the
       metadata relate to its length fields and whether the payload box opens;
     * queue contents are not modelled; whether an insert / a network write / the quota check
       succeeds is an oracle input [env], theorems quantify over all oracle values;
     * one event-loop iteration and the session goroutine's handling of the delivered segment
       are one step (the session goroutine is the only consumer of recvChan, in order). *)
From Coq Require Import NArith ZArith List Bool.
From M Require Import gen.Consts.
Import ListNotations.
Open Scope N_scope.

(* ------------------------------------------------------------------ protocol numbers *)
Definition P_openReq   := Z.to_N C10_ProtoOpenSessionRequest.
Definition P_openResp  := Z.to_N C10_ProtoOpenSessionResponse.
Definition P_closeReq  := Z.to_N C10_ProtoCloseSessionRequest.
Definition P_closeResp := Z.to_N C10_ProtoCloseSessionResponse.
Definition P_dataC2S   := Z.to_N C10_ProtoDataClientToServer.
Definition P_dataS2C   := Z.to_N C10_ProtoDataServerToClient.
Definition P_ackC2S    := Z.to_N C10_ProtoAckClientToServer.
Definition P_ackS2C    := Z.to_N C10_ProtoAckServerToClient.
Definition P_dataC2SLE := Z.to_N C10_ProtoDataClientToServerLE.
Definition P_dataS2CLE := Z.to_N C10_ProtoDataServerToClientLE.

Definition is_session_proto (p : N) : bool :=
  (p =? P_openReq) || (p =? P_openResp) || (p =? P_closeReq) || (p =? P_closeResp).
Definition is_le_proto (p : N) : bool := (p =? P_dataC2SLE) || (p =? P_dataS2CLE).
Definition is_data_proto (p : N) : bool := (p =? P_dataC2S) || (p =? P_dataS2C) || is_le_proto p.
Definition is_ack_proto (p : N) : bool := (p =? P_ackC2S) || (p =? P_ackS2C).
Definition is_dataack_proto (p : N) : bool := is_data_proto p || is_ack_proto p.

(* validateServerSegmentDirection *)
Definition server_direction_ok (p : N) : bool :=
  (p =? P_openReq) || (p =? P_closeReq) || (p =? P_closeResp) || (p =? P_dataC2S) || (p =? P_dataC2SLE) || (p =? P_ackC2S).
(* the filter at the top of Session.input *)
Definition input_direction_ok (client : bool) (p : N) : bool :=
  if client
  then (p =? P_openResp) || (p =? P_dataS2C) || (p =? P_dataS2CLE) || (p =? P_ackS2C) || (p =? P_closeReq) || (p =? P_closeResp)
  else (p =? P_openReq) || (p =? P_dataC2S) || (p =? P_dataC2SLE) || (p =? P_ackC2S) || (p =? P_closeReq) || (p =? P_closeResp).

(* ------------------------------------------------------------------ Go errors *)
Inductive errtype := NO_ERROR | UNKNOWN_ERROR | PROTOCOL_ERROR | NETWORK_ERROR | CRYPTO_ERROR | REPLAY_ERROR.
(* the shapes of error values: errors.New / fmt.Errorf without %w, fmt.Errorf("...%w", e),
   stderror.WrapErrorWithType(e, t) *)
Inductive goerr := EPlain | EWrapf (e : goerr) | ETyped (t : errtype) (e : goerr).
(* stderror.GetErrorType: a type assertion on the TOP-LEVEL value only *)
Definition get_error_type (e : option goerr) : errtype :=
  match e with None => NO_ERROR | Some (ETyped t _) => t | Some _ => UNKNOWN_ERROR end.
Definition errtype_code (t : errtype) : Z :=
  match t with NO_ERROR => C10_ErrNoError | UNKNOWN_ERROR => C10_ErrUnknown | PROTOCOL_ERROR => C10_ErrProtocol
             | NETWORK_ERROR => C10_ErrNetwork | CRYPTO_ERROR => C10_ErrCrypto | REPLAY_ERROR => C10_ErrReplay end.

(* ------------------------------------------------------------------ panic sites *)
Inductive site :=
| SiteUserEmptyPrev      (* session.go: "cipher block user name is not set" (session's) *)
| SiteUserEmptyNext      (* session.go: "cipher block user name is not set" (segment's) *)
| SiteUserDiffers        (* session.go: "cipher block user name ... is different from ..." *)
| SitePolicyVsCipher     (* session.go: "user policy name differs from cipher user name" (retained policy) *)
| SitePolicyRetained     (* session.go: "retained user policy name differs from segment user policy name" *)
| SitePolicyNew          (* session.go: "user policy name differs from cipher user name" (new policy) *)
| SiteStreamErrNoError   (* underlay_stream.go: "error type is NO_ERROR while error is not nil" *)
| SiteStreamErrUnknown   (* underlay_stream.go: "got unexpected error type UNKNOWN_ERROR" *)
| SiteTreeSeq            (* segment.go checkSeq / Less: Seq() failed *)
| SiteTreeProto          (* segment.go checkProtocolType: unsupported type *)
| SitePacketNilCipher    (* underlay_packet.go: "block cipher is nil after decryption is successful" *)
| SitePacketSessionNilBlock (* underlay_packet.go parseSessionSegment: "block is nil" *)
| SitePacketDataNilBlock (* underlay_packet.go parseDataAckSegment: "block is nil" *)
| SiteAckMetaAssert      (* session.go inputAck: seg.metadata.( *dataAckStruct) *)
| SiteCloseMetaAssert.   (* session.go inputClose: seg.metadata.( *sessionStruct) *)

Definition site_code (s : site) : N :=
  match s with
  | SiteUserEmptyPrev => 1 | SiteUserEmptyNext => 2 | SiteUserDiffers => 3 | SitePolicyVsCipher => 4
  | SitePolicyRetained => 5 | SitePolicyNew => 6 | SiteStreamErrNoError => 7 | SiteStreamErrUnknown => 8
  | SiteTreeSeq => 9 | SiteTreeProto => 10 | SitePacketNilCipher => 11 | SitePacketSessionNilBlock => 12
  | SitePacketDataNilBlock => 13 | SiteAckMetaAssert => 14 | SiteCloseMetaAssert => 15
  end.

(* ------------------------------------------------------------------ state *)
Inductive role := Client | Server.
Inductive transport := TCP | UDP.

Record session := mkSession {
  s_id : N;
  s_client : bool;
  s_closed : bool;          (* closedChan closed; the entry may still be in sessionMap *)
  s_established : bool;     (* state >= sessionEstablished *)
  s_block : option N;       (* user name of *s.block, None while s.block is nil *)
  s_policy : option N;      (* name of *s.userPolicy (stored only when non-empty) *)
  s_user : N                (* s.userName, 0 while unset *)
}.

Record endpoint := mkEndpoint {
  e_role : role;
  e_tr : transport;
  e_user : N;               (* client: own user. TCP server underlay: user of t.recv, 0 while t.recv is nil.
                               UDP server: unused (one underlay serves all users) *)
  e_sessions : list session (* sessionMap of the underlay *)
}.

Definition is_client (e : endpoint) : bool := match e_role e with Client => true | Server => false end.
Definition is_tcp (e : endpoint) : bool := match e_tr e with TCP => true | UDP => false end.

Fixpoint find_session (id : N) (l : list session) : option session :=
  match l with
  | [] => None
  | s :: r => if s_id s =? id then Some s else find_session id r
  end.

Fixpoint put_session (s' : session) (l : list session) : list session :=
  match l with
  | [] => []
  | s :: r => if s_id s =? s_id s' then s' :: r else s :: put_session s' r
  end.

Definition with_sessions (e : endpoint) (l : list session) : endpoint :=
  mkEndpoint (e_role e) (e_tr e) (e_user e) l.
Definition with_user (e : endpoint) (u : N) : endpoint :=
  mkEndpoint (e_role e) (e_tr e) u (e_sessions e).

(* the user that owns a server session, as segmentUserOwnsSession computes it; 0 = not known yet *)
Definition session_owner (s : session) : N :=
  let o := match s_policy s with Some p => if p =? 0 then s_user s else p | None => s_user s end in
  if o =? 0 then match s_block s with Some b => b | None => 0 end else o.

(* ------------------------------------------------------------------ input *)
Inductive auth :=
| AuthNone                  (* no key the endpoint would try opens the metadata box *)
| AuthExisting (sid : N)    (* UDP server: the cipher of existing session sid (same source address) opens it *)
| AuthUser (u : N).         (* server: discovery finds registered user u. TCP after the first segment
                               and clients: the connection's own cipher opens it (u is ignored) *)

Inductive body :=
| BodyOK            (* the bytes after the metadata are exactly what the length fields say and the payload box opens *)
| BodyShort         (* TCP: the stream ends / times out inside the segment. UDP: datagram shorter than the fields say *)
| BodyPadMismatch   (* UDP: size equation fails (longer / different). TCP: not applicable, reads as BodyOK *)
| BodyBadTag        (* payload box does not open (only possible when payloadLen > 0) *)
| BodyLEBad.        (* low entropy decode of the body fails (types 10/11, payloadLen > 0) *)

Record wire := mkWire {
  w_short : bool;        (* TCP: ReadFull of the metadata fails. UDP: datagram < packetNonHeaderPosition bytes *)
  w_from_server : bool;  (* UDP client: source address is the server's *)
  w_replay : bool;       (* the first 16 bytes are in the replay cache *)
  w_auth : auth;
  w_metalen_ok : bool;   (* len(decryptedMeta) == MetadataLength *)
  w_proto : N;           (* metadata byte 0 *)
  w_ts_ok : bool;        (* timestamp within +-1 minute *)
  w_le_ok : bool;        (* validateLowEntropyDataAckMetadata passes (types 10/11) *)
  w_sid : N;
  w_seq : N;
  w_unack : N;
  w_window : N;
  w_status : N;
  w_payload_len : N;
  w_body : body
}.

Inductive mkind := KSession | KDataAck | KNone.   (* dynamic type of segment.metadata *)

Record segment := mkSegment {
  g_kind : mkind;
  g_proto : N;
  g_sid : N;
  g_seq : N;
  g_unack : N;
  g_window : N;
  g_status : N;
  g_block : option N;    (* user name of seg.block; None when seg.block is nil (UDP client) *)
  g_policy : N;          (* seg.serverUserPolicy.Name(), 0 = empty *)
  g_new_auth : bool      (* authentication.Valid(): authenticated by discovery, not by an existing cipher *)
}.

(* oracle inputs: things that depend on queue contents, quota counters and the network *)
Record env := mkEnv {
  v_insert_ok : bool;    (* segmentTree.Insert returns true (tree not full) *)
  v_window_open : bool;  (* UDP: receiveWindowSize() > 0 *)
  v_quota_ok : bool;     (* checkQuota *)
  v_write_ok : bool      (* writeOneSegment succeeds *)
}.

(* ------------------------------------------------------------------ readOneSegment *)
Inductive read_result :=
| RSeg (e1 : endpoint) (g : segment)   (* e1: the endpoint after the read (TCP server: t.recv now set) *)
| RErr (err : goerr)                   (* TCP: readOneSegment returns (nil, err) *)
| RSkip                                (* UDP: datagram dropped inside readOneSegment ("continue") *)
| RPanic (s : site).

Definition mk_seg (k : mkind) (w : wire) (blk : option N) (pol : N) (na : bool) : segment :=
  mkSegment k (w_proto w) (w_sid w) (w_seq w) (w_unack w) (w_window w) (w_status w) blk pol na.

Definition tcp_netw := ETyped NETWORK_ERROR (EWrapf EPlain).
Definition tcp_crypto := ETyped CRYPTO_ERROR (EWrapf EPlain).
Definition tcp_proto_w := ETyped PROTOCOL_ERROR (EWrapf EPlain).
Definition tcp_proto := ETyped PROTOCOL_ERROR EPlain.
Definition tcp_replay := ETyped REPLAY_ERROR EPlain.

(* StreamUnderlay.readOneSegment after the metadata has been decrypted by user [u]'s cipher *)
Definition tcp_parse (e1 : endpoint) (w : wire) (u : N) (pol : N) (na : bool) : read_result :=
  if negb (w_metalen_ok w) then RErr tcp_proto
  else if is_session_proto (w_proto w) then
    if negb (w_ts_ok w && (w_payload_len w <=? Z.to_N C10_MaxSessionOpenPayload)) then RErr tcp_proto_w
    else match w_body w with
         | BodyShort => RErr tcp_netw
         | BodyBadTag => if 0 <? w_payload_len w then RErr tcp_crypto else RSeg e1 (mk_seg KSession w (Some u) pol na)
         | _ => RSeg e1 (mk_seg KSession w (Some u) pol na)
         end
  else if is_dataack_proto (w_proto w) then
    if negb (w_ts_ok w && (negb (is_le_proto (w_proto w)) || w_le_ok w)) then RErr tcp_proto_w
    else match w_body w with
         | BodyShort => RErr tcp_netw
         | BodyLEBad => if is_le_proto (w_proto w) && (0 <? w_payload_len w) then RErr tcp_proto_w
                        else RSeg e1 (mk_seg KDataAck w (Some u) pol na)
         | BodyBadTag => if 0 <? w_payload_len w then RErr tcp_crypto else RSeg e1 (mk_seg KDataAck w (Some u) pol na)
         | _ => RSeg e1 (mk_seg KDataAck w (Some u) pol na)
         end
  else RErr tcp_proto.

Definition tcp_read (e : endpoint) (w : wire) : read_result :=
  if w_short w then RErr tcp_netw
  else if negb (is_client e) && (e_user e =? 0) then
    (* first read of a server connection: serverInitRecvBlockCipherAndDecryptMetadata *)
    match w_auth w with
    | AuthUser u =>
        if u =? 0 then (if w_replay w then RErr tcp_replay else RErr tcp_crypto)   (* no registered user has the empty name *)
        else if w_replay w then RErr tcp_replay
        else tcp_parse (with_user e u) w u u true
    | _ => if w_replay w then RErr tcp_replay else RErr tcp_crypto
    end
  else
    match w_auth w with
    | AuthNone => RErr tcp_crypto
    | _ => tcp_parse e w (e_user e) 0 false
    end.

(* PacketUnderlay.readOneSegment after the metadata has been decrypted; blk = blockCipher *)
Definition udp_parse (e : endpoint) (w : wire) (blk : option N) (pol : N) (na : bool) : read_result :=
  if negb (w_metalen_ok w) then RSkip
  else if is_session_proto (w_proto w) then
    if negb (w_ts_ok w && (w_payload_len w <=? Z.to_N C10_MaxSessionOpenPayload)) then RSkip
    else
      let finish :=
        if na && negb (server_direction_ok (w_proto w)) then RSkip
        else if na && (w_proto w =? P_openReq) && (w_sid w =? 0) then RSkip
        else RSeg e (mk_seg KSession w blk pol (na && (w_proto w =? P_openReq))) in
      if 0 <? w_payload_len w then
        match w_body w with
        | BodyShort => RSkip
        | _ =>
          match blk, is_client e with
          | None, false => RPanic SitePacketSessionNilBlock
          | _, _ => match w_body w with BodyOK | BodyLEBad => finish | _ => RSkip end
          end
        end
      else match w_body w with BodyShort | BodyPadMismatch => RSkip | _ => finish end
  else if is_dataack_proto (w_proto w) then
    if negb (w_ts_ok w && (negb (is_le_proto (w_proto w)) || w_le_ok w)) then RSkip
    else
      let finish :=
        if na && negb (server_direction_ok (w_proto w)) then RSkip
        else RSeg e (mk_seg KDataAck w blk pol false) in
      if 0 <? w_payload_len w then
        match w_body w with
        | BodyShort | BodyPadMismatch => RSkip
        | _ =>
          match blk, is_client e with
          | None, false => RPanic SitePacketDataNilBlock
          | _, _ => match w_body w with
                    | BodyOK => finish
                    | BodyLEBad => if is_le_proto (w_proto w) then RSkip else finish
                    | _ => RSkip
                    end
          end
        end
      else match w_body w with BodyShort | BodyPadMismatch => RSkip | _ => finish end
  else RSkip.

Definition udp_read (e : endpoint) (w : wire) : read_result :=
  if is_client e then
    if negb (w_from_server w) then RSkip
    else if w_short w then RSkip
    else match w_auth w with
         | AuthNone => RSkip
         | _ => udp_parse e w None 0 false         (* seg.block stays nil on the client *)
         end
  else
    if w_short w then RSkip
    else
      (* decrypted, blockCipher, matchedPolicy, authentication *)
      let r : option (option N * N * bool) :=
        match w_auth w with
        | AuthNone => None
        | AuthExisting sid =>
            match find_session sid (e_sessions e) with
            | Some s => match s_block s with
                        | Some b => Some (Some b, match s_policy s with Some p => p | None => 0 end, false)
                        | None => None
                        end
            | None => None
            end
        | AuthUser u => if u =? 0 then None else Some (Some u, u, true)
        end in
      match r with
      | None => RSkip
      | Some (blk, pol, na) =>
          match blk with
          | None => RPanic SitePacketNilCipher
          | Some _ => if w_replay w then RSkip else udp_parse e w blk pol na
          end
      end.

Definition read_one (e : endpoint) (w : wire) : read_result :=
  if is_tcp e then tcp_read e w else udp_read e w.

(* ------------------------------------------------------------------ Session.input *)
Inductive in_result :=
| InOk (s' : session)
| InErr            (* input returns an error: runInputLoop closes the session with that error *)
| InClose          (* the session closes itself (close request / response, quota) *)
| InPanic (x : site).

Definition seg_seq (g : segment) : option N := match g_kind g with KNone => None | _ => Some (g_seq g) end.

(* segmentTree.Insert: checkNil (the pointer is never nil here), checkSeq, checkProtocolType *)
Definition tree_insert_guard (g : segment) : option site :=
  match seg_seq g with
  | None => Some SiteTreeSeq
  | Some _ => if is_session_proto (g_proto g) || is_data_proto (g_proto g) then None else Some SiteTreeProto
  end.

Definition set_block (s : session) (b : option N) : session :=
  mkSession (s_id s) (s_client s) (s_closed s) (s_established s) b (s_policy s) (s_user s).
Definition set_policy (s : session) (p : option N) : session :=
  mkSession (s_id s) (s_client s) (s_closed s) (s_established s) (s_block s) p (s_user s).
Definition set_user (s : session) (u : N) : session :=
  mkSession (s_id s) (s_client s) (s_closed s) (s_established s) (s_block s) (s_policy s) u.
Definition set_established (s : session) : session :=
  mkSession (s_id s) (s_client s) (s_closed s) true (s_block s) (s_policy s) (s_user s).
Definition set_closed (s : session) : session :=
  mkSession (s_id s) (s_client s) true (s_established s) (s_block s) (s_policy s) (s_user s).

(* the identity assertions of Session.input; inl = panic *)
Definition input_identity (s : session) (g : segment) : site + session :=
  match g_block g with
  | None => inr s
  | Some next =>
    let chk :=
      match s_block s with
      | Some prev => if prev =? 0 then Some SiteUserEmptyPrev
                     else if next =? 0 then Some SiteUserEmptyNext
                     else if negb (prev =? next) then Some SiteUserDiffers else None
      | None => None
      end in
    match chk with
    | Some x => inl x
    | None =>
      let s1 := set_block s (Some next) in
      let r :=
        if s_client s then inr s1
        else
          match s_policy s1 with
          | Some cur => if negb (cur =? next) then inl SitePolicyVsCipher
                        else if negb (g_policy g =? 0) && negb (cur =? g_policy g) then inl SitePolicyRetained
                        else inr s1
          | None => if negb (g_policy g =? 0)
                    then (if negb (g_policy g =? next) then inl SitePolicyNew else inr (set_policy s1 (Some (g_policy g))))
                    else inr s1
          end in
      match r with
      | inl x => inl x
      | inr s2 => if (s_user s2 =? 0) && negb (next =? 0) then inr (set_user s2 next) else inr s2
      end
    end
  end.

Definition input_data (v : env) (tr : transport) (s : session) (g : segment) : in_result :=
  let after_store :=
    if negb (s_client s) && (g_proto g =? P_openReq) && negb (s_established s) then
      if negb (v_quota_ok v) then InClose
      else if v_insert_ok v then InOk (set_established s) else InErr      (* sendQueue.Insert(open session response) *)
    else if s_client s && (g_proto g =? P_openResp) then InOk (set_established s)
    else InOk s in
  match tr with
  | TCP =>
      match tree_insert_guard g with
      | Some x => InPanic x
      | None => if v_insert_ok v then after_store else InErr
      end
  | UDP =>
      if negb (v_window_open v) then InOk s          (* dropped: receive window is 0 *)
      else match tree_insert_guard g with
           | Some x => InPanic x
           | None => if v_insert_ok v then after_store else InOk s   (* dropped: insert to receive buffer failed *)
           end
  end.

Definition input_ack (tr : transport) (s : session) (g : segment) : in_result :=
  match tr with
  | TCP => InOk s
  | UDP => match g_kind g with KDataAck => InOk s | _ => InPanic SiteAckMetaAssert end
  end.

Definition input_close (v : env) (s : session) (g : segment) : in_result :=
  if g_proto g =? P_closeReq then
    if negb (v_write_ok v) then InErr
    else match g_kind g with KSession => InClose | _ => InPanic SiteCloseMetaAssert end
  else if g_proto g =? P_closeResp then InClose
  else InOk s.

Definition input (v : env) (tr : transport) (s : session) (g : segment) : in_result :=
  if negb (input_direction_ok (s_client s) (g_proto g)) then InErr
  else
    match input_identity s g with
    | inl x => InPanic x
    | inr s1 =>
      if (g_proto g =? P_openReq) || (g_proto g =? P_openResp) || is_data_proto (g_proto g) then input_data v tr s1 g
      else if is_ack_proto (g_proto g) then input_ack tr s1 g
      else if (g_proto g =? P_closeReq) || (g_proto g =? P_closeResp) then input_close v s1 g
      else InOk s1
    end.

(* ------------------------------------------------------------------ RunEventLoop *)
Inductive outcome :=
| Ok (e' : endpoint)              (* handled; the endpoint continues in state e' *)
| Drop (e' : endpoint)            (* ignored; e' differs from the old state at most in e_user (TCP: t.recv set) *)
| Reply (e' : endpoint)           (* ignored, and a closeSessionRequest is sent back to the sender *)
| CloseSession (sid : N) (e' : endpoint)   (* session sid of this underlay is closed *)
| CloseUnderlay                   (* TCP: RunEventLoop returns, the connection and its sessions are closed *)
| Panic (x : site).               (* the process dies *)

(* sessionMap.Load as seen by the dispatch. With the fix, on the UDP server a session owned by
   another user than the one that authenticated the segment is "not registered". *)
Definition lookup (fixed : bool) (e : endpoint) (g : segment) : option session :=
  match find_session (g_sid g) (e_sessions e) with
  | None => None
  | Some s =>
    if fixed && negb (is_tcp e) && negb (is_client e) then
      match g_block g with
      | None => Some s
      | Some u => if (session_owner s =? 0) || (session_owner s =? u) then Some s else None
      end
    else Some s
  end.

(* deliverSegmentToSession + the session goroutine *)
Definition deliver (v : env) (e : endpoint) (s : session) (g : segment) : outcome :=
  if s_closed s then Drop e
  else match input v (e_tr e) s g with
       | InOk s' => Ok (with_sessions e (put_session s' (e_sessions e)))
       | InErr | InClose => CloseSession (s_id s) (with_sessions e (put_session (set_closed s) (e_sessions e)))
       | InPanic x => Panic x
       end.

(* an error returned by an on...() handler: UDP logs and continues, TCP returns from RunEventLoop *)
Definition handler_error (e : endpoint) : outcome := if is_tcp e then CloseUnderlay else Drop e.

Definition dispatch (fixed : bool) (v : env) (e : endpoint) (g : segment) : outcome :=
  if is_tcp e && g_new_auth g && negb ((g_proto g =? P_openReq) && negb (g_sid g =? 0)) then CloseUnderlay
  else if is_session_proto (g_proto g) then
    if g_proto g =? P_openReq then
      if is_client e then handler_error e
      else if g_sid g =? 0 then handler_error e
      else match find_session (g_sid g) (e_sessions e) with
           | Some _ => Drop e                                 (* "session ID is already used" *)
           | None =>
             let pol := if is_tcp e then (if g_new_auth g then g_policy g else e_user e) else g_policy g in
             let s0 := mkSession (g_sid g) false false false None (if pol =? 0 then None else Some pol) 0 in
             deliver v (with_sessions e (s0 :: e_sessions e)) s0 g
           end
    else if g_proto g =? P_openResp then
      if negb (is_client e) then handler_error e
      else match find_session (g_sid g) (e_sessions e) with
           | None => handler_error e
           | Some s => deliver v e s g
           end
    else
      (* closeSessionRequest / closeSessionResponse *)
      match find_session (g_sid g) (e_sessions e) with
      | None => Drop e
      | Some _ =>
        match lookup fixed e g with
        | None => Drop e                                     (* the fix: "owned by a different user" *)
        | Some s => deliver v e s g
        end
      end
  else if is_dataack_proto (g_proto g) then
    match lookup fixed e g with
    | None =>
      if is_client e || is_tcp e || (match g_block g with Some _ => true | None => false end)
      then (if v_write_ok v then Reply e else CloseUnderlay)
      else Drop e
    | Some s => deliver v e s g
    end
  else Drop e.

Definition step (fixed : bool) (v : env) (e : endpoint) (w : wire) : outcome :=
  match read_one e w with
  | RPanic x => Panic x
  | RSkip => Drop e
  | RErr err =>
      match get_error_type (Some err) with
      | NO_ERROR => Panic SiteStreamErrNoError
      | UNKNOWN_ERROR => Panic SiteStreamErrUnknown
      | _ => CloseUnderlay
      end
  | RSeg e1 g => dispatch fixed v e1 g
  end.

(* a history of inputs on one underlay; a closed TCP underlay receives nothing any more *)
Inductive run_result := RunLive (e : endpoint) | RunClosed | RunPanic (x : site).

Fixpoint run (fixed : bool) (e : endpoint) (l : list (env * wire)) : run_result :=
  match l with
  | [] => RunLive e
  | (v, w) :: r =>
    match step fixed v e w with
    | Ok e' | Drop e' | Reply e' | CloseSession _ e' => run fixed e' r
    | CloseUnderlay => RunClosed
    | Panic x => RunPanic x
    end
  end.

(* outcome classes as the driver observes them *)
Definition outcome_class (o : outcome) : N :=
  match o with Ok _ => 0 | Drop _ => 1 | Reply _ => 2 | CloseSession _ _ => 3 | CloseUnderlay => 4 | Panic _ => 5 end.
Definition outcome_state (e : endpoint) (o : outcome) : endpoint :=
  match o with Ok e' | Drop e' | Reply e' | CloseSession _ e' => e' | _ => e end.
Definition outcome_site (o : outcome) : N := match o with Panic x => site_code x | _ => 0 end.

(* ------------------------------------------------------------------ SOCKS5 address parser
   apis/model/addr.go AddrSpec.ReadFromSocks5 over a byte string: Some (address type, host bytes,
   port, number of bytes consumed) or None (error). Used by ReadSocks5Request/Response (after a
   3-byte header), UDPAssociateWrapper.ReadFrom and parseSocks5UDPDatagram. *)
Definition T_v4 := Z.to_N C10_Socks5IPv4Address.
Definition T_v6 := Z.to_N C10_Socks5IPv6Address.
Definition T_fqdn := Z.to_N C10_Socks5FQDNAddress.

Definition take_exact (n : nat) (l : list N) : option (list N * list N) :=
  if Nat.leb n (length l) then Some (firstn n l, skipn n l) else None.

Definition parse_port (l : list N) : option N :=
  match l with a :: b :: _ => Some (a * 256 + b) | _ => None end.

Definition parse_socks5_addr (l : list N) : option (N * list N * N * N) :=
  match l with
  | [] => None
  | t :: r =>
    let fixed_len (n : nat) (hdr : N) :=
      match take_exact n r with
      | None => None
      | Some (host, r2) => match parse_port r2 with
                           | None => None
                           | Some p => Some (t, host, p, hdr + N.of_nat n + 2)
                           end
      end in
    if t =? T_v4 then fixed_len 4%nat 1
    else if t =? T_v6 then fixed_len 16%nat 1
    else if t =? T_fqdn then
      match r with
      | [] => None
      | n :: r1 =>
        match take_exact (N.to_nat n) r1 with
        | None => None
        | Some (host, r2) => match parse_port r2 with
                             | None => None
                             | Some p => Some (t, host, p, n + 4)
                             end
        end
      end
    else None
  end.

(* pkg/socks5 parseSocks5UDPDatagram: Some (header length) or None *)
Definition parse_socks5_udp (l : list N) : option N :=
  if Nat.leb (length l) 6 then None
  else match l with
       | a :: b :: c :: r =>
         if negb ((a =? 0) && (b =? 0)) then None
         else if negb (c =? 0) then None
         else match parse_socks5_addr r with
              | None => None
              | Some (_, _, _, used) => Some (used + 3)
              end
       | _ => None
       end.

(* Request.ReadFromSocks5 / Response.ReadFromSocks5: Some (command or reply, bytes consumed) *)
Definition parse_socks5_msg (l : list N) : option (N * N) :=
  match l with
  | ver :: cmd :: _ :: r =>
    if negb (ver =? Z.to_N C10_Socks5Version) then None
    else match parse_socks5_addr r with
         | None => None
         | Some (_, _, _, used) => Some (cmd, used + 3)
         end
  | _ => None
  end.
