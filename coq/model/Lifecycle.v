(* C15, part 2: life cycle of one session at one end (pkg/protocol/session.go, underlay_base.go,
   underlay_stream.go, underlay_packet.go, mux.go) as a labelled transition system with explicit wait points.

   Threads of one end (fixed roles; every Go statement sequence that runs under one mutex or is a single
   channel operation is one step; a blocking select / Lock / Wait is a wait point with its exit conditions):
     reader  R   Session.Read:        RWait = select {closedChan, inputErr, timer, recvQueue not empty}
     writer  W   Session.Write/writeChunk: WSpace (queue full loop: closedChan, outputErr, timer, space),
                                      WOLock (s.oLock.Lock()), WMove (queue empty or moving; no other exit)
     closers C1 C2  closeWithError (application Close; the input loop on closeSessionRequest / an error path;
                                      underlay Close calls it too): CAS on closeRequested, then for an attached
                                      session: insert close request, CGrace n = poll lastSend up to n times,
                                      COLock = s.oLock.Lock(), COutput = s.output (conn.Write), CFinish =
                                      DeleteAll; close(closedChan)
     input   I   runInputLoop: LRun = select {closedChan, recvChan}; LRecvSpace = waitForRecvQueueSpace
     output  O   runOutputLoop: LRun = select {closedChan, sendQueue event}; LConnWrite = inside conn.Write holding oLock
     event   E   underlay RunEventLoop: ERun = the select at the top of the loop {done, clean ticker, default};
                                      EArmed = readOneSegment armed its 60..120 s read timeout (this REPLACES the
                                      connection's read deadline) and is about to look at done (fixed code) / to read;
                                      ERead = blocked in the network read, EDeliver = deliverSegmentToSession
     underlay U  underlay Close: conn.SetDeadline(now) [connDL, readDL], session Close (as C2), UWg = s.wg.Wait(),
                                      close(done), USecondDL = conn.SetDeadline(now) once more (fixed code)
   Environment labels change what the network / the peer / the timers do.  *)
From Coq Require Import ZArith List Bool Arith.
From M Require Import gen.Consts model.Deadline.
Import ListNotations.

Inductive rpc := RIdle | RWait (armed : bool) | RRet (c : cls).
Inductive wpc := WIdle | WSpace (armed : bool) | WOLock (armed : bool) | WMove | WRet (c : cls).
Inductive cpc := CIdle | CGrace (n : nat) | COLock | COutput | CFinish | CRet.
(* LErr held c (output loop only): conn.Write failed; the loop closed outputErr and is now inside its own call of
   closeWithError(err), whose progress is c.  held = the loop still holds oLock during that call.  The code releases
   the lock first ("s.oLock.Unlock() // s.oLock can be acquired by s.closeWithError()"): held = false.  held = true is
   the variant that keeps the lock (defer Unlock), kept in the model to show what the early Unlock is for. *)
Inductive lpc := LRun | LRecvSpace | LConnWrite | LExited | LErr (held : bool) (c : cpc).
Inductive epc := ERun | EArmed | ERead | EDeliver | EExited.
Inductive upc := UIdle | UCloseSession | UWg | USecondDL | URet.

Record state := mkState {
  closeRequested : bool;   (* atomic.Bool, CAS in closeWithError *)
  closedChan : bool;       (* close(s.closedChan) happened *)
  nclosed : nat;           (* how many times close(s.closedChan) was executed (2 = panic in Go) *)
  attached : bool;         (* session state ATTACHED/ESTABLISHED: a close request is sent *)
  inputErr : bool;
  outputErr : bool;
  udone : bool;            (* close(b.done) of the underlay *)
  connDL : bool;           (* underlay Close set the connection deadline to now: network I/O returns *)
  netStalled : bool;       (* conn.Write would block (TCP peer not reading, send buffer full) *)
  recvNonEmpty : bool;     (* recvQueue has a segment *)
  recvFull : bool;         (* recvQueue is full *)
  recvChanFull : bool;     (* recvChan is full *)
  sendFull : bool;         (* sendQueue has no room for the chunk *)
  sendMoved : bool;        (* the send queue is empty or its minimum moved since the write *)
  rFired : bool;           (* the read timer of the current Read fired *)
  wFired : bool;           (* the write timer of the current chunk fired *)
  rdSet : bool;            (* readDeadline <> 0 *)
  wdSet : bool;            (* writeDeadline <> 0 *)
  isClient : bool;
  pR : rpc; pW : wpc; pC1 : cpc; pC2 : cpc; pI : lpc; pO : lpc; pE : epc; pU : upc;
  netBroken : bool;        (* the connection is broken (TCP reset, closed by the peer): network I/O returns an error *)
  keepLock : bool;         (* model variant, never changed by a step: false = the code (lock released before the
                              output loop calls closeWithError), true = lock kept *)
  readDL : bool;           (* the connection's read deadline lies in the past: a network read returns at once.  Set by
                              the underlay Close, REPLACED (cleared) when the event loop arms its read timeout *)
  tickPending : bool;      (* a sessionCleanTicker tick is waiting in the channel (the ticker is stopped by Close, a tick
                              that is already pending stays) *)
  fixedLoop : bool         (* model variant, never changed by a step: true = the code (second SetDeadline(now) after
                              close(done); readOneSegment looks at done after arming), false = the code before that fix *)
}.

Inductive label :=
(* application calls *)
| ACallRead | ACallWrite | ACallClose1 | ACallClose2 | ASetRD (on : bool) | ASetWD (on : bool) | ACallUnderlayClose
| ATakeR | ATakeW | ATakeC1 | ATakeC2        (* the application takes the result; the role is free again *)
(* one step of a thread *)
| TR | TW | TC1 | TC2 | TI | TO | TE | TU
(* environment *)
| EData (b : bool) | ERecvFull (b : bool) | ERecvChanFull (b : bool) | ESendFull (b : bool) | ESendMoved (b : bool)
| ERFire | EWFire | ENetStall (b : bool) | EInputFail | EOutputFail | ESegment (* the event loop got a segment *)
| EReadTimeout | ENetBreak | ETick.

Definition grace_iters : nat := Z.to_nat C15_closeWaitIterations.

Definition olock_free (s : state) : bool :=
  negb (match pO s with LConnWrite => true | LErr true _ => true | LErr false COutput => true | _ => false end)
  && negb (match pC1 s with COutput => true | _ => false end)
  && negb (match pC2 s with COutput => true | _ => false end).

Definition net_ok (s : state) : bool := negb (netStalled s) || connDL s || netBroken s.

(* generic record updates *)
Definition setR (s : state) (p : rpc) : state :=
  mkState (closeRequested s) (closedChan s) (nclosed s) (attached s) (inputErr s) (outputErr s) (udone s) (connDL s) (netStalled s)
          (recvNonEmpty s) (recvFull s) (recvChanFull s) (sendFull s) (sendMoved s) (rFired s) (wFired s) (rdSet s) (wdSet s) (isClient s)
          p (pW s) (pC1 s) (pC2 s) (pI s) (pO s) (pE s) (pU s) (netBroken s) (keepLock s) (readDL s) (tickPending s) (fixedLoop s).
Definition setW (s : state) (p : wpc) : state :=
  mkState (closeRequested s) (closedChan s) (nclosed s) (attached s) (inputErr s) (outputErr s) (udone s) (connDL s) (netStalled s)
          (recvNonEmpty s) (recvFull s) (recvChanFull s) (sendFull s) (sendMoved s) (rFired s) (wFired s) (rdSet s) (wdSet s) (isClient s)
          (pR s) p (pC1 s) (pC2 s) (pI s) (pO s) (pE s) (pU s) (netBroken s) (keepLock s) (readDL s) (tickPending s) (fixedLoop s).
Definition setC (one : bool) (s : state) (p : cpc) : state :=
  mkState (closeRequested s) (closedChan s) (nclosed s) (attached s) (inputErr s) (outputErr s) (udone s) (connDL s) (netStalled s)
          (recvNonEmpty s) (recvFull s) (recvChanFull s) (sendFull s) (sendMoved s) (rFired s) (wFired s) (rdSet s) (wdSet s) (isClient s)
          (pR s) (pW s) (if one then p else pC1 s) (if one then pC2 s else p) (pI s) (pO s) (pE s) (pU s) (netBroken s) (keepLock s) (readDL s) (tickPending s) (fixedLoop s).
Definition setI (s : state) (p : lpc) : state :=
  mkState (closeRequested s) (closedChan s) (nclosed s) (attached s) (inputErr s) (outputErr s) (udone s) (connDL s) (netStalled s)
          (recvNonEmpty s) (recvFull s) (recvChanFull s) (sendFull s) (sendMoved s) (rFired s) (wFired s) (rdSet s) (wdSet s) (isClient s)
          (pR s) (pW s) (pC1 s) (pC2 s) p (pO s) (pE s) (pU s) (netBroken s) (keepLock s) (readDL s) (tickPending s) (fixedLoop s).
Definition setO (s : state) (p : lpc) : state :=
  mkState (closeRequested s) (closedChan s) (nclosed s) (attached s) (inputErr s) (outputErr s) (udone s) (connDL s) (netStalled s)
          (recvNonEmpty s) (recvFull s) (recvChanFull s) (sendFull s) (sendMoved s) (rFired s) (wFired s) (rdSet s) (wdSet s) (isClient s)
          (pR s) (pW s) (pC1 s) (pC2 s) (pI s) p (pE s) (pU s) (netBroken s) (keepLock s) (readDL s) (tickPending s) (fixedLoop s).
Definition setE (s : state) (p : epc) : state :=
  mkState (closeRequested s) (closedChan s) (nclosed s) (attached s) (inputErr s) (outputErr s) (udone s) (connDL s) (netStalled s)
          (recvNonEmpty s) (recvFull s) (recvChanFull s) (sendFull s) (sendMoved s) (rFired s) (wFired s) (rdSet s) (wdSet s) (isClient s)
          (pR s) (pW s) (pC1 s) (pC2 s) (pI s) (pO s) p (pU s) (netBroken s) (keepLock s) (readDL s) (tickPending s) (fixedLoop s).
Definition setU (s : state) (p : upc) : state :=
  mkState (closeRequested s) (closedChan s) (nclosed s) (attached s) (inputErr s) (outputErr s) (udone s) (connDL s) (netStalled s)
          (recvNonEmpty s) (recvFull s) (recvChanFull s) (sendFull s) (sendMoved s) (rFired s) (wFired s) (rdSet s) (wdSet s) (isClient s)
          (pR s) (pW s) (pC1 s) (pC2 s) (pI s) (pO s) (pE s) p (netBroken s) (keepLock s) (readDL s) (tickPending s) (fixedLoop s).
(* shared flags *)
Definition setFlags (s : state) (creq closed : bool) (ncl : nat) (ierr oerr ud cdl : bool) : state :=
  mkState creq closed ncl (attached s) ierr oerr ud cdl (netStalled s)
          (recvNonEmpty s) (recvFull s) (recvChanFull s) (sendFull s) (sendMoved s) (rFired s) (wFired s) (rdSet s) (wdSet s) (isClient s)
          (pR s) (pW s) (pC1 s) (pC2 s) (pI s) (pO s) (pE s) (pU s) (netBroken s) (keepLock s) (readDL s) (tickPending s) (fixedLoop s).
Definition setEnv (s : state) (stalled rne rfull rcfull sfull smoved rf wf rds wds : bool) : state :=
  mkState (closeRequested s) (closedChan s) (nclosed s) (attached s) (inputErr s) (outputErr s) (udone s) (connDL s) stalled
          rne rfull rcfull sfull smoved rf wf rds wds (isClient s)
          (pR s) (pW s) (pC1 s) (pC2 s) (pI s) (pO s) (pE s) (pU s) (netBroken s) (keepLock s) (readDL s) (tickPending s) (fixedLoop s).

Definition setRDL (s : state) (rdl tick : bool) : state :=
  mkState (closeRequested s) (closedChan s) (nclosed s) (attached s) (inputErr s) (outputErr s) (udone s) (connDL s) (netStalled s)
          (recvNonEmpty s) (recvFull s) (recvChanFull s) (sendFull s) (sendMoved s) (rFired s) (wFired s) (rdSet s) (wdSet s) (isClient s)
          (pR s) (pW s) (pC1 s) (pC2 s) (pI s) (pO s) (pE s) (pU s) (netBroken s) (keepLock s) rdl tick (fixedLoop s).

(* --- the exit table of the wait points (also used by the correspondence acceptor) ------------------------ *)

Definition read_exits (armed : bool) (s : state) : list cls :=
  (if recvNonEmpty s then [DATA] else []) ++ (if closedChan s then [EOF] else [])
  ++ (if inputErr s then [UEOF] else []) ++ (if armed && rFired s then [TIMEOUT] else []).

Definition wspace_exits (armed : bool) (s : state) : list cls :=
  (if closedChan s then [EOF] else []) ++ (if outputErr s then [CLOSED] else [])
  ++ (if armed && wFired s then [TIMEOUT] else []) ++ (if negb (sendFull s) then [OK] else []).

(* closeWithError after winning the CAS *)
Definition close_begin (s : state) : cpc :=
  if attached s then CGrace grace_iters else CFinish.

Definition step_closer (one : bool) (s : state) : option state :=
  match (if one then pC1 s else pC2 s) with
  | CIdle | CRet => None
  | CGrace n =>
    (* one poll of lastSend: succeeds when the output loop transmitted the close request (needs a live network) *)
    match n with
    | O => Some (setC one s COLock)
    | S n' => if olock_free s && net_ok s && negb (outputErr s) then Some (setC one s CFinish) else Some (setC one s (CGrace n'))
    end
  | COLock => if olock_free s then Some (setC one s COutput) else None
  | COutput => if net_ok s then Some (setC one s CFinish) else None
  | CFinish =>
    (* DeleteAll (the send queue is empty: sendMoved) ; forwardStateTo(closed) ; close(closedChan) *)
    let s1 := setFlags s (closeRequested s) true (S (nclosed s)) (inputErr s) (outputErr s) (udone s) (connDL s) in
    let s2 := setEnv s1 (netStalled s1) (recvNonEmpty s1) (recvFull s1) (recvChanFull s1) false true (rFired s1) (wFired s1) (rdSet s1) (wdSet s1) in
    Some (setC one s2 CRet)
  end.

Definition call_close (one : bool) (s : state) : option state :=
  match (if one then pC1 s else pC2 s) with
  | CIdle =>
    if closeRequested s then Some (setC one s CRet)           (* CAS failed: no-op, returns nil *)
    else let s1 := setFlags s true (closedChan s) (nclosed s) (inputErr s) (outputErr s) (udone s) (connDL s) in
         Some (setC one s1 (close_begin s1))
  | _ => None
  end.

Definition step (l : label) (s : state) : option state :=
  match l with
  | ACallRead =>
    match pR s with
    | RIdle => if recvNonEmpty s then Some (setR s (RRet DATA))
               else Some (setR (setEnv s (netStalled s) (recvNonEmpty s) (recvFull s) (recvChanFull s) (sendFull s) (sendMoved s) false (wFired s) (rdSet s) (wdSet s)) (RWait (rdSet s)))
    | _ => None
    end
  | TR =>
    match pR s with
    | RWait armed =>
      match read_exits armed s with
      | c :: _ =>
        (* the deferred readDeadline.Store(0) *)
        Some (setR (setEnv s (netStalled s) (recvNonEmpty s) (recvFull s) (recvChanFull s) (sendFull s) (sendMoved s) (rFired s) (wFired s) false (wdSet s)) (RRet c))
      | [] => None
      end
    | _ => None
    end
  | ATakeR => match pR s with RRet _ => Some (setR s RIdle) | _ => None end
  | ACallWrite =>
    match pW s with
    | WIdle => if closeRequested s then Some (setW s (WRet CLOSED))
               else Some (setW (setEnv s (netStalled s) (recvNonEmpty s) (recvFull s) (recvChanFull s) (sendFull s) false (rFired s) false (rdSet s) (wdSet s)) (WSpace (wdSet s)))
    | _ => None
    end
  | TW =>
    let fin (c : cls) :=
      (* deferred writeDeadline.Store(0); a completed client chunk arms the read deadline *)
      Some (setW (setEnv s (netStalled s) (recvNonEmpty s) (recvFull s) (recvChanFull s) (sendFull s) (sendMoved s) (rFired s) (wFired s)
                         (if isClient s && cls_eqb c OK then true else rdSet s) false) (WRet c)) in
    match pW s with
    | WSpace armed =>
      match wspace_exits armed s with
      | OK :: _ => Some (setW s (WOLock armed))
      | c :: _ => fin c
      | [] => None
      end
    | WOLock armed =>
      if olock_free s then
        (* fragment insertion polls closedChan / outputErr / timer *)
        if closedChan s then fin EOF else if outputErr s then fin CLOSED else if armed && wFired s then fin TIMEOUT
        else Some (setW s WMove)
      else None
    | WMove => if sendMoved s then fin OK else None
    | _ => None
    end
  | ATakeW => match pW s with WRet _ => Some (setW s WIdle) | _ => None end
  | ACallClose1 => call_close true s
  | ACallClose2 => call_close false s
  | TC1 => step_closer true s
  | TC2 => step_closer false s
  | ATakeC1 => match pC1 s with CRet => Some (setC true s CIdle) | _ => None end
  | ATakeC2 => match pC2 s with CRet => Some (setC false s CIdle) | _ => None end
  | ASetRD on => Some (setEnv s (netStalled s) (recvNonEmpty s) (recvFull s) (recvChanFull s) (sendFull s) (sendMoved s) (rFired s) (wFired s) on (wdSet s))
  | ASetWD on => Some (setEnv s (netStalled s) (recvNonEmpty s) (recvFull s) (recvChanFull s) (sendFull s) (sendMoved s) (rFired s) (wFired s) (rdSet s) on)
  | TI =>
    match pI s with
    | LRun => if closedChan s then Some (setI s LExited)
              else if recvChanFull s || true then Some (setI s LRecvSpace) else None   (* took a segment from recvChan *)
    | LRecvSpace => if closedChan s then Some (setI s LRun) else if negb (recvFull s) then Some (setI s LRun) else None
    | _ => None
    end
  | TO =>
    match pO s with
    | LRun => if closedChan s then Some (setO s LExited)
              else if olock_free s then Some (setO s LConnWrite) else None
    | LConnWrite =>
      (* a past connection deadline or a broken connection makes conn.Write fail: the loop closes outputErr, releases
         oLock (unless the variant keeps it) and calls closeWithError(err) *)
      if connDL s || netBroken s then
        Some (setO (setFlags s (closeRequested s) (closedChan s) (nclosed s) (inputErr s) true (udone s) (connDL s)) (LErr (keepLock s) CIdle))
      else if negb (netStalled s) then Some (setO s LRun) else None
    | LErr h c =>
      (* closeWithError(err) with err <> nil: CAS; attached: Lock, allocate the close request, Unlock, Lock, output, Unlock;
         DeleteAll; close(closedChan) *)
      match c with
      | CIdle =>
        if closeRequested s then Some (setO s (LErr h CRet))
        else let s1 := setFlags s true (closedChan s) (nclosed s) (inputErr s) (outputErr s) (udone s) (connDL s) in
             Some (setO s1 (LErr h (if attached s1 then COLock else CFinish)))
      | COLock =>
        (* Mutex.Lock: free iff nobody holds it - the loop itself counts when it kept the lock *)
        if negb h && olock_free s then Some (setO s (LErr h COutput)) else None
      | COutput => if net_ok s then Some (setO s (LErr h CFinish)) else None
      | CFinish =>
        let s1 := setFlags s (closeRequested s) true (S (nclosed s)) (inputErr s) (outputErr s) (udone s) (connDL s) in
        let s2 := setEnv s1 (netStalled s1) (recvNonEmpty s1) (recvFull s1) (recvChanFull s1) false true (rFired s1) (wFired s1) (rdSet s1) (wdSet s1) in
        Some (setO s2 (LErr h CRet))
      | CRet => Some (setO s LRun)       (* back to the select of runOutputLoop (the deferred Unlock runs here in the variant) *)
      | CGrace _ => Some (setO s (LErr h COLock))   (* not reachable: an error close does not poll *)
      end
    | _ => None
    end
  | ESegment => match pE s with ERead => Some (setE s EDeliver) | _ => None end
  | EReadTimeout => match pE s with ERead => Some (setE s ERun) | _ => None end
  | TE =>
    match pE s with
    | ERun =>
      (* select {ctx/done: leave; clean ticker: cleanSessions then read; default: read}.  Go picks at random among the
         ready cases: a pending tick may win over done (worst case modelled).  Reading starts by arming the read
         timeout, which replaces whatever read deadline the connection had. *)
      if tickPending s then Some (setE (setRDL s false false) EArmed)
      else if udone s then Some (setE s EExited)
      else Some (setE (setRDL s false (tickPending s)) EArmed)
    | EArmed =>
      (* fixed code: readOneSegment looks at done right after arming and gives up (stream: nil,nil; packet: ErrClosedPipe) *)
      if fixedLoop s && udone s then Some (setE s ERun) else Some (setE s ERead)
    | ERead => if readDL s || netBroken s then Some (setE s ERun) else None   (* a past read deadline makes the read return *)
    | EDeliver => if negb (recvChanFull s) || closedChan s || udone s then Some (setE s ERun) else None
    | EExited => None
    end
  | ACallUnderlayClose =>
    match pU s with
    | UIdle => if udone s then Some (setU s URet)
               else (* sessionCleanTicker.Stop(); conn.SetDeadline(now) *)
                    Some (setU (setRDL (setFlags s (closeRequested s) (closedChan s) (nclosed s) (inputErr s) (outputErr s) (udone s) true) true (tickPending s)) UCloseSession)
    | _ => None
    end
  | TU =>
    match pU s with
    | UCloseSession =>
      (* s.Close() runs in this thread: it is closer C2 *)
      match pC2 s with
      | CIdle => call_close false s
      | CRet => Some (setU (setC false s CIdle) UWg)
      | _ => step_closer false s
      end
    | UWg => match pI s, pO s with
             | LExited, LExited =>
               Some (setU (setFlags s (closeRequested s) (closedChan s) (nclosed s) (inputErr s) (outputErr s) true (connDL s))
                          (if fixedLoop s then USecondDL else URet))
             | _, _ => None
             end
    | USecondDL => Some (setU (setRDL s true (tickPending s)) URet)     (* conn.SetDeadline(now) again, after close(done) *)
    | _ => None
    end
  | EData b => Some (setEnv s (netStalled s) b (recvFull s) (recvChanFull s) (sendFull s) (sendMoved s) (rFired s) (wFired s) (rdSet s) (wdSet s))
  | ERecvFull b => Some (setEnv s (netStalled s) (recvNonEmpty s) b (recvChanFull s) (sendFull s) (sendMoved s) (rFired s) (wFired s) (rdSet s) (wdSet s))
  | ERecvChanFull b => Some (setEnv s (netStalled s) (recvNonEmpty s) (recvFull s) b (sendFull s) (sendMoved s) (rFired s) (wFired s) (rdSet s) (wdSet s))
  | ESendFull b => if closedChan s then None   (* after DeleteAll nobody drains or fills: the queue stays as it is *)
                   else Some (setEnv s (netStalled s) (recvNonEmpty s) (recvFull s) (recvChanFull s) b (sendMoved s) (rFired s) (wFired s) (rdSet s) (wdSet s))
  | ESendMoved b => if closedChan s then None
                    else Some (setEnv s (netStalled s) (recvNonEmpty s) (recvFull s) (recvChanFull s) (sendFull s) b (rFired s) (wFired s) (rdSet s) (wdSet s))
  | ERFire => Some (setEnv s (netStalled s) (recvNonEmpty s) (recvFull s) (recvChanFull s) (sendFull s) (sendMoved s) true (wFired s) (rdSet s) (wdSet s))
  | EWFire => Some (setEnv s (netStalled s) (recvNonEmpty s) (recvFull s) (recvChanFull s) (sendFull s) (sendMoved s) (rFired s) true (rdSet s) (wdSet s))
  | ENetStall b => Some (setEnv s b (recvNonEmpty s) (recvFull s) (recvChanFull s) (sendFull s) (sendMoved s) (rFired s) (wFired s) (rdSet s) (wdSet s))
  | ENetBreak => Some (mkState (closeRequested s) (closedChan s) (nclosed s) (attached s) (inputErr s) (outputErr s) (udone s) (connDL s) (netStalled s)
          (recvNonEmpty s) (recvFull s) (recvChanFull s) (sendFull s) (sendMoved s) (rFired s) (wFired s) (rdSet s) (wdSet s) (isClient s)
          (pR s) (pW s) (pC1 s) (pC2 s) (pI s) (pO s) (pE s) (pU s) true (keepLock s) (readDL s) (tickPending s) (fixedLoop s))
  | ETick => match pU s with UIdle => Some (setRDL s (readDL s) true) | _ => None end   (* the ticker is stopped when Close begins *)
  | EInputFail => Some (setFlags s (closeRequested s) (closedChan s) (nclosed s) true (outputErr s) (udone s) (connDL s))
  | EOutputFail => Some (setFlags s (closeRequested s) (closedChan s) (nclosed s) (inputErr s) true (udone s) (connDL s))
  end.

Fixpoint run (s : state) (ls : list label) : option state :=
  match ls with
  | [] => Some s
  | l :: ls' => match step l s with Some s' => run s' ls' | None => None end
  end.

Definition init_vv (keep fixed client att : bool) : state :=
  mkState false false O att false false false false false false false false false false false false false false client
          RIdle WIdle CIdle CIdle LRun LRun ERun UIdle false keep false false fixed.

Definition init_v (keep client att : bool) : state := init_vv keep true client att.

Definition init (client att : bool) : state := init_v false client att.

(* the event loop once the underlay is done *)
Definition mEv (s : state) : nat :=
  match pE s with EExited => 0 | ERun => 1 | EArmed => 2 | ERead => 3 | EDeliver => 3 end + (if tickPending s then 3 else 0).

(* --- what is left to do: measure of outstanding work once the session is closed / the underlay is closing -- *)

Definition mR (p : rpc) : nat := match p with RWait _ => 1 | _ => 0 end.
Definition mW (p : wpc) : nat := match p with WSpace _ => 3 | WOLock _ => 2 | WMove => 1 | _ => 0 end.
Definition mC (p : cpc) : nat := match p with CGrace n => n + 4 | COLock => 3 | COutput => 2 | CFinish => 1 | _ => 0 end.
Definition mI (p : lpc) : nat := match p with LRecvSpace => 2 | LRun => 1 | _ => 0 end.
(* the output loop's own closeWithError (error close: no polling) *)
Definition mE (c : cpc) : nat := match c with CIdle => 7 | CGrace n => n + 8 | COLock => 5 | COutput => 4 | CFinish => 3 | CRet => 2 end.
Definition mO (p : lpc) : nat := match p with LErr _ c => mE c | LConnWrite => 8 | LRun => 1 | LRecvSpace => 0 | LExited => 0 end.

(* --- correspondence acceptor: is the observed class of a call explained by the exit table? ---------------
   Times in us; -1 = never, -2 = unknown (data written by the peer while the network was failing).
   tol = tolerance for "at the same time". *)
Open Scope Z_scope.

Definition known (x : Z) : bool := 0 <=? x.
Definition by_ (x t tol : Z) : bool := known x && (x <=? t + tol).

(* Read issued at t0 with effective deadline eff (from Deadline.v), returned at t1 (t1 = -1: blocked until horizon hz) *)
Definition accept_read (tol hz t0 t1 eff data clo chi elo ehi : Z) (obs : cls) : bool :=
  let dl := Z.max t0 eff in
  let prompt :=  (* no exit that was certainly enabled earlier was skipped *)
    (if 0 <? eff then t1 <=? dl + tol else true)
    && (if known chi then t1 <=? Z.max t0 chi + tol else true)
    && (if known data then t1 <=? Z.max t0 data + tol else true) in
  match obs with
  | DATA => negb (data =? -1) && ((data =? -2) || (data <=? t1 + tol)) && known t1 && prompt
  | EOF => by_ clo t1 tol && known t1 && prompt
  | UEOF => by_ elo t1 tol && known t1 && prompt
  | TIMEOUT => (0 <? eff) && (dl - tol <=? t1) && known t1 && prompt
  | BLOCKED => (t1 =? -1) && ((eff =? 0) || (hz <? eff)) && negb (known data) && negb (known chi) && negb (known ehi)
  | _ => false
  end.

Definition predict_read (t0 eff data clo chi elo ehi : Z) : cls :=
  let o (x : Z) := if known x then Some x else None in
  fst (read_outcome t0 eff (o data) (o (if known chi then chi else clo)) (o ehi)).

(* Write (or the last write of a flood) issued at t0 with effective deadline eff; stall = the network cannot take
   more data (peer not reading); tcp = stream transport (the stall then sits in conn.Write under oLock, where no
   exit looks at the timer or at closedChan); creq = time closeRequested was set at this end (-1 never) *)
Definition accept_write (tol hz t0 t1 eff : Z) (stall tcp : bool) (clo chi olo ohi creq : Z) (obs : cls) : bool :=
  let dl := Z.max t0 eff in
  match obs with
  | OK => known t1 && negb (stall && (0 <? eff) && (dl + tol <? t1) && negb tcp)
  | CLOSED => known t1 && (by_ creq t1 tol || by_ olo t1 tol || by_ clo t1 tol)
  | EOF => known t1 && by_ clo t1 tol
  | TIMEOUT => known t1 && (0 <? eff) && (dl - tol <=? t1) && ((t1 <=? dl + tol) || (stall && tcp))
  | BLOCKED =>
    (* peer not reading (stall), or - packet transport - the peer is gone (a remote close cause started, this end was
       never told): the last wait of writeChunk has no exit but a queue event *)
    (t1 =? -1) && ((stall && negb (known chi && negb tcp) && ((eff =? 0) || (hz <? eff) || tcp))
                   || (negb tcp && known clo && negb (known chi)))
  | _ => false
  end.

Definition predict_write (t0 eff : Z) (stall tcp : bool) (clo chi creq : Z) : cls :=
  if known creq && (creq <=? t0) then CLOSED
  else if negb stall then OK
  else if tcp then (if known chi then CLOSED else BLOCKED)
  else if 0 <? eff then TIMEOUT else if known chi then CLOSED else BLOCKED.

(* Close of a session / mux: first = the first Close of that object; stall as above.  bound in us.
   (Before the fix of the event loop a server Mux.Close could also wait for a re-armed read timeout:
   C15_event_loop_rearms_refuted_before_fix; the fixed code has no such outcome, C15_underlay_close_releases_event_loop.) *)
Definition accept_close (bound t0 t1 : Z) (first stall tcp : bool) (obs : cls) : bool :=
  match obs with
  | OK => known t1 && ((t1 - t0 <=? bound) || (stall && tcp))
  | BLOCKED => (t1 =? -1) && stall && tcp
  | _ => false
  end.

Definition predict_close (stall tcp : bool) : cls := if stall && tcp then BLOCKED else OK.

(* --- the multiplexer's underlay table (mux.go: m.underlays, cleanUnderlay, Close) -------------------------------
   An underlay record: done = its done channel is closed (underlay Close ran: event loop, socket and session loops
   end - C15_underlay_close_releases / _event_loop); listed = it is in m.underlays; sessions / idle = what
   cleanUnderlay asks (SessionCount() == 0, Scheduler().Idle()).  Mux.Close closes exactly the listed underlays. *)
Close Scope Z_scope.

Record urec := mkU { u_done : bool; u_listed : bool; u_sessions : nat; u_idle : bool }.

(* cleanUnderlay on one entry of the table: an underlay that is done is dropped; one that has no session and whose
   scheduler is idle is closed (and dropped); every other one is KEPT.  keep / close are the only outcomes. *)
Definition clean_one (u : urec) : urec :=
  if negb (u_listed u) then u
  else if u_done u then mkU true false (u_sessions u) (u_idle u)
  else if (u_sessions u =? 0)%nat && u_idle u then mkU true false (u_sessions u) (u_idle u)
  else u.

(* the variant "ask the scheduler first" with the else branch attached to the outer test: an idle underlay that still
   has sessions is neither closed nor kept *)
Definition clean_one_dropping (u : urec) : urec :=
  if negb (u_listed u) then u
  else if u_done u then mkU true false (u_sessions u) (u_idle u)
  else if u_idle u then
    (if (u_sessions u =? 0)%nat then mkU true false (u_sessions u) (u_idle u) else mkU false false (u_sessions u) (u_idle u))
  else u.

Definition mux_close_one (u : urec) : urec :=
  if u_listed u then mkU true false (u_sessions u) (u_idle u) else u.

Inductive mux_op :=
| MNew                                   (* newUnderlay / accept: running, listed *)
| MClean                                 (* housekeeping tick, DialContext, accept *)
| MEnv (i : nat) (sessions : nat) (idle : bool)   (* sessions come and go, the scheduler gets disabled / idle *)
| MSelfClose (i : nat)                   (* the event loop of underlay i ended: underlay.Close() *)
| MClose.                                (* Mux.Close *)

Fixpoint upd (l : list urec) (i : nat) (f : urec -> urec) : list urec :=
  match l, i with
  | [], _ => []
  | u :: l', O => f u :: l'
  | u :: l', S i' => u :: upd l' i' f
  end.

Definition mux_step (clean : urec -> urec) (l : list urec) (o : mux_op) : list urec :=
  match o with
  | MNew => l ++ [mkU false true 0 false]
  | MClean => map clean l
  | MEnv i n b => upd l i (fun u => mkU (u_done u) (u_listed u) n b)
  | MSelfClose i => upd l i (fun u => mkU true (u_listed u) (u_sessions u) (u_idle u))
  | MClose => map mux_close_one l
  end.

Definition mux_run (clean : urec -> urec) (l : list urec) (ops : list mux_op) : list urec := fold_left (mux_step clean) ops l.

(* every underlay whose loops run is in the table *)
Definition tracked (u : urec) : bool := u_done u || u_listed u.

(* --- which session states send a close request when the session is closed (closeWithError) ---------------------
   ATTACHED = attached to an underlay (a client may already have sent its open request: the peer may hold the
   session; a client session over TCP only becomes ESTABLISHED when the application reads the open response). *)
Inductive sstate := SInit | SAttached | SEstablished | SClosed.
Definition code_sends_close_request (st : sstate) : bool := match st with SAttached | SEstablished => true | _ => false end.
Definition established_only_sends_close_request (st : sstate) : bool := match st with SEstablished => true | _ => false end.
(* the peer can hold a session only after this end was attached (open request sent / session created by the request) *)
Definition peer_may_hold (st : sstate) : bool := match st with SAttached | SEstablished => true | _ => false end.
