(* Model of the traffic-pattern configuration (property C16, configuration/generation half).
   Mirrors apis/trafficpattern/config.go (Validate, NewConfig/generateImplicitTrafficPattern with
   the fix fixes/C16-implicit-minlen-above-explicit-maxlen.diff applied; [clamp = false] is the
   code before the fix), pkg/cipher/cipher.go (newNonceTo's apply decision, nonceRewriteLen),
   pkg/protocol/padding.go (maxPaddingSize, maxPaddingSizeWithTrafficPattern),
   pkg/protocol/low_entropy.go (extractLowEntropyConfig) and pkg/protocol/session.go
   (lowEntropySendConfig, the clientUseLowEntropy flag set in input()).
   A protobuf message with `optional` fields is a record of option fields; a sub-message is an
   option of a record (nil vs present).  int32/enum fields are Z.  Strings are lists of byte codes (N).
   rng.FixedInt(n, "<seed>:<field>") is the oracle [fixed n (seed, tag)]; math/rand draws are the
   oracle [draw].  Definitions only: no proofs here. *)
From Coq Require Import ZArith NArith List Bool.
From M Require Import gen.Consts.
Import ListNotations.
Open Scope Z_scope.

Record tcp_fragment := { tf_enable : option bool; tf_max_sleep : option Z }.
Record nonce_pattern := { np_type : option Z; np_all_udp : option bool; np_min : option Z; np_max : option Z;
                          np_hex : list (list N) }.
Record padding_pattern := { pp_mid : option Z; pp_end : option Z }.
Record low_entropy_pattern := { le_mode : option Z; le_rot : option Z }.
Record pattern := { tp_seed : option Z; tp_unlock : option bool;
                    tp_tcp : option tcp_fragment; tp_nonce : option nonce_pattern;
                    tp_pad : option padding_pattern; tp_le : option low_entropy_pattern }.

(* protobuf getters: nil / unset gives the zero value *)
Definition getZ (o : option Z) : Z := match o with Some v => v | None => 0 end.
Definition getB (o : option bool) : bool := match o with Some v => v | None => false end.
(* field of a possibly nil sub-message *)
Definition sub {M A : Type} (m : option M) (f : M -> option A) : option A :=
  match m with Some x => f x | None => None end.

(* ------------------------------------------------------------------ Validate *)

Definition rng_ok (lo hi : Z) (o : option Z) : bool :=
  match o with None => true | Some v => (lo <=? v) && (v <=? hi) end.

Definition is_hex_digit (c : N) : bool :=
  (((48 <=? c) && (c <=? 57)) || ((97 <=? c) && (c <=? 102)) || ((65 <=? c) && (c <=? 70)))%N.

(* encoding/hex.DecodeString succeeds and the decoded length is within the bound *)
Definition hex_ok (s : list N) : bool :=
  Nat.even (length s) && forallb is_hex_digit s && (Z.of_nat (length s) / 2 <=? C16_valHexMaxBytes).

Definition mem_z (v : Z) (l : list Z) : bool := existsb (Z.eqb v) l.

Definition validate_tcp (o : option tcp_fragment) : bool :=
  match o with None => true | Some f => rng_ok 0 C16_valMaxSleepMs (tf_max_sleep f) end.

Definition validate_nonce (o : option nonce_pattern) : bool :=
  match o with None => true | Some n =>
    rng_ok 0 C16_valNonceMinLenMax (np_min n) && rng_ok 0 C16_valNonceMaxLenMax (np_max n) &&
    (match np_min n, np_max n with Some a, Some b => a <=? b | _, _ => true end) &&
    forallb hex_ok (np_hex n)
  end.

Definition validate_pad (o : option padding_pattern) : bool :=
  match o with None => true | Some p =>
    rng_ok 0 C16_valPadMidMax (pp_mid p) && rng_ok 0 C16_valPadEndMax (pp_end p) end.

Definition enum_ok (l : list Z) (o : option Z) : bool :=
  match o with None => true | Some v => mem_z v l end.

Definition validate_le (o : option low_entropy_pattern) : bool :=
  match o with None => true | Some l => enum_ok C16_leModes (le_mode l) && enum_ok C16_leRotations (le_rot l) end.

(* 0 = nil error; 1..4 = the sub-validator that reports the first error (order of Validate) *)
Definition validate (p : pattern) : Z :=
  if negb (validate_tcp (tp_tcp p)) then 1
  else if negb (validate_nonce (tp_nonce p)) then 2
  else if negb (validate_pad (tp_pad p)) then 3
  else if negb (validate_le (tp_le p)) then 4
  else 0.

Definition valid (p : pattern) : Prop := validate p = 0.

(* ------------------------------------------------------------------ implicit generation *)

Inductive tag := TTcpEnable | TTcpMaxSleep | TNonceType | TNonceAllUDP | TNonceMinLen | TNonceMaxLen
               | TPadMid | TPadEnd | TLeMode | TLeRot.
(* the hint string "<seed>:<field name>" *)
Definition hint : Type := (Z * tag)%type.

Definition or_else {A : Type} (o : option A) (d : A) : option A :=
  match o with Some v => Some v | None => Some d end.

Section Generate.
  Variable fixed : Z -> hint -> Z.     (* rng.FixedInt *)
  Variable clamp : bool.               (* true: with the C16 fix *)

  Definition gen_tcp (o : option tcp_fragment) (seed : Z) (unlock : bool) : tcp_fragment :=
    {| tf_enable := or_else (sub o tf_enable)
         (if unlock then fixed 2 (seed, TTcpEnable) =? 1 else false);
       tf_max_sleep := or_else (sub o tf_max_sleep)
         (if unlock then fixed (C16_genSleepHiU - C16_genSleepLoU + 1) (seed, TTcpMaxSleep) + C16_genSleepLoU
          else 0) |}.

  Definition gen_nonce (o : option nonce_pattern) (seed : Z) (unlock : bool) : nonce_pattern :=
    let omax := sub o np_max in
    let mn := match sub o np_min with
              | Some v => v
              | None =>
                let d := if unlock
                         then fixed (C16_genMinHiU - C16_genMinLoU + 1) (seed, TNonceMinLen) + C16_genMinLoU
                         else fixed (C16_genMinHiL - C16_genMinLoL + 1) (seed, TNonceMinLen) + C16_genMinLoL in
                match omax with
                | Some mx => if clamp && (mx <? d) then mx else d
                | None => d
                end
              end in
    let mx := match omax with
              | Some v => v
              | None => mn + fixed (C16_genMaxHiU + 1 - mn) (seed, TNonceMaxLen)
              end in
    {| np_type := or_else (sub o np_type)
         (if unlock then fixed (C16_genTypeHiU - C16_genTypeLoU + 1) (seed, TNonceType) + C16_genTypeLoU
          else fixed (C16_genTypeHiL - C16_genTypeLoL + 1) (seed, TNonceType) + C16_genTypeLoL);
       np_all_udp := or_else (sub o np_all_udp) (fixed 2 (seed, TNonceAllUDP) =? 1);
       np_min := Some mn;
       np_max := Some mx;
       np_hex := match o with Some n => np_hex n | None => [] end |}.

  Definition gen_pad (o : option padding_pattern) (seed : Z) (unlock : bool) : padding_pattern :=
    {| pp_mid := or_else (sub o pp_mid)
         (Z.max 0 (fixed (C16_maxPaddingLen + 1) (seed, TPadMid) - (C16_maxPaddingLen - C16_genMidHiU)));
       pp_end := or_else (sub o pp_end)
         (if unlock then fixed (C16_maxPaddingLen + 1) (seed, TPadEnd) else C16_maxPaddingLen) |}.

  Definition gen_le (o : option low_entropy_pattern) (seed : Z) (unlock : bool) : low_entropy_pattern :=
    {| le_mode := or_else (sub o le_mode)
         (if unlock then fixed C16_leModeCount (seed, TLeMode) else C16_leModeOff);
       (* index i <= 15: value i; otherwise (i - 15) * 16: the i-th valid rotation in ascending order *)
       le_rot := or_else (sub o le_rot)
         (nth (Z.to_nat (fixed C16_leRotationCount (seed, TLeRot))) C16_leRotations 0) |}.

  (* the effective pattern as a function of the original, the seed and unlockAll *)
  Definition generate_with (orig : pattern) (seed : Z) (unlock : bool) : pattern :=
    {| tp_seed := tp_seed orig; tp_unlock := tp_unlock orig;
       tp_tcp := Some (gen_tcp (tp_tcp orig) seed unlock);
       tp_nonce := Some (gen_nonce (tp_nonce orig) seed unlock);
       tp_pad := Some (gen_pad (tp_pad orig) seed unlock);
       tp_le := Some (gen_le (tp_le orig) seed unlock) |}.

  (* generateImplicitTrafficPattern: seed unset => rng.FixedIntVH(MaxInt32) (host_seed) *)
  Definition eff_seed (orig : pattern) (host_seed : Z) : Z :=
    match tp_seed orig with Some s => s | None => host_seed end.

  Definition generate (orig : pattern) (host_seed : Z) : pattern :=
    generate_with orig (eff_seed orig host_seed) (getB (tp_unlock orig)).

  (* NewConfig: validate, then generate *)
  Definition new_config (orig : pattern) (host_seed : Z) : Z * option pattern :=
    let v := validate orig in
    if v =? 0 then (0, Some (generate orig host_seed)) else (v, None).
End Generate.

(* ------------------------------------------------------------------ nonce pattern at the cipher *)

(* newNonceTo: is the pattern applied to this nonce?  implicit_nonce = stateful (TCP) cipher;
   applied = noncePatternApplied before the call *)
Definition nonce_pattern_applies (implicit_nonce applied all_udp : bool) : bool :=
  negb (negb implicit_nonce && applied && negb all_udp).

(* which packets of a stateless (UDP) cipher get the pattern: k-th call, k = 0,1,2,... *)
Definition udp_packet_patterned (all_udp : bool) (k : nat) : bool :=
  nonce_pattern_applies false (match k with O => false | S _ => true end) all_udp.

(* nonceRewriteLen: [minLen, maxLen] clamped to the nonce size *)
Definition nonce_rewrite_bounds (n : nonce_pattern) (nonce_size : Z) : Z * Z :=
  let mx := if nonce_size <? getZ (np_max n) then nonce_size else getZ (np_max n) in
  let mn := if mx <? getZ (np_min n) then mx else getZ (np_min n) in
  (mn, mx).

Definition nonce_rewrite_len (draw : Z -> Z) (n : nonce_pattern) (nonce_size : Z) : Z :=
  let '(mn, mx) := nonce_rewrite_bounds n nonce_size in
  if mn =? mx then mn else mn + draw (mx - mn + 1).

(* what newNonceTo does to the prefix: 0 nothing, 1 printable, 2 printable subset, 3 fixed prefix *)
Definition nonce_prefix_class (n : nonce_pattern) : Z :=
  let t := getZ (np_type n) in
  if t =? C16_nonceTypePrintable then 1
  else if t =? C16_nonceTypePrintableSubset then 2
  else if t =? C16_nonceTypeFixed then (match np_hex n with [] => 0 | _ => 3 end)
  else 0.

(* number of nonce bytes overwritten by a fixed prefix given as hex string *)
Definition fixed_prefix_len (s : list N) (nonce_size : Z) : Z :=
  Z.min (Z.of_nat (length s) / 2) nonce_size.

(* ------------------------------------------------------------------ padding maxima *)

Definition max_padding_size (mtu : Z) (stream : bool) (frag existing : Z) : Z :=
  if stream then C16_padHardMax else
  let res := mtu - frag - C16_packetOverhead in
  if res <=? existing then 0 else Z.min (res - existing) C16_padHardMax.

(* position: 0 middle, 1 end, anything else: not a position *)
Definition max_padding_tp (mtu : Z) (stream : bool) (frag existing : Z) (tp : option pattern) (pos : Z) : Z :=
  let base := max_padding_size mtu stream frag existing in
  match sub tp tp_pad with
  | None => base
  | Some pd =>
    let cfg := if pos =? 0 then pp_mid pd else if pos =? 1 then pp_end pd else None in
    match cfg with
    | None => base
    | Some c => if c <? 0 then 0 else Z.min base c
    end
  end.

(* ------------------------------------------------------------------ low entropy send decision *)

Definition extract_le (tp : option pattern) : Z * Z * bool :=
  match sub tp tp_le with
  | None => (C16_leModeOff, C16_leRotNone, false)
  | Some l =>
    let m := getZ (le_mode l) in
    if m =? C16_leModeOff then (m, C16_leRotNone, false) else (m, getZ (le_rot l), true)
  end.

Definition le_send_decision (tp : option pattern) (is_client client_used : bool) : Z * Z * bool :=
  let '(m, r, en) := extract_le tp in
  if negb en then (C16_leModeOff, C16_leRotNone, false)
  else if negb is_client && negb client_used then (C16_leModeOff, C16_leRotNone, false)
  else (m, r, true).

(* server side flag after a history of received protocol types (Session.input) *)
Definition client_used_after (hist : list Z) : bool := existsb (Z.eqb C16_protoDataC2SLowEntropy) hist.

Definition server_send (tp : option pattern) (hist : list Z) : Z * Z * bool :=
  le_send_decision tp false (client_used_after hist).

(* ------------------------------------------------------------------ vocabulary of the statements *)

(* rng.FixedInt(n, hint) lies in [0, n) for n > 0 (all that is assumed about it) *)
Definition oracle_ok (fixed : Z -> hint -> Z) : Prop := forall n h, 0 < n -> 0 <= fixed n h < n.
(* math/rand.Intn(n) lies in [0, n) *)
Definition draw_ok (draw : Z -> Z) : Prop := forall n, 0 < n -> 0 <= draw n < n.
(* a field that is set in the original has the same value in the effective pattern *)
Definition preserved {A : Type} (o e : option A) : Prop := forall v, o = Some v -> e = Some v.
Definition is_set {A : Type} (o : option A) : Prop := o <> None.
(* the repeated field of a possibly nil nonce sub-message *)
Definition hex_of (o : option nonce_pattern) : list (list N) := match o with Some n => np_hex n | None => [] end.

(* ------------------------------------------------------------------ TCP fragmentation of one stream write *)
(* pkg/protocol/underlay_stream.go writeWithPossibleFragment.  [data] is dataToSend; the math/rand draws are an
   oracle list (one raw draw per piece; an exhausted list yields 0 - any value is a legal draw).
   int(math.Sqrt(float64(n))) is modelled by Z.sqrt (floor square root); their agreement for n up to 70000 and
   around perfect squares up to 2^31 is a tested assumption (Q cases of the driver). *)

(* nil pattern / nil TcpFragment / enable unset or false => one conn.Write of the whole buffer *)
Definition fragments_enabled (tp : option pattern) : bool := getB (sub (sub tp tp_tcp) tf_enable).

Definition frag_min_len (n : Z) : Z := Z.sqrt n + 1.
Definition frag_max_len (n : Z) : Z := Z.max (frag_min_len n) (n / 2).

(* the loop: fuel = an upper bound of the number of iterations (every piece is non-empty) *)
Fixpoint frag_loop (fuel : nat) (mn k : Z) (rem : list N) (draws : list Z) : list (list N) :=
  match fuel with
  | O => []
  | S f =>
    match rem with
    | [] => []
    | _ =>
      let want := mn + (hd 0 draws) mod k in                         (* mrand.Intn(max-min+1) + min *)
      let take := Z.to_nat (Z.min want (Z.of_nat (length rem))) in   (* if lenToSend > len(remaining) ... *)
      firstn take rem :: frag_loop f mn k (skipn take rem) (tl draws)
    end
  end.

Definition fragment_plan (data : list N) (draws : list Z) : list (list N) :=
  let n := Z.of_nat (length data) in
  frag_loop (length data) (frag_min_len n) (frag_max_len n - frag_min_len n + 1) data draws.

(* the sequence of conn.Write calls for one buffer *)
Definition tcp_writes (tp : option pattern) (data : list N) (draws : list Z) : list (list N) :=
  if fragments_enabled tp then fragment_plan data draws else [data].

(* the sleep after a piece: none unless maxSleepMs > 0, else mrand.Intn(maxSleepMs + 1) *)
Definition frag_sleep (tp : option pattern) (d : Z) : option Z :=
  let ms := getZ (sub (sub tp tp_tcp) tf_max_sleep) in
  if 0 <? ms then Some (d mod (ms + 1)) else None.

(* ------------------------------------------------------------------ UDP server: cipher blocks and the nonce pattern *)
(* pkg/protocol/underlay_packet.go readOneSegment / tryDecryptExistingSession /
   serverTryDecryptMetadataForNewSession / onOpenSessionRequest, Session.input (s.block.Store) and
   pkg/cipher/cipher.go newNonceTo.  A datagram the server emits is encrypted with a cipher block that reached the
   sender through one of three paths: discovered for the openSessionRequest that created the session (Open), the
   block of an existing session from the same address (Existing), or discovered for a datagram that did NOT create
   a session (Rediscovered: a known session seen from a new address - Session.input then swaps the block in - or an
   unknown session id, answered with closeSessionRequest).  Blocks are shared by reference (multiplexed sessions),
   so the state keeps a block table and sessions hold indices.  One user is modelled (cross-user traffic is C10).
   [at_discovery = true] is the code: SetNoncePattern on every discovered block; [false] is the variant that sets
   it in onOpenSessionRequest only (kept for the refutation example). *)
Inductive block_origin := OriginOpen | OriginExisting | OriginRediscovered.

Record sblock := { bk_pattern : option nonce_pattern; bk_applied : bool }.
Record udp_session := { us_sid : Z; us_addr : Z; us_block : nat }.
Record srv_state := { st_blocks : list sblock; st_sessions : list udp_session }.
(* an authenticated incoming datagram: open request or not, session id, source address, and how many datagrams the
   server emits for that session before the next incoming one (replies, echo, acks, retransmissions) *)
Record in_event := { ev_open : bool; ev_sid : Z; ev_addr : Z; ev_out : nat }.
Record out_dgram := { dg_path : block_origin; dg_pattern : option nonce_pattern; dg_patterned : bool }.

Definition server_nonce_cfg (tp : option pattern) : option nonce_pattern := sub tp tp_nonce.

Definition discover (tp : option pattern) (at_discovery : bool) (path : block_origin) : sblock :=
  {| bk_pattern := if at_discovery || (match path with OriginOpen => true | _ => false end)
                   then server_nonce_cfg tp else None;
     bk_applied := false |}.

(* newNonceTo on a stateless cipher: no pattern => random; otherwise the apply rule, then noncePatternApplied *)
Definition emit_one (path : block_origin) (b : sblock) : out_dgram * sblock :=
  match bk_pattern b with
  | None => ({| dg_path := path; dg_pattern := None; dg_patterned := false |}, b)
  | Some np =>
    ({| dg_path := path; dg_pattern := Some np;
        dg_patterned := nonce_pattern_applies false (bk_applied b) (getB (np_all_udp np)) |},
     {| bk_pattern := Some np;
        bk_applied := if nonce_pattern_applies false (bk_applied b) (getB (np_all_udp np)) then true else bk_applied b |})
  end.

Fixpoint emit_n (path : block_origin) (b : sblock) (n : nat) : list out_dgram * sblock :=
  match n with
  | O => ([], b)
  | S k => let '(d, b1) := emit_one path b in
           let '(ds, b2) := emit_n path b1 k in (d :: ds, b2)
  end.

Fixpoint set_nth {A : Type} (l : list A) (i : nat) (x : A) : list A :=
  match l, i with
  | [], _ => []
  | _ :: t, O => x :: t
  | h :: t, S k => h :: set_nth t k x
  end.

Definition srv_step (tp : option pattern) (at_discovery : bool) (st : srv_state) (ev : in_event)
  : list out_dgram * srv_state :=
  let '(path, bi, blocks1) :=
    match find (fun s => us_addr s =? ev_addr ev) (st_sessions st) with
    | Some s => (OriginExisting, us_block s, st_blocks st)
    | None => let path := if ev_open ev then OriginOpen else OriginRediscovered in
              (path, length (st_blocks st), st_blocks st ++ [discover tp at_discovery path])
    end in
  let '(sessions1, n_out) :=
    match find (fun s => us_sid s =? ev_sid ev) (st_sessions st) with
    | Some _ => (map (fun s => if us_sid s =? ev_sid ev
                               then {| us_sid := us_sid s; us_addr := us_addr s; us_block := bi |} else s)
                     (st_sessions st), ev_out ev)
    | None => if ev_open ev
              then (st_sessions st ++ [{| us_sid := ev_sid ev; us_addr := ev_addr ev; us_block := bi |}], ev_out ev)
              else (st_sessions st, 1%nat)       (* unknown session: one closeSessionRequest *)
    end in
  match nth_error blocks1 bi with
  | None => ([], {| st_blocks := blocks1; st_sessions := sessions1 |})   (* never: block indices are valid *)
  | Some b => let '(ds, b') := emit_n path b n_out in
              (ds, {| st_blocks := set_nth blocks1 bi b'; st_sessions := sessions1 |})
  end.

(* what the server emits for each incoming datagram of a history, from the empty state *)
Fixpoint srv_run (tp : option pattern) (at_discovery : bool) (st : srv_state) (hist : list in_event)
  : list (list out_dgram) :=
  match hist with
  | [] => []
  | ev :: rest => let '(ds, st1) := srv_step tp at_discovery st ev in ds :: srv_run tp at_discovery st1 rest
  end.

Definition srv_empty : srv_state := {| st_blocks := []; st_sessions := [] |}.
