(* C19 — model of pkg/metrics/counter.go (time series counter) and of the counter part of
   pkg/metrics/export.go (dump / load).  Definitions only.

   Times: [now], [t_ns] are wall-clock instants in ns since the Unix epoch (Z); history entries carry
   Unix milliseconds exactly like pb.History.TimeUnixMilli.  Labels are the pb.RollUpLabel numbers (Z), so
   a history loaded from a dump may carry any label.
   Modelled bounds (stated, not hidden): int64 values and deltas are unbounded Z (a counter would have to
   pass 2^63 bytes to wrap); instants lie after Go's zero time (year 1) so that time.Truncate is a floor;
   the operation counter is a uint64 and wraps explicitly. *)
From Coq Require Import ZArith List Bool.
From M Require Import gen.Consts.
Import ListNotations.
Open Scope Z_scope.

Record entry := mkE { e_t : Z; e_d : Z; e_l : Z }.

Definition hsum (h : list entry) : Z := fold_right (fun e a => e_d e + a) 0 h.

(* time.Time.UnixMilli of an instant given in ns: floor *)
Definition unix_milli (t_ns : Z) : Z := t_ns / C19_MillisecondNs.

(* time.UnixMilli(ms).Truncate(d).UnixMilli(): Truncate rounds down to a multiple of d since the zero time *)
Definition truncate_ms (t_ms d : Z) : Z :=
  if d <=? 0 then t_ms else
  let ns := t_ms * C19_MillisecondNs in
  let abs := ns + C19_UnixToInternalSec * C19_SecondNs in
  (ns - abs mod d) / C19_MillisecondNs.

Definition flush (last : option entry) : list entry :=
  match last with None => [] | Some l => [l] end.

(* one call of doRollUp(fromLabel, toLabel, rollUpDuration, truncateDuration); [last] is the pending
   merged entry ([nil] in the Go code = None) *)
Fixpoint pass (from to dur trunc now : Z) (last : option entry) (h : list entry) : list entry :=
  match h with
  | [] => flush last
  | e :: r =>
    if negb (e_l e =? from) || (now - e_t e * C19_MillisecondNs <=? dur) then
      flush last ++ e :: pass from to dur trunc now None r
    else
      let t := truncate_ms (e_t e) trunc in
      match last with
      | None => pass from to dur trunc now (Some (mkE t (e_d e) to)) r
      | Some l =>
        if e_t l =? t then pass from to dur trunc now (Some (mkE t (e_d l + e_d e) to)) r
        else l :: pass from to dur trunc now (Some (mkE t (e_d e) to)) r
      end
  end.

Definition do_roll_up (from to dur trunc now : Z) (h : list entry) : list entry :=
  pass from to dur trunc now None h.

(* the eight passes of rollUp, in order, exactly as written *)
Definition roll_up (now : Z) (h : list entry) : list entry :=
  let h := do_roll_up C19_LabelNoRollUp C19_LabelSecond C19_RollUpToSecondNs C19_SecondNs now h in
  let h := do_roll_up C19_LabelSecond C19_LabelSecond C19_RollUpToSecondNs C19_SecondNs now h in
  let h := do_roll_up C19_LabelSecond C19_LabelMinute C19_RollUpSecondToMinuteNs C19_MinuteNs now h in
  let h := do_roll_up C19_LabelMinute C19_LabelMinute C19_RollUpSecondToMinuteNs C19_MinuteNs now h in
  let h := do_roll_up C19_LabelMinute C19_LabelHour C19_RollUpMinuteToHourNs C19_HourNs now h in
  let h := do_roll_up C19_LabelHour C19_LabelHour C19_RollUpMinuteToHourNs C19_HourNs now h in
  let h := do_roll_up C19_LabelHour C19_LabelDay C19_RollUpHourToDayNs C19_DayNs now h in
  do_roll_up C19_LabelDay C19_LabelDay C19_RollUpHourToDayNs C19_DayNs now h.

(* ---- DeltaBetween: two sort.Search calls (binary search, also on unsorted histories) and a loop ---- *)

(* sort.Search(n, f) on [i, j): fuel >= number of halvings *)
Fixpoint bsearch (fuel : nat) (f : Z -> bool) (i j : Z) : Z :=
  match fuel with
  | O => i
  | S k => if i <? j then
             let m := (i + j) / 2 in
             if f m then bsearch k f i m else bsearch k f (m + 1) j
           else i
  end.

(* time.UnixMilli(history[i]).After(t) *)
Definition after_at (h : list entry) (t_ns : Z) (i : Z) : bool :=
  match nth_error h (Z.to_nat i) with
  | Some e => t_ns <? e_t e * C19_MillisecondNs
  | None => true
  end.

Definition search_after (h : list entry) (t_ns : Z) : Z :=
  bsearch (S (length h)) (after_at h t_ns) 0 (Z.of_nat (length h)).

(* sum of history[i .. j-1] (empty when j <= i) *)
Definition sum_range (h : list entry) (i j : Z) : Z :=
  hsum (firstn (Z.to_nat (j - i)) (skipn (Z.to_nat i) h)).

(* DeltaBetween(t1, t2) for t1 <= t2 (the Go function panics when t2 is before t1; see Quota.v) *)
Definition delta_between (h : list entry) (t1_ns t2_ns : Z) : Z :=
  sum_range h (search_after h t1_ns) (search_after h t2_ns).

(* ---- the counter object (time series enabled) ---- *)

Record counter := mkC { c_value : Z; c_hist : list entry; c_op : Z }.

Definition counter0 : counter := mkC 0 [] 0.

(* c.op++ on a uint64: Name, Type, Load, DeltaBetween, LastUpdateTime and addWithTime all do it *)
Definition tick (c : counter) : counter := mkC (c_value c) (c_hist c) ((c_op c + 1) mod 2 ^ 64).

(* rollUp: nothing unless op is a multiple of rollUpInterval *)
Definition roll_up_if_due (now : Z) (c : counter) : counter :=
  if c_op c mod C19_RollUpInterval =? 0 then mkC (c_value c) (roll_up now (c_hist c)) (c_op c) else c.

(* addWithTime(delta, t) at wall-clock instant [now] (time.Since inside doRollUp reads the clock) *)
Definition cadd (c : counter) (delta t_ns now : Z) : counter :=
  let c1 := tick c in
  if delta =? 0 then c1 else
  roll_up_if_due now
    (mkC (c_value c1 + delta) (c_hist c1 ++ [mkE (unix_milli t_ns) delta C19_LabelNoRollUp]) (c_op c1)).

(* Load / DeltaBetween as operations on the object *)
Definition load_value (c : counter) : counter * Z := (tick c, c_value c).
Definition query (c : counter) (t1_ns t2_ns : Z) : counter * Z :=
  (tick c, delta_between (c_hist c) t1_ns t2_ns).

(* ToMetricPB of a time series counter: Name, Type, Load, Type, then value and history under the lock *)
Definition dump (c : counter) : counter * (Z * list entry) :=
  (tick (tick (tick (tick c))), (c_value c, c_hist c)).

(* loadCounterFromMetricPB(dst, src) for two time series counters; [same_name] = the names agree.
   Name(); Type(); delta := max(0, src.value - dst.Load()); dst.Add(delta); dst.history = src.history *)
Definition load_pb (dst : counter) (same_name : bool) (src_value : Z) (src_hist : list entry) (now : Z) : counter :=
  let c1 := tick dst in
  if negb same_name then c1 else
  let c3 := tick (tick c1) in
  let delta := Z.max 0 (src_value - c_value c3) in
  let c4 := cadd c3 delta now now in
  mkC (c_value c4) src_hist (c_op c4).

(* operation histories of one counter *)
Inductive cop :=
| OpAdd (delta t_ns now : Z)     (* addWithTime / Add *)
| OpTick.                        (* Name, Type, Load, DeltaBetween, LastUpdateTime: only op++ *)

Definition step (c : counter) (o : cop) : counter :=
  match o with
  | OpAdd d t n => cadd c d t n
  | OpTick => tick c
  end.

Definition run (ops : list cop) (c : counter) : counter := fold_left step ops c.

(* ---- vocabulary of the theorems (predicates only; nothing below is executed) ---- *)

(* coarseness of a label: NO_ROLL_UP 0 < SECOND 1 < MINUTE 2 < HOUR 3 < DAY 4; -1 for a number that is no label *)
Definition rank (l : Z) : Z :=
  if l =? C19_LabelNoRollUp then 0 else if l =? C19_LabelSecond then 1 else if l =? C19_LabelMinute then 2
  else if l =? C19_LabelHour then 3 else if l =? C19_LabelDay then 4 else -1.

(* granularity (ns) of the timestamps carried by entries of a given rank *)
Definition gran_ns (r : Z) : Z :=
  if r =? 1 then C19_SecondNs else if r =? 2 then C19_MinuteNs else if r =? 3 then C19_HourNs
  else if r =? 4 then C19_DayNs else C19_MillisecondNs.

Definition aligned (e : entry) : Prop := (gran_ns (rank (e_l e)) | e_t e * C19_MillisecondNs).

(* timestamps non-decreasing from [lo], labels non-increasing in coarseness from [rk], every entry aligned *)
Fixpoint chain (lo rk : Z) (h : list entry) : Prop :=
  match h with
  | [] => True
  | e :: r => lo <= e_t e /\ 0 <= rank (e_l e) <= rk /\ aligned e /\ chain (e_t e) (rank (e_l e)) r
  end.

(* the invariant of DESIGN A.6: what every history built by addWithTime (non-decreasing timestamps, the last
   one [hi]) and rollUp (any clock values) looks like *)
Definition wf_history (hi : Z) (h : list entry) : Prop :=
  exists lo, (C19_DayNs | lo * C19_MillisecondNs) /\ lo <= hi /\ chain lo 4 h /\ Forall (fun e => e_t e <= hi) h.

Fixpoint sorted_from (lo : Z) (h : list entry) : Prop :=
  match h with [] => True | e :: r => lo <= e_t e /\ sorted_from (e_t e) r end.
Definition sorted (h : list entry) : Prop :=
  match h with [] => True | e :: r => sorted_from (e_t e) r end.

Definition nonneg (h : list entry) : Prop := Forall (fun e => 0 <= e_d e) h.
Definition consistent (c : counter) : Prop := c_value c = hsum (c_hist c).

(* increments arrive with non-decreasing millisecond timestamps, starting not before [hi]; clock values are free *)
Fixpoint mono_adds (hi : Z) (ops : list cop) : Prop :=
  match ops with
  | [] => True
  | OpAdd _ t _ :: r => hi <= unix_milli t /\ mono_adds (unix_milli t) r
  | OpTick :: r => mono_adds hi r
  end.

Definition ops_sum (ops : list cop) : Z :=
  fold_right (fun o a => match o with OpAdd d _ _ => d + a | OpTick => a end) 0 ops.

(* an entry lies inside the window (t1, t2] (instants in ns) *)
Definition in_window (t1_ns t2_ns : Z) (e : entry) : bool :=
  (t1_ns <? e_t e * C19_MillisecondNs) && (e_t e * C19_MillisecondNs <=? t2_ns).
