(* Model of the low-entropy payload codec of mieru (C17): pkg/protocol/low_entropy.go,
   validateLowEntropyDataAckMetadata of pkg/protocol/metadata.go, docs/protocol.md
   "Low Entropy Payload Encoding".  Definitions only; proofs in proofs/LowEntropyProofs.v.

   Conventions: bytes are [N] (< 256), byte strings [list N]; 64-bit words are [N]; protobuf enums
   (mode, rotation) and Go [int] lengths are [Z]; [nat] appears only as loop fuel / list lengths.
   Errors are distinct constructors of [le_err] (one per error message class of the Go code). *)
From Coq Require Import NArith ZArith List Bool.
From M Require Import gen.Consts base.Bits64.
Import ListNotations.

Inductive le_err : Set :=
| ErrMode        (* "invalid low entropy mode" *)
| ErrWeight      (* "low entropy mask has %d one-bits, want %d" *)
| ErrRotation    (* "invalid low entropy mask rotation" *)
| ErrPadBit      (* "invalid low entropy padding bit" *)
| ErrLen         (* "invalid extracted payload length" *)
| ErrTooBig      (* "encoded payload length for %d bytes exceeds 65535" *)
| ErrEncLen      (* "encoded payload length is %d, want %d" *)
| ErrMixed       (* "chunk %d has mixed padding bits" (chunk 0) *)
| ErrNonUniform  (* "chunk %d has non-uniform padding bits" (chunk > 0) *)
| ErrProto       (* "protocol %d is not low entropy data" *)
| ErrPayloadLen  (* "invalid low entropy payload length" / "low entropy payload length is %d, want %d" *)
| ErrIndex       (* "invalid low entropy chunk index" *)
| ErrInternal.   (* not reachable from the top-level functions (loop ran out of input) *)

Inductive res (A : Type) : Type := Ok (a : A) | Err (e : le_err).
Arguments Ok {A} a.
Arguments Err {A} e.

Definition byte_ok (b : N) : Prop := (b < 256)%N.
Definition bytes_ok (l : list N) : Prop := Forall byte_ok l.

(* ---- big endian ---- *)
Definition be_val (l : list N) : N := fold_left (fun a b => (a * 256 + b)%N) l 0%N.
(* the [n] low-order bytes of [v], most significant first *)
Fixpoint be_bytes (n : nat) (v : N) : list N :=
  match n with O => [] | S k => be_bytes k (v / 256)%N ++ [(v mod 256)%N] end.

(* ---- parameters ---- *)
Definition chunk_len : nat := Z.to_nat C17_lowEntropyChunkLen.   (* bytes of one encoded chunk *)

(* buildLowEntropyParams: (source bytes per chunk, one-bits of the half mask) *)
Definition mode_params (mode : Z) : option (Z * Z) :=
  if ((0 <=? mode) && (mode <? 8))%Z then
    let c := nth (Z.to_nat mode) C17_modeSourceBytes 0%Z in
    if (c =? 0)%Z then None else Some (c, nth (Z.to_nat mode) C17_modeHalfMaskOnes 0%Z)
  else None.

(* isValidLowEntropyRotation *)
Definition valid_rotation (r : Z) : bool :=
  ((r =? C17_rotNone) ||
   ((C17_rotRight1 <=? r) && (r <=? C17_rotRight15)) ||
   ((C17_rotLeft1 <=? r) && (r <=? C17_rotLeft15) && (r mod 16 =? 0)))%Z.

(* validateLowEntropyCodecParams *)
Definition validate_params (mode : Z) (hm : N) (rot : Z) : res (Z * Z) :=
  match mode_params mode with
  | None => Err ErrMode
  | Some (c, w) =>
    if (Z.of_N (popcount hm) =? w)%Z then
      if valid_rotation rot then Ok (c, w) else Err ErrRotation
    else Err ErrWeight
  end.

(* number of chunks of an [n]-byte body with [c] source bytes per chunk, as the Go code computes it *)
Definition nchunks (n c : Z) : Z := (n / c + (if n mod c =? 0 then 0 else 1))%Z.

(* lowEntropyEncodedPayloadLen *)
Definition enc_len (n : Z) (mode : Z) : res Z :=
  match mode_params mode with
  | None => Err ErrMode
  | Some (c, _) =>
    if (n <=? 0)%Z then Err ErrLen
    else if (nchunks n c >? 65535 / C17_lowEntropyChunkLen)%Z then Err ErrTooBig
    else Ok (nchunks n c * C17_lowEntropyChunkLen)%Z
  end.

(* rotateLowEntropyMask (rotation already validated) *)
Definition rotate_mask (init : N) (rot : Z) (i : N) : N :=
  if ((rot =? C17_rotNone)%Z || (i =? 0)%N)%bool then init
  else if (rot <=? C17_rotRight15)%Z
       then rotl64 init (Z.to_N ((- (Z.of_N (i mod 64) * rot)) mod 64))
       else rotl64 init (Z.to_N ((Z.of_N (i mod 64) * (rot / 16)) mod 64)).

(* lowEntropyChunkMask *)
Definition chunk_mask (init : N) (rot : Z) (i : Z) : res N :=
  if valid_rotation rot then
    if (i <? 0)%Z then Err ErrIndex else Ok (rotate_mask init rot (Z.to_N i))
  else Err ErrRotation.

(* ---- one chunk ---- *)
(* [g] = the 1..c source bytes of this chunk; [M] = the chunk mask; [pb] = padding bit *)
Definition enc_chunk (M : N) (pb : bool) (g : list N) : list N :=
  let dataMask := pdep (lowbits (8 * N.of_nat (length g))) M in
  let chunk := pdep (be_val g) M in
  be_bytes chunk_len (if pb then N.lor chunk (not64 dataMask) else chunk).

(* [pbo] = polarity inferred so far ([None] on chunk 0); [L] = source bytes carried by this chunk.
   Result: polarity and the [L] decoded bytes, or which padding check failed. *)
Definition dec_chunk (M : N) (L : nat) (pbo : option bool) (g : list N) : res (bool * list N) :=
  if negb (Nat.eqb (length g) chunk_len) then Err ErrInternal else
  let chunk := be_val g in
  let dataMask := pdep (lowbits (8 * N.of_nat L)) M in
  let paddingMask := not64 dataMask in
  let padding := N.land chunk paddingMask in
  let bytes := be_bytes L (pext chunk M) in
  match pbo with
  | None =>
    if (padding =? 0)%N then Ok (false, bytes)
    else if (padding =? paddingMask)%N then Ok (true, bytes)
    else Err ErrMixed
  | Some false => if (padding =? 0)%N then Ok (false, bytes) else Err ErrNonUniform
  | Some true => if (padding =? paddingMask)%N then Ok (true, bytes) else Err ErrNonUniform
  end.

(* ---- the loops ---- *)
(* encoder loop: chunk index [i], remaining source [src]; [fuel] >= number of chunks left *)
Fixpoint enc_loop (c : nat) (init : N) (rot : Z) (pb : bool) (i : N) (src : list N) (fuel : nat) : list N :=
  match fuel with
  | O => []
  | S f =>
    match src with
    | [] => []
    | _ => enc_chunk (rotate_mask init rot i) pb (firstn c src)
             ++ enc_loop c init rot pb (i + 1)%N (skipn c src) f
    end
  end.

(* decoder loop: [rem] = extracted bytes still to produce, [e] = encoded bytes not yet consumed *)
Fixpoint dec_loop (c : nat) (init : N) (rot : Z) (i : N) (pbo : option bool) (rem : nat) (e : list N) (fuel : nat)
  : res (list N) :=
  match fuel with
  | O => match rem, e with O, [] => Ok [] | _, _ => Err ErrInternal end
  | S f =>
    match rem with
    | O => match e with [] => Ok [] | _ => Err ErrInternal end
    | _ =>
      let L := Nat.min c rem in
      match dec_chunk (rotate_mask init rot i) L pbo (firstn chunk_len e) with
      | Err x => Err x
      | Ok (pb, bytes) =>
        match dec_loop c init rot (i + 1)%N (Some pb) (rem - L) (skipn chunk_len e) f with
        | Err x => Err x
        | Ok rest => Ok (bytes ++ rest)
        end
      end
    end
  end.

(* encodeLowEntropyPayloadWithPaddingBit *)
Definition encode (body : list N) (mode : Z) (hm : N) (rot : Z) (pb : N) : res (list N) :=
  match validate_params mode hm rot with
  | Err x => Err x
  | Ok (c, _) =>
    if (1 <? pb)%N then Err ErrPadBit else
    match enc_len (Z.of_nat (length body)) mode with
    | Err x => Err x
    | Ok _ => Ok (enc_loop (Z.to_nat c) (repeat32 hm) rot (pb =? 1)%N 0%N body (length body))
    end
  end.

(* decodeLowEntropyPayload *)
Definition decode (e : list N) (n : Z) (mode : Z) (hm : N) (rot : Z) : res (list N) :=
  match validate_params mode hm rot with
  | Err x => Err x
  | Ok (c, _) =>
    match enc_len n mode with
    | Err x => Err x
    | Ok want =>
      if negb (Z.of_nat (length e) =? want)%Z then Err ErrEncLen
      else dec_loop (Z.to_nat c) (repeat32 hm) rot 0%N None (Z.to_nat n) e (Z.to_nat n)
    end
  end.

(* ---- metadata ---- *)
Definition is_le_proto (p : Z) : bool := ((p =? C17_protoLowEntropyC2S) || (p =? C17_protoLowEntropyS2C))%Z.

(* validateLowEntropyDataAckMetadata; [epl] = extractedPayloadLen, [pl] = payloadLen (both uint16) *)
Definition validate_meta (proto mode : Z) (hm : N) (epl pl rot : Z) : res unit :=
  if negb (is_le_proto proto) then Err ErrProto
  else if (epl >? C17_maxPDU)%Z then Err ErrLen
  else if negb (pl mod C17_lowEntropyChunkLen =? 0)%Z then Err ErrPayloadLen
  else match validate_params mode hm rot with
  | Err x => Err x
  | Ok _ =>
    if (epl =? 0)%Z then (if (pl =? 0)%Z then Ok tt else Err ErrPayloadLen)
    else match enc_len epl mode with
    | Err x => Err x
    | Ok want => if (pl =? want)%Z then Ok tt else Err ErrPayloadLen
    end
  end.

(* decodeLowEntropyEncryptedPayload: wire = encoded body ++ AEAD tag; the tag is passed through *)
Definition wire_decode (wire : list N) (proto mode : Z) (hm : N) (epl pl rot : Z) (tag_len : nat) : res (list N) :=
  match validate_meta proto mode hm epl pl rot with
  | Err x => Err x
  | Ok _ =>
    if negb (Nat.eqb (length wire) (Z.to_nat pl + tag_len)) then Err ErrEncLen
    else match decode (firstn (Z.to_nat pl) wire) epl mode hm rot with
    | Err x => Err x
    | Ok body => Ok (body ++ skipn (Z.to_nat pl) wire)
    end
  end.

(* documented vector of docs/protocol.md *)
Definition doc_body : list N := [18; 52; 86; 120]%N.       (* 12 34 56 78 *)
Definition doc_hm : N := 252645135%N.                       (* 0x0f0f0f0f *)
