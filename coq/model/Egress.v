(* C12 - model of the egress decision of the socks5 server (pkg/socks5/egress.go, handler.go,
   udp.go; apis/model/addr.go, socks.go) as it stands WITH the fixes
   fixes/C12-findaction-local-forms.diff and fixes/C12-udp-relay.diff applied, and with or without
   fixes/C12-domain-literal.diff: the parameter fx of host_ip says which; tree_fixed is its value for the
   tree the constants were regenerated from (C12_fixDomainLiteral, probed by harness/cmd/dumpconsts).

   lit : bytes -> option bytes is the reading of a domain string as an IP literal by Go's resolver and dialer
   (netip.ParseAddr, zone dropped, IPv4-mapped unmapped; None = not a literal, a lookup follows).  The text
   syntax is not modelled: lit is a parameter of the model, the theorems hold for every lit with the stated
   properties, and the driver supplies the real netip.ParseAddr reading with every case (L lines).

   Definitions only.  Bytes are N (< 256 on the wire), strings are lists of bytes.
   Numbers that come from the Go source of /repo are taken from M.gen.Consts; the numbers in
   is_loopback / is_private / to4 are those of Go's standard library net.IP (RFC 1122, 1918, 4193, 4291).

   What is NOT modelled and is a stated premise: that the OS delivers connections / datagrams addressed
   to loopback, private, unspecified addresses, the empty host and the well-known names to the local
   host or the private network; name resolution of other domain names; the textual parsing of CIDR
   strings (rules enter the model parsed; net.ParseCIDR + IPNet.Contains are compared by the driver). *)
From Coq Require Import List NArith ZArith Bool.
From M Require Import gen.Consts.
Import ListNotations.
Open Scope N_scope.

Notation byte := N (only parsing).
Notation bytes := (list N) (only parsing).

Definition cN (z : Z) : N := Z.to_N z.
Definition VER : N := cN C12_Socks5Version.
Definition CMD_CONNECT : N := cN C12_ConnectCmd.
Definition CMD_ASSOC : N := cN C12_UDPAssociateCmd.
Definition ATYP4 : N := cN C12_IPv4Address.
Definition ATYPD : N := cN C12_FQDNAddress.
Definition ATYP6 : N := cN C12_IPv6Address.
Definition ACT_PROXY : N := cN C12_ActionPROXY.
Definition ACT_DIRECT : N := cN C12_ActionDIRECT.
Definition ACT_REJECT : N := cN C12_ActionREJECT.

Fixpoint bytes_eqb (a b : bytes) : bool :=
  match a, b with
  | [], [] => true
  | x :: a', y :: b' => (x =? y) && bytes_eqb a' b'
  | _, _ => false
  end.

Definition mem_bytes (s : bytes) (l : list bytes) : bool := existsb (bytes_eqb s) l.

(* the well-known local names, as the compiler sees them: every name is followed by a 0 byte *)
Fixpoint split0 (l : list Z) (cur : bytes) : list bytes :=
  match l with
  | [] => []
  | z :: r => if (z =? 0)%Z then rev cur :: split0 r [] else split0 r (cN z :: cur)
  end.
Definition names4 : list bytes := split0 C12_wellKnownIPv4LocalDomainNames [].
Definition names6 : list bytes := split0 C12_wellKnownIPv6LocalDomainNames [].

(* ---------------------------------------------------------------- AddrSpec and its parser *)

(* model.AddrSpec after ReadFromSocks5: IP is empty (nil) for a domain name, else 4 or 16 bytes *)
Record addr := mkAddr { a_ip : bytes; a_fqdn : bytes }.

Fixpoint take (n : nat) (l : bytes) : option (bytes * bytes) :=
  match n with
  | O => Some ([], l)
  | S k => match l with
           | [] => None
           | x :: r => match take k r with Some (a, b) => Some (x :: a, b) | None => None end
           end
  end.

(* AddrSpec.ReadFromSocks5: address type, address, two port bytes; returns the unread rest *)
Definition parse_addr (l : bytes) : option (addr * bytes) :=
  match l with
  | [] => None
  | t :: r =>
    if t =? ATYP4 then
      match take 4 r with
      | Some (ip, r1) => match take 2 r1 with Some (_, r2) => Some (mkAddr ip [], r2) | None => None end
      | None => None
      end
    else if t =? ATYP6 then
      match take 16 r with
      | Some (ip, r1) => match take 2 r1 with Some (_, r2) => Some (mkAddr ip [], r2) | None => None end
      | None => None
      end
    else if t =? ATYPD then
      match r with
      | [] => None
      | n :: r0 =>
        match take (N.to_nat n) r0 with
        | Some (d, r1) => match take 2 r1 with Some (_, r2) => Some (mkAddr [] d, r2) | None => None end
        | None => None
        end
      end
    else None
  end.

(* Request.ReadFromSocks5 behind the three guards of FindAction (len < 4, version, parse error):
   None stands for "FindAction answers DIRECT because the input is not a request" *)
Definition parse_request (data : bytes) : option (N * addr) :=
  match data with
  | v :: c :: _ :: r =>
    if v =? VER then match parse_addr r with Some (a, _) => Some (c, a) | None => None end else None
  | _ => None
  end.

(* ---------------------------------------------------------------- net.IP predicates on bytes *)

(* net.IP.To4: 4 bytes, or 16 bytes with the prefix 00*10 ff ff *)
Definition to4 (ip : bytes) : option bytes :=
  match ip with
  | [a; b; c; d] => Some [a; b; c; d]
  | [z0; z1; z2; z3; z4; z5; z6; z7; z8; z9; f0; f1; a; b; c; d] =>
    if (z0 =? 0) && (z1 =? 0) && (z2 =? 0) && (z3 =? 0) && (z4 =? 0) && (z5 =? 0) && (z6 =? 0) &&
       (z7 =? 0) && (z8 =? 0) && (z9 =? 0) && (f0 =? 255) && (f1 =? 255)
    then Some [a; b; c; d] else None
  | _ => None
  end.

Definition mapped (v : bytes) : bytes := [0;0;0;0;0;0;0;0;0;0;255;255] ++ v.
Definition zero4 : bytes := [0;0;0;0].
Definition zero16 : bytes := [0;0;0;0;0;0;0;0;0;0;0;0;0;0;0;0].
Definition v6loop : bytes := [0;0;0;0;0;0;0;0;0;0;0;0;0;0;0;1].
Definition v4loop16 : bytes := mapped [127;0;0;1].   (* net.ParseIP("127.0.0.1") *)

(* net.IP.IsLoopback *)
Definition is_loopback (ip : bytes) : bool :=
  match to4 ip with
  | Some v => nth 0 v 0 =? 127
  | None => bytes_eqb ip v6loop
  end.

(* net.IP.IsPrivate *)
Definition is_private (ip : bytes) : bool :=
  match to4 ip with
  | Some v =>
    let a := nth 0 v 0 in let b := nth 1 v 0 in
    (a =? 10) || ((a =? 172) && (N.land b 240 =? 16)) || ((a =? 192) && (b =? 168))
  | None => (length ip =? 16)%nat && (N.land (nth 0 ip 0) 254 =? 252)
  end.

(* net.IP.IsUnspecified: Equal(IPv4zero) || Equal(IPv6unspecified) *)
Definition is_unspecified (ip : bytes) : bool :=
  match to4 ip with
  | Some v => bytes_eqb v zero4
  | None => bytes_eqb ip zero16
  end.

Definition lower_byte (b : byte) : byte := if (65 <=? b) && (b <=? 90) then b + 32 else b.
Definition ascii_lower (s : bytes) : bytes := map lower_byte s.

(* ---------------------------------------------------------------- configuration *)

Record user := mkUser { u_priv : bool; u_loop : bool }.   (* AllowPrivateIP, AllowLoopbackIP *)

Inductive iprange :=
| IpStar                                   (* "*" *)
| IpBad                                    (* a string net.ParseCIDR rejects: skipped *)
| IpCidr (net : bytes) (ones : N).         (* a.b.c.d/n (net has 4 bytes) or v6/n (16 bytes) *)

Record rule := mkRule {
  r_ips : list iprange;
  r_doms : list bytes;
  r_action : N;
  r_proxy_names : list bytes }.

Record config := mkConfig {
  c_allow_loop_dest : bool;                (* Config.AllowLoopbackDestination (testing) *)
  c_users : list (bytes * user);
  c_rules : list rule;
  c_proxies : list bytes }.                (* names of Egress.Proxies, in order *)

(* in.Env["user"] missing or "" is the unknown user; s.config.Users[userName] *)
Fixpoint lookup_user (us : list (bytes * user)) (name : bytes) : option user :=
  match us with
  | [] => None
  | (n, u) :: r => if bytes_eqb n name then Some u else lookup_user r name
  end.
Definition find_user (cfg : config) (name : bytes) : option user :=
  match name with [] => None | _ => lookup_user (c_users cfg) name end.

(* ---------------------------------------------------------------- rejectPrivateAndLoopbackIPAction *)

Definition DOT : byte := 46.

(* strings.TrimSuffix(s, "."): one trailing dot removed *)
Fixpoint strip_dot (s : bytes) : bytes :=
  match s with
  | [] => []
  | c :: r => match r with
              | [] => if c =? DOT then [] else [c]
              | _ => c :: strip_dot r
              end
  end.

(* the IP that stands for the host: the address itself; with the fix (fx) the IP a domain string is a literal
   of; 127.0.0.1 / ::1 for the empty host and the well-known names compared in lower case (with the fix:
   less one trailing dot); None = some other name: DIRECT without a lookup *)
Definition host_ip (fx : bool) (lit : bytes -> option bytes) (a : addr) : option bytes :=
  match a_ip a with
  | [] =>
    match (if fx then lit (a_fqdn a) else None) with
    | Some ip => Some ip
    | None =>
      let d := ascii_lower (a_fqdn a) in
      match d with
      | [] => Some v4loop16
      | _ => let n := if fx then strip_dot d else d in
             if mem_bytes n names4 then Some v4loop16
             else if mem_bytes n names6 then Some v6loop else None
      end
    end
  | ip => Some ip
  end.

(* the IP on which private / loopback is judged: CONNECT to the unspecified address counts as loopback *)
Definition effective_ip (fx : bool) (lit : bytes -> option bytes) (cmd : N) (a : addr) : option bytes :=
  match host_ip fx lit a with
  | None => None
  | Some ip => if is_unspecified ip && (cmd =? CMD_CONNECT) then Some v4loop16 else Some ip
  end.

(* true = REJECT *)
Definition reject_local (fx : bool) (lit : bytes -> option bytes) (cfg : config) (uname : bytes) (cmd : N) (a : addr) : bool :=
  match effective_ip fx lit cmd a with
  | None => false
  | Some ip =>
    let p := is_private ip in
    let l := is_loopback ip in
    if negb p && negb l then false
    else if l && c_allow_loop_dest cfg then false
    else match find_user cfg uname with
         | None => true
         | Some u => if p && u_priv u then false else if l && u_loop u then false else true
         end
  end.

(* ---------------------------------------------------------------- forwardToProxyAction *)

(* net.CIDRMask(ones, 8*n) as n bytes *)
Fixpoint cidr_mask (n : nat) (ones : N) : bytes :=
  match n with
  | O => []
  | S k => (if 8 <=? ones then 255 else 256 - 2 ^ (8 - ones)) :: cidr_mask k (ones - 8)
  end.

Fixpoint land_bytes (a b : bytes) : bytes :=
  match a, b with
  | x :: a', y :: b' => N.land x y :: land_bytes a' b'
  | _, _ => []
  end.

(* net.ParseCIDR gives IPNet{IP: ip.Mask(m), Mask: m}; IPNet.Contains via networkNumberAndMask *)
Definition cidr_contains (net : bytes) (ones : N) (ip : bytes) : bool :=
  let m := cidr_mask (length net) ones in
  let nip := land_bytes net m in
  let '(nn, mm) := match to4 nip with
                   | Some v => (v, if (length m =? 16)%nat then skipn 12 m else m)
                   | None => (nip, m)
                   end in
  let x := match to4 ip with Some v => v | None => ip end in
  (length x =? length nn)%nat && bytes_eqb (land_bytes nn mm) (land_bytes x mm).

Definition match_iprange (ip : bytes) (r : iprange) : bool :=
  match r with
  | IpStar => true
  | IpBad => false
  | IpCidr net ones => cidr_contains net ones ip
  end.

Fixpoint has_suffix_rev (rs rsuf : bytes) : bool :=   (* both reversed: prefix test *)
  match rsuf with
  | [] => true
  | y :: rsuf' => match rs with [] => false | x :: rs' => (x =? y) && has_suffix_rev rs' rsuf' end
  end.
Definition has_suffix (s suf : bytes) : bool := has_suffix_rev (rev s) (rev suf).

Definition STAR : bytes := [42].
Definition match_domain (dom : bytes) (d : bytes) : bool :=
  bytes_eqb d STAR || bytes_eqb dom d || has_suffix dom (DOT :: d).

(* matchEgressRule: an IP destination only meets the IP ranges, a name only the domain names *)
Definition match_rule (a : addr) (r : rule) : bool :=
  match a_ip a with
  | [] => match a_fqdn a with
          | [] => false
          | dom => existsb (match_domain dom) (r_doms r)
          end
  | ip => existsb (match_iprange ip) (r_ips r)
  end.

(* what a matching rule yields; idx is the draw of mrand.Intn(len(proxy names)) *)
Definition rule_result (cfg : config) (r : rule) (idx : N) : N * option bytes :=
  if r_action r =? ACT_PROXY then
    let sel := match r_proxy_names r with [] => [] | ns => nth (N.to_nat idx) ns [] end in
    if mem_bytes sel (c_proxies cfg) then (ACT_PROXY, Some sel) else (ACT_PROXY, None)
  else (r_action r, None).

Fixpoint first_match (a : addr) (rs : list rule) : option rule :=
  match rs with
  | [] => None
  | r :: rs' => if match_rule a r then Some r else first_match a rs'
  end.

Definition rules_action (cfg : config) (a : addr) (idx : N) : N * option bytes :=
  match a_ip a, a_fqdn a with
  | [], [] => (ACT_DIRECT, None)            (* the empty host never meets the rules *)
  | _, _ =>
    match first_match a (c_rules cfg) with
    | Some r => rule_result cfg r idx
    | None => (ACT_DIRECT, None)
    end
  end.

(* ---------------------------------------------------------------- FindAction *)

Definition decide (fx : bool) (lit : bytes -> option bytes) (cfg : config) (uname : bytes) (cmd : N) (a : addr) (idx : N) : N * option bytes :=
  if (cmd =? CMD_CONNECT) || (cmd =? CMD_ASSOC) then
    if reject_local fx lit cfg uname cmd a then (ACT_REJECT, None) else rules_action cfg a idx
  else (ACT_DIRECT, None).

(* proto_ok: in.Protocol is SOCKS5_PROXY_PROTOCOL *)
Definition find_action (fx : bool) (lit : bytes -> option bytes) (cfg : config) (proto_ok : bool) (uname : bytes) (data : bytes) (idx : N)
  : N * option bytes :=
  if proto_ok then
    match parse_request data with
    | Some (cmd, a) => decide fx lit cfg uname cmd a idx
    | None => (ACT_DIRECT, None)
    end
  else (ACT_DIRECT, None).

(* ---------------------------------------------------------------- UDP relay, per datagram *)

Inductive relay_out :=
| RSent (a : addr)      (* payload handed to WriteToUDP for the address in the header *)
| RDropped              (* datagram skipped, the loop goes on *)
| RStop.                (* the client-to-destination loop ends (stream mode, malformed datagram) *)

(* runUDPAssociateLoop / runUDPAssociateDatagramLoop on one datagram from the client.
   stop_on_error: the packet-over-stream loop returns on a malformed datagram, the datagram-mode
   loop skips it.  The filter is udpDatagramFilter: FindAction of the CONNECT request to the header
   address; the user is the one of the proxy connection. *)
Definition relay_step (fx : bool) (lit : bytes -> option bytes) (cfg : config) (uname : bytes) (stop_on_error : bool) (pkt : bytes) : relay_out :=
  let bad := if stop_on_error then RStop else RDropped in
  match pkt with
  | r0 :: r1 :: frag :: r =>
    if (length pkt <=? 6)%nat then bad
    else if negb ((r0 =? 0) && (r1 =? 0)) then bad
    else if negb (frag =? 0) then bad
    else match parse_addr r with
         | None => bad
         | Some (a, rest) =>
           let dst := firstn (length r - length rest) r in
           if fst (find_action fx lit cfg true uname (VER :: CMD_CONNECT :: 0 :: dst) 0) =? ACT_REJECT
           then RDropped
           else match a_ip a, a_fqdn a with
                | [], [] => RDropped        (* resolveSocks5UDPAddr: unrecognized address *)
                | _, _ => RSent a
                end
         end
  | _ => bad
  end.

(* destinations datagrams are sent to, over a whole association *)
Fixpoint relay_run (fx : bool) (lit : bytes -> option bytes) (cfg : config) (uname : bytes) (stop_on_error : bool) (pkts : list bytes) : list addr :=
  match pkts with
  | [] => []
  | p :: ps =>
    match relay_step fx lit cfg uname stop_on_error p with
    | RSent a => a :: relay_run fx lit cfg uname stop_on_error ps
    | RDropped => relay_run fx lit cfg uname stop_on_error ps
    | RStop => []
    end
  end.

(* ---------------------------------------------------------------- the property's sets (specification)

   Written on the numeric value of the address, independently of the byte tests above.
   To be reviewed against the text of C12:
     "a loopback (respectively private) IP address in any binary form"  -> LoopbackIP / PrivateIP
        over the three binary forms: 4 bytes, IPv4-mapped 16 bytes, native 16 bytes
     "an empty or unspecified host"                                     -> EmptyHost / UnspecIP
     "one of the well-known local host names in any letter case"        -> LocalName
     a destination the resolver and the dialer take as such an IP address without any lookup (an IP
     literal in a domain-typed address) is that IP address                -> HostIs
   Empty, unspecified and named hosts reach the server's own machine and therefore fall under the
   loopback permission. *)

Definition bytes_ok (l : bytes) : Prop := Forall (fun b => b < 256) l.

Definition v4num (v : bytes) : N :=
  match v with [a; b; c; d] => ((a * 256 + b) * 256 + c) * 256 + d | _ => 0 end.

(* 127.0.0.0/8 *)
Definition V4Loopback (v : bytes) : Prop :=
  length v = 4%nat /\ bytes_ok v /\ 127 * 2^24 <= v4num v < 128 * 2^24.
(* 10.0.0.0/8, 172.16.0.0/12, 192.168.0.0/16 *)
Definition V4Private (v : bytes) : Prop :=
  length v = 4%nat /\ bytes_ok v /\
  (10 * 2^24 <= v4num v < 11 * 2^24 \/
   (172 * 256 + 16) * 2^16 <= v4num v < (172 * 256 + 32) * 2^16 \/
   (192 * 256 + 168) * 2^16 <= v4num v < (192 * 256 + 169) * 2^16).

Inductive LoopbackIP : bytes -> Prop :=
| LI_v4 v : V4Loopback v -> LoopbackIP v
| LI_mapped v : V4Loopback v -> LoopbackIP (mapped v)
| LI_v6 : LoopbackIP v6loop.                                   (* ::1 *)

Inductive PrivateIP : bytes -> Prop :=
| PI_v4 v : V4Private v -> PrivateIP v
| PI_mapped v : V4Private v -> PrivateIP (mapped v)
| PI_v6 ip : length ip = 16%nat -> bytes_ok ip -> nth 0 ip 0 / 2 = 126 -> PrivateIP ip.   (* fc00::/7 *)

Inductive UnspecIP : bytes -> Prop :=
| UI_v4 : UnspecIP zero4                                       (* 0.0.0.0 *)
| UI_mapped : UnspecIP (mapped zero4)                          (* ::ffff:0.0.0.0 *)
| UI_v6 : UnspecIP zero16.                                     (* :: *)

(* a name is local when its lower-case form, less one trailing dot (the absolute spelling of the same name),
   is one of the well-known names: any letter case *)
Definition LocalName (s : bytes) : Prop := In (strip_dot (ascii_lower s)) (names4 ++ names6).

(* the destination is the IP address ip: in binary form, or written as an IP literal in a domain-typed
   address (lit is the reading of Go's resolver and dialer, which then use ip without any lookup) *)
Definition HostIs (lit : bytes -> option bytes) (a : addr) (ip : bytes) : Prop :=
  (a_ip a = ip /\ a_fqdn a = []) \/ (a_ip a = [] /\ lit (a_fqdn a) = Some ip).

(* destinations under the loopback permission, for a request with command cmd.
   The unspecified address in a UDP ASSOCIATE *request* is excluded here: see C12_assoc_unspecified_refuted. *)
Definition LoopDest (lit : bytes -> option bytes) (cmd : N) (a : addr) : Prop :=
  (exists ip, HostIs lit a ip /\ LoopbackIP ip) \/
  (a_ip a = [] /\ a_fqdn a = []) \/
  (a_ip a = [] /\ LocalName (a_fqdn a)) \/
  (exists ip, HostIs lit a ip /\ UnspecIP ip /\ cmd = CMD_CONNECT).

(* the full set of the property text (no exception) *)
Definition LoopDestFull (lit : bytes -> option bytes) (a : addr) : Prop :=
  LoopDest lit CMD_CONNECT a.

Definition PrivDest (lit : bytes -> option bytes) (a : addr) : Prop :=
  exists ip, HostIs lit a ip /\ PrivateIP ip.

Definition LocalDest (lit : bytes -> option bytes) (a : addr) : Prop := LoopDestFull lit a \/ PrivDest lit a.

(* what the theorems ask of lit: the empty string and the well-known names are no IP literals, and a
   literal denotes 4 or 16 byte values (all true of netip.ParseAddr; checked by the driver on every case) *)
Definition lit_sane (lit : bytes -> option bytes) : Prop :=
  lit [] = None /\ (forall s ip, lit s = Some ip -> ~ LocalName s).
Definition lit_bytes_ok (lit : bytes -> option bytes) : Prop :=
  forall s ip, lit s = Some ip -> bytes_ok ip.

(* is fixes/C12-domain-literal.diff in the tree the constants came from? *)
Definition tree_fixed : bool := (C12_fixDomainLiteral =? 1)%Z.

Definition user_loop (cfg : config) (uname : bytes) : bool :=
  match find_user cfg uname with Some u => u_loop u | None => false end.
Definition user_priv (cfg : config) (uname : bytes) : bool :=
  match find_user cfg uname with Some u => u_priv u | None => false end.
