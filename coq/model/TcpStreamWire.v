(* C01 - the concrete codecs of the TCP stream model: the Section variables of model/TcpStream.v
   instantiated with the metadata layout of model/Wire.v (property C09) and the low entropy codec of
   model/LowEntropy.v (property C17).  These are the functions the correspondence run executes on real
   bytes (ocaml/c01_run.ml) and the functions of the ..._concrete theorems (proofs/TcpStreamInst.v). *)
From Coq Require Import List NArith ZArith Bool.
From M Require Import gen.Consts model.TcpStream.
From M Require model.Wire model.LowEntropy.
Import ListNotations.
Open Scope N_scope.

(* ---------------------------------------------------------------- metadata *)
Definition to_session (m : minfo) : Wire.session_meta :=
  Wire.Build_session_meta (mi_proto m) (mi_ts m) (mi_sid m) (mi_seq m) (mi_status m) (mi_plen m) (mi_suf m).
Definition of_session (s : Wire.session_meta) : minfo :=
  mkMinfo (Wire.s_proto s) 0 (Wire.s_ts s) (Wire.s_sid s) (Wire.s_seq s) (Wire.s_status s) (Wire.s_plen s) (Wire.s_slen s)
          0 0 0 0 0 0 0.
Definition to_data (m : minfo) : Wire.data_meta :=
  Wire.Build_data_meta (mi_proto m) (mi_lemode m) (mi_ts m) (mi_sid m) (mi_seq m) (mi_unack m) (mi_window m) (mi_frag m)
                       (mi_pre m) (mi_plen m) (mi_suf m) (mi_mask m) (mi_elen m) (mi_rot m).
Definition of_data (d : Wire.data_meta) : minfo :=
  mkMinfo (Wire.d_proto d) (Wire.d_mode d) (Wire.d_ts d) (Wire.d_sid d) (Wire.d_seq d) 0 (Wire.d_plen d) (Wire.d_slen d)
          (Wire.d_unack d) (Wire.d_win d) (Wire.d_frag d) (Wire.d_prefix d) (Wire.d_mask d) (Wire.d_elen d) (Wire.d_rot d).

(* sessionStruct.Marshal / dataAckStruct.Marshal *)
Definition marshal_w (m : minfo) : list N :=
  if Wire.is_session (mi_proto m) then Wire.marshal_session (to_session m) else Wire.marshal_data (to_data m).

(* readOneSegment: dispatch on byte 0, Unmarshal of the layout, timestamp within +-1 minute of the
   receiver's clock [now] (the clock-independent checks are Wire's) *)
Definition parse_w (now : N) (b : list N) : option minfo :=
  match Wire.unmarshal_session b with
  | Some s => if within1_u32 now (Wire.s_ts s) then Some (of_session s) else None
  | None =>
    match Wire.unmarshal_data b with
    | Some d => if within1_u32 now (Wire.d_ts d) then Some (of_data d) else None
    | None => None
    end
  end.

(* a metadata value the sender may marshal and the receiver (clock [now]) accepts and reproduces:
   every field in the range of its wire field, fields the layout does not carry are 0, session payload
   <= MaxSessionOpenPayload, low entropy fields consistent (validateLowEntropyDataAckMetadata),
   timestamp within one minute of the receiver's clock *)
Definition meta_ok_w (now : N) (m : minfo) : bool :=
  let p := mi_proto m in
  let common := (mi_ts m <? 4294967296) && (mi_sid m <? 4294967296) && (mi_seq m <? 4294967296) && (mi_suf m <? 256) in
  within1_u32 now (mi_ts m) && common &&
  if Wire.is_session p then
    (mi_status m <? 256) && (mi_plen m <=? Wire.MaxSessionOpenPayload) &&
    (mi_lemode m =? 0) && (mi_unack m =? 0) && (mi_window m =? 0) && (mi_frag m =? 0) && (mi_pre m =? 0) &&
    (mi_mask m =? 0) && (mi_elen m =? 0) && (mi_rot m =? 0)
  else if Wire.is_data_ack p then
    (mi_status m =? 0) && (mi_unack m <? 4294967296) && (mi_window m <? 65536) && (mi_frag m <? 256) &&
    (mi_pre m <? 256) && (mi_plen m <? 65536) &&
    if Wire.is_low_entropy p then
      (mi_lemode m <? 256) && (mi_mask m <? 4294967296) && (mi_elen m <? 65536) && (mi_rot m <? 256) &&
      Wire.le_meta_ok (mi_lemode m) (mi_mask m) (mi_elen m) (mi_plen m) (mi_rot m)
    else (mi_lemode m =? 0) && (mi_mask m =? 0) && (mi_elen m =? 0) && (mi_rot m =? 0)
  else false.

(* ---------------------------------------------------------------- low entropy body *)
Definition lp_mode (lp : leparams) : Z := Z.of_N (fst (fst lp)).
Definition lp_mask (lp : leparams) : N := snd (fst lp).
Definition lp_rot (lp : leparams) : Z := Z.of_N (snd lp).

(* lowEntropyEncodedPayloadLen (0 where the Go function returns an error) *)
Definition le_len_w (lp : leparams) (n : N) : N :=
  match LowEntropy.enc_len (Z.of_N n) (lp_mode lp) with LowEntropy.Ok l => Z.to_N l | LowEntropy.Err _ => 0 end.
(* encodeLowEntropyPayloadWithPaddingBit *)
Definition le_encode_w (lp : leparams) (pb : bool) (ct : list N) : list N :=
  match LowEntropy.encode ct (lp_mode lp) (lp_mask lp) (lp_rot lp) (if pb then 1 else 0) with
  | LowEntropy.Ok e => e
  | LowEntropy.Err _ => []
  end.
(* decodeLowEntropyPayload *)
Definition le_decode_w (lp : leparams) (elen : N) (enc : list N) : option (list N) :=
  match LowEntropy.decode enc (Z.of_N elen) (lp_mode lp) (lp_mask lp) (lp_rot lp) with
  | LowEntropy.Ok b => Some b
  | LowEntropy.Err _ => None
  end.
(* parameters accepted by validateLowEntropyCodecParams, mask in 32 bits, and a plaintext length n >= 1
   whose chunk count fits the 16 bit length field (<= 8191 chunks) *)
Definition le_ok_w (lp : leparams) (n : N) : bool :=
  match LowEntropy.validate_params (lp_mode lp) (lp_mask lp) (lp_rot lp) with
  | LowEntropy.Ok (c, _) => (lp_mask lp <? 4294967296) && (1 <=? n) && (LowEntropy.nchunks (Z.of_N n) c <=? 8191)%Z
  | LowEntropy.Err _ => false
  end.
