(* C01 - TCP transport integrity: model of pkg/protocol's stream transport.

   What is modelled (Go names in brackets):
     - the wire layout of one segment on a TCP underlay and the stateful implicit nonce
       [StreamUnderlay.writeOneSegment, cipher.Encrypt/Decrypt/increaseNonce]           serialize1 / nonce_inc
     - the incremental receiver with io.ReadFull semantics
       [readOneSegment, readSessionSegment, readDataAckSegment]                          parse1 / drain / feed
     - Session.Write / writeChunk on the stream transport                                plan_events
     - dispatch by session id and the per-session receive queue ordered by seq
       [RunEventLoop, deliverSegmentToSession, inputData, segmentTree.Insert]            demux / rq_insert
     - Session.Read with unreadBuf                                                       read1 / read_all
   Cryptography (seal/open), the byte layout of the 32 byte metadata (marshal/parse) and the low
   entropy codec are Section variables; the theorems in proofs/TcpStreamProofs.v are closed
   statements quantified over all such functions.  A concrete metadata codec (meta_marshal_c /
   meta_parse_c) follows the Section; it is what the correspondence run executes on real bytes.

   Bytes are N, strings are list N.  nat is used for list lengths only. *)
From Coq Require Import List NArith ZArith Bool Arith.
From M Require Import gen.Consts.
Import ListNotations.
Open Scope N_scope.

(* ---------------------------------------------------------------- constants (from /repo) *)
Definition metaLen : nat := Z.to_nat C01_MetadataLength.          (* 32 *)
Definition tagLen : nat := Z.to_nat C01_TagOverhead.              (* 16 *)
Definition nonceLen : nat := Z.to_nat C01_NonceSize.              (* 24 *)
Definition maxPDU : nat := Z.to_nat C01_maxPDU.                   (* 32768 *)
Definition maxOpenPayload : nat := Z.to_nat C01_MaxSessionOpenPayload. (* 1024 *)
Definition leChunkLen : N := Z.to_N C01_lowEntropyChunkLen.       (* 8 *)

Definition pOpenReq : N := Z.to_N C01_ProtoOpenSessionRequest.
Definition pOpenResp : N := Z.to_N C01_ProtoOpenSessionResponse.
Definition pCloseReq : N := Z.to_N C01_ProtoCloseSessionRequest.
Definition pCloseResp : N := Z.to_N C01_ProtoCloseSessionResponse.
Definition pDataC2S : N := Z.to_N C01_ProtoDataClientToServer.
Definition pDataS2C : N := Z.to_N C01_ProtoDataServerToClient.
Definition pAckC2S : N := Z.to_N C01_ProtoAckClientToServer.
Definition pAckS2C : N := Z.to_N C01_ProtoAckServerToClient.
Definition pDataC2SLE : N := Z.to_N C01_ProtoDataClientToServerLE.
Definition pDataS2CLE : N := Z.to_N C01_ProtoDataServerToClientLE.

(* isSessionProtocol, isLowEntropyProtocol, isDataProtocol, isAckProtocol *)
Definition is_session (p : N) : bool := (p =? pOpenReq) || (p =? pOpenResp) || (p =? pCloseReq) || (p =? pCloseResp).
Definition is_le (p : N) : bool := (p =? pDataC2SLE) || (p =? pDataS2CLE).
Definition is_data (p : N) : bool := (p =? pDataC2S) || (p =? pDataS2C) || is_le p.
Definition is_ack (p : N) : bool := (p =? pAckC2S) || (p =? pAckS2C).
(* what Session.input hands to inputData, i.e. what reaches recvQueue *)
Definition is_queued (p : N) : bool := (p =? pOpenReq) || (p =? pOpenResp) || is_data p.

(* ---------------------------------------------------------------- metadata as a record *)
(* Union of sessionStruct and dataAckStruct.  Fields that a layout does not carry are 0. *)
Record minfo : Set := mkMinfo {
  mi_proto : N;   (* byte 0 *)
  mi_lemode : N;  (* byte 1, low entropy data only *)
  mi_ts : N;      (* bytes 2-5: minutes since the epoch *)
  mi_sid : N;     (* session id *)
  mi_seq : N;
  mi_status : N;  (* session layout *)
  mi_plen : N;    (* payloadLen: length of the body on the wire without the tag *)
  mi_suf : N;     (* suffixLen *)
  mi_unack : N;   (* data layout *)
  mi_window : N;
  mi_frag : N;
  mi_pre : N;     (* prefixLen *)
  mi_mask : N;    (* lowEntropyMask *)
  mi_elen : N;    (* extractedPayloadLen *)
  mi_rot : N      (* lowEntropyMaskRotation *)
}.

(* low entropy parameters carried by the metadata *)
Definition leparams : Set := (N * N * N)%type.  (* mode, half mask, rotation *)
Definition mi_le (m : minfo) : leparams := (mi_lemode m, mi_mask m, mi_rot m).

(* ---------------------------------------------------------------- small list helpers *)
(* io.ReadFull: exactly n bytes or nothing yet *)
Fixpoint take (n : nat) (l : list N) : option (list N * list N) :=
  match n with
  | O => Some ([], l)
  | S k => match l with
           | [] => None
           | x :: t => match take k t with Some (a, b) => Some (x :: a, b) | None => None end
           end
  end.

Definition is_nil {A} (l : list A) : bool := match l with [] => true | _ => false end.
Definition lenN {A} (l : list A) : N := N.of_nat (length l).

(* increaseNonce: big endian increment with carry, wrapping to all zero *)
Fixpoint inc_le (l : list N) : list N :=   (* little endian *)
  match l with
  | [] => []
  | b :: t => if (b + 1 <? 256) then (b + 1) :: t else 0 :: inc_le t
  end.
Definition nonce_inc (n : list N) : list N := rev (inc_le (rev n)).
Fixpoint nonce_add (k : nat) (n : list N) : list N := match k with O => n | S j => nonce_add j (nonce_inc n) end.

(* ---------------------------------------------------------------- segments *)
(* a segment as the sender holds it: metadata (its length fields are recomputed by fill_meta),
   plaintext payload, the two paddings and the low entropy padding bit *)
Record segment : Set := mkSeg {
  s_meta : minfo;
  s_payload : list N;
  s_pad1 : list N;
  s_pad2 : list N;
  s_pb : bool
}.
Definition s_sid (s : segment) : N := mi_sid (s_meta s).

(* what the receiver hands on: authenticated metadata and plaintext payload *)
Definition rseg : Set := (minfo * list N)%type.

Inductive pres : Set :=
| NeedMore
| Bad
| Got (s : rseg) (next : list N) (rest : list N).

Record rstate : Set := mkR {
  r_buf : list N;               (* bytes received and not yet part of a delivered segment *)
  r_next : option (list N);     (* nonce of the next box; None = the nonce has not arrived yet *)
  r_failed : bool               (* a permanent error happened *)
}.
Definition r_init : rstate := mkR [] None false.

Section Stream.
  (* AEAD of one direction (one key); the nonce is an explicit argument *)
  Variable seal : list N -> list N -> list N.
  Variable open : list N -> list N -> option (list N).
  (* metadata byte layout *)
  Variable marshal_meta : minfo -> list N.
  Variable parse_meta : list N -> option minfo.
  (* low entropy body codec *)
  Variable le_len : leparams -> N -> N.                            (* lowEntropyEncodedPayloadLen *)
  Variable le_encode : leparams -> bool -> list N -> list N.       (* padding bit, ciphertext body *)
  Variable le_decode : leparams -> N -> list N -> option (list N). (* extracted length, encoded body *)

  (* ---- sender: StreamUnderlay.writeOneSegment *)
  Definition eff_pad1 (s : segment) : list N := if is_session (mi_proto (s_meta s)) then [] else s_pad1 s.

  (* the metadata as marshalled: length fields from the actual data *)
  Definition fill_meta (s : segment) : minfo :=
    let m := s_meta s in
    let le := is_le (mi_proto m) in
    mkMinfo (mi_proto m) (mi_lemode m) (mi_ts m) (mi_sid m) (mi_seq m) (mi_status m)
            (if le then le_len (mi_le m) (lenN (s_payload s)) else lenN (s_payload s))
            (lenN (s_pad2 s))
            (mi_unack m) (mi_window m) (mi_frag m)
            (lenN (eff_pad1 s))
            (mi_mask m)
            (if le then lenN (s_payload s) else mi_elen m)
            (mi_rot m).

  (* bytes of one segment and the nonce after it.  [sent] = the nonce has been sent already. *)
  Definition serialize1 (sent : bool) (n : list N) (s : segment) : list N * list N :=
    let mi := fill_meta s in
    let hdr := if sent then [] else n in
    let mbox := seal n (marshal_meta mi) in
    let n1 := nonce_inc n in
    let pl := s_payload s in
    if is_nil pl then (hdr ++ mbox ++ eff_pad1 s ++ s_pad2 s, n1)
    else
      let box := seal n1 pl in
      let body := if is_le (mi_proto mi)
                  then le_encode (mi_le mi) (s_pb s) (firstn (length pl) box) ++ skipn (length pl) box
                  else box in
      (hdr ++ mbox ++ eff_pad1 s ++ body ++ s_pad2 s, nonce_inc n1).

  Fixpoint serialize (sent : bool) (n : list N) (l : list segment) : list N :=
    match l with
    | [] => []
    | s :: t => let (b, n') := serialize1 sent n s in b ++ serialize true n' t
    end.

  Definition deliver (s : segment) : rseg := (fill_meta s, s_payload s).

  (* ---- receiver: readOneSegment / readSessionSegment / readDataAckSegment on a buffer *)
  Definition parse1 (nx : option (list N)) (buf : list N) : pres :=
    match take (match nx with None => nonceLen | Some _ => O end) buf with
    | None => NeedMore
    | Some (nb, b1) =>
      let n := match nx with None => nb | Some n => n end in
      match take (metaLen + tagLen) b1 with
      | None => NeedMore
      | Some (mbox, b2) =>
        match open n mbox with
        | None => Bad
        | Some mp =>
          match parse_meta mp with
          | None => Bad
          | Some mi =>
            let n1 := nonce_inc n in
            let pre := if is_session (mi_proto mi) then O else N.to_nat (mi_pre mi) in
            match take pre b2 with
            | None => NeedMore
            | Some (_, b3) =>
              if mi_plen mi =? 0 then
                match take (N.to_nat (mi_suf mi)) b3 with
                | None => NeedMore
                | Some (_, rest) => Got (mi, []) n1 rest
                end
              else
                match take (N.to_nat (mi_plen mi) + tagLen) b3 with
                | None => NeedMore
                | Some (body, b4) =>
                  let obox :=
                    if is_le (mi_proto mi) then
                      match le_decode (mi_le mi) (mi_elen mi) (firstn (N.to_nat (mi_plen mi)) body) with
                      | None => None
                      | Some ct => Some (ct ++ skipn (N.to_nat (mi_plen mi)) body)
                      end
                    else Some body in
                  match obox with
                  | None => Bad
                  | Some box =>
                    match open n1 box with
                    | None => Bad
                    | Some pl =>
                      match take (N.to_nat (mi_suf mi)) b4 with
                      | None => NeedMore
                      | Some (_, rest) => Got (mi, pl) (nonce_inc n1) rest
                      end
                    end
                  end
                end
            end
          end
        end
      end
    end.

  (* deliver every complete segment of the buffer; stop for ever at the first error *)
  Fixpoint drain (fuel : nat) (nx : option (list N)) (buf : list N) : list rseg * rstate :=
    match fuel with
    | O => ([], mkR buf nx false)
    | S f =>
      match parse1 nx buf with
      | NeedMore => ([], mkR buf nx false)
      | Bad => ([], mkR [] nx true)
      | Got s n' rest => let (l, st) := drain f (Some n') rest in (s :: l, st)
      end
    end.

  (* one Read of the network connection returned [chunk] *)
  Definition feed (st : rstate) (chunk : list N) : list rseg * rstate :=
    if r_failed st then ([], st)
    else let b := r_buf st ++ chunk in drain (S (length b)) (r_next st) b.

  Fixpoint feed_all (st : rstate) (chunks : list (list N)) : list rseg * rstate :=
    match chunks with
    | [] => ([], st)
    | c :: t => let (l1, st1) := feed st c in let (l2, st2) := feed_all st1 t in (l1 ++ l2, st2)
    end.

  (* the boxes a stream makes the receiver open (for the tamper lemma): the plaintexts of every
     box opened successfully, in order: metadata then payload of each delivered segment *)
End Stream.

(* ---------------------------------------------------------------- Session.Write / writeChunk *)
(* a planned segment: what the session layer decides (the underlay adds paddings, mask, timestamp) *)
Record pseg : Set := mkP { p_proto : N; p_seq : N; p_frag : N; p_payload : list N }.

(* maxFragmentSize(mtu, StreamTransport, mode): mode 0 = low entropy off *)
Definition le_src_bytes (mode : N) : N := Z.to_N (nth (N.to_nat mode) C01_leSourceBytes 0%Z).
Definition frag_size (mode : N) : nat :=
  if mode =? 0 then maxPDU
  else Nat.min maxPDU (N.to_nat ((Z.to_N C01_MaxUint16 / leChunkLen) * le_src_bytes mode)).

Definition data_proto (client : bool) (le : bool) : N :=
  if client then (if le then pDataC2SLE else pDataC2S) else (if le then pDataS2CLE else pDataS2C).

(* the fragments of one chunk, numbered downwards to 0 *)
Fixpoint plan_frags (proto : N) (fs : nat) (k : nat) (seq : N) (b : list N) : list pseg :=
  match k with
  | O => []
  | S j => mkP proto seq (N.of_nat j) (firstn fs b) :: plan_frags proto fs j (seq + 1) (skipn fs b)
  end.

Definition nfrag (fs len : nat) : nat := if (fs <? len)%nat then ((len - 1) / fs + 1)%nat else 1%nat.

(* writeChunk, for 0 < len b <= maxPDU *)
Definition plan_chunk (client : bool) (mode : N) (seq : N) (b : list N) : list pseg :=
  let fs := frag_size mode in
  plan_frags (data_proto client (negb (mode =? 0))) fs (nfrag fs (length b)) seq b.

(* the loop of Session.Write *)
Fixpoint plan_chunks (fuel : nat) (client : bool) (mode : N) (seq : N) (b : list N) : list pseg :=
  match fuel with
  | O => []
  | S f =>
    match b with
    | [] => []
    | _ => let c := plan_chunk client mode seq (firstn maxPDU b) in
           c ++ plan_chunks f client mode (seq + lenN c) (skipn maxPDU b)
    end
  end.

(* what happens to a session's send side, in the order seq numbers are assigned (oLock):
   an application Write with the low entropy send mode in force at that moment (0 = off; for a
   server session: off until a low entropy segment of the client was received), or a control
   segment without payload (open response, close request / response) *)
Inductive wevent : Set :=
| WWrite (mode : N) (b : list N)
| WCtl (proto : N).

Record wst : Set := mkW { w_seq : N; w_opened : bool }.

Definition plan_event (client : bool) (st : wst) (e : wevent) : list pseg * wst :=
  match e with
  | WCtl p => ([mkP p (w_seq st) 0 []], mkW (w_seq st + 1) (w_opened st))
  | WWrite mode b =>
    if client && negb (w_opened st) then
      (* first Write of a client session: the open request, with the data iff it fits and low entropy is off *)
      if (mode =? 0) && (length b <=? maxOpenPayload)%nat then
        ([mkP pOpenReq (w_seq st) 0 b], mkW (w_seq st + 1) true)
      else
        let d := plan_chunks (length b) client mode (w_seq st + 1) b in
        (mkP pOpenReq (w_seq st) 0 [] :: d, mkW (w_seq st + 1 + lenN d) true)
    else
      let d := plan_chunks (length b) client mode (w_seq st) b in
      (d, mkW (w_seq st + lenN d) (w_opened st))
  end.

Fixpoint plan_events (client : bool) (st : wst) (evs : list wevent) : list pseg :=
  match evs with
  | [] => []
  | e :: t => let (l, st') := plan_event client st e in l ++ plan_events client st' t
  end.

Definition w_init : wst := mkW 0 false.

Fixpoint written (evs : list wevent) : list N :=
  match evs with
  | [] => []
  | WWrite _ b :: t => b ++ written t
  | WCtl _ :: t => written t
  end.

(* a wire segment realises a planned segment of session [sid] *)
Definition realizes (sid : N) (s : segment) (p : pseg) : Prop :=
  mi_proto (s_meta s) = p_proto p /\ mi_sid (s_meta s) = sid /\ mi_seq (s_meta s) = p_seq p /\
  mi_frag (s_meta s) = p_frag p /\ s_payload s = p_payload p.

(* validity of a planned segment list (what plan_concat states) *)
Definition pseg_ok (p : pseg) : Prop :=
  (is_session (p_proto p) = true -> (length (p_payload p) <= maxOpenPayload)%nat /\ p_frag p = 0) /\
  (is_session (p_proto p) = false -> (length (p_payload p) <= maxPDU)%nat /\ (0 < length (p_payload p))%nat).

Fixpoint seqs_from (n : N) (l : list pseg) : Prop :=
  match l with [] => True | p :: t => p_seq p = n /\ seqs_from (n + 1) t end.

(* ---------------------------------------------------------------- multiplexing *)
(* sendMutex makes writeOneSegment atomic: the wire carries whole segments; oLock and the seq-ordered
   sendQueue keep each session's segments in order.  [interleave ls w]: w is a merge of the lists ls. *)
Inductive interleave {A : Type} : list (list A) -> list A -> Prop :=
| il_nil : forall ls, Forall (fun l => l = []) ls -> interleave ls []
| il_cons : forall ls1 x l ls2 w, interleave (ls1 ++ l :: ls2) w -> interleave (ls1 ++ (x :: l) :: ls2) (x :: w).

(* RunEventLoop: dispatch by the session id of the authenticated metadata; Session.input: only open
   request / response and data reach recvQueue *)
Definition demux (sid : N) (l : list rseg) : list (N * list N) :=
  map (fun r => (mi_seq (fst r), snd r))
      (filter (fun r => (mi_sid (fst r) =? sid) && is_queued (mi_proto (fst r))) l).

(* segmentTree.Insert (btree ReplaceOrInsert keyed by seq) *)
Fixpoint rq_insert (x : N * list N) (q : list (N * list N)) : list (N * list N) :=
  match q with
  | [] => [x]
  | y :: t => if fst x <? fst y then x :: y :: t
              else if fst x =? fst y then x :: t
              else y :: rq_insert x t
  end.
Definition recv_queue (arrivals : list (N * list N)) : list (N * list N) :=
  fold_left (fun q x => rq_insert x q) arrivals [].

(* ---------------------------------------------------------------- Session.Read *)
Record rdst : Set := mkRd { rd_unread : list N; rd_queue : list (list N) }.
Definition rd_flat (st : rdst) : list N := rd_unread st ++ concat (rd_queue st).

(* the recvQueue part of the loop; k = room left in the caller's buffer (k > 0) *)
Fixpoint read_q (k : nat) (q : list (list N)) : list N * rdst :=
  match q with
  | [] => ([], mkRd [] [])
  | p :: q' =>
    if (length p <=? k)%nat then
      if (length p =? k)%nat then (p, mkRd [] q')
      else let (d, st) := read_q (k - length p) q' in (p ++ d, st)
    else (firstn k p, mkRd (skipn k p) q')
  end.

(* one Read(b) with len(b) = k when everything in [st] has arrived; returns the bytes copied *)
Definition read1 (k : nat) (st : rdst) : list N * rdst :=
  match k with
  | O => ([], st)
  | _ =>
    let a := firstn k (rd_unread st) in
    let u := skipn k (rd_unread st) in
    if negb (is_nil u) || (length a =? k)%nat then (a, mkRd u (rd_queue st))
    else let (d, st') := read_q (k - length a) (rd_queue st) in (a ++ d, st')
  end.

(* a schedule of the receiving side: a segment payload arrives in recvQueue, or the application reads *)
Inductive revent : Set :=
| Arrive (p : list N)
| Rd (k : nat).

Fixpoint run_reads (st : rdst) (evs : list revent) : list (list N) :=
  match evs with
  | [] => []
  | Arrive p :: t => run_reads (mkRd (rd_unread st) (rd_queue st ++ [p])) t
  | Rd k :: t => let (o, st') := read1 k st in o :: run_reads st' t
  end.

Fixpoint arrivals_of (evs : list revent) : list (list N) :=
  match evs with
  | [] => []
  | Arrive p :: t => p :: arrivals_of t
  | Rd _ :: t => arrivals_of t
  end.

Definition read_all (ks : list nat) (q : list (list N)) : list (list N) :=
  run_reads (mkRd [] q) (map Rd ks).

Definition sum_nat (l : list nat) : nat := fold_right Nat.add O l.

(* ---------------------------------------------------------------- concrete metadata layout *)
(* sessionStruct / dataAckStruct Marshal and Unmarshal (pkg/protocol/metadata.go).  [now] is the
   receiver's clock in minutes; a timestamp is accepted within +-1 (mathext.WithinRange on uint32). *)
Definition be2 (v : N) : list N := [(v / 256) mod 256; v mod 256].
Definition be4 (v : N) : list N := [(v / 16777216) mod 256; (v / 65536) mod 256; (v / 256) mod 256; v mod 256].
Definition zeros (n : nat) : list N := repeat 0 n.

Definition meta_marshal_c (m : minfo) : list N :=
  if is_session (mi_proto m) then
    [mi_proto m; 0] ++ be4 (mi_ts m) ++ be4 (mi_sid m) ++ be4 (mi_seq m) ++ [mi_status m] ++ be2 (mi_plen m) ++ [mi_suf m]
      ++ zeros 14
  else
    [mi_proto m; if is_le (mi_proto m) then mi_lemode m else 0] ++ be4 (mi_ts m) ++ be4 (mi_sid m) ++ be4 (mi_seq m)
      ++ be4 (mi_unack m) ++ be2 (mi_window m) ++ [mi_frag m; mi_pre m] ++ be2 (mi_plen m) ++ [mi_suf m]
      ++ (if is_le (mi_proto m) then be4 (mi_mask m) ++ be2 (mi_elen m) ++ [mi_rot m] else zeros 7).

Definition byte_at (b : list N) (i : nat) : N := nth i b 0.
Definition u16_at (b : list N) (i : nat) : N := byte_at b i * 256 + byte_at b (i + 1).
Definition u32_at (b : list N) (i : nat) : N :=
  ((byte_at b i * 256 + byte_at b (i + 1)) * 256 + byte_at b (i + 2)) * 256 + byte_at b (i + 3).

Definition within1_u32 (now ts : N) : bool :=
  (* WithinRange(a, b, 1) on uint32: a-b <= 1 or b-a <= 1 with wrap-around *)
  let m := 4294967296 in
  (((now + m - ts) mod m) <=? 1) || (((ts + m - now) mod m) <=? 1).

Fixpoint popcount_pos (p : positive) : N :=
  match p with xH => 1 | xO q => popcount_pos q | xI q => 1 + popcount_pos q end.
Definition popcountN (n : N) : N := match n with N0 => 0 | Npos p => popcount_pos p end.

(* isValidLowEntropyRotation *)
Definition le_rot_ok (r : N) : bool := (r <? 16) || ((r mod 16 =? 0) && (r <? 256)).
(* lowEntropyEncodedPayloadLen for n > 0 (None: not representable / bad mode) *)
Definition le_len_c (mode n : N) : option N :=
  let c := le_src_bytes mode in
  if c =? 0 then None else
  let chunks := n / c + (if n mod c =? 0 then 0 else 1) in
  if Z.to_N C01_MaxUint16 / leChunkLen <? chunks then None else Some (chunks * leChunkLen).
(* validateLowEntropyDataAckMetadata *)
Definition le_meta_ok (mode mask rot elen plen : N) : bool :=
  (elen <=? N.of_nat maxPDU) && (plen mod leChunkLen =? 0) &&
  negb (le_src_bytes mode =? 0) && (popcountN mask =? 4 * le_src_bytes mode) && le_rot_ok rot &&
  (if elen =? 0 then plen =? 0
   else match le_len_c mode elen with Some w => plen =? w | None => false end).

Definition meta_parse_c (now : N) (b : list N) : option minfo :=
  if negb (length b =? metaLen)%nat then None else
  let p := byte_at b 0 in
  if is_session p then
    if negb (within1_u32 now (u32_at b 2)) then None else
    if N.of_nat maxOpenPayload <? u16_at b 15 then None else
    Some (mkMinfo p 0 (u32_at b 2) (u32_at b 6) (u32_at b 10) (byte_at b 14) (u16_at b 15) (byte_at b 17) 0 0 0 0 0 0 0)
  else if is_data p || is_ack p then
    if negb (within1_u32 now (u32_at b 2)) then None else
    if is_le p then
      if le_meta_ok (byte_at b 1) (u32_at b 25) (byte_at b 31) (u16_at b 29) (u16_at b 22) then
        Some (mkMinfo p (byte_at b 1) (u32_at b 2) (u32_at b 6) (u32_at b 10) 0 (u16_at b 22) (byte_at b 24)
                      (u32_at b 14) (u16_at b 18) (byte_at b 20) (byte_at b 21) (u32_at b 25) (u16_at b 29) (byte_at b 31))
      else None
    else
      Some (mkMinfo p 0 (u32_at b 2) (u32_at b 6) (u32_at b 10) 0 (u16_at b 22) (byte_at b 24)
                    (u32_at b 14) (u16_at b 18) (byte_at b 20) (byte_at b 21) 0 0 0)
  else None.

(* ---------------------------------------------------------------- receiver-side hand-off with back-pressure *)
(* deliverSegmentToSession -> recvChan -> runInputLoop -> Session.inputData (stream branch) -> recvQueue.
   [h_pending]: payloads of segments the underlay has parsed for this session and that are not yet in
   recvQueue (recvChan and the segment the input loop is holding), in order.  recvQueue is bounded
   (segmentTreeCapacity); the input loop WAITS for room (waitForRecvQueueSpace) - TCP has no retransmission. *)
Record hst : Set := mkH { h_pending : list (list N); h_rd : rdst; h_closed : bool }.

(* waitForRecvQueueSpace: Some true = there is room; Some false = the session is closed (the ONLY reason to
   give up); None = still waiting (the caller stays blocked, back-pressure builds up behind it) *)
Definition wait_space (cap : nat) (st : hst) : option bool :=
  if h_closed st then Some false
  else if (length (rd_queue (h_rd st)) <? cap)%nat then Some true else None.

(* one attempt of the input loop to hand the oldest pending segment to recvQueue *)
Definition h_deliver (cap : nat) (st : hst) : hst :=
  match h_pending st with
  | [] => st
  | p :: t =>
    match wait_space cap st with
    | Some true => mkH t (mkRd (rd_unread (h_rd st)) (rd_queue (h_rd st) ++ [p])) (h_closed st)
    | Some false => mkH t (h_rd st) (h_closed st)     (* closed session: inputData skips the delivery *)
    | None => st                                       (* blocked *)
    end
  end.

Inductive hev : Set :=
| HParsed (p : list N)   (* the underlay parsed one more segment of this session *)
| HDeliver               (* the input loop runs (possibly still blocked) *)
| HRead (k : nat)        (* the application calls Read with a buffer of k bytes *)
| HClose.                (* the session is closed *)

Fixpoint run_h (cap : nat) (st : hst) (evs : list hev) : list (list N) * hst :=
  match evs with
  | [] => ([], st)
  | HParsed p :: t => run_h cap (mkH (h_pending st ++ [p]) (h_rd st) (h_closed st)) t
  | HDeliver :: t => run_h cap (h_deliver cap st) t
  | HRead k :: t => let (o, rd') := read1 k (h_rd st) in
                    let (l, st') := run_h cap (mkH (h_pending st) rd' (h_closed st)) t in (o :: l, st')
  | HClose :: t => run_h cap (mkH (h_pending st) (h_rd st) true) t
  end.

Definition h_flat (st : hst) : list N := rd_flat (h_rd st) ++ concat (h_pending st).
Fixpoint parsed_of (evs : list hev) : list (list N) :=
  match evs with [] => [] | HParsed p :: t => p :: parsed_of t | _ :: t => parsed_of t end.
Fixpoint no_close (evs : list hev) : bool :=
  match evs with [] => true | HClose :: _ => false | _ :: t => no_close t end.

(* the seeded variant (for contrast only): a wait that gives up while the session is open *)
Definition h_deliver_bounded_wait (cap : nat) (st : hst) : hst :=
  match h_pending st with
  | [] => st
  | p :: t => if (length (rd_queue (h_rd st)) <? cap)%nat
              then mkH t (mkRd (rd_unread (h_rd st)) (rd_queue (h_rd st) ++ [p])) (h_closed st)
              else mkH t (h_rd st) (h_closed st)
  end.

(* ---------------------------------------------------------------- Write has value semantics *)
(* plan_events / serialize take the written bytes as VALUES.  The code gets them from a caller-owned, mutable
   buffer: Session.Write(b) queues segments and returns before they are encrypted (the output goroutine does that
   later, under the underlay's sendMutex), and the application may refill b as soon as Write returned (io.Copy
   does).  writeChunk therefore COPIES the payload into the queued segment.  The small machine below makes the
   obligation explicit: [copy = true] is the code, [copy = false] the aliasing variant (the queued segment refers
   to the caller's buffer and is resolved when it is finally encrypted). *)
Inductive astep : Set :=
| ASet (b : list N)   (* the application (re)fills its buffer *)
| AWrite              (* Write(buffer) : the segment is queued, Write returns *)
| AFlush.             (* the output goroutine encrypts and sends everything queued *)
Inductive qent : Set :=
| QVal (v : list N)   (* an own copy of the payload *)
| QRef (n : nat).     (* a reference to the first n bytes of the caller's buffer *)
Record ast : Set := mkA { a_buf : list N; a_queue : list qent; a_sent : list (list N) }.
Definition a_init : ast := mkA [] [] [].
Definition resolve (buf : list N) (e : qent) : list N := match e with QVal v => v | QRef n => firstn n buf end.
Definition a_step (copy : bool) (st : ast) (s : astep) : ast :=
  match s with
  | ASet b => mkA b (a_queue st) (a_sent st)
  | AWrite => mkA (a_buf st) (a_queue st ++ [if copy then QVal (a_buf st) else QRef (length (a_buf st))]) (a_sent st)
  | AFlush => mkA (a_buf st) [] (a_sent st ++ map (resolve (a_buf st)) (a_queue st))
  end.
Definition a_run (copy : bool) (st : ast) (steps : list astep) : ast := fold_left (a_step copy) steps st.
(* the contents of the buffer at the moments Write was called *)
Fixpoint values_written (buf : list N) (steps : list astep) : list (list N) :=
  match steps with
  | [] => []
  | ASet b :: t => values_written b t
  | AWrite :: t => buf :: values_written buf t
  | AFlush :: t => values_written buf t
  end.
