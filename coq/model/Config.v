(* C20 — configuration handling: merge of patches, password hashing before storing, the guards and
   slicing of the share-link parsers, port / port-range parsing.  Definitions only.

   Modelled: mieru's OWN logic in pkg/appctl/{client,server,url}.go and
   pkg/appctl/appctlcommon/{user,port_binding}.go.  Library code (protobuf, protojson, base64, net/url,
   the generated enum-name tables, SHA-256 + hex) is NOT modelled: where the Go code consults it the
   model takes the library's answer as an input ([url_lib], [surl_lib], the section function [H]) and the
   theorems quantify over every possible answer.

   Bytes are [N]; Go strings are [list N].  [None] = "field not set" (nil pointer / nil slice). *)
From Coq Require Import List NArith ZArith Bool.
From M Require Import gen.Consts.
Import ListNotations.

Definition bytes := list N.

(* ---------------------------------------------------------------- strings *)

(* Go's string order (sort.Strings): bytewise lexicographic *)
Fixpoint bytes_cmp (a b : bytes) : comparison :=
  match a, b with
  | [], [] => Eq
  | [], _ :: _ => Lt
  | _ :: _, [] => Gt
  | x :: a', y :: b' =>
      match N.compare x y with
      | Eq => bytes_cmp a' b'
      | Lt => Lt
      | Gt => Gt
      end
  end.

Definition bytes_eqb (a b : bytes) : bool :=
  match bytes_cmp a b with Eq => true | _ => false end.

Definition is_empty (a : bytes) : bool := match a with [] => true | _ => false end.

(* strings.HasPrefix(s, p) *)
Fixpoint has_prefix (p s : bytes) : bool :=
  match p, s with
  | [], _ => true
  | _ :: _, [] => false
  | x :: p', y :: s' => N.eqb x y && has_prefix p' s'
  end.

(* s[n:] — panics (None) when n > len(s) *)
Definition go_slice_from (n : nat) (s : bytes) : option bytes :=
  if Nat.ltb (length s) n then None else Some (skipn n s).

Definition orelse {A : Type} (a b : option A) : option A :=
  match a with Some _ => a | None => b end.
Definition getz (o : option Z) : Z := match o with Some z => z | None => 0%Z end.
Definition getb (o : option bytes) : bytes := match o with Some b => b | None => [] end.

(* ---------------------------------------------------------------- sorted association lists (Go: map + sort.Strings(names)) *)

Section Assoc.
  Variable V : Type.
  Fixpoint ins (k : bytes) (v : V) (l : list (bytes * V)) : list (bytes * V) :=
    match l with
    | [] => [(k, v)]
    | (k', v') :: t =>
        match bytes_cmp k k' with
        | Lt => (k, v) :: (k', v') :: t
        | Eq => (k, v) :: t
        | Gt => (k', v') :: ins k v t
        end
    end.
  Fixpoint lookup (k : bytes) (l : list (bytes * V)) : option V :=
    match l with
    | [] => None
    | (k', v') :: t => if bytes_eqb k k' then Some v' else lookup k t
    end.
  (* m := map[string]*V{}; for _, x := range xs { m[key(x)] = x } *)
  Definition ins_all (key : V -> bytes) (xs : list V) (m : list (bytes * V)) : list (bytes * V) :=
    fold_left (fun acc x => ins (key x) x acc) xs m.
  (* last element of xs with that key: what a Go map holds after the loop *)
  Fixpoint find_last (key : V -> bytes) (k : bytes) (xs : list V) : option V :=
    match xs with
    | [] => None
    | x :: t => match find_last key k t with
                | Some y => Some y
                | None => if bytes_eqb k (key x) then Some x else None
                end
    end.
  (* merged := dst entries overwritten/extended by src entries, emitted in the order of sorted names *)
  Definition merge_by_name (key : V -> bytes) (dst src : list V) : list V :=
    map snd (ins_all key src (ins_all key dst [])).
End Assoc.
Arguments ins {V}. Arguments lookup {V}. Arguments ins_all {V}. Arguments find_last {V}. Arguments merge_by_name {V}.

(* ---------------------------------------------------------------- users and password hashing *)

(* appctlpb.User: the three fields the code looks at + the rest (quotas, allowPrivateIP, ...) kept opaque *)
Record user := mkUser {
  u_name : option bytes;
  u_pw : option bytes;
  u_hpw : option bytes;
  u_rest : bytes }.

Definition uname (u : user) : bytes := getb (u_name u).

Section Hash.
  (* H = hex . SHA-256, uninterpreted *)
  Variable H : bytes -> bytes.

  (* appctlcommon.HashUserPassword(user, keepPlaintext) for a non-nil user *)
  Definition hash_user (keep : bool) (u : user) : user :=
    match u_pw u with
    | None => u
    | Some [] => u
    | Some pw =>
        mkUser (u_name u)
               (if keep then Some pw else Some [])
               (Some (H (pw ++ 0%N :: uname u)))
               (u_rest u)
    end.

  (* appctlcommon.HashUserPasswords *)
  Definition hash_users (keep : bool) (us : list user) : list user := map (hash_user keep) us.
End Hash.

Definition has_plaintext (u : user) : bool :=
  match u_pw u with None => false | Some [] => false | Some _ => true end.

(* ---------------------------------------------------------------- server configuration *)

Record port_binding := mkPB {
  pb_port : option Z;
  pb_proto : option Z;
  pb_range : option bytes }.

(* appctlpb.ServerConfig; sub-messages the merge only copies are opaque byte strings *)
Record server_cfg := mkServer {
  s_ports : option (list port_binding);     (* None = nil slice *)
  s_users : list user;
  s_adv : option bytes;
  s_log : option Z;
  s_mtu : option Z;
  s_egress : option bytes;
  s_dns : option bytes;
  s_tp : option bytes }.

(* mergeServerConfig(dst, src) *)
Definition merge_server (dst src : server_cfg) : server_cfg :=
  mkServer (orelse (s_ports src) (s_ports dst))
           (merge_by_name uname (s_users dst) (s_users src))
           (orelse (s_adv src) (s_adv dst))
           (Some (getz (orelse (s_log src) (s_log dst))))
           (Some (getz (orelse (s_mtu src) (s_mtu dst))))
           (orelse (s_egress src) (s_egress dst))
           (orelse (s_dns src) (s_dns dst))
           (orelse (s_tp src) (s_tp dst)).

(* StoreServerConfig: what is marshalled and written *)
Definition store_server (H : bytes -> bytes) (c : server_cfg) : server_cfg :=
  mkServer (s_ports c) (hash_users H false (s_users c)) (s_adv c) (s_log c) (s_mtu c) (s_egress c) (s_dns c) (s_tp c).

(* ---------------------------------------------------------------- client configuration *)

Record profile := mkProfile {
  p_name : option bytes;
  p_user : option user;
  p_rest : bytes }.
Definition pname (p : profile) : bytes := getb (p_name p).

Record client_cfg := mkClient {
  c_profiles : list profile;
  c_active : option bytes;
  c_rpc : option Z;
  c_socks5 : option Z;
  c_adv : option bytes;
  c_log : option Z;
  c_s5lan : option bool;
  c_http : option Z;
  c_httplan : option bool;
  c_auth : option (list bytes) }.          (* None = nil slice *)

(* mergeClientConfigByProfile(dst, src) *)
Definition merge_client (dst src : client_cfg) : client_cfg :=
  mkClient (merge_by_name pname (c_profiles dst) (c_profiles src))
           (Some (getb (orelse (c_active src) (c_active dst))))
           (orelse (c_rpc src) (c_rpc dst))
           (Some (getz (orelse (c_socks5 src) (c_socks5 dst))))
           (orelse (c_adv src) (c_adv dst))
           (Some (getz (orelse (c_log src) (c_log dst))))
           (orelse (c_s5lan src) (c_s5lan dst))
           (orelse (c_http src) (c_http dst))
           (orelse (c_httplan src) (c_httplan dst))
           (orelse (c_auth src) (c_auth dst)).

(* StoreClientConfig: profile.User = HashUserPassword(profile.GetUser(), true) *)
Definition store_profile (H : bytes -> bytes) (p : profile) : profile :=
  mkProfile (p_name p) (match p_user p with Some u => Some (hash_user H true u) | None => None end) (p_rest p).
Definition store_client (H : bytes -> bytes) (c : client_cfg) : client_cfg :=
  mkClient (map (store_profile H) (c_profiles c)) (c_active c) (c_rpc c) (c_socks5 c) (c_adv c) (c_log c)
           (c_s5lan c) (c_http c) (c_httplan c) (c_auth c).

(* ---------------------------------------------------------------- numbers in text *)

Definition is_digit (b : N) : bool := N.leb 48 b && N.leb b 57.
Definition digit_val (b : N) : Z := Z.of_N b - 48.
(* value of a digit string, most significant first *)
Definition digits_val (s : bytes) : Z := fold_left (fun acc b => acc * 10 + digit_val b)%Z s 0%Z.

Definition int64_min : Z := (- 2 ^ 63)%Z.
Definition int64_max : Z := (2 ^ 63 - 1)%Z.

(* strconv.Atoi on a 64-bit platform: [+-]?[0-9]+ within int64, else error *)
Definition atoi (s : bytes) : option Z :=
  match s with
  | [] => None
  | c :: t =>
      let neg := N.eqb c 45 in
      let body := if N.eqb c 43 || N.eqb c 45 then t else s in
      match body with
      | [] => None
      | _ :: _ =>
          if forallb is_digit body
          then let v := if neg then (- digits_val body)%Z else digits_val body in
               if (Z.leb int64_min v && Z.leb v int64_max) then Some v else None
          else None
      end
  end.

(* int32(x) conversion of an int *)
Definition to_int32 (z : Z) : Z := ((z + 2 ^ 31) mod 2 ^ 32 - 2 ^ 31)%Z.

Definition port_ok (p : Z) : bool := Z.leb 1 p && Z.leb p 65535.

(* ---------------------------------------------------------------- appctlcommon.FlatPortBindings: port ranges *)

Fixpoint span_digits (s : bytes) : bytes * bytes :=
  match s with
  | b :: t => if is_digit b then let '(d, r) := span_digits t in (b :: d, r) else ([], s)
  | [] => ([], [])
  end.

(* regexp ^(\d+)-(\d+)$ : the two submatches *)
Definition match_port_range (s : bytes) : option (bytes * bytes) :=
  let '(d1, r) := span_digits s in
  match d1, r with
  | _ :: _, c :: d2 =>
      if N.eqb c 45 then
        match d2 with
        | [] => None
        | _ :: _ => if forallb is_digit d2 then Some (d1, d2) else None
        end
      else None
  | _, _ => None
  end.

(* the range branch of FlatPortBindings: Some (small, big) iff no error is returned *)
Definition parse_port_range (s : bytes) : option (Z * Z) :=
  match match_port_range s with
  | None => None
  | Some (d1, d2) =>
      match atoi d1, atoi d2 with
      | Some a, Some b => if port_ok a && port_ok b && Z.leb a b then Some (a, b) else None
      | _, _ => None
      end
  end.

Definition known_transport (p : Z) : bool := Z.eqb p C20_TransportTCP || Z.eqb p C20_TransportUDP.

(* one binding of FlatPortBindings: Some (number of ports it contributes) iff accepted *)
Definition flat_binding (b : port_binding) : option Z :=
  let proto := getz (pb_proto b) in
  if Z.eqb proto C20_TransportUnknown then None
  else if negb (Z.eqb (getz (pb_port b)) 0) then
    (if port_ok (getz (pb_port b)) && known_transport proto then Some 1%Z else None)
  else match parse_port_range (getb (pb_range b)) with
       | Some (a, z) => if known_transport proto then Some (z - a + 1)%Z else None
       | None => None
       end.

Definition flat_ok (bs : list port_binding) : bool :=
  forallb (fun b => match flat_binding b with Some _ => true | None => false end) bs.

(* ---------------------------------------------------------------- share links *)

Inductive outcome (A : Type) : Type :=
| Ok (a : A)
| Err (stage : N)
| Panic.
Arguments Ok {A}. Arguments Err {A}. Arguments Panic {A}.

Definition s_mieru : bytes := [109; 105; 101; 114; 117]%N.                         (* "mieru" *)
Definition s_mierus : bytes := [109; 105; 101; 114; 117; 115]%N.                   (* "mierus" *)
Definition s_mieru_prefix : bytes := [109; 105; 101; 114; 117; 58; 47; 47]%N.      (* "mieru://" *)

(* what net/url.Parse answered *)
Record url_lib := mkUrl { ul_ok : bool; ul_scheme : bytes; ul_opaque : bytes }.

(* URLToClientConfig up to the base64 decoder, as of the pinned commit (no guard before s[8:]).
   Error stages: 1 url.Parse, 2 scheme, 3 opaque. *)
Definition link_guard_v0 (s : bytes) (u : url_lib) : outcome bytes :=
  if negb (ul_ok u) then Err 1
  else if negb (bytes_eqb (ul_scheme u) s_mieru) then Err 2
  else if negb (is_empty (ul_opaque u)) then Err 3
  else match go_slice_from 8 s with
       | None => Panic
       | Some p => Ok p
       end.

(* URLToClientConfig with fixes/C20-short-link-slice.diff applied: stage 4 = "does not begin with mieru://" *)
Definition link_guard (s : bytes) (u : url_lib) : outcome bytes :=
  if negb (ul_ok u) then Err 1
  else if negb (bytes_eqb (ul_scheme u) s_mieru) then Err 2
  else if negb (is_empty (ul_opaque u)) then Err 3
  else if negb (has_prefix s_mieru_prefix s) then Err 4
  else match go_slice_from 8 s with
       | None => Panic
       | Some p => Ok p
       end.

(* ---- mierus:// (URLToClientProfile) *)

(* strings.Split(s, "-") *)
Fixpoint split_dash_aux (s cur : bytes) : list bytes :=
  match s with
  | [] => [rev cur]
  | b :: t => if N.eqb b 45 then rev cur :: split_dash_aux t [] else split_dash_aux t (b :: cur)
  end.
Definition split_dash (s : bytes) : list bytes := split_dash_aux s [].

Inductive url_port :=
| UPort (p : Z)
| URange (a b : Z).

(* one "port" query value.  Error stages 14..20 in the order of the source. *)
Definition parse_url_port (s : bytes) : url_port + N :=
  match atoi s with
  | Some n => if port_ok n then inl (UPort n) else inr 20%N
  | None =>
      match split_dash s with
      | [x; y] =>
          match atoi x with
          | None => inr 15%N
          | Some a =>
              match atoi y with
              | None => inr 16%N
              | Some b =>
                  if negb (port_ok a) then inr 17%N
                  else if negb (port_ok b) then inr 18%N
                  else if Z.ltb b a then inr 19%N
                  else inl (URange a b)
              end
          end
      | _ => inr 14%N
      end
  end.

(* for idx, port := range portList { ... protocolList[idx] ... } *)
Fixpoint parse_url_ports (idx : nat) (ports : list bytes) (protos : list Z) (acc : list (url_port * Z))
  : outcome (list (url_port * Z)) :=
  match ports with
  | [] => Ok (rev acc)
  | p :: t =>
      match parse_url_port p with
      | inr e => Err e
      | inl up =>
          match nth_error protos idx with
          | None => Panic                       (* index out of range *)
          | Some pv => parse_url_ports (S idx) t protos ((up, pv) :: acc)
          end
      end
  end.

(* answers of net/url (Parse, User, Hostname, ParseQuery, Get), net.ParseIP, the generated enum-name
   tables and base64+proto.Unmarshal of the traffic pattern *)
Record surl_lib := mkSurl {
  su_url : url_lib;
  su_has_user : bool; su_user : bytes; su_pw : bytes;
  su_host : bytes; su_host_is_ip : bool;
  su_query_ok : bool;
  su_profile : bytes;
  su_mtu : bytes;
  su_mux : bytes; su_mux_val : Z;
  su_hs : bytes; su_hs_val : Z;
  su_tp : bytes; su_tp_status : N;              (* 0 decodes, 1 base64 error, 2 protobuf error *)
  su_ports : list bytes;
  su_protos : list Z }.                          (* TransportProtocol_value[...] of each "protocol" value *)

Record sprofile := mkSprofile {
  sp_name : bytes; sp_user : bytes; sp_pw : bytes;
  sp_ip : option bytes; sp_domain : option bytes;
  sp_mtu : option Z; sp_mux : option Z; sp_hs : option Z; sp_tp : bool;
  sp_bindings : list (url_port * Z) }.

(* URLToClientProfile.  Error stages: 1 url.Parse, 2 scheme, 3 opaque, 4 no user info, 5 no user name,
   6 no password, 7 no host, 8 query, 9 no profile name, 10 MTU, 11 traffic pattern base64,
   12 traffic pattern protobuf, 13 #port <> #protocol, 14..20 see parse_url_port. *)
Definition simple_link (u : surl_lib) : outcome sprofile :=
  if negb (ul_ok (su_url u)) then Err 1
  else if negb (bytes_eqb (ul_scheme (su_url u)) s_mierus) then Err 2
  else if negb (is_empty (ul_opaque (su_url u))) then Err 3
  else if negb (su_has_user u) then Err 4
  else if is_empty (su_user u) then Err 5
  else if is_empty (su_pw u) then Err 6
  else if is_empty (su_host u) then Err 7
  else if negb (su_query_ok u) then Err 8
  else if is_empty (su_profile u) then Err 9
  else
    match (if is_empty (su_mtu u) then Some None
           else match atoi (su_mtu u) with Some m => Some (Some (to_int32 m)) | None => None end) with
    | None => Err 10
    | Some mtu =>
        if negb (is_empty (su_tp u)) && N.eqb (su_tp_status u) 1 then Err 11
        else if negb (is_empty (su_tp u)) && negb (N.eqb (su_tp_status u) 0) then Err 12
        else if negb (Nat.eqb (length (su_ports u)) (length (su_protos u))) then Err 13
        else match parse_url_ports 0 (su_ports u) (su_protos u) [] with
             | Panic => Panic
             | Err e => Err e
             | Ok bs =>
                 Ok (mkSprofile (su_profile u) (su_user u) (su_pw u)
                       (if su_host_is_ip u then Some (su_host u) else None)
                       (if su_host_is_ip u then None else Some (su_host u))
                       mtu
                       (if is_empty (su_mux u) then None else Some (su_mux_val u))
                       (if is_empty (su_hs u) then None else Some (su_hs_val u))
                       (negb (is_empty (su_tp u)))
                       bs)
             end
    end.

(* toy instance of H for the executable runner: tag 256 (not a byte) in front of the pre-image *)
Definition toy_hash (x : bytes) : bytes := 256%N :: x.
Definition store_server_toy := store_server toy_hash.
Definition store_client_toy := store_client toy_hash.
