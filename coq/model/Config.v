(* C20 — configuration handling: merge of patches, password hashing before storing, the guards and
   slicing of the share-link parsers, port / port-range parsing.  Definitions only.

   Modelled: mieru's OWN logic in pkg/appctl/{client,server,url}.go and
   pkg/appctl/appctlcommon/{user,port_binding}.go.  Library code (protobuf, protojson, base64, net/url,
   the generated enum-name tables, SHA-256 + hex) is NOT modelled: where the Go code consults it the
   model takes the library's answer as an input ([url_lib], [surl_lib], the section function [H]) and the
   theorems quantify over every possible answer.

   Bytes are [N]; Go strings are [list N].  [None] = "field not set" (nil pointer / nil slice). *)
From Coq Require Import List NArith ZArith Bool.
From M Require Import gen.Consts.
Import ListNotations.

Definition bytes := list N.

(* ---------------------------------------------------------------- strings *)

(* Go's string order (sort.Strings): bytewise lexicographic *)
Fixpoint bytes_cmp (a b : bytes) : comparison :=
  match a, b with
  | [], [] => Eq
  | [], _ :: _ => Lt
  | _ :: _, [] => Gt
  | x :: a', y :: b' =>
      match N.compare x y with
      | Eq => bytes_cmp a' b'
      | Lt => Lt
      | Gt => Gt
      end
  end.

Definition bytes_eqb (a b : bytes) : bool :=
  match bytes_cmp a b with Eq => true | _ => false end.

Definition is_empty (a : bytes) : bool := match a with [] => true | _ => false end.
Definition is_empty_list {A : Type} (a : list A) : bool := match a with [] => true | _ => false end.

(* strings.HasPrefix(s, p) *)
Fixpoint has_prefix (p s : bytes) : bool :=
  match p, s with
  | [], _ => true
  | _ :: _, [] => false
  | x :: p', y :: s' => N.eqb x y && has_prefix p' s'
  end.

(* s[n:] — panics (None) when n > len(s) *)
Definition go_slice_from (n : nat) (s : bytes) : option bytes :=
  if Nat.ltb (length s) n then None else Some (skipn n s).

Definition orelse {A : Type} (a b : option A) : option A :=
  match a with Some _ => a | None => b end.
Definition getz (o : option Z) : Z := match o with Some z => z | None => 0%Z end.
Definition getb (o : option bytes) : bytes := match o with Some b => b | None => [] end.

(* ---------------------------------------------------------------- sorted association lists (Go: map + sort.Strings(names)) *)

Section Assoc.
  Variable V : Type.
  Fixpoint ins (k : bytes) (v : V) (l : list (bytes * V)) : list (bytes * V) :=
    match l with
    | [] => [(k, v)]
    | (k', v') :: t =>
        match bytes_cmp k k' with
        | Lt => (k, v) :: (k', v') :: t
        | Eq => (k, v) :: t
        | Gt => (k', v') :: ins k v t
        end
    end.
  Fixpoint lookup (k : bytes) (l : list (bytes * V)) : option V :=
    match l with
    | [] => None
    | (k', v') :: t => if bytes_eqb k k' then Some v' else lookup k t
    end.
  (* m := map[string]*V{}; for _, x := range xs { m[key(x)] = x } *)
  Definition ins_all (key : V -> bytes) (xs : list V) (m : list (bytes * V)) : list (bytes * V) :=
    fold_left (fun acc x => ins (key x) x acc) xs m.
  (* last element of xs with that key: what a Go map holds after the loop *)
  Fixpoint find_last (key : V -> bytes) (k : bytes) (xs : list V) : option V :=
    match xs with
    | [] => None
    | x :: t => match find_last key k t with
                | Some y => Some y
                | None => if bytes_eqb k (key x) then Some x else None
                end
    end.
  (* merged := dst entries overwritten/extended by src entries, emitted in the order of sorted names *)
  Definition merge_by_name (key : V -> bytes) (dst src : list V) : list V :=
    map snd (ins_all key src (ins_all key dst [])).
End Assoc.
Arguments ins {V}. Arguments lookup {V}. Arguments ins_all {V}. Arguments find_last {V}. Arguments merge_by_name {V}.

(* ---------------------------------------------------------------- users and password hashing *)

(* appctlpb.User: the three fields the code looks at + the rest (quotas, allowPrivateIP, ...) kept opaque *)
Record quota := mkQuota { q_days : Z; q_mb : Z }.
Record user := mkUser {
  u_name : option bytes;
  u_pw : option bytes;
  u_hpw : option bytes;
  u_quotas : list quota;                    (* getter values of each quota; also part of u_rest *)
  u_rest : bytes }.

Definition uname (u : user) : bytes := getb (u_name u).

Section Hash.
  (* H = hex . SHA-256, uninterpreted *)
  Variable H : bytes -> bytes.

  (* appctlcommon.HashUserPassword(user, keepPlaintext) for a non-nil user *)
  Definition hash_user (keep : bool) (u : user) : user :=
    match u_pw u with
    | None => u
    | Some [] => u
    | Some pw =>
        mkUser (u_name u)
               (if keep then Some pw else Some [])
               (Some (H (pw ++ 0%N :: uname u)))
               (u_quotas u)
               (u_rest u)
    end.

  (* appctlcommon.HashUserPasswords *)
  Definition hash_users (keep : bool) (us : list user) : list user := map (hash_user keep) us.
End Hash.

Definition has_plaintext (u : user) : bool :=
  match u_pw u with None => false | Some [] => false | Some _ => true end.

(* ---------------------------------------------------------------- server configuration *)

Record port_binding := mkPB {
  pb_port : option Z;
  pb_proto : option Z;
  pb_range : option bytes }.

(* appctlpb.ServerConfig; sub-messages the merge only copies are opaque byte strings *)
(* sub-messages the merge only copies: [*_raw] is the deterministic encoding, the other fields are what the
   validators read.  Library answers (time.ParseDuration, net.ParseCIDR, net.ParseIP, strings.ToLower,
   trafficpattern.Validate of apis/trafficpattern) are recorded next to the text they were asked about. *)
Record adv_rec := mkAdv { adv_raw : bytes; adv_interval : bytes; adv_interval_ns : option Z }.
Record auth_rec := mkAuth { au_raw : bytes; au_user : bytes; au_pw : bytes }.
Record proxy_rec := mkProxy { px_name : bytes; px_proto : Z; px_host : bytes; px_port : Z; px_auth_user : bytes; px_auth_pw : bytes }.
Record rule_rec := mkRule { ru_ip_ok : list bool; ru_domains : list bytes; ru_action : Z; ru_proxies : list bytes }.
Record egress_rec := mkEgress { eg_raw : bytes; eg_proxies : list proxy_rec; eg_rules : list rule_rec }.
Record host_rec := mkHost { h_domain : bytes; h_norm : bytes; h_ip_ok : bool }.
Record dns_rec := mkDns { dns_raw : bytes; dns_hosts : list host_rec }.
Record tp_rec := mkTp { tp_raw : bytes; tp_ok : bool }.

Record server_cfg := mkServer {
  s_ports : option (list port_binding);     (* None = nil slice *)
  s_users : list user;
  s_adv : option adv_rec;
  s_log : option Z;
  s_mtu : option Z;
  s_egress : option egress_rec;
  s_dns : option dns_rec;
  s_tp : option tp_rec }.

(* mergeServerConfig(dst, src) *)
Definition merge_server (dst src : server_cfg) : server_cfg :=
  mkServer (orelse (s_ports src) (s_ports dst))
           (merge_by_name uname (s_users dst) (s_users src))
           (orelse (s_adv src) (s_adv dst))
           (Some (getz (orelse (s_log src) (s_log dst))))
           (Some (getz (orelse (s_mtu src) (s_mtu dst))))
           (orelse (s_egress src) (s_egress dst))
           (orelse (s_dns src) (s_dns dst))
           (orelse (s_tp src) (s_tp dst)).

(* StoreServerConfig: what is marshalled and written *)
Definition store_server (H : bytes -> bytes) (c : server_cfg) : server_cfg :=
  mkServer (s_ports c) (hash_users H false (s_users c)) (s_adv c) (s_log c) (s_mtu c) (s_egress c) (s_dns c) (s_tp c).

(* ---------------------------------------------------------------- client configuration *)

Record server_ep := mkEp {
  se_ip : bytes; se_ip_ok : bool;            (* GetIpAddress, net.ParseIP(..) != nil *)
  se_domain : bytes; se_domain_is_ip : bool; (* GetDomainName, net.ParseIP(..) != nil *)
  se_bindings : list port_binding }.
Record dialer_rec := mkDialer { dl_proto : Z; dl_host : bytes; dl_port : Z; dl_has_auth : bool; dl_auth_user : bytes; dl_auth_pw : bytes }.
Record profile := mkProfile {
  p_name : option bytes;
  p_user : option user;
  p_servers : list server_ep;
  p_mtu : option Z;
  p_mux : option Z;                          (* Multiplexing != nil && Multiplexing.Level != nil *)
  p_hs : option Z;
  p_tp : option tp_rec;
  p_dialer : option dialer_rec;
  p_rest : bytes }.                          (* encoding of everything but name and user *)
Definition pname (p : profile) : bytes := getb (p_name p).

Record client_cfg := mkClient {
  c_profiles : list profile;
  c_active : option bytes;
  c_rpc : option Z;
  c_socks5 : option Z;
  c_adv : option adv_rec;
  c_log : option Z;
  c_s5lan : option bool;
  c_http : option Z;
  c_httplan : option bool;
  c_auth : option (list auth_rec) }.       (* None = nil slice *)

(* mergeClientConfigByProfile(dst, src) *)
Definition merge_client (dst src : client_cfg) : client_cfg :=
  mkClient (merge_by_name pname (c_profiles dst) (c_profiles src))
           (Some (getb (orelse (c_active src) (c_active dst))))
           (orelse (c_rpc src) (c_rpc dst))
           (Some (getz (orelse (c_socks5 src) (c_socks5 dst))))
           (orelse (c_adv src) (c_adv dst))
           (Some (getz (orelse (c_log src) (c_log dst))))
           (orelse (c_s5lan src) (c_s5lan dst))
           (orelse (c_http src) (c_http dst))
           (orelse (c_httplan src) (c_httplan dst))
           (orelse (c_auth src) (c_auth dst)).

(* StoreClientConfig: profile.User = HashUserPassword(profile.GetUser(), true) *)
Definition store_profile (H : bytes -> bytes) (p : profile) : profile :=
  mkProfile (p_name p) (match p_user p with Some u => Some (hash_user H true u) | None => None end)
            (p_servers p) (p_mtu p) (p_mux p) (p_hs p) (p_tp p) (p_dialer p) (p_rest p).
Definition store_client (H : bytes -> bytes) (c : client_cfg) : client_cfg :=
  mkClient (map (store_profile H) (c_profiles c)) (c_active c) (c_rpc c) (c_socks5 c) (c_adv c) (c_log c)
           (c_s5lan c) (c_http c) (c_httplan c) (c_auth c).

(* ---------------------------------------------------------------- numbers in text *)

Definition is_digit (b : N) : bool := N.leb 48 b && N.leb b 57.
Definition digit_val (b : N) : Z := Z.of_N b - 48.
(* value of a digit string, most significant first *)
Definition digits_val (s : bytes) : Z := fold_left (fun acc b => acc * 10 + digit_val b)%Z s 0%Z.

Definition int64_min : Z := (- 2 ^ 63)%Z.
Definition int64_max : Z := (2 ^ 63 - 1)%Z.

(* strconv.Atoi on a 64-bit platform: [+-]?[0-9]+ within int64, else error *)
Definition atoi (s : bytes) : option Z :=
  match s with
  | [] => None
  | c :: t =>
      let neg := N.eqb c 45 in
      let body := if N.eqb c 43 || N.eqb c 45 then t else s in
      match body with
      | [] => None
      | _ :: _ =>
          if forallb is_digit body
          then let v := if neg then (- digits_val body)%Z else digits_val body in
               if (Z.leb int64_min v && Z.leb v int64_max) then Some v else None
          else None
      end
  end.

(* int32(x) conversion of an int *)
Definition to_int32 (z : Z) : Z := ((z + 2 ^ 31) mod 2 ^ 32 - 2 ^ 31)%Z.

Definition port_ok (p : Z) : bool := Z.leb 1 p && Z.leb p 65535.

(* ---------------------------------------------------------------- appctlcommon.FlatPortBindings: port ranges *)

Fixpoint span_digits (s : bytes) : bytes * bytes :=
  match s with
  | b :: t => if is_digit b then let '(d, r) := span_digits t in (b :: d, r) else ([], s)
  | [] => ([], [])
  end.

(* regexp ^(\d+)-(\d+)$ : the two submatches *)
Definition match_port_range (s : bytes) : option (bytes * bytes) :=
  let '(d1, r) := span_digits s in
  match d1, r with
  | _ :: _, c :: d2 =>
      if N.eqb c 45 then
        match d2 with
        | [] => None
        | _ :: _ => if forallb is_digit d2 then Some (d1, d2) else None
        end
      else None
  | _, _ => None
  end.

(* the range branch of FlatPortBindings: Some (small, big) iff no error is returned *)
Definition parse_port_range (s : bytes) : option (Z * Z) :=
  match match_port_range s with
  | None => None
  | Some (d1, d2) =>
      match atoi d1, atoi d2 with
      | Some a, Some b => if port_ok a && port_ok b && Z.leb a b then Some (a, b) else None
      | _, _ => None
      end
  end.

Definition known_transport (p : Z) : bool := Z.eqb p C20_TransportTCP || Z.eqb p C20_TransportUDP.

(* one binding of FlatPortBindings: Some (number of ports it contributes) iff accepted *)
Definition flat_binding (b : port_binding) : option Z :=
  let proto := getz (pb_proto b) in
  if Z.eqb proto C20_TransportUnknown then None
  else if negb (Z.eqb (getz (pb_port b)) 0) then
    (if port_ok (getz (pb_port b)) && known_transport proto then Some 1%Z else None)
  else match parse_port_range (getb (pb_range b)) with
       | Some (a, z) => if known_transport proto then Some (z - a + 1)%Z else None
       | None => None
       end.

Definition flat_ok (bs : list port_binding) : bool :=
  forallb (fun b => match flat_binding b with Some _ => true | None => false end) bs.

(* ---------------------------------------------------------------- validators
   Each returns 0 when the configuration is accepted, else the number of the first failing group of checks
   (the numbers are the ones the driver maps the Go error texts to). *)

Definition blen (s : bytes) : Z := Z.of_nat (length s).
Definition zin (lo hi v : Z) : bool := Z.leb lo v && Z.leb v hi.

Fixpoint first_err {A : Type} (f : A -> N) (l : list A) : N :=
  match l with
  | [] => 0%N
  | x :: t => let e := f x in if N.eqb e 0 then first_err f t else e
  end.

Fixpoint mem_bytes (x : bytes) (l : list bytes) : bool :=
  match l with [] => false | y :: t => bytes_eqb x y || mem_bytes x t end.

Fixpoint last_byte (s : bytes) : option N :=
  match s with [] => None | [b] => Some b | _ :: t => last_byte t end.
Definition begins_with_dot (s : bytes) : bool := match s with 46%N :: _ => true | _ => false end.
Definition ends_with_dot (s : bytes) : bool := match last_byte s with Some 46%N => true | _ => false end.

Definition validate_quota (q : quota) : N :=
  if Z.leb (q_days q) 0 then 25%N
  else if Z.ltb C20_MaxQuotaDays (q_days q) then 26%N
  else if Z.leb (q_mb q) 0 then 27%N
  else 0%N.

(* appctlcommon.ValidateServerConfigSingleUser *)
Definition validate_user (u : user) : N :=
  if is_empty (uname u) then 21%N
  else if is_empty (getb (u_pw u)) && is_empty (getb (u_hpw u)) then 22%N
  else if Z.ltb C20_MaxUserNameLen (blen (uname u)) then 23%N
  else if negb (is_empty (getb (u_pw u))) && Z.ltb C20_MaxPasswordLen (blen (getb (u_pw u))) then 24%N
  else first_err validate_quota (u_quotas u).

Definition getports (o : option (list port_binding)) : list port_binding :=
  match o with Some l => l | None => [] end.

Definition mtu_valid (m : Z) : bool := Z.eqb m 0 || zin C20_MtuMin C20_MtuMax m.

Definition interval_valid (a : option adv_rec) : bool :=
  match a with
  | None => true
  | Some r => is_empty (adv_interval r) ||
              match adv_interval_ns r with
              | None => false
              | Some d => Z.leb C20_MinMetricsIntervalNs d
              end
  end.

Definition proxy_fields_valid (p : proxy_rec) : bool :=
  negb (Z.eqb (px_proto p) C20_UnknownProxyProtocol) &&
  negb (is_empty (px_host p)) &&
  zin C20_PortMin C20_PortMax (px_port p) &&
  Bool.eqb (is_empty (px_auth_user p)) (is_empty (px_auth_pw p)).

(* the proxies loop with its usedProxyNames map: Some names iff no error *)
Fixpoint validate_proxies (used : list bytes) (ps : list proxy_rec) : option (list bytes) :=
  match ps with
  | [] => Some used
  | p :: t =>
      if is_empty (px_name p) then None
      else if mem_bytes (px_name p) used then None
      else if proxy_fields_valid p then validate_proxies (px_name p :: used) t
      else None
  end.

Definition domain_valid (d : bytes) : bool :=
  negb (is_empty d) && negb (begins_with_dot d) && negb (ends_with_dot d).

Definition rule_valid (used : list bytes) (r : rule_rec) : bool :=
  forallb (fun b => b) (ru_ip_ok r) &&
  forallb domain_valid (ru_domains r) &&
  (if Z.eqb (ru_action r) C20_EgressActionProxy
   then negb (is_empty_list (ru_proxies r)) && forallb (fun n => mem_bytes n used) (ru_proxies r)
   else is_empty_list (ru_proxies r)).

Fixpoint nodup_bytes (l : list bytes) : bool :=
  match l with [] => true | x :: t => negb (mem_bytes x t) && nodup_bytes t end.

(* appctlcommon.TransformDNSHosts (the verdict does not depend on the map iteration order) *)
Definition dns_valid (d : option dns_rec) : bool :=
  match d with
  | None => true
  | Some r =>
      forallb (fun h => negb (begins_with_dot (h_domain h)) && negb (ends_with_dot (h_domain h)) &&
                        negb (is_empty (h_norm h)) && h_ip_ok h) (dns_hosts r) &&
      nodup_bytes (map h_norm (dns_hosts r))
  end.

Definition tp_valid (t : option tp_rec) : bool := match t with None => true | Some r => tp_ok r end.

(* appctl.ValidateServerConfigPatch *)
Definition validate_server_patch (c : server_cfg) : N :=
  if negb (flat_ok (getports (s_ports c))) then 1%N
  else let eu := first_err validate_user (s_users c) in
  if negb (N.eqb eu 0) then eu
  else if negb (mtu_valid (getz (s_mtu c))) then 3%N
  else match validate_proxies [] (match s_egress c with Some e => eg_proxies e | None => [] end) with
       | None => 4%N
       | Some used =>
           if negb (forallb (rule_valid used) (match s_egress c with Some e => eg_rules e | None => [] end)) then 5%N
           else if negb (dns_valid (s_dns c)) then 6%N
           else if negb (interval_valid (s_adv c)) then 7%N
           else if negb (tp_valid (s_tp c)) then 8%N
           else 0%N
       end.

(* proto.Equal(config, &pb.ServerConfig{}) *)
Definition server_is_empty (c : server_cfg) : bool :=
  is_empty_list (getports (s_ports c)) && is_empty_list (s_users c) &&
  match s_adv c, s_log c, s_mtu c, s_egress c, s_dns c, s_tp c with
  | None, None, None, None, None, None => true
  | _, _, _, _, _, _ => false
  end.

(* appctl.ValidateFullServerConfig *)
Definition validate_full_server (c : server_cfg) : N :=
  let e := validate_server_patch c in
  if negb (N.eqb e 0) then e
  else if server_is_empty c then 9%N
  else if is_empty_list (getports (s_ports c)) then 10%N
  else 0%N.

Definition server_ep_check (s : server_ep) : N :=
  if is_empty (se_ip s) && is_empty (se_domain s) then 38%N
  else if negb (is_empty (se_ip s)) && negb (se_ip_ok s) then 39%N
  else if is_empty_list (se_bindings s) then 40%N
  else if negb (flat_ok (se_bindings s)) then 41%N
  else 0%N.

Definition dialer_valid (d : option dialer_rec) : bool :=
  match d with
  | None => true
  | Some r => Z.eqb (dl_proto r) C20_Socks5ProxyProtocol && negb (is_empty (dl_host r)) &&
              zin C20_PortMin C20_PortMax (dl_port r) &&
              (negb (dl_has_auth r) || (negb (is_empty (dl_auth_user r)) && negb (is_empty (dl_auth_pw r))))
  end.

Definition empty_user : user := mkUser None None None [] [].
Definition puser (p : profile) : user := match p_user p with Some u => u | None => empty_user end.

(* appctlcommon.ValidateClientConfigSingleProfile *)
Definition validate_profile (p : profile) : N :=
  let u := puser p in
  if is_empty (pname p) then 31%N
  else if is_empty (uname u) then 32%N
  else if is_empty (getb (u_pw u)) && is_empty (getb (u_hpw u)) then 33%N
  else if Z.ltb C20_MaxUserNameLen (blen (uname u)) then 34%N
  else if negb (is_empty (getb (u_pw u))) && Z.ltb C20_MaxPasswordLen (blen (getb (u_pw u))) then 35%N
  else if negb (is_empty_list (u_quotas u)) then 36%N
  else if is_empty_list (p_servers p) then 37%N
  else let es := first_err server_ep_check (p_servers p) in
  if negb (N.eqb es 0) then es
  else if negb (mtu_valid (getz (p_mtu p))) then 42%N
  else if negb (tp_valid (p_tp p)) then 43%N
  else if negb (dialer_valid (p_dialer p)) then 44%N
  else 0%N.

Definition getauth (o : option (list auth_rec)) : list auth_rec := match o with Some l => l | None => [] end.

(* appctl.ValidateClientConfigPatch *)
Definition validate_client_patch (c : client_cfg) : N :=
  let ep := first_err validate_profile (c_profiles c) in
  if negb (N.eqb ep 0) then ep
  else if negb (forallb (fun a => negb (is_empty (au_user a)) && negb (is_empty (au_pw a))) (getauth (c_auth c))) then 51%N
  else if negb (interval_valid (c_adv c)) then 52%N
  else 0%N.

(* appctl.ValidateFullClientConfig *)
Definition validate_full_client (c : client_cfg) : N :=
  let e := validate_client_patch c in
  let rpc := getz (c_rpc c) in
  let s5 := getz (c_socks5 c) in
  if negb (N.eqb e 0) then e
  else if is_empty_list (c_profiles c) then 53%N
  else if is_empty (getb (c_active c)) then 54%N
  else if negb (existsb (fun p => bytes_eqb (pname p) (getb (c_active c))) (c_profiles c)) then 55%N
  else if negb (zin 0 C20_PortMax rpc) then 56%N
  else if negb (zin C20_PortMin C20_PortMax s5) then 57%N
  else if Z.eqb rpc s5 then 58%N
  else match c_http c with
       | None => 0%N
       | Some h => if negb (zin C20_PortMin C20_PortMax h) then 59%N
                   else if Z.eqb h rpc then 60%N
                   else if Z.eqb h s5 then 61%N
                   else 0%N
       end.

(* ---------------------------------------------------------------- share links *)

Inductive outcome (A : Type) : Type :=
| Ok (a : A)
| Err (stage : N)
| Panic.
Arguments Ok {A}. Arguments Err {A}. Arguments Panic {A}.

Definition s_mieru : bytes := [109; 105; 101; 114; 117]%N.                         (* "mieru" *)
Definition s_mierus : bytes := [109; 105; 101; 114; 117; 115]%N.                   (* "mierus" *)
Definition s_mieru_prefix : bytes := [109; 105; 101; 114; 117; 58; 47; 47]%N.      (* "mieru://" *)

(* what net/url.Parse answered *)
Record url_lib := mkUrl { ul_ok : bool; ul_scheme : bytes; ul_opaque : bytes }.

(* URLToClientConfig up to the base64 decoder, as of the pinned commit (no guard before s[8:]).
   Error stages: 1 url.Parse, 2 scheme, 3 opaque. *)
Definition link_guard_v0 (s : bytes) (u : url_lib) : outcome bytes :=
  if negb (ul_ok u) then Err 1
  else if negb (bytes_eqb (ul_scheme u) s_mieru) then Err 2
  else if negb (is_empty (ul_opaque u)) then Err 3
  else match go_slice_from 8 s with
       | None => Panic
       | Some p => Ok p
       end.

(* URLToClientConfig with fixes/C20-short-link-slice.diff applied: stage 4 = "does not begin with mieru://" *)
Definition link_guard (s : bytes) (u : url_lib) : outcome bytes :=
  if negb (ul_ok u) then Err 1
  else if negb (bytes_eqb (ul_scheme u) s_mieru) then Err 2
  else if negb (is_empty (ul_opaque u)) then Err 3
  else if negb (has_prefix s_mieru_prefix s) then Err 4
  else match go_slice_from 8 s with
       | None => Panic
       | Some p => Ok p
       end.

(* ---- mierus:// (URLToClientProfile) *)

(* strings.Split(s, "-") *)
Fixpoint split_dash_aux (s cur : bytes) : list bytes :=
  match s with
  | [] => [rev cur]
  | b :: t => if N.eqb b 45 then rev cur :: split_dash_aux t [] else split_dash_aux t (b :: cur)
  end.
Definition split_dash (s : bytes) : list bytes := split_dash_aux s [].

Inductive url_port :=
| UPort (p : Z)
| URange (a b : Z).

(* one "port" query value.  Error stages 14..20 in the order of the source. *)
Definition parse_url_port (s : bytes) : url_port + N :=
  match atoi s with
  | Some n => if port_ok n then inl (UPort n) else inr 20%N
  | None =>
      match split_dash s with
      | [x; y] =>
          match atoi x with
          | None => inr 15%N
          | Some a =>
              match atoi y with
              | None => inr 16%N
              | Some b =>
                  if negb (port_ok a) then inr 17%N
                  else if negb (port_ok b) then inr 18%N
                  else if Z.ltb b a then inr 19%N
                  else inl (URange a b)
              end
          end
      | _ => inr 14%N
      end
  end.

(* for idx, port := range portList { ... protocolList[idx] ... } *)
Fixpoint parse_url_ports (idx : nat) (ports : list bytes) (protos : list Z) (acc : list (url_port * Z))
  : outcome (list (url_port * Z)) :=
  match ports with
  | [] => Ok (rev acc)
  | p :: t =>
      match parse_url_port p with
      | inr e => Err e
      | inl up =>
          match nth_error protos idx with
          | None => Panic                       (* index out of range *)
          | Some pv => parse_url_ports (S idx) t protos ((up, pv) :: acc)
          end
      end
  end.

(* answers of net/url (Parse, User, Hostname, ParseQuery, Get), net.ParseIP, the generated enum-name
   tables and base64+proto.Unmarshal of the traffic pattern *)
Record surl_lib := mkSurl {
  su_url : url_lib;
  su_has_user : bool; su_user : bytes; su_pw : bytes;
  su_host : bytes; su_host_is_ip : bool;
  su_query_ok : bool;
  su_profile : bytes;
  su_mtu : bytes;
  su_mux : bytes; su_mux_val : Z;
  su_hs : bytes; su_hs_val : Z;
  su_tp : bytes; su_tp_status : N;              (* 0 decodes, 1 base64 error, 2 protobuf error *)
  su_ports : list bytes;
  su_protos : list Z }.                          (* TransportProtocol_value[...] of each "protocol" value *)

Record sprofile := mkSprofile {
  sp_name : bytes; sp_user : bytes; sp_pw : bytes;
  sp_ip : option bytes; sp_domain : option bytes;
  sp_mtu : option Z; sp_mux : option Z; sp_hs : option Z; sp_tp : bool;
  sp_bindings : list (url_port * Z) }.

(* URLToClientProfile.  Error stages: 1 url.Parse, 2 scheme, 3 opaque, 4 no user info, 5 no user name,
   6 no password, 7 no host, 8 query, 9 no profile name, 10 MTU, 11 traffic pattern base64,
   12 traffic pattern protobuf, 13 #port <> #protocol, 14..20 see parse_url_port. *)
Definition simple_link (u : surl_lib) : outcome sprofile :=
  if negb (ul_ok (su_url u)) then Err 1
  else if negb (bytes_eqb (ul_scheme (su_url u)) s_mierus) then Err 2
  else if negb (is_empty (ul_opaque (su_url u))) then Err 3
  else if negb (su_has_user u) then Err 4
  else if is_empty (su_user u) then Err 5
  else if is_empty (su_pw u) then Err 6
  else if is_empty (su_host u) then Err 7
  else if negb (su_query_ok u) then Err 8
  else if is_empty (su_profile u) then Err 9
  else
    match (if is_empty (su_mtu u) then Some None
           else match atoi (su_mtu u) with Some m => Some (Some (to_int32 m)) | None => None end) with
    | None => Err 10
    | Some mtu =>
        if negb (is_empty (su_tp u)) && N.eqb (su_tp_status u) 1 then Err 11
        else if negb (is_empty (su_tp u)) && negb (N.eqb (su_tp_status u) 0) then Err 12
        else if negb (Nat.eqb (length (su_ports u)) (length (su_protos u))) then Err 13
        else match parse_url_ports 0 (su_ports u) (su_protos u) [] with
             | Panic => Panic
             | Err e => Err e
             | Ok bs =>
                 Ok (mkSprofile (su_profile u) (su_user u) (su_pw u)
                       (if su_host_is_ip u then Some (su_host u) else None)
                       (if su_host_is_ip u then None else Some (su_host u))
                       mtu
                       (if is_empty (su_mux u) then None else Some (su_mux_val u))
                       (if is_empty (su_hs u) then None else Some (su_hs_val u))
                       (negb (is_empty (su_tp u)))
                       bs)
             end
    end.

(* ---------------------------------------------------------------- mierus:// export (ClientProfileToMultiURLs)
   The exporter's own decisions for one server of a profile: which host text, which query values.  What the
   URL library does with them (escaping, base64, decimal printing, enum names) is outside the model. *)

Record link_fields := mkLF {
  lf_user : bytes; lf_pw : bytes;
  lf_host : bytes; lf_host_is_ip : bool;
  lf_profile : bytes;
  lf_mtu : option Z; lf_mux : option Z; lf_hs : option Z;
  lf_tp : option bytes;                       (* the traffic pattern's encoding, when the pattern is not nil *)
  lf_ports : list (bytes + Z);                (* range text, or port number to be printed in decimal *)
  lf_protos : list Z }.

(* as of the pinned commit: the range text whenever there is one *)
Definition export_port_v0 (b : port_binding) : bytes + Z :=
  if negb (is_empty (getb (pb_range b))) then inl (getb (pb_range b)) else inr (getz (pb_port b)).
(* with the fix "share link export uses the port of a binding that has both a port and a port range":
   the same choice as FlatPortBindings *)
Definition export_port (b : port_binding) : bytes + Z :=
  if negb (Z.eqb (getz (pb_port b)) 0) then inr (getz (pb_port b)) else inl (getb (pb_range b)).

(* None = an error is returned *)
Definition export_server_with (ep : port_binding -> bytes + Z) (p : profile) (s : server_ep) : option link_fields :=
  let u := puser p in
  if is_empty (pname p) || is_empty (uname u) || is_empty (getb (u_pw u)) then None
  else match (if negb (is_empty (se_domain s)) then Some (se_domain s, se_domain_is_ip s)
              else if negb (is_empty (se_ip s)) then Some (se_ip s, se_ip_ok s)
              else None) with
       | None => None
       | Some (host, isip) =>
           if is_empty_list (se_bindings s) then None
           else Some (mkLF (uname u) (getb (u_pw u)) host isip (pname p) (p_mtu p) (p_mux p) (p_hs p)
                           (match p_tp p with Some t => Some (tp_raw t) | None => None end)
                           (map ep (se_bindings s))
                           (map (fun b => getz (pb_proto b)) (se_bindings s)))
       end.

Definition export_server := export_server_with export_port.
Definition export_server_v0 := export_server_with export_port_v0.

(* what the importer's library calls answer on the exported link, provided the library steps are faithful
   (url.String then url.Parse returns the same user, password, host and query values in order; base64 and
   protobuf decode what they encoded; the enum-name tables invert each other): [itoa], [b64], [mux_name],
   [hs_name] stand for strconv.Itoa, base64 of the encoding, and Enum.String() *)
Definition link_as_parsed (itoa : Z -> bytes) (b64 : bytes -> bytes) (mux_name hs_name : Z -> bytes)
    (f : link_fields) : surl_lib :=
  mkSurl (mkUrl true s_mierus []) true (lf_user f) (lf_pw f) (lf_host f) (lf_host_is_ip f) true
         (lf_profile f)
         (match lf_mtu f with Some m => itoa m | None => [] end)
         (match lf_mux f with Some v => mux_name v | None => [] end) (getz (lf_mux f))
         (match lf_hs f with Some v => hs_name v | None => [] end) (getz (lf_hs f))
         (match lf_tp f with Some raw => b64 raw | None => [] end) 0%N
         (map (fun x => match x with inl r => r | inr n => itoa n end) (lf_ports f))
         (lf_protos f).

(* the part of a profile a mierus:// link carries, in the importer's vocabulary *)
Definition binding_view (b : port_binding) : url_port * Z :=
  (match export_port b with
   | inl r => match parse_port_range r with Some (a, z) => URange a z | None => UPort 0%Z end
   | inr n => UPort n
   end, getz (pb_proto b)).

Definition simple_view (p : profile) (s : server_ep) (f : link_fields) : sprofile :=
  mkSprofile (pname p) (uname (puser p)) (getb (u_pw (puser p)))
             (if lf_host_is_ip f then Some (lf_host f) else None)
             (if lf_host_is_ip f then None else Some (lf_host f))
             (p_mtu p) (p_mux p) (p_hs p)
             (match p_tp p with Some t => negb (is_empty (tp_raw t)) | None => false end)
             (map binding_view (se_bindings s)).

(* ---------------------------------------------------------------- operation histories on the server file
   One process, one configuration file.  The state is what the file holds (None = no file).  Every entry point
   that reads the configuration reads the file (LoadServerConfig); every one that changes it goes through
   StoreServerConfig.  Nothing else is remembered between operations: a cache that could answer something
   different from the file is a divergence from this model. *)

Inductive sop :=
| OpApply (patch : server_cfg)        (* ApplyJSONServerConfig of well-formed JSON *)
| OpApplyMalformed                    (* ApplyJSONServerConfig of text protojson rejects *)
| OpLoad                              (* LoadServerConfig *)
| OpGetJSON                           (* GetJSONServerConfig *)
| OpStore (c : server_cfg)            (* StoreServerConfig (also the SetConfig RPC) *)
| OpDelete (names : list bytes).      (* DeleteServerUsers *)

Inductive sout :=
| Accepted (obs : option server_cfg)  (* what was returned (reads) or written (writes) *)
| Rejected (code : N).                (* an error was returned; 100 malformed, 101 no file, else validator code *)

Definition is_rejected (o : sout) : bool := match o with Rejected _ => true | Accepted _ => false end.

Definition delete_users (names : list bytes) (us : list user) : list user :=
  filter (fun u => negb (mem_bytes (uname u) names)) us.

Definition with_users (c : server_cfg) (us : list user) : server_cfg :=
  mkServer (s_ports c) us (s_adv c) (s_log c) (s_mtu c) (s_egress c) (s_dns c) (s_tp c).

Definition step (H : bytes -> bytes) (s : option server_cfg) (o : sop) : option server_cfg * sout :=
  match o with
  | OpApplyMalformed => (s, Rejected 100)
  | OpApply p =>
      let e := validate_server_patch p in
      if negb (N.eqb e 0) then (s, Rejected e)
      else match s with
           | None => (s, Rejected 101)
           | Some old =>
               let m := merge_server old p in
               let e2 := validate_full_server m in
               if negb (N.eqb e2 0) then (s, Rejected e2)
               else let w := store_server H m in (Some w, Accepted (Some w))
           end
  | OpLoad | OpGetJSON =>
      (s, match s with Some c => Accepted (Some c) | None => Rejected 101 end)
  | OpStore c => let w := store_server H c in (Some w, Accepted (Some w))
  | OpDelete names =>
      match s with
      | None => (s, Rejected 101)
      | Some old => let w := store_server H (with_users old (delete_users names (s_users old))) in
                    (Some w, Accepted (Some w))
      end
  end.

(* final state and the outputs of a whole history *)
Fixpoint run_outs (H : bytes -> bytes) (s : option server_cfg) (h : list sop) : option server_cfg * list sout :=
  match h with
  | [] => (s, [])
  | o :: t => let '(s1, x) := step H s o in
              let '(sf, xs) := run_outs H s1 t in (sf, x :: xs)
  end.

(* ---------------------------------------------------------------- first use of a user name downstream
   cipher.addUserHintToNonce / cipher.CheckUserFromHint: the name and the nonce prefix are copied into a
   [MaxUserNameLen + NoncePrefixLenForUserHint]byte array; a name longer than MaxUserNameLen BYTES panics
   (CheckUserFromHint also panics on the empty name). *)
Definition hint_input (name prefix : bytes) : outcome bytes :=
  if Z.eqb (blen name) 0 then Panic
  else if Z.ltb C20_MaxUserNameLen (blen name) then Panic
  else Ok (firstn (Z.to_nat (C20_MaxUserNameLen + NoncePrefixLenForUserHint)) (name ++ prefix)).

(* toy instance of H for the executable runner: tag 256 (not a byte) in front of the pre-image *)
Definition toy_hash (x : bytes) : bytes := 256%N :: x.
Definition store_server_toy := store_server toy_hash.
Definition store_client_toy := store_client toy_hash.
Definition step_toy := step toy_hash.
