(* Model of pkg/replay/replay.go (ReplayCache, NewCache, IsDuplicate).
   Time is an explicit argument (unix nanoseconds, Z): every time.Now()/time.Since of one
   IsDuplicate call is the same instant [now] (the call holds the mutex; under Go's faketime
   runtime the clock does not move during a call).
   A signature is the FNV-64a hash of the presented bytes, modelled as the number itself (N);
   a tag is a Go string, i.e. a list of bytes; EmptyTag = [].
   The two generations are Go maps uint64 -> string, modelled as association lists with
   first-match lookup; IsDuplicate only ever adds a key that is absent, so keys stay unique.

   [is_duplicate] describes the code WITH the fix fixes/C06-replay-tag-overwrite.diff
   (a signature found only in [previous] is carried into [current] with the tag it already
   had).  [is_duplicate_v0] is the function as found at the pinned commit (the carried entry
   got the tag of the present caller), kept for the refutation witness.
   Definitions only: no proofs here. *)
From Coq Require Import ZArith NArith List Bool.
Import ListNotations.
Open Scope Z_scope.

Definition tag := list N.

Fixpoint tag_eqb (a b : tag) : bool :=
  match a, b with
  | [], [] => true
  | x :: a', y :: b' => N.eqb x y && tag_eqb a' b'
  | _, _ => false
  end.

Definition tag_empty (a : tag) : bool := match a with [] => true | _ => false end.

(* the tag rule of IsDuplicate: an entry with tag [existing] is hit by a presentation with tag [t]
     if existingTag == EmptyTag || tag == EmptyTag { return true }; return existingTag != tag *)
Definition tag_rule (existing t : tag) : bool :=
  if tag_empty existing || tag_empty t then true else negb (tag_eqb existing t).

Definition gen := list (N * tag).

Fixpoint lookup (s : N) (g : gen) : option tag :=
  match g with
  | [] => None
  | (k, v) :: g' => if N.eqb k s then Some v else lookup s g'
  end.

Record cache := mkCache {
  cap : Z;            (* capacity *)
  interval : Z;       (* expireInterval, ns *)
  expire : Z;         (* expireTime, unix ns *)
  cur : gen;          (* current *)
  prev : gen          (* previous *)
}.

(* NewCache: None stands for the two panics *)
Definition new_cache (capacity ival now : Z) : option cache :=
  if capacity <? 0 then None
  else if ival <=? 0 then None
  else Some (mkCache capacity ival (now + ival) [] []).

(* the two housekeeping tests at the head of IsDuplicate *)
Definition expire_both (c : cache) (now : Z) : cache :=
  if now - expire c >? interval c
  then mkCache (cap c) (interval c) (now + interval c) [] []
  else c.

Definition rotate (c : cache) (now : Z) : cache :=
  if (Z.of_nat (length (cur c)) >=? cap c) || (now >? expire c)
  then mkCache (cap c) (interval c) (now + interval c) [] (cur c)
  else c.

Definition with_cur (c : cache) (g : gen) : cache :=
  mkCache (cap c) (interval c) (expire c) g (prev c).

(* IsDuplicate(data, tag) at instant now; returns (result, state after) *)
Definition is_duplicate (c : cache) (s : N) (t : tag) (now : Z) : bool * cache :=
  if cap c =? 0 then (false, c) else
  let c2 := rotate (expire_both c now) now in
  match lookup s (cur c2) with
  | Some e => (tag_rule e t, c2)
  | None =>
    match lookup s (prev c2) with
    | Some e => (tag_rule e t, with_cur c2 ((s, e) :: cur c2))
    | None => (false, with_cur c2 ((s, t) :: cur c2))
    end
  end.

(* the function at the pinned commit: the entry carried from [previous] gets the caller's tag *)
Definition is_duplicate_v0 (c : cache) (s : N) (t : tag) (now : Z) : bool * cache :=
  if cap c =? 0 then (false, c) else
  let c2 := rotate (expire_both c now) now in
  match lookup s (cur c2) with
  | Some e => (tag_rule e t, c2)
  | None =>
    let c3 := with_cur c2 ((s, t) :: cur c2) in
    match lookup s (prev c2) with
    | Some e => (tag_rule e t, c3)
    | None => (false, c3)
    end
  end.

(* histories: (signature, tag, instant) *)
Definition op := (N * tag * Z)%type.
Definition op_sig (o : op) : N := fst (fst o).
Definition op_tag (o : op) : tag := snd (fst o).
Definition op_time (o : op) : Z := snd o.

Definition step (c : cache) (o : op) : bool * cache :=
  is_duplicate c (op_sig o) (op_tag o) (op_time o).

Fixpoint final (c : cache) (h : list op) : cache :=
  match h with
  | [] => c
  | o :: h' => final (snd (step c o)) h'
  end.

Fixpoint outs (c : cache) (h : list op) : list bool :=
  match h with
  | [] => []
  | o :: h' => fst (step c o) :: outs (snd (step c o)) h'
  end.

Definition step_v0 (c : cache) (o : op) : bool * cache :=
  is_duplicate_v0 c (op_sig o) (op_tag o) (op_time o).

Fixpoint outs_v0 (c : cache) (h : list op) : list bool :=
  match h with
  | [] => []
  | o :: h' => fst (step_v0 c o) :: outs_v0 (snd (step_v0 c o)) h'
  end.

(* Sizes() *)
Definition sizes (c : cache) : Z * Z := (Z.of_nat (length (cur c)), Z.of_nat (length (prev c))).

(* ---- the server around the cache: management reloads ----
   pkg/protocol/mux.go: Mux.SetServerUsers (the body of the management Reload RPC of pkg/appctl/server.go,
   "Adjust users") swaps in a new generation of the user table and does nothing else: the two process-wide
   replay caches are package variables that it does not touch.  The server state, as far as replays are
   concerned, is the pair (users generation, replay cache); a generation is an opaque number here (which
   users, passwords and quotas it stands for is the subject of model/ServerFront.v's [cands]). *)
Record server := mkServer { s_users : N; s_rc : cache }.

Definition set_users (s : server) (g : N) : server := mkServer g (s_rc s).

Inductive sop :=
| Present (o : op)        (* traffic: IsDuplicate(signature, tag) at an instant *)
| Reload (g : N).         (* management: SetServerUsers with generation g *)

(* None = no answer (a reload); Some b = IsDuplicate's answer *)
Definition sstep (s : server) (e : sop) : option bool * server :=
  match e with
  | Present o => let (b, c) := step (s_rc s) o in (Some b, mkServer (s_users s) c)
  | Reload g => (None, set_users s g)
  end.

Fixpoint sfinal (s : server) (h : list sop) : server :=
  match h with
  | [] => s
  | e :: h' => sfinal (snd (sstep s e)) h'
  end.

(* the traffic of a history, reloads dropped *)
Fixpoint presents (h : list sop) : list op :=
  match h with
  | [] => []
  | Present o :: h' => o :: presents h'
  | Reload _ :: h' => presents h'
  end.
