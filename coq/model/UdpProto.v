(* UdpProto — model of mieru's UDP session layer (pkg/protocol/session.go, packet transport) for
   properties C02 (reliable, ordered, exactly-once; progress) and C13 (acks never ahead of receipt,
   retransmissions never change content, gapless sequence numbers).

   Part 1: an abstract labelled transition system of ONE direction of ONE session: the sender half lives at
           one endpoint, the receiver half at the other; the reverse direction is a second, independent instance.
           Acks of this direction travel in datagrams of the other one (pure acks or data), which is why the
           step [LSendAck] stands for "the receiving endpoint emits any datagram" (runOutputOncePacket and
           writeChunk stamp unAckSeq := nextRecv on acks, on new data and on every retransmission).
           The network is the SET of all datagrams ever sent; [LRecvData]/[LRecvAck] may fire for any member, any
           number of times, in any order: that single rule is loss + duplication + delay + reordering.
   Part 2: an EXECUTABLE acceptor over recorded traces of a real session (both directions, both endpoints).

   Which Go statements are one step: everything under oLock in runOutputOncePacket/writeChunk that stamps and
   outputs one segment is one step; inputData (ack processing, recvBuf insert, moveRecvBufToRecvQueue) is split
   into RecvAck / RecvData / Move steps, which only adds interleavings.
   Definitions only. *)
From Coq Require Import List NArith ZArith Bool Arith.
From M Require Import gen.Consts.
Import ListNotations.
Open Scope nat_scope.

Definition byte := N.
Definition bytes := list byte.

(* what a sequence number is bound to: segment type, fragment marker, payload *)
Record content := mkC { c_ty : N; c_frag : N; c_pay : bytes }.

Definition bytes_of (l : list content) : bytes := concat (map c_pay l).

(* ------------------------------------------------------------------------------------------------ *)
(* Part 1. The LTS.  Sequence numbers are positions in the history [assigned], hence [nat].          *)

Record st := mkSt {
  assigned : list content;        (* content of seq i, for every seq handed out so far (nextSend = length)   *)
  una : nat;                      (* sendBuf = [una, sent_hi)                                                 *)
  sent_hi : nat;                  (* sendQueue = [sent_hi, length assigned)                                   *)
  win : nat;                      (* oracle: min(cwnd - |sendBuf|, remoteWindowSize); any value               *)
  fwd : list (nat * content);     (* every data datagram ever sent                                            *)
  back : list (nat * nat);        (* every datagram of the reverse direction ever sent: (unAckSeq carried,
                                     ghost: number of in-order segments its emitter had when it was emitted)  *)
  next_recv : nat;                (* receiver: nextRecv                                                       *)
  rbuf : list (nat * content);    (* receiver: recvBuf                                                        *)
  got : list content;             (* receiver: everything ever moved to recvQueue, in order                   *)
  rd : nat;                       (* number of bytes the application has read                                 *)
  lost : nat                      (* ghost: transmissions of segment number next_recv since next_recv last advanced *)
}.

Inductive label :=
| LWrite (c : content)            (* Write/writeChunk (or open/close request/response): nextSend++            *)
| LSendNew (i : nat)              (* first transmission, sendQueue -> sendBuf (window limited)                 *)
| LRetx (i : nat)                 (* retransmission from sendBuf (NOT window limited)                          *)
| LRecvData (i : nat) (c : content) (* some copy of a datagram reaches inputData and is stored in recvBuf      *)
| LRecvIgnored                    (* a copy arrives and is dropped (window closed, recvBuf full)               *)
| LDropBuf (i : nat) (c : content)(* recvBuf entry discarded (old duplicate, replace-on-equal)                 *)
| LMove                           (* moveRecvBufToRecvQueue: the entry with exactly seq nextRecv               *)
| LSendAck (u : nat)              (* the receiving endpoint emits a datagram stamped unAckSeq := nextRecv; the
                                     atomic load may be overtaken by the input loop before WriteTo, so u <= nextRecv *)
| LRecvAck (u : nat)              (* inputAck / inputData: drop seq < unAckSeq from sendBuf                    *)
| LSetWin (w : nat)               (* congestion / remote window change (oracle)                                *)
| LAppRead (k : nat).             (* application Read returns k more bytes                                     *)

Definition bump (i nr l : nat) : nat := if Nat.eqb i nr then S l else l.

Inductive lstep : st -> label -> st -> Prop :=
| s_write : forall s c,
    lstep s (LWrite c)
      (mkSt (assigned s ++ [c]) (una s) (sent_hi s) (win s) (fwd s) (back s) (next_recv s) (rbuf s) (got s) (rd s) (lost s))
| s_sendnew : forall s c,
    nth_error (assigned s) (sent_hi s) = Some c -> 0 < win s ->
    lstep s (LSendNew (sent_hi s))
      (mkSt (assigned s) (una s) (S (sent_hi s)) (win s) ((sent_hi s, c) :: fwd s) (back s) (next_recv s) (rbuf s) (got s) (rd s)
            (bump (sent_hi s) (next_recv s) (lost s)))
| s_retx : forall s i c,
    una s <= i -> i < sent_hi s -> nth_error (assigned s) i = Some c ->
    lstep s (LRetx i)
      (mkSt (assigned s) (una s) (sent_hi s) (win s) ((i, c) :: fwd s) (back s) (next_recv s) (rbuf s) (got s) (rd s)
            (bump i (next_recv s) (lost s)))
| s_recvdata : forall s i c,
    In (i, c) (fwd s) ->
    lstep s (LRecvData i c)
      (mkSt (assigned s) (una s) (sent_hi s) (win s) (fwd s) (back s) (next_recv s) ((i, c) :: rbuf s) (got s) (rd s) (lost s))
| s_recvignored : forall s, lstep s LRecvIgnored s
| s_dropbuf : forall s i c l1 l2,
    rbuf s = l1 ++ (i, c) :: l2 ->
    lstep s (LDropBuf i c)
      (mkSt (assigned s) (una s) (sent_hi s) (win s) (fwd s) (back s) (next_recv s) (l1 ++ l2) (got s) (rd s) (lost s))
| s_move : forall s c,
    In (next_recv s, c) (rbuf s) ->
    lstep s LMove
      (mkSt (assigned s) (una s) (sent_hi s) (win s) (fwd s) (back s) (S (next_recv s)) (rbuf s) (got s ++ [c]) (rd s) 0)
| s_sendack : forall s u,
    u <= next_recv s ->
    lstep s (LSendAck u)
      (mkSt (assigned s) (una s) (sent_hi s) (win s) (fwd s) ((u, length (got s)) :: back s) (next_recv s) (rbuf s) (got s) (rd s) (lost s))
| s_recvack : forall s u g,
    In (u, g) (back s) ->
    lstep s (LRecvAck u)
      (mkSt (assigned s) (Nat.max (una s) (Nat.min u (sent_hi s))) (sent_hi s) (win s) (fwd s) (back s) (next_recv s) (rbuf s) (got s) (rd s) (lost s))
| s_setwin : forall s w,
    lstep s (LSetWin w)
      (mkSt (assigned s) (una s) (sent_hi s) w (fwd s) (back s) (next_recv s) (rbuf s) (got s) (rd s) (lost s))
| s_appread : forall s k,
    rd s + k <= length (bytes_of (got s)) ->
    lstep s (LAppRead k)
      (mkSt (assigned s) (una s) (sent_hi s) (win s) (fwd s) (back s) (next_recv s) (rbuf s) (got s) (rd s + k) (lost s)).

Definition init (w : nat) : st := mkSt [] 0 0 w [] [] 0 [] [] 0 0.

Inductive reach : st -> Prop :=
| reach_init : forall w, reach (init w)
| reach_step : forall s l s', reach s -> lstep s l s' -> reach s'.

Inductive run : st -> list label -> st -> Prop :=
| run_nil : forall s, run s [] s
| run_cons : forall s l s1 ls s2, lstep s l s1 -> run s1 ls s2 -> run s (l :: ls) s2.

(* the bytes the application has read so far *)
Definition read_bytes (s : st) : bytes := firstn (rd s) (bytes_of (got s)).
(* the bytes the peer application has written so far *)
Definition written_bytes (s : st) : bytes := bytes_of (assigned s).

(* 1 if the step transmits the segment the receiver is waiting for *)
Definition is_awaited (s : st) (l : label) : nat :=
  match l with LSendNew i | LRetx i => if Nat.eqb i (next_recv s) then 1 else 0 | _ => 0 end.

(* fairness: along the run, fewer than K consecutive transmissions of the segment the receiver is waiting
   for go by without the receiver advancing (they are not all lost); the ghost field [lost] counts exactly
   those.  [fair_run K s T s']: a K-fair run from s to s' containing T transmissions of awaited segments. *)
Inductive fair_run (K : nat) : st -> nat -> st -> Prop :=
| fr_nil : forall s, lost s < K -> fair_run K s 0 s
| fr_cons : forall s l s1 t s2, lost s < K -> lstep s l s1 -> fair_run K s1 t s2 -> fair_run K s (is_awaited s l + t) s2.

Definition txCountLimit : nat := Z.to_nat C02_txCountLimit.

(* ------------------------------------------------------------------------------------------------ *)
(* Part 2. Executable acceptor over recorded traces.  Side: false = client endpoint, true = server.  *)

Record dg := mkDg { g_ty : N; g_seq : N; g_unack : N; g_win : N; g_frag : N; g_pay : bytes }.

Inductive event :=
| EW (X : bool) (b : bytes)          (* application Write called on endpoint X with b                          *)
| ES (X : bool) (g : dg)             (* endpoint X emitted datagram g (decoded)                                *)
| ER (X : bool) (k : N)              (* endpoint X's ReadFrom returned the k-th datagram the other side emitted *)
| EA (X : bool) (b : bytes)          (* application Read on endpoint X returned b                              *)
| EF.                                (* the driver claims: transfer complete in both directions                *)

Definition tyN (z : Z) : N := Z.to_N z.
Definition seq_types (X : bool) : list N :=
  if X then [tyN C02_ProtoOpenSessionResponse; tyN C02_ProtoCloseSessionRequest; tyN C02_ProtoCloseSessionResponse;
             tyN C02_ProtoDataServerToClient; tyN C02_ProtoDataServerToClientLE]
  else [tyN C02_ProtoOpenSessionRequest; tyN C02_ProtoCloseSessionRequest; tyN C02_ProtoCloseSessionResponse;
        tyN C02_ProtoDataClientToServer; tyN C02_ProtoDataClientToServerLE].
Definition ack_type (X : bool) : N := if X then tyN C02_ProtoAckServerToClient else tyN C02_ProtoAckClientToServer.
(* sequenced segment (consumes a sequence number, is retransmitted) / pure ack, as emitted by endpoint X *)
Definition is_seq (X : bool) (ty : N) : bool := existsb (N.eqb ty) (seq_types X).
Definition is_ack (X : bool) (ty : N) : bool := N.eqb ty (ack_type X).

Definition cont (g : dg) : content := mkC (g_ty g) (g_frag g) (g_pay g).

Fixpoint bytes_eqb (a b : bytes) : bool :=
  match a, b with
  | [], [] => true
  | x :: a', y :: b' => N.eqb x y && bytes_eqb a' b'
  | _, _ => false
  end.
Definition content_eqb (a b : content) : bool :=
  N.eqb (c_ty a) (c_ty b) && N.eqb (c_frag a) (c_frag b) && bytes_eqb (c_pay a) (c_pay b).

(* remove the common prefix of p and c: inl (rest of p) when c is exhausted, inr (rest of c) when p is *)
Fixpoint strip1 (p c : bytes) : option (bytes + bytes) :=
  match p, c with
  | [], _ => Some (inr c)
  | _, [] => Some (inl p)
  | x :: p', y :: c' => if N.eqb x y then strip1 p' c' else None
  end.
(* remove p from the front of the byte stream held as a list of chunks *)
Fixpoint strip (p : bytes) (cs : list bytes) : option (list bytes) :=
  match cs with
  | [] => match p with [] => Some [] | _ => None end
  | c :: cs' => match strip1 p c with
                | None => None
                | Some (inr []) => Some cs'
                | Some (inr rc) => Some (rc :: cs')
                | Some (inl rp) => strip rp cs'
                end
  end.
Definition all_nil (l : list bytes) : bool := forallb (fun c => match c with [] => true | _ => false end) l.

(* one endpoint: its sender half (pend, asg, emit) and its receiver half (nr, rbuf, avail) *)
Record ep := mkEp {
  e_pend : list bytes;            (* bytes handed to Write, not yet seen in a first transmission (chunks)       *)
  e_asg : list content;           (* content of seq 0,1,2,... as first transmitted                              *)
  e_emit : list dg;               (* every datagram this endpoint emitted, in order                             *)
  e_nr : nat;                     (* most optimistic nextRecv: in-order segments among the datagrams DELIVERED  *)
  e_rbuf : list (nat * content);  (* delivered segments with seq > e_nr                                         *)
  e_avail : list bytes            (* released in order, not yet returned by Read (chunks)                       *)
}.
Record ast := mkA { a_c : ep; a_s : ep }.
Definition getE (X : bool) (a : ast) : ep := if X then a_s a else a_c a.
Definition setE (X : bool) (e : ep) (a : ast) : ast := if X then mkA (a_c a) e else mkA e (a_s a).
Definition ep0 : ep := mkEp [] [] [] 0 [] [].
Definition a0 : ast := mkA ep0 ep0.

Inductive res := Acc (a : ast) | Rej (code : N).
(* rejection codes *)
Definition rj_type : N := 1%N.       (* segment type not one this endpoint may emit                                 *)
Definition rj_ack : N := 2%N.        (* unAckSeq ahead of what has been delivered in order to the emitter           *)
Definition rj_payload : N := 3%N.    (* payload of a new seq is not the next written bytes                          *)
Definition rj_retx : N := 4%N.       (* a repeated seq differs in type, fragment or payload                         *)
Definition rj_gap : N := 5%N.        (* a new seq is not the next one                                               *)
Definition rj_recv : N := 6%N.       (* receipt of a datagram that was not emitted                                  *)
Definition rj_read : N := 7%N.       (* Read returned bytes that are not the next in-order released bytes           *)
Definition rj_fin : N := 8%N.        (* completion claimed but something is still outstanding                       *)

Fixpoint take (n : nat) (l : list (nat * content)) : option (content * list (nat * content)) :=
  match l with
  | [] => None
  | (i, c) :: l' =>
      if Nat.eqb i n then Some (c, l')
      else match take n l' with Some (c', r) => Some (c', (i, c) :: r) | None => None end
  end.
Definition has (n : nat) (l : list (nat * content)) : bool := existsb (fun ic => Nat.eqb (fst ic) n) l.

(* moveRecvBufToRecvQueue: release entries numbered nr, nr+1, ... while present *)
Fixpoint drain (fuel nr : nat) (rb : list (nat * content)) : nat * list (nat * content) * list bytes :=
  match fuel with
  | O => (nr, rb, [])
  | S f => match take nr rb with
           | Some (c, rb') => let '(nr', rb'', rel) := drain f (S nr) rb' in (nr', rb'', c_pay c :: rel)
           | None => (nr, rb, [])
           end
  end.

Definition acc_step (a : ast) (e : event) : res :=
  match e with
  | EW X b =>
      let x := getE X a in
      Acc (setE X (mkEp (e_pend x ++ [b]) (e_asg x) (e_emit x) (e_nr x) (e_rbuf x) (e_avail x)) a)
  | ES X g =>
      let x := getE X a in
      if negb (N.leb (g_unack g) (N.of_nat (e_nr x))) then Rej rj_ack
      else if is_seq X (g_ty g) then
        let n := N.of_nat (length (e_asg x)) in
        if N.eqb (g_seq g) n then
          match strip (g_pay g) (e_pend x) with
          | Some pend' => Acc (setE X (mkEp pend' (e_asg x ++ [cont g]) (e_emit x ++ [g]) (e_nr x) (e_rbuf x) (e_avail x)) a)
          | None => Rej rj_payload
          end
        else if N.ltb (g_seq g) n then
          match nth_error (e_asg x) (N.to_nat (g_seq g)) with
          | Some c => if content_eqb c (cont g)
                      then Acc (setE X (mkEp (e_pend x) (e_asg x) (e_emit x ++ [g]) (e_nr x) (e_rbuf x) (e_avail x)) a)
                      else Rej rj_retx
          | None => Rej rj_retx
          end
        else Rej rj_gap
      else if is_ack X (g_ty g) then
        Acc (setE X (mkEp (e_pend x) (e_asg x) (e_emit x ++ [g]) (e_nr x) (e_rbuf x) (e_avail x)) a)
      else Rej rj_type
  | ER X k =>
      let x := getE X a in
      let y := getE (negb X) a in
      if N.ltb k (N.of_nat (length (e_emit y))) then
        match nth_error (e_emit y) (N.to_nat k) with
        | None => Rej rj_recv
        | Some g =>
            if is_seq (negb X) (g_ty g) then
              let i := N.to_nat (g_seq g) in
              if Nat.ltb i (e_nr x) || has i (e_rbuf x) then Acc a
              else
                let '(nr', rb', rel) := drain (S (S (length (e_rbuf x)))) (e_nr x) ((i, cont g) :: e_rbuf x) in
                Acc (setE X (mkEp (e_pend x) (e_asg x) (e_emit x) nr' rb' (e_avail x ++ rel)) a)
            else Acc a
        end
      else Rej rj_recv
  | EA X b =>
      let x := getE X a in
      match strip b (e_avail x) with
      | Some av' => Acc (setE X (mkEp (e_pend x) (e_asg x) (e_emit x) (e_nr x) (e_rbuf x) av') a)
      | None => Rej rj_read
      end
  | EF =>
      let ok X := let x := getE X a in let y := getE (negb X) a in
                  all_nil (e_pend x) && all_nil (e_avail x) && Nat.eqb (e_nr x) (length (e_asg y)) in
      if ok false && ok true then Acc a else Rej rj_fin
  end.

(* whole-trace acceptor: the final state, or the index and reason of the first rejected event *)
Fixpoint run_acc (a : ast) (tr : list event) (idx : N) : ast + (N * N) :=
  match tr with
  | [] => inl a
  | e :: t => match acc_step a e with
              | Acc a' => run_acc a' t (N.succ idx)
              | Rej c => inr (idx, c)
              end
  end.
Definition accept (tr : list event) : ast + (N * N) := run_acc a0 tr 0%N.
Definition accepts (tr : list event) : bool := match accept tr with inl _ => true | inr _ => false end.

(* ---- what the theorems say about a trace (defined on the trace alone, not on the acceptor state) ---- *)

Definition ev_written (X : bool) (e : event) : bytes :=
  match e with EW s b => if Bool.eqb s X then b else [] | _ => [] end.
Definition ev_read (X : bool) (e : event) : bytes :=
  match e with EA s b => if Bool.eqb s X then b else [] | _ => [] end.
Definition ev_emit (X : bool) (e : event) : list dg :=
  match e with ES s g => if Bool.eqb s X then [g] else [] | _ => [] end.
(* bytes handed to Write on X / bytes returned by Read on X / datagrams emitted by X, in trace order *)
Definition written (X : bool) (tr : list event) : bytes := concat (map (ev_written X) tr).
Definition readb (X : bool) (tr : list event) : bytes := concat (map (ev_read X) tr).
Definition emitted (X : bool) (tr : list event) : list dg := concat (map (ev_emit X) tr).

(* segment number i of the peer has been delivered to endpoint X within tr: some ReadFrom of X returned a
   datagram that the peer had emitted before and that carries sequenced segment i *)
Definition delivered (X : bool) (tr : list event) (i : nat) : Prop :=
  exists a k b g, tr = a ++ ER X k :: b /\ nth_error (emitted (negb X) a) (N.to_nat k) = Some g /\
                  is_seq (negb X) (g_ty g) = true /\ N.to_nat (g_seq g) = i.
(* endpoint X has transmitted sequenced segment number i within tr *)
Definition emitted_seq (X : bool) (tr : list event) (i : nat) : Prop :=
  exists g, In g (emitted X tr) /\ is_seq X (g_ty g) = true /\ N.to_nat (g_seq g) = i.
