(* UdpProto — model of mieru's UDP session layer (pkg/protocol/session.go, packet transport) for
   properties C02 (reliable, ordered, exactly-once; progress) and C13 (acks never ahead of receipt,
   retransmissions never change content, gapless sequence numbers).

   Part 1: an abstract labelled transition system of ONE direction of ONE session: the sender half lives at
           one endpoint, the receiver half at the other; the reverse direction is a second, independent instance.
           Acks of this direction travel in datagrams of the other one (pure acks or data), which is why the
           step [LSendAck] stands for "the receiving endpoint emits any datagram" (runOutputOncePacket and
           writeChunk stamp unAckSeq := nextRecv on acks, on new data and on every retransmission).
           The network is the SET of all datagrams ever sent; [LRecvData]/[LRecvAck] may fire for any member, any
           number of times, in any order: that single rule is loss + duplication + delay + reordering.
   Part 2: an EXECUTABLE acceptor over recorded traces of a real session (both directions, both endpoints).

   Which Go statements are one step: everything under oLock in runOutputOncePacket/writeChunk that stamps and
   outputs one segment is one step; inputData (ack processing, recvBuf insert, moveRecvBufToRecvQueue) is split
   into RecvAck / RecvData / Move steps, which only adds interleavings.
   Definitions only. *)
From Coq Require Import List NArith ZArith Bool Arith.
From M Require Import gen.Consts.
Import ListNotations.
Open Scope nat_scope.

Definition byte := N.
Definition bytes := list byte.

(* what a sequence number is bound to: segment type, fragment marker, payload *)
Record content := mkC { c_ty : N; c_frag : N; c_pay : bytes }.

Definition bytes_of (l : list content) : bytes := concat (map c_pay l).

(* ------------------------------------------------------------------------------------------------ *)
(* Part 1. The LTS.  Sequence numbers are positions in the history [assigned], hence [nat].          *)

Record st := mkSt {
  assigned : list content;        (* content of seq i, for every seq handed out so far (nextSend = length)   *)
  una : nat;                      (* sendBuf = [una, sent_hi)                                                 *)
  sent_hi : nat;                  (* sendQueue = [sent_hi, length assigned)                                   *)
  win : nat;                      (* oracle: min(cwnd - |sendBuf|, remoteWindowSize); any value               *)
  fwd : list (nat * content);     (* every data datagram ever sent                                            *)
  back : list (nat * nat);        (* every datagram of the reverse direction ever sent: (unAckSeq carried,
                                     ghost: number of in-order segments its emitter had when it was emitted)  *)
  next_recv : nat;                (* receiver: nextRecv                                                       *)
  rbuf : list (nat * content);    (* receiver: recvBuf                                                        *)
  got : list content;             (* receiver: everything ever moved to recvQueue, in order                   *)
  rd : nat;                       (* number of bytes the application has read                                 *)
  lost : nat                      (* ghost: transmissions of segment number next_recv since next_recv last advanced *)
}.

Inductive label :=
| LWrite (c : content)            (* Write/writeChunk (or open/close request/response): nextSend++            *)
| LSendNew (i : nat)              (* first transmission, sendQueue -> sendBuf (window limited)                 *)
| LRetx (i : nat)                 (* retransmission from sendBuf (NOT window limited)                          *)
| LRecvData (i : nat) (c : content) (* some copy of a datagram reaches inputData and is stored in recvBuf      *)
| LRecvIgnored                    (* a copy arrives and is dropped (window closed, recvBuf full)               *)
| LDropBuf (i : nat) (c : content)(* recvBuf entry discarded (old duplicate, replace-on-equal)                 *)
| LMove                           (* moveRecvBufToRecvQueue: the entry with exactly seq nextRecv               *)
| LSendAck (u : nat)              (* the receiving endpoint emits a datagram stamped unAckSeq := nextRecv; the
                                     atomic load may be overtaken by the input loop before WriteTo, so u <= nextRecv *)
| LRecvAck (u : nat)              (* inputAck / inputData: drop seq < unAckSeq from sendBuf                    *)
| LSetWin (w : nat)               (* congestion / remote window change (oracle)                                *)
| LAppRead (k : nat).             (* application Read returns k more bytes                                     *)

Definition bump (i nr l : nat) : nat := if Nat.eqb i nr then S l else l.

Inductive lstep : st -> label -> st -> Prop :=
| s_write : forall s c,
    lstep s (LWrite c)
      (mkSt (assigned s ++ [c]) (una s) (sent_hi s) (win s) (fwd s) (back s) (next_recv s) (rbuf s) (got s) (rd s) (lost s))
| s_sendnew : forall s c,
    nth_error (assigned s) (sent_hi s) = Some c -> 0 < win s ->
    lstep s (LSendNew (sent_hi s))
      (mkSt (assigned s) (una s) (S (sent_hi s)) (win s) ((sent_hi s, c) :: fwd s) (back s) (next_recv s) (rbuf s) (got s) (rd s)
            (bump (sent_hi s) (next_recv s) (lost s)))
| s_retx : forall s i c,
    una s <= i -> i < sent_hi s -> nth_error (assigned s) i = Some c ->
    lstep s (LRetx i)
      (mkSt (assigned s) (una s) (sent_hi s) (win s) ((i, c) :: fwd s) (back s) (next_recv s) (rbuf s) (got s) (rd s)
            (bump i (next_recv s) (lost s)))
| s_recvdata : forall s i c,
    In (i, c) (fwd s) ->
    lstep s (LRecvData i c)
      (mkSt (assigned s) (una s) (sent_hi s) (win s) (fwd s) (back s) (next_recv s) ((i, c) :: rbuf s) (got s) (rd s) (lost s))
| s_recvignored : forall s, lstep s LRecvIgnored s
| s_dropbuf : forall s i c l1 l2,
    rbuf s = l1 ++ (i, c) :: l2 ->
    lstep s (LDropBuf i c)
      (mkSt (assigned s) (una s) (sent_hi s) (win s) (fwd s) (back s) (next_recv s) (l1 ++ l2) (got s) (rd s) (lost s))
| s_move : forall s c,
    In (next_recv s, c) (rbuf s) ->
    lstep s LMove
      (mkSt (assigned s) (una s) (sent_hi s) (win s) (fwd s) (back s) (S (next_recv s)) (rbuf s) (got s ++ [c]) (rd s) 0)
| s_sendack : forall s u,
    u <= next_recv s ->
    lstep s (LSendAck u)
      (mkSt (assigned s) (una s) (sent_hi s) (win s) (fwd s) ((u, length (got s)) :: back s) (next_recv s) (rbuf s) (got s) (rd s) (lost s))
| s_recvack : forall s u g,
    In (u, g) (back s) ->
    lstep s (LRecvAck u)
      (mkSt (assigned s) (Nat.max (una s) (Nat.min u (sent_hi s))) (sent_hi s) (win s) (fwd s) (back s) (next_recv s) (rbuf s) (got s) (rd s) (lost s))
| s_setwin : forall s w,
    lstep s (LSetWin w)
      (mkSt (assigned s) (una s) (sent_hi s) w (fwd s) (back s) (next_recv s) (rbuf s) (got s) (rd s) (lost s))
| s_appread : forall s k,
    rd s + k <= length (bytes_of (got s)) ->
    lstep s (LAppRead k)
      (mkSt (assigned s) (una s) (sent_hi s) (win s) (fwd s) (back s) (next_recv s) (rbuf s) (got s) (rd s + k) (lost s)).

Definition init (w : nat) : st := mkSt [] 0 0 w [] [] 0 [] [] 0 0.

Inductive reach : st -> Prop :=
| reach_init : forall w, reach (init w)
| reach_step : forall s l s', reach s -> lstep s l s' -> reach s'.

Inductive run : st -> list label -> st -> Prop :=
| run_nil : forall s, run s [] s
| run_cons : forall s l s1 ls s2, lstep s l s1 -> run s1 ls s2 -> run s (l :: ls) s2.

(* the bytes the application has read so far *)
Definition read_bytes (s : st) : bytes := firstn (rd s) (bytes_of (got s)).
(* the bytes the peer application has written so far *)
Definition written_bytes (s : st) : bytes := bytes_of (assigned s).

(* 1 if the step transmits the segment the receiver is waiting for *)
Definition is_awaited (s : st) (l : label) : nat :=
  match l with LSendNew i | LRetx i => if Nat.eqb i (next_recv s) then 1 else 0 | _ => 0 end.

(* fairness: along the run, fewer than K consecutive transmissions of the segment the receiver is waiting
   for go by without the receiver advancing (they are not all lost); the ghost field [lost] counts exactly
   those.  [fair_run K s T s']: a K-fair run from s to s' containing T transmissions of awaited segments. *)
Inductive fair_run (K : nat) : st -> nat -> st -> Prop :=
| fr_nil : forall s, lost s < K -> fair_run K s 0 s
| fr_cons : forall s l s1 t s2, lost s < K -> lstep s l s1 -> fair_run K s1 t s2 -> fair_run K s (is_awaited s l + t) s2.

Definition txCountLimit : nat := Z.to_nat C02_txCountLimit.

(* ------------------------------------------------------------------------------------------------ *)
(* Part 2. Executable acceptor over recorded traces.  Side: false = client endpoint, true = server.  *)

Record dg := mkDg { g_ty : N; g_seq : N; g_unack : N; g_win : N; g_frag : N; g_pay : bytes }.

Inductive event :=
| EW (X : bool) (b : bytes)          (* application Write called on endpoint X with b                          *)
| ES (X : bool) (g : dg)             (* endpoint X emitted datagram g (decoded)                                *)
| ER (X : bool) (k : N)              (* endpoint X's ReadFrom returned the k-th datagram the other side emitted *)
| EA (X : bool) (b : bytes)          (* application Read on endpoint X returned b                              *)
| EF.                                (* the driver claims: transfer complete in both directions                *)

Definition tyN (z : Z) : N := Z.to_N z.
Definition seq_types (X : bool) : list N :=
  if X then [tyN C02_ProtoOpenSessionResponse; tyN C02_ProtoCloseSessionRequest; tyN C02_ProtoCloseSessionResponse;
             tyN C02_ProtoDataServerToClient; tyN C02_ProtoDataServerToClientLE]
  else [tyN C02_ProtoOpenSessionRequest; tyN C02_ProtoCloseSessionRequest; tyN C02_ProtoCloseSessionResponse;
        tyN C02_ProtoDataClientToServer; tyN C02_ProtoDataClientToServerLE].
Definition ack_type (X : bool) : N := if X then tyN C02_ProtoAckServerToClient else tyN C02_ProtoAckClientToServer.
(* sequenced segment (consumes a sequence number, is retransmitted) / pure ack, as emitted by endpoint X *)
Definition is_seq (X : bool) (ty : N) : bool := existsb (N.eqb ty) (seq_types X).
Definition is_ack (X : bool) (ty : N) : bool := N.eqb ty (ack_type X).

Definition cont (g : dg) : content := mkC (g_ty g) (g_frag g) (g_pay g).

Fixpoint bytes_eqb (a b : bytes) : bool :=
  match a, b with
  | [], [] => true
  | x :: a', y :: b' => N.eqb x y && bytes_eqb a' b'
  | _, _ => false
  end.
Definition content_eqb (a b : content) : bool :=
  N.eqb (c_ty a) (c_ty b) && N.eqb (c_frag a) (c_frag b) && bytes_eqb (c_pay a) (c_pay b).

(* remove the common prefix of p and c: inl (rest of p) when c is exhausted, inr (rest of c) when p is *)
Fixpoint strip1 (p c : bytes) : option (bytes + bytes) :=
  match p, c with
  | [], _ => Some (inr c)
  | _, [] => Some (inl p)
  | x :: p', y :: c' => if N.eqb x y then strip1 p' c' else None
  end.
(* remove p from the front of the byte stream held as a list of chunks *)
Fixpoint strip (p : bytes) (cs : list bytes) : option (list bytes) :=
  match cs with
  | [] => match p with [] => Some [] | _ => None end
  | c :: cs' => match strip1 p c with
                | None => None
                | Some (inr []) => Some cs'
                | Some (inr rc) => Some (rc :: cs')
                | Some (inl rp) => strip rp cs'
                end
  end.
Definition all_nil (l : list bytes) : bool := forallb (fun c => match c with [] => true | _ => false end) l.

(* one endpoint: its sender half (pend, asg, emit) and its receiver half (nr, rbuf, avail) *)
Record ep := mkEp {
  e_pend : list bytes;            (* bytes handed to Write, not yet seen in a first transmission (chunks)       *)
  e_asg : list content;           (* content of seq 0,1,2,... as first transmitted                              *)
  e_emit : list dg;               (* every datagram this endpoint emitted, in order                             *)
  e_nr : nat;                     (* most optimistic nextRecv: in-order segments among the datagrams DELIVERED  *)
  e_rbuf : list (nat * content);  (* delivered segments with seq > e_nr                                         *)
  e_avail : list bytes            (* released in order, not yet returned by Read (chunks)                       *)
}.
Record ast := mkA { a_c : ep; a_s : ep }.
Definition getE (X : bool) (a : ast) : ep := if X then a_s a else a_c a.
Definition setE (X : bool) (e : ep) (a : ast) : ast := if X then mkA (a_c a) e else mkA e (a_s a).
Definition ep0 : ep := mkEp [] [] [] 0 [] [].
Definition a0 : ast := mkA ep0 ep0.

Inductive res := Acc (a : ast) | Rej (code : N).
(* rejection codes *)
Definition rj_type : N := 1%N.       (* segment type not one this endpoint may emit                                 *)
Definition rj_ack : N := 2%N.        (* unAckSeq ahead of what has been delivered in order to the emitter           *)
Definition rj_payload : N := 3%N.    (* payload of a new seq is not the next written bytes                          *)
Definition rj_retx : N := 4%N.       (* a repeated seq differs in type, fragment or payload                         *)
Definition rj_gap : N := 5%N.        (* a new seq is not the next one                                               *)
Definition rj_recv : N := 6%N.       (* receipt of a datagram that was not emitted                                  *)
Definition rj_read : N := 7%N.       (* Read returned bytes that are not the next in-order released bytes           *)
Definition rj_fin : N := 8%N.        (* completion claimed but something is still outstanding                       *)

Fixpoint take (n : nat) (l : list (nat * content)) : option (content * list (nat * content)) :=
  match l with
  | [] => None
  | (i, c) :: l' =>
      if Nat.eqb i n then Some (c, l')
      else match take n l' with Some (c', r) => Some (c', (i, c) :: r) | None => None end
  end.
Definition has (n : nat) (l : list (nat * content)) : bool := existsb (fun ic => Nat.eqb (fst ic) n) l.

(* moveRecvBufToRecvQueue: release entries numbered nr, nr+1, ... while present *)
Fixpoint drain (fuel nr : nat) (rb : list (nat * content)) : nat * list (nat * content) * list bytes :=
  match fuel with
  | O => (nr, rb, [])
  | S f => match take nr rb with
           | Some (c, rb') => let '(nr', rb'', rel) := drain f (S nr) rb' in (nr', rb'', c_pay c :: rel)
           | None => (nr, rb, [])
           end
  end.

Definition acc_step (a : ast) (e : event) : res :=
  match e with
  | EW X b =>
      let x := getE X a in
      Acc (setE X (mkEp (e_pend x ++ [b]) (e_asg x) (e_emit x) (e_nr x) (e_rbuf x) (e_avail x)) a)
  | ES X g =>
      let x := getE X a in
      if negb (N.leb (g_unack g) (N.of_nat (e_nr x))) then Rej rj_ack
      else if is_seq X (g_ty g) then
        let n := N.of_nat (length (e_asg x)) in
        if N.eqb (g_seq g) n then
          match strip (g_pay g) (e_pend x) with
          | Some pend' => Acc (setE X (mkEp pend' (e_asg x ++ [cont g]) (e_emit x ++ [g]) (e_nr x) (e_rbuf x) (e_avail x)) a)
          | None => Rej rj_payload
          end
        else if N.ltb (g_seq g) n then
          match nth_error (e_asg x) (N.to_nat (g_seq g)) with
          | Some c => if content_eqb c (cont g)
                      then Acc (setE X (mkEp (e_pend x) (e_asg x) (e_emit x ++ [g]) (e_nr x) (e_rbuf x) (e_avail x)) a)
                      else Rej rj_retx
          | None => Rej rj_retx
          end
        else Rej rj_gap
      else if is_ack X (g_ty g) then
        Acc (setE X (mkEp (e_pend x) (e_asg x) (e_emit x ++ [g]) (e_nr x) (e_rbuf x) (e_avail x)) a)
      else Rej rj_type
  | ER X k =>
      let x := getE X a in
      let y := getE (negb X) a in
      if N.ltb k (N.of_nat (length (e_emit y))) then
        match nth_error (e_emit y) (N.to_nat k) with
        | None => Rej rj_recv
        | Some g =>
            if is_seq (negb X) (g_ty g) then
              let i := N.to_nat (g_seq g) in
              if Nat.ltb i (e_nr x) || has i (e_rbuf x) then Acc a
              else
                let '(nr', rb', rel) := drain (S (S (length (e_rbuf x)))) (e_nr x) ((i, cont g) :: e_rbuf x) in
                Acc (setE X (mkEp (e_pend x) (e_asg x) (e_emit x) nr' rb' (e_avail x ++ rel)) a)
            else Acc a
        end
      else Rej rj_recv
  | EA X b =>
      let x := getE X a in
      match strip b (e_avail x) with
      | Some av' => Acc (setE X (mkEp (e_pend x) (e_asg x) (e_emit x) (e_nr x) (e_rbuf x) av') a)
      | None => Rej rj_read
      end
  | EF =>
      let ok X := let x := getE X a in let y := getE (negb X) a in
                  all_nil (e_pend x) && all_nil (e_avail x) && Nat.eqb (e_nr x) (length (e_asg y)) in
      if ok false && ok true then Acc a else Rej rj_fin
  end.

(* whole-trace acceptor: the final state, or the index and reason of the first rejected event *)
Fixpoint run_acc (a : ast) (tr : list event) (idx : N) : ast + (N * N) :=
  match tr with
  | [] => inl a
  | e :: t => match acc_step a e with
              | Acc a' => run_acc a' t (N.succ idx)
              | Rej c => inr (idx, c)
              end
  end.
Definition accept (tr : list event) : ast + (N * N) := run_acc a0 tr 0%N.
Definition accepts (tr : list event) : bool := match accept tr with inl _ => true | inr _ => false end.

(* ---- what the theorems say about a trace (defined on the trace alone, not on the acceptor state) ---- *)

Definition ev_written (X : bool) (e : event) : bytes :=
  match e with EW s b => if Bool.eqb s X then b else [] | _ => [] end.
Definition ev_read (X : bool) (e : event) : bytes :=
  match e with EA s b => if Bool.eqb s X then b else [] | _ => [] end.
Definition ev_emit (X : bool) (e : event) : list dg :=
  match e with ES s g => if Bool.eqb s X then [g] else [] | _ => [] end.
(* bytes handed to Write on X / bytes returned by Read on X / datagrams emitted by X, in trace order *)
Definition written (X : bool) (tr : list event) : bytes := concat (map (ev_written X) tr).
Definition readb (X : bool) (tr : list event) : bytes := concat (map (ev_read X) tr).
Definition emitted (X : bool) (tr : list event) : list dg := concat (map (ev_emit X) tr).

(* segment number i of the peer has been delivered to endpoint X within tr: some ReadFrom of X returned a
   datagram that the peer had emitted before and that carries sequenced segment i *)
Definition delivered (X : bool) (tr : list event) (i : nat) : Prop :=
  exists a k b g, tr = a ++ ER X k :: b /\ nth_error (emitted (negb X) a) (N.to_nat k) = Some g /\
                  is_seq (negb X) (g_ty g) = true /\ N.to_nat (g_seq g) = i.
(* endpoint X has transmitted sequenced segment number i within tr *)
Definition emitted_seq (X : bool) (tr : list event) (i : nat) : Prop :=
  exists g, In g (emitted X tr) /\ is_seq X (g_ty g) = true /\ N.to_nat (g_seq g) = i.

(* ------------------------------------------------------------------------------------------------ *)
(* Part 2b. After Close.  The recorded trace of a session is  pre ++ post : [pre] ends where an application (or
   mieru itself) starts closing, [post] holds the datagrams emitted afterwards (close request / response, queued
   data, retransmissions).  After Close queued segments may be discarded and the close response bypasses the send
   queue, so first transmissions are no longer gapless on the wire and are not checked; what still must hold is
   that a sequence number is never used for two different contents - also across Close, and also for the
   sequenced CONTROL segments (open / close request / response consume sequence numbers like data). *)

Fixpoint assoc (k : N) (l : list (N * content)) : option content :=
  match l with
  | [] => None
  | (k', c) :: l' => if N.eqb k' k then Some c else assoc k l'
  end.
(* the content bound to sequence number k: by the pre-Close history [asg], else by what was seen after Close *)
Definition lookup (asg : list content) (late : list (N * content)) (k : N) : option content :=
  if N.ltb k (N.of_nat (length asg)) then nth_error asg (N.to_nat k) else assoc k late.

(* per endpoint: the bindings seen after Close, whether the endpoint has emitted its own close segment (request or
   response), and the emissions that were checked (ghost, newest first).
   Exemption: once an endpoint has emitted a close segment its session object is gone; a late datagram of the peer for
   that session id is then answered by the UNDERLAY (underlay_packet.go, "Session is not registered") with a stateless
   closeSessionRequest whose sequence field merely echoes the peer's unAckSeq - it is not a sequence number assigned
   by a session (the receiver handles close requests without looking at it).  Those replies are not checked. *)
Record ls1 := mkL1 {
  l_tab : list (N * content);     (* bindings of numbers first seen after Close *)
  l_flag : bool;                  (* this endpoint has emitted a close segment of its own *)
  l_chk : list dg;                (* ghost: the emissions whose content was checked, newest first *)
  l_emit : list dg;               (* every datagram this endpoint emitted after Close, in order *)
  l_nr : N;                       (* most optimistic nextRecv (continues e_nr) *)
  l_buf : list N                  (* delivered sequenced numbers >= l_nr *)
}.
Record lst := mkL { l_c : ls1; l_s : ls1 }.
Definition getL (X : bool) (l : lst) : ls1 := if X then l_s l else l_c l.
Definition setL (X : bool) (v : ls1) (l : lst) : lst := if X then mkL (l_c l) v else mkL v (l_s l).
Definition late_init1 (x : ep) : ls1 :=
  mkL1 [] false [] [] (N.of_nat (e_nr x)) (map (fun e => N.of_nat (fst e)) (e_rbuf x)).
(* a = the acceptor state at Close *)
Definition late_init (a : ast) : lst := mkL (late_init1 (a_c a)) (late_init1 (a_s a)).
Definition ty_close_req : N := tyN C02_ProtoCloseSessionRequest.
Definition is_close (ty : N) : bool := N.eqb ty ty_close_req || N.eqb ty (tyN C02_ProtoCloseSessionResponse).
Fixpoint adv (fuel : nat) (nr : N) (buf : list N) : N :=
  match fuel with
  | O => nr
  | S f => if existsb (N.eqb nr) buf then adv f (N.succ nr) buf else nr
  end.

Definition late_step (a : ast) (l : lst) (e : event) : option lst :=
  match e with
  | ES X g =>
      let x := getL X l in
      (* acks stay safe while closing: never ahead of what has been delivered in order *)
      if negb (N.leb (g_unack g) (l_nr x)) then None
      else if is_seq X (g_ty g) then
        if l_flag x && N.eqb (g_ty g) ty_close_req then
          (* stateless reply of the underlay for a session it no longer has: seq echoes the peer's unAckSeq; accepted as
             the code emits it, not bound (see C13_seq_reuse_after_close_refuted) *)
          Some (setL X (mkL1 (l_tab x) (l_flag x) (l_chk x) (l_emit x ++ [g]) (l_nr x) (l_buf x)) l)
        else
          let fl := l_flag x || is_close (g_ty g) in
          match lookup (e_asg (getE X a)) (l_tab x) (g_seq g) with
          | Some c => if content_eqb c (cont g)
                      then Some (setL X (mkL1 (l_tab x) fl (g :: l_chk x) (l_emit x ++ [g]) (l_nr x) (l_buf x)) l)
                      else None
          | None => Some (setL X (mkL1 ((g_seq g, cont g) :: l_tab x) fl (g :: l_chk x) (l_emit x ++ [g]) (l_nr x) (l_buf x)) l)
          end
      else if is_ack X (g_ty g)
      then Some (setL X (mkL1 (l_tab x) (l_flag x) (l_chk x) (l_emit x ++ [g]) (l_nr x) (l_buf x)) l)
      else None
  | ER X k =>
      let x := getL X l in
      let pre_emit := e_emit (getE (negb X) a) in
      let post_emit := l_emit (getL (negb X) l) in
      let np := length pre_emit in
      if N.ltb k (N.of_nat (np + length post_emit)) then
        match (if N.ltb k (N.of_nat np) then nth_error pre_emit (N.to_nat k) else nth_error post_emit (N.to_nat k - np)) with
        | None => None
        | Some g =>
            if is_seq (negb X) (g_ty g) then
              let buf := g_seq g :: l_buf x in
              Some (setL X (mkL1 (l_tab x) (l_flag x) (l_chk x) (l_emit x) (adv (S (length buf)) (l_nr x) buf) buf) l)
            else Some l
        end
      else None
  | _ => Some l
  end.
Fixpoint late_run (a : ast) (l : lst) (post : list event) : option lst :=
  match post with
  | [] => Some l
  | e :: t => match late_step a l e with Some l' => late_run a l' t | None => None end
  end.
(* the whole recorded session: [pre] accepted by the acceptor, [post] consistent with it *)
Definition late_final (pre post : list event) : option lst :=
  match accept pre with inl a => late_run a (late_init a) post | inr _ => None end.
Definition accept_closed (pre post : list event) : bool :=
  match accept pre with
  | inl a => match late_run a (late_init a) post with Some _ => true | None => false end
  | inr _ => false
  end.

(* ------------------------------------------------------------------------------------------------ *)
(* Part 1b. Windows.  In Part 1 the send window [win] is a free oracle value.  Here it is computed as the code
   does - sendWindowSize = min(cwnd - |sendBuf|, remoteWindowSize) - from a congestion window (oracle, never below
   minWindowSize), the sender's view [rwnd] of the receiver's window, the receiver's free space [rspace]
   (oracle: segmentTreeCapacity - |recvBuf| - |recvQueue|, changed by arrivals and application reads) and the
   window values carried by the datagrams of the reverse direction.  inputAck / inputData store the advertised
   window of EVERY ack, also of one whose ack number is not new: that is what reopens a closed window when
   nothing is in flight (the receiver's heartbeat ack). *)

Record wst := mkW {
  base : st;
  cwnd : nat;
  rwnd : nat;                     (* sender: remoteWindowSize *)
  rspace : nat;                   (* receiver: receiveWindowSize() *)
  backw : list (nat * nat)        (* every datagram of the reverse direction: (unAckSeq, windowSize) *)
}.
Definition minWindow : nat := Z.to_nat C02_minWindowSize.
Definition swin (b : st) (cw rw : nat) : nat := Nat.min (cw - (sent_hi b - una b)) rw.
Definition set_win (b : st) (w : nat) : st :=
  mkSt (assigned b) (una b) (sent_hi b) w (fwd b) (back b) (next_recv b) (rbuf b) (got b) (rd b) (lost b).
Definition is_setwin (l : label) : bool := match l with LSetWin _ => true | _ => false end.
Definition is_sendack (l : label) : bool := match l with LSendAck _ => true | _ => false end.
Definition is_recvack (l : label) : bool := match l with LRecvAck _ => true | _ => false end.

Inductive wlabel :=
| WBase (l : label)               (* a step of Part 1 other than window / ack steps *)
| WCwnd (c : nat)                 (* CUBIC changes the congestion window *)
| WSpace (r : nat)                (* arrivals / application reads change the receiver's free space *)
| WSendAck (u : nat)              (* the receiver emits a datagram: (unAckSeq, current window) *)
| WRecvAck (u w : nat).           (* the sender processes it: sendBuf pruned, remoteWindowSize := w, whatever u is *)

Inductive wstep : wst -> wlabel -> wst -> Prop :=
| ws_base : forall s l b1,
    lstep (base s) l b1 -> is_setwin l = false -> is_sendack l = false -> is_recvack l = false ->
    wstep s (WBase l) (mkW (set_win b1 (swin b1 (cwnd s) (rwnd s))) (cwnd s) (rwnd s) (rspace s) (backw s))
| ws_cwnd : forall s c,
    minWindow <= c ->
    wstep s (WCwnd c) (mkW (set_win (base s) (swin (base s) c (rwnd s))) c (rwnd s) (rspace s) (backw s))
| ws_space : forall s r,
    wstep s (WSpace r) (mkW (base s) (cwnd s) (rwnd s) r (backw s))
| ws_sendack : forall s u b1,
    lstep (base s) (LSendAck u) b1 ->
    wstep s (WSendAck u) (mkW b1 (cwnd s) (rwnd s) (rspace s) ((u, rspace s) :: backw s))
| ws_recvack : forall s u w b1,
    In (u, w) (backw s) -> lstep (base s) (LRecvAck u) b1 ->
    wstep s (WRecvAck u w) (mkW (set_win b1 (swin b1 (cwnd s) w)) (cwnd s) w (rspace s) (backw s)).

Definition winit (cw rw rs : nat) : wst := mkW (init (Nat.min cw rw)) cw rw rs [].
Inductive wreach : wst -> Prop :=
| wreach_init : forall cw rw rs, minWindow <= cw -> wreach (winit cw rw rs)
| wreach_step : forall s l s', wreach s -> wstep s l s' -> wreach s'.

(* ------------------------------------------------------------------------------------------------ *)
(* Part 1c. inputData never blocks.  The session's input loop is fed by the ONE goroutine that reads the UDP socket
   for every session of the underlay (through a 256 entry channel), so a step of the input loop that waits on the
   application would stall all sessions of the underlay.  inputData (packet branch), faithfully:
     if receiveWindowSize() <= 0 then drop                      -- window = capacity - |recvBuf| - |recvQueue|
     else if recvBuf.Insert fails (tree holds capacity entries) then drop
     else waitForRecvQueueSpace()  -- WOULD WAIT for the application iff recvQueue holds capacity entries
          ; moveRecvBufToRecvQueue  -- while recvQueue has room and the minimum of recvBuf is <= nextRecv
   The outcome InBlocked below is the waiting branch; input_never_blocks shows it is unreachable, and
   input_nocheck_blocks shows that it is reachable when the window test is left out. *)

Record rcv := mkR {
  r_next : nat;                      (* nextRecv *)
  r_buf : list (nat * content);      (* recvBuf *)
  r_queue : nat                      (* number of segments in recvQueue (moved, not yet taken by Read) *)
}.
Definition capN : nat := Z.to_nat C02_segmentTreeCapacity.
Definition rwindow (r : rcv) : nat := capN - length (r_buf r) - r_queue r.
Inductive in_outcome := InDropped | InAccepted | InBlocked.

(* ReplaceOrInsert keyed by the sequence number *)
Definition rb_insert (d : nat * content) (l : list (nat * content)) : list (nat * content) :=
  d :: filter (fun e => negb (Nat.eqb (fst e) (fst d))) l.
(* moveRecvBufToRecvQueue: entries below nextRecv are discarded, the entry nextRecv is moved, while the queue has room *)
Fixpoint move_loop (fuel : nat) (r : rcv) : rcv :=
  match fuel with
  | O => r
  | S f =>
      if Nat.leb capN (r_queue r) then r
      else match take (r_next r) (r_buf r) with
           | Some (_, rb') => move_loop f (mkR (S (r_next r)) rb' (S (r_queue r)))
           | None => mkR (r_next r) (filter (fun e => negb (Nat.ltb (fst e) (r_next r))) (r_buf r)) (r_queue r)
           end
  end.
Definition input_body (r : rcv) (d : nat * content) : rcv * in_outcome :=
  if Nat.leb capN (length (r_buf r)) then (r, InDropped)
  else let r1 := mkR (r_next r) (rb_insert d (r_buf r)) (r_queue r) in
       if Nat.leb capN (r_queue r1) then (r1, InBlocked)
       else (move_loop (S (length (r_buf r1))) r1, InAccepted).
Definition input_data (r : rcv) (d : nat * content) : rcv * in_outcome :=
  if Nat.eqb (rwindow r) 0 then (r, InDropped) else input_body r d.
(* the same without the receive-window test *)
Definition input_data_nocheck (r : rcv) (d : nat * content) : rcv * in_outcome := input_body r d.
(* Read takes one segment from recvQueue *)
Definition app_take (r : rcv) : rcv := mkR (r_next r) (r_buf r) (Nat.pred (r_queue r)).

(* ------------------------------------------------------------------------------------------------ *)
(* Part 1d. Numbering under partial Writes.  writeChunk numbers fragment after fragment - seq := nextSend.Load();
   ...; nextSend.Add(1) inside the loop - and the loop may stop early (write deadline passed, session closed, output
   error) after k of the n fragments; a timed-out Write does not end the session.  [queue_frags ns cs k]: the new
   counter and the segments queued when the loop over the fragments cs stops after k of them. *)
Fixpoint queue_frags (ns : nat) (cs : list content) (k : nat) : nat * list (nat * content) :=
  match k, cs with
  | S k', c :: cs' => let '(ns', q) := queue_frags (S ns) cs' k' in (ns', (ns, c) :: q)
  | _, _ => (ns, [])
  end.
(* a history of Writes of one session: (fragments, how many of them were queued) *)
Fixpoint write_all (ns : nat) (ops : list (list content * nat)) : nat * list (nat * content) :=
  match ops with
  | [] => (ns, [])
  | (cs, k) :: t => let '(ns1, q1) := queue_frags ns cs k in
                    let '(ns2, q2) := write_all ns1 t in (ns2, q1 ++ q2)
  end.
(* the variant that reserves the numbers of ALL fragments before the loop: nextSend.Add(n) up front *)
Definition queue_frags_reserve (ns : nat) (cs : list content) (k : nat) : nat * list (nat * content) :=
  (ns + length cs, snd (queue_frags ns cs k)).
Fixpoint write_all_reserve (ns : nat) (ops : list (list content * nat)) : nat * list (nat * content) :=
  match ops with
  | [] => (ns, [])
  | (cs, k) :: t => let '(ns1, q1) := queue_frags_reserve ns cs k in
                    let '(ns2, q2) := write_all_reserve ns1 t in (ns2, q1 ++ q2)
  end.
