(* Model of time-derived key slots, segment timestamps and the key cache.
   Mirrors pkg/cipher/keygen.go (saltFromTime), pkg/cipher/api.go (cipherKeyEpoch),
   pkg/cipher/cache.go (getCachedCiphers), StatelessDecryptor.tryDecryptAt,
   pkg/mathext/numbers.go (Mid, WithinRange at uint32), the timestamp test of
   pkg/protocol/metadata.go (Unmarshal) and, at the end, the scheduling window of the
   key-holding client underlay (pkg/protocol/underlay_packet.go NewPacketUnderlay,
   scheduler.go ScheduleController).
   Times are unix nanoseconds (Z).  Definitions only: no proofs here. *)
From Coq Require Import ZArith List Bool.
Import ListNotations.
Open Scope Z_scope.

Definition NS : Z := 1000000000.

(* Go: seconds between year 1 (the zero time.Time) and the unix epoch. *)
Definition unixToInternal_s : Z := (1969*365 + 1969/4 - 1969/100 + 1969/400) * 86400.

(* time.Time.Round(d) on an absolute count T >= 0 of nanoseconds since year 1. *)
Definition go_round (T d : Z) : Z :=
  if d <=? 0 then T else
  let r := T mod d in
  if r + r <? d then T - r else T + (d - r).

Section WithRefresh.
  Variable refresh : Z.            (* cipher.KeyRefreshInterval in ns *)

  (* t.Round(KeyRefreshInterval).Unix() for unix-ns t *)
  Definition epoch (t : Z) : Z :=
    let T := t + unixToInternal_s * NS in
    (go_round T refresh - unixToInternal_s * NS) / NS.

  (* unix seconds of the three times hashed into salts, in list order *)
  Definition slots (t : Z) : list Z :=
    let T := t + unixToInternal_s * NS in
    let r := go_round T refresh in
    [ (r - refresh - unixToInternal_s * NS) / NS;
      (r - unixToInternal_s * NS) / NS;
      (r + refresh - unixToInternal_s * NS) / NS ].

  (* ---- key cache (one password) ---- *)
  Record entry := { e_epoch : Z; e_create : Z; e_keys : list Z }.

  Variable valid_ns : Z.           (* cacheValidInterval in ns *)

  (* getCachedCiphers(password, now) with the drawn jitter (ms) explicit.
     Returns (reused?, entry returned, new cache content). *)
  Definition cache_lookup (c : option entry) (now jitter_ms : Z) : bool * entry * option entry :=
    let fresh := {| e_epoch := epoch now; e_create := now; e_keys := slots now |} in
    match c with
    | Some e =>
      if negb (e_epoch e =? epoch now) || (e_create e + (valid_ns - jitter_ms * 1000000) <? now)
      then (false, fresh, Some fresh)
      else (true, e, Some e)
    | None => (false, fresh, Some fresh)
    end.

  (* StatelessDecryptor.tryDecryptAt: a second, per-decryptor slot in front of the cache *)
  Definition decryptor_lookup (d : option entry) (c : option entry) (now jitter_ms : Z)
    : entry * option entry * option entry :=
    match d with
    | Some e => if e_epoch e =? epoch now then (e, d, c)
                else let '(_, e', c') := cache_lookup c now jitter_ms in (e', Some e', c')
    | None => let '(_, e', c') := cache_lookup c now jitter_ms in (e', Some e', c')
    end.

  (* histories of lookups: (now, jitter) pairs; result of the last one *)
  Fixpoint cache_run (c : option entry) (h : list (Z * Z)) : option entry :=
    match h with
    | [] => c
    | (now, j) :: h' => let '(_, _, c') := cache_lookup c now j in cache_run c' h'
    end.
End WithRefresh.

(* ---- segment timestamps: minutes since the unix epoch as uint32 ---- *)
Definition U32 : Z := 4294967296.
Definition u32 (x : Z) : Z := x mod U32.

(* uint32(time.Unix()/60); Go's / truncates toward zero *)
Definition minute (t : Z) : Z := u32 (Z.quot (t / NS) 60).

Definition mid3 (a b c : Z) : Z :=
  let '(a, b) := if b <? a then (b, a) else (a, b) in
  let '(a, c) := if c <? a then (c, a) else (a, c) in
  let '(b, c) := if c <? b then (c, b) else (b, c) in
  b.

(* mathext.WithinRange[uint32](v, target, margin) *)
Definition within_range32 (v target margin : Z) : bool :=
  mid3 v (u32 (target - margin)) (u32 (target + margin)) =? v.

(* the receiver's test in Unmarshal: current = receiver's minute, original = stamped *)
Definition timestamp_ok (recv_now sender_now : Z) : bool :=
  within_range32 (minute recv_now) (minute sender_now) 1.

(* ---- the AGE of the key-holding client underlay ----
   pkg/protocol: a client PacketUnderlay (UDP) is created with ONE block cipher, derived by
   mux.newUnderlay -> cipher.BlockCipherFromPassword at its creation instant c, i.e. the key of epoch(c);
   every new session that the mux schedules onto it starts with an open-session request under that key.
   NewPacketUnderlay sets the ScheduleController's disableTime to c + window; IncPending / IsDisabled
   refuse iff time.Since(disableTime) > 0, i.e. the underlay takes a new session at age a iff a <= window.
   The server has no session for the request yet: it first tries the ciphers of its live sessions from
   the same source address (tryDecryptExistingSession; not time dependent, so a live older session of
   the same client socket hides the age) and otherwise the three keys of its own clock.  The model is
   the server without such a live session, i.e. the history in which the underlay's earlier sessions
   are over.
   (A StreamUnderlay, TCP, also derives one key per connection, but the server runs key discovery only on
   the first segment of the connection and both ends continue with the stateful cipher: a session opened
   later on an old connection does not depend on any time slot; the only age there is the latency between
   the client's dial and the server's read of the first segment.) *)
Definition underlay_takes_sessions (window age : Z) : bool := age <=? window.

(* the receiver at [server_now] tries its three slots for a box sealed with the key of [key_slot] *)
Definition key_found (refresh key_slot server_now : Z) : bool :=
  existsb (Z.eqb key_slot) (slots refresh server_now).

(* open-session request of a session scheduled onto an underlay created at [c], sent at client time
   [t_send] (fresh minute stamp), read by a server whose clock is [skew] away *)
Definition open_request_ok (refresh c t_send skew : Z) : bool :=
  key_found refresh (epoch refresh c) (t_send + skew) && timestamp_ok (t_send + skew) t_send.
