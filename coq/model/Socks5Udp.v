(* C18 — model of the SOCKS5 UDP request header (RFC 1928 section 7) as handled by
   apis/model/addr.go (AddrSpec.ReadFromSocks5 / WriteToSocks5), pkg/socks5/udp.go
   (parseSocks5UDPDatagram, newSocks5UDPDatagram, udpAddrToHeader, resolveSocks5UDPAddr,
   the two goroutines of RunUDPAssociateLoop) and apis/common/udp_associate_wrapper.go
   (UDPAssociateWrapper.ReadFrom / WriteTo, WITH fixes/C18-wrapper-empty-payload.diff applied).

   net.IP.To4 / To16 / String are modelled by their documentation: a 16-byte address with the
   ::ffff:a.b.c.d prefix "is" the 4-byte address.  DNS is an oracle input of the relay. *)
From Coq Require Import NArith ZArith List Bool.
From M Require Import gen.Consts model.Frame.
Import ListNotations.
Open Scope N_scope.

Definition ATYP4 : N := Z.to_N C18_Socks5IPv4Address.
Definition ATYPD : N := Z.to_N C18_Socks5FQDNAddress.
Definition ATYP6 : N := Z.to_N C18_Socks5IPv6Address.
Definition SHORT : N := Z.to_N C18_Socks5UdpShortLimit.
Definition WSHORT : N := Z.to_N C18_WrapperShortLimit.
Definition WROOM : N := Z.to_N C18_WrapperHeaderRoom.

(* model.AddrSpec *)
Record addrspec := mkAddr { fqdn : list N; ip : list N; port : N }.

Fixpoint eqbl (a b : list N) : bool :=
  match a, b with
  | [], [] => true
  | x :: a', y :: b' => (x =? y) && eqbl a' b'
  | _, _ => false
  end.

(* first [n] elements and the rest; None when fewer than [n] are there (io.ReadFull fails) *)
Fixpoint splitN (l : list N) (n : N) : option (list N * list N) :=
  if n =? 0 then Some ([], l) else
  match l with
  | [] => None
  | x :: t => match splitN t (n - 1) with
              | Some (a, r) => Some (x :: a, r)
              | None => None
              end
  end.

(* copy(p, src) with len(p) = n *)
Fixpoint firstN (n : N) (l : list N) : list N :=
  if n =? 0 then [] else
  match l with [] => [] | x :: t => x :: firstN (n - 1) t end.

Definition v4prefix : list N := [0;0;0;0;0;0;0;0;0;0;255;255].

Definition to4 (i : list N) : option (list N) :=
  if lenN i =? 4 then Some i
  else if lenN i =? 16 then
    match splitN i 12 with
    | Some (p, v) => if eqbl p v4prefix then Some v else None
    | None => None
    end
  else None.

Definition to16 (i : list N) : option (list N) :=
  if lenN i =? 4 then Some (v4prefix ++ i)
  else if lenN i =? 16 then Some i
  else None.

Definition portbytes (p : N) : list N := [(p mod 65536) / 256; p mod 256].

(* AddrSpec.WriteToSocks5 (None = ErrUnrecognizedAddrType) *)
Definition build_addr (a : addrspec) : option (list N) :=
  match to4 (ip a) with
  | Some v4 => Some (ATYP4 :: v4 ++ portbytes (port a))
  | None =>
    match to16 (ip a) with
    | Some v6 => Some (ATYP6 :: v6 ++ portbytes (port a))
    | None =>
      match fqdn a with
      | [] => None
      | _ :: _ => Some (ATYPD :: (lenN (fqdn a) mod 256) :: fqdn a ++ portbytes (port a))
      end
    end
  end.

(* newSocks5UDPDatagram: RSV RSV FRAG | ATYP addr port | payload *)
Definition build_dgram (a : addrspec) (payload : list N) : option (list N) :=
  match build_addr a with
  | Some h => Some (0 :: 0 :: 0 :: h ++ payload)
  | None => None
  end.

Inductive perr := PNoData | PInvalid | PUnsupported | PAddrType.

(* AddrSpec.ReadFromSocks5 on a bytes.Reader: address, the bytes consumed, the bytes left *)
Definition read_port (f i consumed r : list N) : perr + (addrspec * list N * list N) :=
  match r with
  | hi :: lo :: rest => inr (mkAddr f i (hi * 256 + lo), consumed ++ [hi; lo], rest)
  | _ => inl PNoData
  end.

Definition read_addr (r : list N) : perr + (addrspec * list N * list N) :=
  match r with
  | [] => inl PNoData
  | t :: r1 =>
    if t =? ATYP4 then
      match splitN r1 4 with
      | Some (a, r2) => read_port [] a (t :: a) r2
      | None => inl PNoData
      end
    else if t =? ATYP6 then
      match splitN r1 16 with
      | Some (a, r2) => read_port [] a (t :: a) r2
      | None => inl PNoData
      end
    else if t =? ATYPD then
      match r1 with
      | [] => inl PNoData
      | l :: r2 =>
        match splitN r2 l with
        | Some (name, r3) => read_port name [] (t :: l :: name) r3
        | None => inl PNoData
        end
      end
    else inl PAddrType
  end.

Inductive pres := POk (a : addrspec) (hdr payload : list N) | PErr (e : perr).

(* parseSocks5UDPDatagram *)
Definition parse (pkt : list N) : pres :=
  if lenN pkt <=? SHORT then PErr PNoData else
  match pkt with
  | b0 :: b1 :: b2 :: r =>
    if negb ((b0 =? 0) && (b1 =? 0)) then PErr PInvalid
    else if negb (b2 =? 0) then PErr PUnsupported
    else match read_addr r with
         | inl e => PErr e
         | inr (a, consumed, payload) => POk a (b0 :: b1 :: b2 :: consumed) payload
         end
  | _ => PErr PNoData
  end.

(* ---- the relay: RunUDPAssociateLoop ---- *)
Record udpaddr := mkUdp { uip : list N; uport : N }.

Definition norm_ip (i : list N) : list N := match to4 i with Some v => v | None => i end.

(* net.UDPAddr.String() as a map key (zones are outside the model) *)
Definition key (a : udpaddr) : list N * N := (norm_ip (uip a), uport a).
Definition key_eqb (k1 k2 : list N * N) : bool := eqbl (fst k1) (fst k2) && (snd k1 =? snd k2).

(* resolveSocks5UDPAddr; [dns] = what the resolver answers for the name (None = lookup failed) *)
Definition resolve (a : addrspec) (dns : option (list N)) : option udpaddr :=
  match to16 (ip a) with
  | Some _ => Some (mkUdp (ip a) (port a))
  | None =>
    match fqdn a with
    | [] => None
    | _ :: _ => match dns with Some i => Some (mkUdp i (port a)) | None => None end
    end
  end.

(* udpAddrToHeader (None = panic) *)
Definition udp_addr_to_header (s : udpaddr) : option (list N) :=
  build_dgram (mkAddr [] (uip s) (uport s)) [].

Definition memo := list ((list N * N) * list N).

Fixpoint memo_get (m : memo) (k : list N * N) : option (list N) :=
  match m with
  | [] => None
  | (k', h) :: t => if key_eqb k' k then Some h else memo_get t k
  end.

Definition memo_set (m : memo) (k : list N * N) (h : list N) : memo := (k, h) :: m.

Inductive rin :=
| Up (pkt : list N) (dns : option (list N))     (* a datagram read from the tunnel (from the client) *)
| Down (from : udpaddr) (payload : list N).      (* a datagram received on the UDP socket *)

Inductive rout :=
| OSend (dst : udpaddr) (payload : list N)       (* udpConn.WriteToUDP(payload, dst) *)
| OClient (pkt : list N)                         (* conn.Write(pkt) into the tunnel, i.e. frame pkt *)
| ODrop                                          (* resolution failed: datagram dropped, loop continues *)
| OStopParse (e : perr)                          (* malformed header: the association ends *)
| OStopWrite                                     (* header ++ payload exceeds the frame maximum: the association ends *)
| OPanic.

Definition relay_step (m : memo) (i : rin) : memo * rout :=
  match i with
  | Up pkt dns =>
    match parse pkt with
    | PErr e => (m, OStopParse e)
    | POk a hdr payload =>
      match resolve a dns with
      | None => (m, ODrop)
      | Some dst => (memo_set m (key dst) hdr, OSend dst payload)
      end
    end
  | Down s payload =>
    match memo_get m (key s) with
    | Some h =>
      (m, match write (h ++ payload) with Some _ => OClient (h ++ payload) | None => OStopWrite end)
    | None =>
      match udp_addr_to_header s with
      | None => (m, OPanic)
      | Some h =>
        (memo_set m (key s) h,
         match write (h ++ payload) with Some _ => OClient (h ++ payload) | None => OStopWrite end)
      end
    end
  end.

Definition is_stop (o : rout) : bool :=
  match o with OStopParse _ | OStopWrite | OPanic => true | _ => false end.

(* the association ends at the first stop *)
Fixpoint relay_run (m : memo) (h : list rin) : list rout * memo :=
  match h with
  | [] => ([], m)
  | i :: t =>
    let (m1, o) := relay_step m i in
    if is_stop o then ([o], m1)
    else let (os, m2) := relay_run m1 t in (o :: os, m2)
  end.

(* ---- the API wrapper: UDPAssociateWrapper (after the fix) ---- *)
Inductive werr := WShort | WInvalid | WFrag | WNoData | WAddrType | WFqdn.
Inductive wres := WOk (payload : list N) (from : udpaddr) | WErr (e : werr).

Definition werr_of (e : perr) : werr :=
  match e with PNoData => WNoData | PAddrType => WAddrType | PInvalid => WInvalid | PUnsupported => WFrag end.

(* ReadFrom(p) with len(p) = cap, when the inner PacketConn delivered [b] (at most cap + WROOM bytes) *)
Definition wrapper_read (cap : N) (b : list N) : wres :=
  if lenN b <=? WSHORT then WErr WShort else
  match b with
  | b0 :: b1 :: b2 :: r =>
    if negb ((b0 =? 0) && (b1 =? 0)) then WErr WInvalid
    else if negb (b2 =? 0) then WErr WFrag
    else match read_addr r with
         | inl e => WErr (werr_of e)
         | inr (a, _, payload) =>
           match fqdn a with
           | _ :: _ => WErr WFqdn
           | [] => WOk (firstN cap payload) (mkUdp (ip a) (port a))
           end
         end
  | _ => WErr WShort
  end.

(* WriteTo(p, addr) for a *net.UDPAddr: what is handed to the inner PacketConn *)
Definition wrapper_write (p : list N) (to : udpaddr) : option (list N) :=
  build_dgram (mkAddr [] (uip to) (uport to)) p.
