(* C18 — model of apis/common/packet_over_stream.go (PacketOverStreamTunnel).

   Write(p):  len(p) > max  -> error, nothing written;  else  START | u16be len | p | END  in ONE conn.Write.
   Read(p):   io.ReadFull 1 byte (must be START) ; io.ReadFull 2 bytes (length, big endian) ;
              length > len(p) -> io.ErrShortBuffer (the data is NOT consumed) ; io.ReadFull length bytes ;
              io.ReadFull 1 byte (must be END).
   The tunnel keeps no state of its own: after an error the next Read continues at the current position
   of the stream.  Every caller in the repository (RunUDPAssociateLoop, RunUDPForwardingLoop, BidiCopyUDP)
   calls Read in a loop with a fixed buffer and returns at the first error.

   The reader is modelled as a byte-at-a-time state machine, so that "however the carrying stream is
   chunked" is a theorem about [feed] (FrameProofs.feed_app), not an enumeration.  [step]/[feed] describe the
   sequence of results of successive Read calls (exactly what the code does, also after an error);
   [cut] is the callers' loop that stops at the first error.  io.ReadFull = "exactly n bytes, or io.EOF when
   none, or io.ErrUnexpectedEOF when some" is the specification of the library function, not verified. *)
From Coq Require Import NArith ZArith List Bool.
From M Require Import gen.Consts.
Import ListNotations.
Open Scope N_scope.

Definition START : N := Z.to_N C18_FrameStartMarker.
Definition END_ : N := Z.to_N C18_FrameEndMarker.
Definition MAXLEN : N := Z.to_N C18_FrameMaxLen.

(* byte strings are [list N]; lengths are N (never nat) *)
Fixpoint lenN (l : list N) : N := match l with [] => 0 | _ :: t => N.succ (lenN t) end.

Definition bytes_ok (l : list N) : Prop := Forall (fun b => b < 256) l.

(* ---- writer ---- *)
Definition frame (d : list N) : list N :=
  START :: (lenN d / 256) :: (lenN d mod 256) :: d ++ [END_].

(* Write: None = error "packet length ... is larger than maximum length", nothing reaches the conn *)
Definition write (d : list N) : option (list N) :=
  if MAXLEN <? lenN d then None else Some (frame d).

Fixpoint write_all (ds : list (list N)) : option (list N) :=
  match ds with
  | [] => Some []
  | d :: t => match write d, write_all t with
              | Some f, Some r => Some (f ++ r)
              | _, _ => None
              end
  end.

(* ---- reader ---- *)
Inductive rerr := EBadStart | EBadEnd | EShortBuf | EEof | EUnexpectedEof.
Inductive event := EvD (d : list N) | EvErr (e : rerr).

(* where inside a frame the reader is; [acc] = data bytes read so far, newest first *)
Inductive phase :=
| PStart
| PLen1
| PLen2 (hi : N)
| PData (need : N) (acc : list N)
| PEnd (acc : list N).

(* one byte arrives; [cap] = len(p), the caller's buffer.  [rev_append acc []] = [rev acc] (linear time) *)
Definition step (cap : N) (ph : phase) (b : N) : phase * list event :=
  match ph with
  | PStart => if b =? START then (PLen1, []) else (PStart, [EvErr EBadStart])
  | PLen1 => (PLen2 b, [])
  | PLen2 hi =>
      let len := hi * 256 + b in
      if cap <? len then (PStart, [EvErr EShortBuf])
      else if len =? 0 then (PEnd [], [])
      else (PData len [], [])
  | PData need acc =>
      if need =? 1 then (PEnd (b :: acc), []) else (PData (need - 1) (b :: acc), [])
  | PEnd acc =>
      if b =? END_ then (PStart, [EvD (rev_append acc [])]) else (PStart, [EvErr EBadEnd])
  end.

Fixpoint feed (cap : N) (ph : phase) (bs : list N) : list event * phase :=
  match bs with
  | [] => ([], ph)
  | b :: t =>
      let (ph1, e) := step cap ph b in
      let (es, ph2) := feed cap ph1 t in
      (e ++ es, ph2)
  end.

(* the stream arrives in chunks (one conn.Read result each) *)
Fixpoint feed_chunks (cap : N) (ph : phase) (chunks : list (list N)) : list event * phase :=
  match chunks with
  | [] => ([], ph)
  | c :: t =>
      let (e1, ph1) := feed cap ph c in
      let (e2, ph2) := feed_chunks cap ph1 t in
      (e1 ++ e2, ph2)
  end.

(* the conn reports EOF while the reader is in phase [ph]: what the pending Read returns *)
Definition close (ph : phase) : rerr :=
  match ph with
  | PStart => EEof
  | PLen1 => EEof                 (* 0 of the 2 length bytes *)
  | PLen2 _ => EUnexpectedEof     (* 1 of the 2 length bytes *)
  | PData _ [] => EEof            (* 0 of the data bytes *)
  | PData _ (_ :: _) => EUnexpectedEof
  | PEnd _ => EEof                (* end marker missing *)
  end.

(* results of successive Read calls on the complete stream [s] followed by EOF (last element: the EOF error) *)
Definition run_raw (cap : N) (s : list N) : list event :=
  let (es, ph) := feed cap PStart s in es ++ [EvErr (close ph)].

(* the callers' loop: return at the first error *)
Fixpoint cut (es : list event) : list event :=
  match es with
  | [] => []
  | EvD d :: t => EvD d :: cut t
  | EvErr e :: _ => [EvErr e]
  end.

Definition read_loop (cap : N) (s : list N) : list event := cut (run_raw cap s).

Fixpoint dgrams (es : list event) : list (list N) :=
  match es with
  | [] => []
  | EvD d :: t => d :: dgrams t
  | EvErr _ :: t => dgrams t
  end.
