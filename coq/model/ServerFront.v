(* Model of the server's front door: what pkg/protocol does with the FIRST bytes of a TCP
   connection (StreamUnderlay.RunEventLoop / readOneSegment / serverInitRecvBlockCipherAndDecryptMetadata /
   maybeInitSendBlockCipher / drainAfterError / onOpenSessionRequest) and with EVERY datagram arriving at
   the UDP port (PacketUnderlay.RunEventLoop / readOneSegment / tryDecryptExistingSession /
   serverTryDecryptMetadataForNewSession / onOpenSessionRequest / the unknown-session closeSessionRequest
   reply), together with server_session_validation.go.  Definitions only; proofs are in
   proofs/ServerFrontProofs.v.

   Abstracted (Section variables; after End Section every definition takes them as arguments):
     key                 a block cipher of one registered user for one key slot
     user_of             the user a key belongs to (BlockContext().UserName)
     open_hdr k h        Decrypt of the 72-byte header  nonce(24) || seal(metadata 32)(48)
     open_body_tcp/udp   Decrypt of the payload box (TCP: next implicit nonce; UDP: DecryptWithNonce with the
                         header's nonce); first argument after the key is the 72-byte header
     le_ok, le_decode    validateLowEntropyDataAckMetadata / decodeLowEntropyEncryptedPayload (C17's subject)
     cands h src         the ordered list of keys user discovery tries for this header and source
                         (hint matches first, source-address cache, then the registry; with a mandatory
                         hint only the hint matches) - always a selection of the registered keys
     sig_of              FNV-64a over the first DefaultOverhead = 16 bytes (computeSignature)
     rcache, rc_dup      the process-wide replay cache and ReplayCache.IsDuplicate(sig, tag) at an instant:
                         (answer, state after).  model/Replay.v is the concrete instance.
   Time: [now] is unix nanoseconds; every time.Now() of one step is the same instant.
   A source address is the Go string addr.String() as a list of bytes; the stream cache uses EmptyTag = [].

   Not modelled (stated in checks/c05.py): the length and timing of the randomised drain (it only reads),
   metrics counters, the source-user cache bookkeeping (C07), what a session does after it was created
   (C01/C02) - a created session is the only thing that ever writes to a peer besides [u_out]. *)
From Coq Require Import ZArith NArith List Bool.
From M Require Import gen.Consts.
Import ListNotations.
Open Scope Z_scope.

Definition bytes := list N.
Definition addr := list N.

Definition hdr_len : nat := Z.to_nat C05_packetNonHeaderPosition.   (* 24 + 32 + 16 *)
Definition sig_len : nat := Z.to_nat C05_TagOverhead.               (* cipher.DefaultOverhead bytes are hashed *)
Definition meta_len : nat := Z.to_nat C05_MetadataLength.

(* ---- bytes ---- *)
Definition getb (m : bytes) (i : nat) : Z := Z.of_N (nth i m 0%N).
Definition be16 (m : bytes) (i : nat) : Z := getb m i * 256 + getb m (i + 1).
Definition be32 (m : bytes) (i : nat) : Z :=
  ((getb m i * 256 + getb m (i + 1)) * 256 + getb m (i + 2)) * 256 + getb m (i + 3).

(* io.ReadFull(conn, buf[n]) on the bytes the peer has sent so far and will ever send:
   Some (the n bytes, the rest) or None (fewer than n: the read blocks until the read deadline
   / the peer's close and fails; nothing was consumed that matters) *)
Definition take (n : nat) (l : bytes) : option (bytes * bytes) :=
  if Nat.ltb (length l) n then None else Some (firstn n l, skipn n l).

Fixpoint addr_eqb (a b : addr) : bool :=
  match a, b with
  | [], [] => true
  | x :: a', y :: b' => N.eqb x y && addr_eqb a' b'
  | _, _ => false
  end.

(* ---- segment timestamps (same definitions as model/KeyTime.v; repeated to keep this file self-contained) ---- *)
Definition U32 : Z := 4294967296.
Definition u32 (x : Z) : Z := x mod U32.
Definition NS : Z := 1000000000.
Definition minute (t : Z) : Z := u32 (Z.quot (t / NS) 60).
Definition mid3 (a b c : Z) : Z :=
  let '(a, b) := if b <? a then (b, a) else (a, b) in
  let '(a, c) := if c <? a then (c, a) else (a, c) in
  let '(b, c) := if c <? b then (c, b) else (b, c) in
  b.
Definition within_range32 (v target margin : Z) : bool :=
  mid3 v (u32 (target - margin)) (u32 (target + margin)) =? v.
(* Unmarshal: WithinRange(currentTimestamp, originalTimestamp, 1) *)
Definition ts_ok (now ts : Z) : bool := within_range32 (minute now) ts 1.

(* ---- protocol numbers ---- *)
Definition is_session_proto (p : Z) : bool :=
  (p =? C05_ProtoOpenSessionRequest) || (p =? C05_ProtoOpenSessionResponse) ||
  (p =? C05_ProtoCloseSessionRequest) || (p =? C05_ProtoCloseSessionResponse).
Definition is_le_proto (p : Z) : bool :=
  (p =? C05_ProtoDataClientToServerLE) || (p =? C05_ProtoDataServerToClientLE).
Definition is_dataack_proto (p : Z) : bool :=
  (p =? C05_ProtoDataClientToServer) || (p =? C05_ProtoDataServerToClient) || is_le_proto p ||
  (p =? C05_ProtoAckClientToServer) || (p =? C05_ProtoAckServerToClient).
(* validateServerSegmentDirection *)
Definition direction_ok (p : Z) : bool :=
  (p =? C05_ProtoOpenSessionRequest) || (p =? C05_ProtoCloseSessionRequest) ||
  (p =? C05_ProtoCloseSessionResponse) || (p =? C05_ProtoDataClientToServer) ||
  (p =? C05_ProtoDataClientToServerLE) || (p =? C05_ProtoAckClientToServer).

(* what the 32 decrypted bytes unmarshal to *)
Inductive meta :=
| M_session (proto sid plen slen : Z)                       (* sessionStruct *)
| M_data (proto sid unack prefix plen slen : Z)             (* dataAckStruct *)
| M_bad.                                                    (* wrong size, Unmarshal error or unknown protocol *)

(* how one step ended *)
Inductive verdict :=
| V_blocked      (* TCP: io.ReadFull got fewer bytes than it asked for: waits for the read deadline or the peer's
                    close, NETWORK_ERROR (or "retry" if nothing at all arrived), no drain, connection closed *)
| V_replay       (* TCP: REPLAY_ERROR -> drainAfterError (reads only) -> connection closed *)
| V_crypto       (* TCP: CRYPTO_ERROR -> drainAfterError (reads only) -> connection closed *)
| V_protocol     (* TCP: PROTOCOL_ERROR -> connection closed at once *)
| V_session      (* a session was created and put on readySessions (Accept returns it) *)
| V_short        (* UDP: shorter than packetNonHeaderPosition: dropped *)
| V_undecryptable (* UDP: neither an existing session of this address nor discovery opens it: dropped *)
| V_replay_drop  (* UDP: opened, but the replay cache had flagged it: dropped *)
| V_invalid      (* UDP: opened, but Unmarshal / size equations / payload box / direction / new-session checks fail: dropped *)
| V_delivered    (* UDP: handed to an existing session *)
| V_ignored      (* UDP: well-formed, authenticated, nothing to do (session id in use, close for an unknown session,
                    openSessionResponse at a server) *)
| V_close_reply. (* UDP: data/ack for an unknown session: closeSessionRequest sent back *)

Section Front.
  Variable key : Type.
  Variable user_of : key -> N.
  Variable open_hdr : key -> bytes -> option bytes.
  Variable open_body_tcp : key -> bytes -> bytes -> option bytes.
  Variable open_body_udp : key -> bytes -> bytes -> option bytes.
  Variable le_ok : bytes -> bool.
  Variable le_decode : bytes -> bytes -> option bytes.
  Variable cands : bytes -> addr -> list key.
  Variable sig_of : bytes -> N.
  Variable rcache : Type.
  Variable rc_dup : rcache -> N -> addr -> Z -> bool * rcache.

  (* sessionStruct.Unmarshal / dataAckStruct.Unmarshal and the size / protocol tests around them *)
  Definition parse_meta (now : Z) (m : bytes) : meta :=
    if negb (Nat.eqb (length m) meta_len) then M_bad else
    let p := getb m 0 in
    if is_session_proto p then
      if negb (ts_ok now (be32 m 2)) then M_bad
      else if be16 m 15 >? C05_MaxSessionOpenPayload then M_bad
      else M_session p (be32 m 6) (be16 m 15) (getb m 17)
    else if is_dataack_proto p then
      if negb (ts_ok now (be32 m 2)) then M_bad
      else if is_le_proto p && negb (le_ok m) then M_bad
      else M_data p (be32 m 6) (be32 m 14) (getb m 21) (be16 m 22) (getb m 24)
    else M_bad.

  (* user discovery: the first candidate whose key opens the header *)
  Fixpoint first_open (ks : list key) (hdr : bytes) : option (key * bytes) :=
    match ks with
    | [] => None
    | k :: ks' => match open_hdr k hdr with
                  | Some m => Some (k, m)
                  | None => first_open ks' hdr
                  end
    end.

  (* ================= TCP: the first segment of a fresh connection ================= *)

  Record tcp_result := mkTcp {
    t_out : list bytes;             (* Write calls on the connection made by this step *)
    t_created : list Z;             (* ids of sessions created *)
    t_app : list (Z * bytes);       (* sessions put on readySessions (what Accept returns) with the request's payload *)
    t_recv : option key;            (* t.recv after the step *)
    t_verdict : verdict
  }.

  (* maybeInitSendBlockCipher on a server: a send cipher can only be cloned from the receive cipher;
     writeOneSegment fails with "recv cipher is nil" otherwise *)
  Definition send_cipher (recv : option key) : option key := recv.

  Definition tcp_fail (recv : option key) (v : verdict) : tcp_result := mkTcp [] [] [] recv v.

  (* readSessionSegment: payload box, suffix padding; result: error verdict or the payload *)
  Definition tcp_read_session (k : key) (hdr rest : bytes) (plen slen : Z) : verdict + bytes :=
    let after_payload (payload rest' : bytes) :=
      if slen >? 0 then
        match take (Z.to_nat slen) rest' with
        | None => inl V_blocked
        | Some _ => inr payload
        end
      else inr payload in
    if plen >? 0 then
      match take (Z.to_nat (plen + C05_TagOverhead)) rest with
      | None => inl V_blocked
      | Some (box, rest') =>
        match open_body_tcp k hdr box with
        | None => inl V_crypto
        | Some payload => after_payload payload rest'
        end
      end
    else after_payload [] rest.

  (* readDataAckSegment *)
  Definition tcp_read_data (k : key) (hdr m rest : bytes) (p prefix plen slen : Z) : verdict + bytes :=
    let after_payload (payload rest' : bytes) :=
      if slen >? 0 then
        match take (Z.to_nat slen) rest' with
        | None => inl V_blocked
        | Some _ => inr payload
        end
      else inr payload in
    let after_prefix (rest1 : bytes) :=
      if plen >? 0 then
        match take (Z.to_nat (plen + C05_TagOverhead)) rest1 with
        | None => inl V_blocked
        | Some (wire, rest2) =>
          match (if is_le_proto p then le_decode m wire else Some wire) with
          | None => inl V_protocol
          | Some box =>
            match open_body_tcp k hdr box with
            | None => inl V_crypto
            | Some payload => after_payload payload rest2
            end
          end
        end
      else after_payload [] rest1 in
    if prefix >? 0 then
      match take (Z.to_nat prefix) rest with
      | None => inl V_blocked
      | Some (_, rest1) => after_prefix rest1
      end
    else after_prefix rest.

  (* One RunEventLoop iteration on a connection whose t.recv is nil.
     [input] = every byte the peer sends on the connection (the reads below take a prefix of it). *)
  Definition tcp_front (rc : rcache) (src : addr) (input : bytes) (now : Z) : tcp_result * rcache :=
    match take hdr_len input with
    | None => (tcp_fail None V_blocked, rc)                       (* ReadFull(24+48) incomplete: the cache is not consulted *)
    | Some (hdr, rest) =>
      let (dup, rc') := rc_dup rc (sig_of (firstn sig_len hdr)) [] now in     (* replay.EmptyTag *)
      match first_open (cands hdr src) hdr with
      | None => (tcp_fail None (if dup then V_replay else V_crypto), rc')
      | Some (k, m) =>
        (* t.recv = block is kept even when the segment is then refused as a replay *)
        if dup then (tcp_fail (Some k) V_replay, rc') else
        match parse_meta now m with
        | M_bad => (tcp_fail (Some k) V_protocol, rc')
        | M_session p sid plen slen =>
          match tcp_read_session k hdr rest plen slen with
          | inl v => (tcp_fail (Some k) v, rc')
          | inr payload =>
            (* validateNewServerSessionSegment (authentication.Valid() holds on a first segment):
                 - the metadata is a sessionStruct            (this branch)
                 - its protocol is openSessionRequest
                 - its session id is not 0
               then onOpenSessionRequest: id not 0 (again), id not in the (empty) session map *)
            if negb (p =? C05_ProtoOpenSessionRequest) then (tcp_fail (Some k) V_protocol, rc')
            else if sid =? 0 then (tcp_fail (Some k) V_protocol, rc')
            else (mkTcp [] [sid] [(sid, payload)] (Some k) V_session, rc')
          end
        | M_data p sid unack prefix plen slen =>
          match tcp_read_data k hdr m rest p prefix plen slen with
          | inl v => (tcp_fail (Some k) v, rc')
          | inr _ => (tcp_fail (Some k) V_protocol, rc')          (* validateNewServerSessionSegment: not a sessionStruct *)
          end
        end
      end
    end.

  (* ================= UDP: one datagram at the server socket ================= *)

  Record usession := mkSess { us_id : Z; us_addr : addr; us_key : key }.

  (* the closeSessionRequest the server sends for an unknown session: destination, cipher, session id, seq *)
  Record reply := mkReply { o_dst : addr; o_key : key; o_sid : Z; o_seq : Z }.

  Record udp_result := mkUdp {
    u_out : list reply;                 (* datagrams written by the underlay itself *)
    u_created : list usession;          (* sessions created and put on readySessions *)
    u_delivered : list (Z * bytes);     (* (session id, payload) handed to a session's input *)
    u_verdict : verdict
  }.

  Definition udp_drop (v : verdict) : udp_result := mkUdp [] [] [] v.

  (* tryDecryptExistingSession: sessions of the same remote address, in map order *)
  Fixpoint try_existing (ss : list usession) (hdr : bytes) (src : addr) : option (key * bytes) :=
    match ss with
    | [] => None
    | s :: ss' =>
      if addr_eqb (us_addr s) src then
        match open_hdr (us_key s) hdr with
        | Some m => Some (us_key s, m)
        | None => try_existing ss' hdr src
        end
      else try_existing ss' hdr src
    end.

  Fixpoint find_session (ss : list usession) (sid : Z) : option usession :=
    match ss with
    | [] => None
    | s :: ss' => if us_id s =? sid then Some s else find_session ss' sid
    end.

  (* segmentUserOwnsSession *)
  Definition owns (s : usession) (k : key) : bool := N.eqb (user_of (us_key s)) (user_of k).

  (* parseSessionSegment: Some payload or None (error) *)
  Definition udp_parse_session (k : key) (hdr rest : bytes) (plen slen : Z) : option bytes :=
    let n := Z.of_nat (length rest) in
    if plen >? 0 then
      if n <? plen + C05_TagOverhead then None else
      match open_body_udp k hdr (firstn (Z.to_nat (plen + C05_TagOverhead)) rest) with
      | None => None
      | Some payload => if plen + C05_TagOverhead + slen =? n then Some payload else None
      end
    else if slen =? n then Some [] else None.

  (* parseDataAckSegment *)
  Definition udp_parse_data (k : key) (hdr m rest : bytes) (p prefix plen slen : Z) : option bytes :=
    if is_le_proto p && negb (le_ok m) then None else
    if (prefix >? 0) && (prefix >? Z.of_nat (length rest)) then None else
    let rest1 := skipn (Z.to_nat prefix) rest in
    let n := Z.of_nat (length rest1) in
    if plen >? 0 then
      let wire := plen + C05_TagOverhead in
      if n <? wire then None else
      if negb (n =? wire + slen) then None else
      match (if is_le_proto p then le_decode m (firstn (Z.to_nat wire) rest1) else Some (firstn (Z.to_nat wire) rest1)) with
      | None => None
      | Some box => open_body_udp k hdr box
      end
    else if slen =? n then Some [] else None.

  (* everything after the header was opened with key [k]; [fresh] = it was opened by discovery
     (authentication.Valid()), not by the cipher of an existing session of this address *)
  Definition udp_authenticated (ss : list usession) (k : key) (fresh : bool) (m hdr rest : bytes) (src : addr) (now : Z)
    : udp_result * list usession :=
    match parse_meta now m with
    | M_bad => (udp_drop V_invalid, ss)
    | M_session p sid plen slen =>
      match udp_parse_session k hdr rest plen slen with
      | None => (udp_drop V_invalid, ss)
      | Some payload =>
        if fresh && negb (direction_ok p) then (udp_drop V_invalid, ss)
        (* validateNewServerSessionSegment on an openSessionRequest opened by discovery: id not 0 *)
        else if fresh && (p =? C05_ProtoOpenSessionRequest) && (sid =? 0) then (udp_drop V_invalid, ss)
        else if p =? C05_ProtoOpenSessionRequest then
          (* onOpenSessionRequest *)
          if sid =? 0 then (udp_drop V_invalid, ss)
          else match find_session ss sid with
               | Some _ => (udp_drop V_ignored, ss)
               | None => let s := mkSess sid src k in
                         (mkUdp [] [s] [(sid, payload)] V_session, ss ++ [s])
               end
        else if p =? C05_ProtoOpenSessionResponse then (udp_drop V_invalid, ss)     (* ErrInvalidOperation at a server *)
        else
          (* onCloseSession *)
          match find_session ss sid with
          | None => (udp_drop V_ignored, ss)
          | Some s => if owns s k then (mkUdp [] [] [(sid, payload)] V_delivered, ss)
                      else (udp_drop V_invalid, ss)
          end
      end
    | M_data p sid unack prefix plen slen =>
      match udp_parse_data k hdr m rest p prefix plen slen with
      | None => (udp_drop V_invalid, ss)
      | Some payload =>
        if fresh && negb (direction_ok p) then (udp_drop V_invalid, ss)
        else match find_session ss sid with
             | Some s =>
               if owns s k then (mkUdp [] [] [(sid, payload)] V_delivered, ss)
               else (mkUdp [mkReply src k sid unack] [] [] V_close_reply, ss)
             | None => (mkUdp [mkReply src k sid unack] [] [] V_close_reply, ss)   (* seg.block != nil: authenticated *)
             end
      end
    end.

  (* the part of readOneSegment + dispatch that does not touch the replay cache: [dup] is the cache's answer *)
  Definition udp_core (ss : list usession) (dup : bool) (d : bytes) (src : addr) (now : Z) : udp_result * list usession :=
    let hdr := firstn hdr_len d in
    let rest := skipn hdr_len d in
    match try_existing ss hdr src with
    | Some (k, m) =>
      if dup then (udp_drop V_replay_drop, ss) else udp_authenticated ss k false m hdr rest src now
    | None =>
      match first_open (cands hdr src) hdr with
      | Some (k, m) =>
        if dup then (udp_drop V_replay_drop, ss) else udp_authenticated ss k true m hdr rest src now
      | None => (udp_drop V_undecryptable, ss)
      end
    end.

  Record ustate := mkU { u_rc : rcache; u_sessions : list usession }.

  Definition udp_front (st : ustate) (d : bytes) (src : addr) (now : Z) : udp_result * ustate :=
    if Nat.ltb (length d) hdr_len then (udp_drop V_short, st)          (* the cache is not consulted *)
    else
      let (dup, rc') := rc_dup (u_rc st) (sig_of (firstn sig_len (firstn hdr_len d))) src now in
      let (r, ss') := udp_core (u_sessions st) dup d src now in
      (r, mkU rc' ss').

  (* ---- histories at the UDP port ---- *)
  Inductive event :=
  | Dgram (d : bytes) (src : addr) (now : Z)     (* a datagram arrives *)
  | Clean (ids : list Z).                        (* cleanSessions / RemoveSession removes these sessions *)

  Definition remove_sessions (ids : list Z) (ss : list usession) : list usession :=
    filter (fun s => negb (existsb (Z.eqb (us_id s)) ids)) ss.

  Definition udp_step (st : ustate) (e : event) : udp_result * ustate :=
    match e with
    | Dgram d src now => udp_front st d src now
    | Clean ids => (udp_drop V_ignored, mkU (u_rc st) (remove_sessions ids (u_sessions st)))
    end.

  (* the results of a history, one per event, paired with the event that caused them *)
  Fixpoint udp_run (st : ustate) (evs : list event) : list (event * udp_result) * ustate :=
    match evs with
    | [] => ([], st)
    | e :: evs' =>
      let (r, st1) := udp_step st e in
      let (rs, st2) := udp_run st1 evs' in
      ((e, r) :: rs, st2)
    end.

  (* ---- histories of the replay cache (shape of model/Replay.v: step / final) ---- *)
  Definition rc_op := (N * addr * Z)%type.
  Definition rc_step (c : rcache) (o : rc_op) : bool * rcache := rc_dup c (fst (fst o)) (snd (fst o)) (snd o).
  Fixpoint rc_final (c : rcache) (h : list rc_op) : rcache :=
    match h with
    | [] => c
    | o :: h' => rc_final (snd (rc_step c o)) h'
    end.

  (* the cache operation an event performs, if any *)
  Definition event_ops (e : event) : list rc_op :=
    match e with
    | Dgram d src now =>
      if Nat.ltb (length d) hdr_len then [] else [(sig_of (firstn sig_len (firstn hdr_len d)), src, now)]
    | Clean _ => []
    end.
  Definition events_ops (evs : list event) : list rc_op := flat_map event_ops evs.

End Front.

Arguments t_out {key}. Arguments t_created {key}. Arguments t_app {key}. Arguments t_recv {key}. Arguments t_verdict {key}.
Arguments us_id {key}. Arguments us_addr {key}. Arguments us_key {key}.
Arguments o_dst {key}. Arguments o_key {key}. Arguments o_sid {key}. Arguments o_seq {key}.
Arguments u_out {key}. Arguments u_created {key}. Arguments u_delivered {key}. Arguments u_verdict {key}.
Arguments u_rc {key rcache}. Arguments u_sessions {key rcache}.

(* ---- bit flips (for the corollary about mutated genuine handshakes) ---- *)
Definition flip_byte (bit : nat) (b : N) : N := N.lxor b (N.shiftl 1 (N.of_nat bit)).
(* flip bit [i mod 8] (0 = least significant) of byte [i / 8] *)
Fixpoint flip_bit (i : nat) (l : bytes) : bytes :=
  match l with
  | [] => []
  | b :: l' => if Nat.ltb i 8 then flip_byte i b :: l' else b :: flip_bit (i - 8) l'
  end.
