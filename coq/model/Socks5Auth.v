(* Model of the SOCKS5 method negotiation and RFC 1929 username/password sub-negotiation of
   pkg/socks5/auth.go (Server.handleAuthentication) and of the place where pkg/socks5/socks5.go
   (ServeConn -> clientServeConn / serverServeConn) runs it before the request is read.

   The client's byte stream is a [list byte]; every io.ReadFull(conn, buf) of the Go code is
   [read_full (len buf)]: exactly n bytes or "the stream ended" (Truncated; a short read consumes
   what was there).  The result carries the replies written back (one list per conn.Write), the
   outcome (Authenticated = handleAuthentication returned nil) and the unread rest of the stream.

   [legacy = true] is the selection rule of the pinned tree ("no authentication has higher
   priority than user password authentication", also when credentials are configured);
   [legacy = false] is the code after fixes/C11-noauth-preferred-over-credentials.diff.
   Definitions only: no proofs here. *)
From Coq Require Import NArith ZArith List Bool.
From M Require Import gen.Consts.
Import ListNotations.
Open Scope N_scope.

Definition byte := N.
Definition cred := (list byte * list byte)%type.      (* (user, password) as bytes *)

Definition VER       : byte := Z.to_N C11_Socks5Version.
Definition M_NOAUTH  : byte := Z.to_N C11_Socks5NoAuth.
Definition M_USERPASS: byte := Z.to_N C11_Socks5UserPassAuth.
Definition M_NONE    : byte := Z.to_N C11_Socks5NoAcceptableAuth.
Definition SUBVER    : byte := Z.to_N C11_Socks5UserPassAuthVersion.
Definition ST_OK     : byte := Z.to_N C11_Socks5AuthSuccess.
Definition ST_FAIL   : byte := Z.to_N C11_Socks5AuthFailure.

Inductive outcome := Authenticated | Rejected | Truncated.

Record result := { replies : list (list byte); out : outcome; rest : list byte }.

(* io.ReadFull of n bytes *)
Definition read_full (n : nat) (i : list byte) : option (list byte * list byte) :=
  if (length i <? n)%nat then None else Some (firstn n i, skipn n i).

Fixpoint bytes_eqb (a b : list byte) : bool :=
  match a, b with
  | [], [] => true
  | x :: a', y :: b' => (x =? y) && bytes_eqb a' b'
  | _, _ => false
  end.

(* for _, c := range IngressCredentials { if c.User == user && c.Password == password ... } *)
Definition cred_match (creds : list cred) (u p : list byte) : bool :=
  existsb (fun c => bytes_eqb (fst c) u && bytes_eqb (snd c) p) creds.

Definition has (m : byte) (methods : list byte) : bool := existsb (N.eqb m) methods.

Definition is_nil {A} (l : list A) : bool := match l with [] => true | _ => false end.

Definition truncated (w : list (list byte)) : result := {| replies := w; out := Truncated; rest := [] |}.
Definition rejected (w : list (list byte)) (i : list byte) : result := {| replies := w; out := Rejected; rest := i |}.

(* RFC 1929 part: entered after the server selected method 2 (w = replies so far).
   A one-byte io.ReadFull is a match on the stream: [] = the stream ended. *)
Definition subneg (creds : list cred) (w : list (list byte)) (i : list byte) : result :=
  match i with
  | [] => truncated w
  | v :: i1 =>
    if negb (v =? SUBVER) then rejected w i1 else
    match i1 with
    | [] => truncated w
    | ulen :: i2 =>
      match read_full (N.to_nat ulen) i2 with
      | None => truncated w
      | Some (u, i3) =>
        match i3 with
        | [] => truncated w
        | plen :: i4 =>
          match read_full (N.to_nat plen) i4 with
          | None => truncated w
          | Some (p, i5) =>
            if cred_match creds u p
            then {| replies := w ++ [[SUBVER; ST_OK]]; out := Authenticated; rest := i5 |}
            else rejected (w ++ [[SUBVER; ST_FAIL]]) i5
          end
        end
      end
    end
  end.

(* the method selection after the method list was read; i3 = stream after the list *)
Definition select (legacy : bool) (creds : list cred) (methods i3 : list byte) : result :=
  let na := has M_NOAUTH methods in
  let up := has M_USERPASS methods in
  let need := negb (is_nil creds) in
  if negb na && negb up then rejected [[VER; M_NONE]] i3
  else if na && (legacy || negb (up && need)) then
    (* "no authentication" branch *)
    if negb up && need then rejected [] i3
    else {| replies := [[VER; M_NOAUTH]]; out := Authenticated; rest := i3 |}
  else
    (* user/password branch *)
    if negb need then rejected [] i3
    else subneg creds [[VER; M_USERPASS]] i3.

Definition handle_auth (legacy : bool) (creds : list cred) (i : list byte) : result :=
  match i with
  | [] => truncated []
  | v :: i1 =>
    if negb (v =? VER) then rejected [] i1 else
    match i1 with
    | [] => truncated []
    | n :: i2 =>
      if n =? 0 then rejected [] i2 else
      match read_full (N.to_nat n) i2 with
      | None => truncated []
      | Some (methods, i3) => select legacy creds methods i3
      end
    end
  end.

(* ---- ServeConn: where authentication sits ----
   use_proxy = Config.UseProxy (true: clientServeConn, the mieru client's local listener;
   false: serverServeConn), csa = Config.AuthOpts.ClientSideAuthentication.
   The listener authenticates itself iff use_proxy = csa:
     clientServeConn: if csa  { handleAuthentication }; ProxyDialer.DialContext; [if !csa relay greeting]; read request
     serverServeConn: if !csa { handleAuthentication }; readRequest
   In the two other combinations the credentials of this Config are not consulted
   (authentication is the other end's job) and the stream goes to the next stage untouched. *)
Record served := {
  s_replies : list (list byte);       (* written by the authentication stage *)
  s_dialed  : bool;                   (* ProxyDialer.DialContext was called *)
  s_next    : option (list byte)      (* Some r: the next stage (request reader / relay) runs and sees r *)
}.

Definition local_auth (use_proxy csa : bool) : bool := eqb use_proxy csa.

Definition serve (legacy use_proxy csa : bool) (creds : list cred) (i : list byte) : served :=
  if local_auth use_proxy csa then
    let r := handle_auth legacy creds i in
    match out r with
    | Authenticated => {| s_replies := replies r; s_dialed := use_proxy; s_next := Some (rest r) |}
    | _ => {| s_replies := replies r; s_dialed := false; s_next := None |}
    end
  else {| s_replies := []; s_dialed := use_proxy; s_next := Some i |}.

(* What the property calls "presenting a configured pair": the stream is a greeting offering
   method 2 followed by a version-1 sub-negotiation carrying (u, p), then [r]. *)
Definition presents (i : list byte) (u p r : list byte) : Prop :=
  exists n methods ulen plen,
    i = [VER; n] ++ methods ++ [SUBVER; ulen] ++ u ++ [plen] ++ p ++ r /\
    length methods = N.to_nat n /\ In M_USERPASS methods /\
    length u = N.to_nat ulen /\ length p = N.to_nat plen.

(* a greeting with method list [methods], then [r] *)
Definition greets (i : list byte) (methods r : list byte) : Prop :=
  exists n, i = [VER; n] ++ methods ++ r /\ length methods = N.to_nat n /\ n <> 0.

(* the replies handleAuthentication can produce (RFC 1928 section 3, RFC 1929 section 2) *)
Definition documented_replies : list (list (list byte)) :=
  [ [];
    [[VER; M_NONE]];
    [[VER; M_NOAUTH]];
    [[VER; M_USERPASS]];
    [[VER; M_USERPASS]; [SUBVER; ST_OK]];
    [[VER; M_USERPASS]; [SUBVER; ST_FAIL]] ].
