(* C04 - tampering with bytes on the wire: what an arbitrary byte stream (TCP) / an arbitrary datagram (UDP)
   makes the receivers of pkg/protocol hand on.

   TCP: the receiver is the incremental model of C01 (model/TcpStream.v: parse1 / drain / feed =
        StreamUnderlay.readOneSegment + readSessionSegment + readDataAckSegment with io.ReadFull semantics and
        cipher.Decrypt in implicit nonce mode).  This file adds the sender's box sequence of one direction
        (what INT-CTXT speaks about).
   UDP: udp_parse = PacketUnderlay.readOneSegment + parseSessionSegment + parseDataAckSegment on one datagram:
        the 72 byte minimum, the metadata box, the EXACT size equations in the order the code checks them,
        low entropy decoding before open, and - as in the code - the payload box opened under the SAME
        nonce as the metadata box.
   A toy AEAD (table of the boxes the sender sealed: the ideal AEAD under INT-CTXT) makes the models
   executable for the examples and for the correspondence run.

   seal/open, the metadata byte layout and the low entropy codec are Section variables. *)
From Coq Require Import List NArith ZArith Bool Arith.
From M Require Import gen.Consts model.TcpStream.
Import ListNotations.
Open Scope N_scope.

Definition hdrLen : nat := Z.to_nat C05_packetNonHeaderPosition.   (* 72 = nonce + metadata + tag *)

Fixpoint list_eqb (a b : list N) : bool :=
  match a, b with
  | [], [] => true
  | x :: a', y :: b' => (x =? y) && list_eqb a' b'
  | _, _ => false
  end.

Section Tamper.
  Variable seal : list N -> list N -> list N.
  Variable open : list N -> list N -> option (list N).
  Variable marshal_meta : minfo -> list N.
  Variable parse_meta : list N -> option minfo.
  Variable le_len : leparams -> N -> N.
  Variable le_encode : leparams -> bool -> list N -> list N.
  Variable le_decode : leparams -> N -> list N -> option (list N).

  (* ---- TCP: the plaintexts one direction seals, in counter order: box k is sealed under n0 + k *)
  Definition seg_boxes (s : segment) : list (list N) :=
    marshal_meta (fill_meta le_len s) :: (if is_nil (s_payload s) then [] else [s_payload s]).
  Definition stream_boxes (l : list segment) : list (list N) := concat (map seg_boxes l).

  (* ---- low entropy body: decodeLowEntropyEncryptedPayload: decode the body, keep the tag *)
  Definition le_unwrap (mi : minfo) (body : list N) : option (list N) :=
    if is_le (mi_proto mi) then
      match le_decode (mi_le mi) (mi_elen mi) (firstn (N.to_nat (mi_plen mi)) body) with
      | None => None
      | Some ct => Some (ct ++ skipn (N.to_nat (mi_plen mi)) body)
      end
    else Some body.

  (* ---- UDP sender: PacketUnderlay.writeOneSegment: both boxes under the datagram's nonce *)
  Definition udp_encode (n : list N) (s : segment) : list N :=
    let mi := fill_meta le_len s in
    let pl := s_payload s in
    let body :=
      if is_nil pl then []
      else let box := seal n pl in
           if is_le (mi_proto mi)
           then le_encode (mi_le mi) (s_pb s) (firstn (length pl) box) ++ skipn (length pl) box
           else box in
    n ++ seal n (marshal_meta mi) ++ eff_pad1 s ++ body ++ s_pad2 s.

  (* ---- UDP receiver.  [rem] = the bytes after the 72 byte header. *)
  Definition udp_body (mi : minfo) (n : list N) (rem : list N) : option (list N) :=
    let suf := N.to_nat (mi_suf mi) in
    let w := (N.to_nat (mi_plen mi) + tagLen)%nat in
    if is_session (mi_proto mi) then
      (* parseSessionSegment *)
      if mi_plen mi =? 0 then (if (suf =? length rem)%nat then Some [] else None)
      else if (length rem <? w)%nat then None
      else match open n (firstn w rem) with
           | None => None
           | Some pl => if (w + suf =? length rem)%nat then Some pl else None
           end
    else
      (* parseDataAckSegment *)
      let pre := N.to_nat (mi_pre mi) in
      if (length rem <? pre)%nat then None
      else
        let rem1 := skipn pre rem in
        if mi_plen mi =? 0 then (if (suf =? length rem1)%nat then Some [] else None)
        else if (length rem1 <? w)%nat then None
        else if negb (length rem1 =? w + suf)%nat then None
        else match le_unwrap mi (firstn w rem1) with
             | None => None
             | Some box => open n box
             end.

  Definition udp_parse (d : list N) : option rseg :=
    if (length d <? hdrLen)%nat then None
    else
      let n := firstn nonceLen d in
      match open n (firstn (metaLen + tagLen) (skipn nonceLen d)) with
      | None => None
      | Some mp =>
        match parse_meta mp with
        | None => None
        | Some mi =>
          match udp_body mi n (skipn hdrLen d) with
          | None => None
          | Some pl => Some (mi, pl)
          end
        end
      end.

  (* the total length the size equations allow for a datagram with metadata mi *)
  Definition udp_total (mi : minfo) : nat :=
    (hdrLen + (if is_session (mi_proto mi) then 0 else N.to_nat (mi_pre mi))
     + (if (mi_plen mi =? 0)%N then 0 else N.to_nat (mi_plen mi) + tagLen) + N.to_nat (mi_suf mi))%nat.
End Tamper.


(* ---------------------------------------------------------------- the session above the receivers *)
(* Session.input: the per-role list of protocol types a session accepts; anything else is an input error that
   closes the session (runInputLoop) *)
Definition accepts (client : bool) (p : N) : bool :=
  if client
  then (p =? pOpenResp) || (p =? pDataS2C) || (p =? pDataS2CLE) || (p =? pAckS2C) || (p =? pCloseReq) || (p =? pCloseResp)
  else (p =? pOpenReq) || (p =? pDataC2S) || (p =? pDataC2SLE) || (p =? pAckC2S) || (p =? pCloseReq) || (p =? pCloseResp).

(* the types that only the side with role [client] itself seals (open, data, ack of its own direction); both
   directions of a session share one key and one session id, so these boxes OPEN at their own sender *)
Definition own_side (client : bool) (p : N) : bool :=
  if client
  then (p =? pOpenReq) || (p =? pDataC2S) || (p =? pDataC2SLE) || (p =? pAckC2S)
  else (p =? pOpenResp) || (p =? pDataS2C) || (p =? pDataS2CLE) || (p =? pAckS2C).

Definition is_close (p : N) : bool := (p =? pCloseReq) || (p =? pCloseResp).

(* what the receivers' output [l] (any transport) makes the session (role, id) queue for its application:
   segments of other sessions are not seen; a refused type ends the session; so does a close *)
Fixpoint session_in (client : bool) (sid : N) (l : list rseg) : list rseg :=
  match l with
  | [] => []
  | r :: t =>
    if mi_sid (fst r) =? sid then
      if accepts client (mi_proto (fst r)) then
        if is_close (mi_proto (fst r)) then []
        else if is_queued (mi_proto (fst r)) then r :: session_in client sid t
        else session_in client sid t
      else []
    else session_in client sid t
  end.

(* ---------------------------------------------------------------- UDP: release to the application *)
(* inputData / moveRecvBufToRecvQueue / inputClose of a packet session.  Sequence numbers are list indexes here.
   recvBuf is keyed by seq (ReplaceOrInsert); segments below nextRecv are ignored; only seq = nextRecv is
   released; a close request / response releases nothing and ends the session. *)
Record ust : Set := mkU { u_next : nat; u_buf : list (nat * list N); u_q : list (list N); u_closed : bool }.
Definition u_init : ust := mkU 0 [] [] false.

Fixpoint buf_lookup (q : nat) (b : list (nat * list N)) : option (list N) :=
  match b with [] => None | (k, p) :: t => if (k =? q)%nat then Some p else buf_lookup q t end.
Fixpoint buf_remove (q : nat) (b : list (nat * list N)) : list (nat * list N) :=
  match b with [] => [] | (k, p) :: t => if (k =? q)%nat then buf_remove q t else (k, p) :: buf_remove q t end.

Fixpoint u_release (fuel : nat) (next : nat) (b : list (nat * list N)) : nat * list (nat * list N) * list (list N) :=
  match fuel with
  | O => (next, b, [])
  | S f => match buf_lookup next b with
           | None => (next, b, [])
           | Some p => let '(n', b', r) := u_release f (S next) (buf_remove next b) in (n', b', p :: r)
           end
  end.

Inductive uevent : Set :=
| UArrive (q : nat) (p : list N)    (* an authenticated sequenced segment was handed to the session *)
| UClose                            (* an authenticated close request / response was handed to the session *)
| UAck.                             (* an authenticated ack (not sequenced: it only moves the send side) *)

Definition u_step (st : ust) (e : uevent) : ust :=
  if u_closed st then st else
  match e with
  | UClose => mkU (u_next st) (u_buf st) (u_q st) true
  | UAck => st
  | UArrive q p =>
    if (q <? u_next st)%nat then st
    else
      let b := (q, p) :: buf_remove q (u_buf st) in
      let '(n', b', r) := u_release (S (length b)) (u_next st) b in
      mkU n' b' (u_q st ++ r) false
  end.

Definition u_run (evs : list uevent) : ust := fold_left u_step evs u_init.

(* ---------------------------------------------------------------- ideal AEAD as a table *)
(* entries (nonce, ciphertext, plaintext): exactly the boxes the key holders sealed *)
Definition boxtab : Set := list (list N * list N * list N).

Fixpoint tab_open (t : boxtab) (n c : list N) : option (list N) :=
  match t with
  | [] => None
  | (n', c', p) :: t' => if list_eqb n n' && list_eqb c c' then Some p else tab_open t' n c
  end.

(* toy seal: plaintext followed by a 16 byte tag that depends on the nonce and on the plaintext length
   (different boxes of the examples get different ciphertexts) *)
Definition toy_tag (n p : list N) : list N :=
  firstn tagLen (map (fun b => (b + lenN p) mod 256) n ++ repeat 7 tagLen).
Definition toy_seal (n p : list N) : list N := p ++ toy_tag n p.

(* the table of one TCP direction *)
Fixpoint tcp_tab (n : list N) (boxes : list (list N)) : boxtab :=
  match boxes with
  | [] => []
  | p :: t => (n, toy_seal n p, p) :: tcp_tab (nonce_inc n) t
  end.

(* the table of a list of datagrams (nonce, segment): metadata and payload under the same nonce *)
Definition udp_tab (marshal_meta : minfo -> list N) (le_len : leparams -> N -> N)
           (ds : list (list N * segment)) : boxtab :=
  concat (map (fun d : list N * segment =>
                 let (n, s) := d in
                 map (fun p => (n, toy_seal n p, p)) (seg_boxes marshal_meta le_len s)) ds).

(* identity "codec" for examples without low entropy segments *)
Definition le_len_id (_ : leparams) (n : N) : N := n.
Definition le_encode_id (_ : leparams) (_ : bool) (c : list N) : list N := c.
Definition le_decode_id (_ : leparams) (_ : N) (c : list N) : option (list N) := Some c.

(* replace k bytes at offset o by r (substitution / splice); lengths may change when length r <> k *)
Definition splice (o k : nat) (r : list N) (l : list N) : list N := firstn o l ++ r ++ skipn (o + k) l.
