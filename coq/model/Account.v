(* C19 — model of the two places where "what is counted" and "which quota is in force" are decided outside
   counter.go and checkQuota:
     * Session.Read of a server session (pkg/protocol/session.go): the receive queue of segment payloads, the
       leftover buffer (unreadBuf) of a segment that did not fit the caller's buffer, and the single place
       where the returned length is added to the user's UploadBytes;
     * serveruser.Registry.SetUsers / discovery: the published user generation and the policy snapshot handed
       to a new session.
   Definitions only. *)
From Coq Require Import ZArith NArith List Bool.
From M Require Import gen.Consts model.Counter model.Quota.
Import ListNotations.
Open Scope Z_scope.

Definition bytes := list N.

(* ---- Session.Read ---- *)

Record rstate := mkR { r_queue : list bytes;      (* payloads waiting in recvQueue, in order *)
                       r_unread : bytes;          (* unreadBuf *)
                       r_counted : Z }.           (* what this session has added to uploadBytes *)

(* the part of the loop that takes segments from recvQueue while the buffer has room for [want] more bytes:
   (bytes copied, new unreadBuf, rest of the queue) *)
Fixpoint take_segs (want : nat) (q : list bytes) : bytes * bytes * list bytes :=
  match q with
  | [] => ([], [], [])
  | seg :: q' =>
    if (want <=? length seg)%nat then (firstn want seg, skipn want seg, q')
    else let '(out, un, q'') := take_segs (want - length seg) q' in (seg ++ out, un, q'')
  end.

Definition is_nil {A} (l : list A) : bool := match l with [] => true | _ => false end.

Inductive rres :=
| RZero                 (* len(b) = 0: return 0, nil at once *)
| RBlock                (* nothing available: the call waits for a segment / EOF / the deadline; returns 0 bytes *)
| RData (out : bytes).  (* n > 0 bytes copied into b: the tail of Read, the only place that counts *)

(* Read(b) with len(b) = want *)
Definition read (st : rstate) (want : nat) : rres * rstate :=
  match want with
  | O => (RZero, st)
  | _ =>
    let a := firstn want (r_unread st) in
    let un := skipn want (r_unread st) in
    if (length a =? want)%nat || negb (is_nil un) then
      (* the leftover filled b, or part of it is still left: break *)
      (RData a, mkR (r_queue st) un (r_counted st + Z.of_nat (length a)))
    else
      let '(out, un', q') := take_segs (want - length a) (r_queue st) in
      match a ++ out with
      | [] => (RBlock, mkR q' un' (r_counted st))
      | o => (RData o, mkR q' un' (r_counted st + Z.of_nat (length o)))
      end
  end.

Definition returned (r : rres) : bytes := match r with RData o => o | _ => [] end.

(* the bytes the session still owes the application *)
Definition pending (st : rstate) : bytes := r_unread st ++ concat (r_queue st).

(* a sequence of Read calls with the given buffer sizes: the returned slices, in order *)
Fixpoint reads (st : rstate) (wants : list nat) : list bytes * rstate :=
  match wants with
  | [] => ([], st)
  | w :: ws => let '(r, st1) := read st w in
               let '(outs, st2) := reads st1 ws in (returned r :: outs, st2)
  end.

(* the variant with a "fast path" that serves a buffer-filling leftover before the loop and returns early
   (the tail that counts is skipped); used only for the refutation witness *)
Definition read_fastpath (st : rstate) (want : nat) : rres * rstate :=
  match want with
  | O => (RZero, st)
  | _ => if (want <=? length (r_unread st))%nat
         then (RData (firstn want (r_unread st)), mkR (r_queue st) (skipn want (r_unread st)) (r_counted st))
         else read st want
  end.

Fixpoint reads_fastpath (st : rstate) (wants : list nat) : list bytes * rstate :=
  match wants with
  | [] => ([], st)
  | w :: ws => let '(r, st1) := read_fastpath st w in
               let '(outs, st2) := reads_fastpath st1 ws in (returned r :: outs, st2)
  end.

(* ---- the user registry ---- *)

Record urec := mkU { ur_name : uname; ur_cred : Z; ur_quotas : list quota }.   (* one compiled user *)
Definition generation := list urec.           (* one published generation; a finite map, first match wins *)
Definition registry := option generation.      (* Registry.users: nil before the first SetUsers *)

Fixpoint find_user (u : uname) (g : generation) : option urec :=
  match g with
  | [] => None
  | x :: r => if name_eqb (ur_name x) u then Some x else find_user u r
  end.

(* SetUsers(cfg): compile and publish, whatever was published before *)
Definition set_users (cur : registry) (cfg : generation) : registry := Some cfg.

(* the policy snapshot discovery hands to a new session of user u (tryUser -> Authentication.Policy) *)
Definition policy_in_force (r : registry) (u : uname) : option policy :=
  match r with
  | None => None
  | Some g => option_map (fun x => mkP (ur_name x) (ur_quotas x)) (find_user u g)
  end.

Inductive rev :=
| EvReload (cfg : generation)     (* Mux.SetServerUsers: start, Reload RPC *)
| EvTraffic.                      (* anything else: sessions, traffic, time passing *)

Definition rstep (r : registry) (e : rev) : registry :=
  match e with EvReload cfg => set_users r cfg | EvTraffic => r end.

Definition run_registry (r : registry) (evs : list rev) : registry := fold_left rstep evs r.

Definition is_traffic (e : rev) : Prop := match e with EvTraffic => True | EvReload _ => False end.

(* the decision taken on the open-session request of a session of u that authenticates now *)
Definition decision (r : registry) (u : uname) (m : metrics_map) (now : Z) : qres :=
  check_quota (policy_in_force r u) u m now.

(* the variant that keeps the current generation when ids, names and credentials are unchanged (positions in
   the list stand for the dense ids); used only for the refutation witness *)
Fixpoint same_identities (a b : generation) : bool :=
  match a, b with
  | [], [] => true
  | x :: a', y :: b' => name_eqb (ur_name x) (ur_name y) && (ur_cred x =? ur_cred y) && same_identities a' b'
  | _, _ => false
  end.

Definition set_users_shortcut (cur : registry) (cfg : generation) : registry :=
  match cur with
  | Some g => if same_identities g cfg then cur else Some cfg
  | None => Some cfg
  end.
