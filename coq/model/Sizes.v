(* C14 — size arithmetic of pkg/protocol: fragment size, padding budget, low-entropy expansion, the
   layout of a UDP datagram of every segment kind, and the fragmenting plan of Session.Write.
   Definitions only.  Go's [int] is modelled by unbounded Z (all quantities stay far below 2^63);
   Go's truncated division/remainder are Z.quot/Z.rem; conversions to uint8/uint16 are written as
   explicit [mod].  Every number that comes from the Go source is a constant of gen/Consts.v. *)
From Coq Require Import ZArith List Bool.
From M Require Import gen.Consts.
Import ListNotations.
Open Scope Z_scope.

(* ---------- transports and low-entropy modes (numeric values of the Go enums) ---------- *)
Definition is_stream (t : Z) : bool := t =? C14_TransportStream.
Definition is_packet (t : Z) : bool := t =? C14_TransportPacket.

(* buildLowEntropyParams(mode).sourceBytesPerChunk; None = "invalid low entropy mode" *)
Definition src_bytes (mode : Z) : option Z :=
  if mode =? C14_Mode32 then Some C14_Src32
  else if mode =? C14_Mode40 then Some C14_Src40
  else if mode =? C14_Mode48 then Some C14_Src48
  else if mode =? C14_Mode56 then Some C14_Src56
  else None.

Definition u16 (x : Z) : Z := x mod (C14_MaxUint16 + 1).
Definition u8 (x : Z) : Z := x mod (C14_MaxUint8 + 1).

(* math.MaxUint16 / lowEntropyChunkLen *)
Definition max_chunks : Z := Z.quot C14_MaxUint16 C14_lowEntropyChunkLen.

(* segment.go maxFragmentSizeInternal *)
Definition max_fragment_internal (mtu t : Z) : Z :=
  if is_stream t then C14_maxPDU else Z.max 0 (mtu - C14_packetOverhead).

(* segment.go maxFragmentSize; None = error *)
Definition max_fragment (mtu t mode : Z) : option Z :=
  if mode =? C14_ModeOff then Some (max_fragment_internal mtu t)
  else match src_bytes mode with
       | None => None
       | Some sb =>
         if is_stream t then Some (Z.min (max_fragment_internal mtu t) (max_chunks * sb))
         else if is_packet t then
           let c := Z.quot (mtu - C14_packetOverhead) C14_lowEntropyChunkLen in
           if c <=? 0 then None else Some (c * sb)
         else Some (max_fragment_internal mtu t)
       end.

(* padding.go maxPaddingSize *)
Definition max_padding (mtu t frag existing : Z) : Z :=
  if is_stream t then C14_StreamPaddingCap
  else let res := mtu - frag - C14_packetOverhead in
       if res <=? existing then 0 else Z.min (res - existing) C14_PacketPaddingCap.

(* padding.go maxPaddingSizeWithTrafficPattern; [cfg] = the configured maximum of the position asked for
   (None: no traffic pattern / no padding pattern / field unset / unknown position) *)
Definition max_padding_tp (mtu t frag existing : Z) (cfg : option Z) : Z :=
  let m := max_padding mtu t frag existing in
  match cfg with
  | None => m
  | Some c => if c <? 0 then 0 else Z.min m c
  end.

(* low_entropy.go lowEntropyEncodedPayloadLen; None = error *)
Definition le_encoded_len (n mode : Z) : option Z :=
  match src_bytes mode with
  | None => None
  | Some sb =>
    if n <=? 0 then None
    else let c := Z.quot n sb + (if Z.rem n sb =? 0 then 0 else 1) in
         if c >? max_chunks then None else Some (u16 (c * C14_lowEntropyChunkLen))
  end.

(* session.go lowEntropySendConfig: mode actually used for sending.
   [cfg] = configured mode (None: no traffic pattern / no low-entropy pattern) *)
Definition effective_mode (is_client : bool) (cfg : option Z) (client_used_le : bool) : Z :=
  match cfg with
  | None => C14_ModeOff
  | Some m => if m =? C14_ModeOff then C14_ModeOff
              else if negb is_client && negb client_used_le then C14_ModeOff else m
  end.

(* ---------- segments ---------- *)
Inductive kind := KOpenReq | KOpenResp | KCloseReq | KCloseResp | KData | KDataLE | KAck.

Definition is_session (k : kind) : bool :=
  match k with KOpenReq | KOpenResp | KCloseReq | KCloseResp => true | _ => false end.

(* protocol number on the wire *)
Definition proto_of (is_client : bool) (k : kind) : Z :=
  match k with
  | KOpenReq => C14_ProtoOpenSessionRequest
  | KOpenResp => C14_ProtoOpenSessionResponse
  | KCloseReq => C14_ProtoCloseSessionRequest
  | KCloseResp => C14_ProtoCloseSessionResponse
  | KData => if is_client then C14_ProtoDataClientToServer else C14_ProtoDataServerToClient
  | KDataLE => if is_client then C14_ProtoDataClientToServerLE else C14_ProtoDataServerToClientLE
  | KAck => if is_client then C14_ProtoAckClientToServer else C14_ProtoAckServerToClient
  end.

Record seg := mkSeg {
  s_kind : kind;
  s_frag : Z;   (* dataAckStruct.fragment (uint8) *)
  s_plen : Z;   (* metadata payloadLen (uint16) *)
  s_ext  : Z;   (* dataAckStruct.extractedPayloadLen (uint16), 0 unless low entropy *)
  s_body : Z    (* len(seg.payload): plaintext bytes carried *)
}.

(* control segments as session.go builds them: no payload *)
Definition control_seg (k : kind) : seg := mkSeg k 0 0 0 0.

(* ---------- datagram layout (underlay_packet.go writeOneSegment) ---------- *)
Definition header_len : Z := C14_MetadataLength + C14_NonceSize + C14_TagOverhead.

Definition wire_payload (s : seg) : Z :=
  if s_body s >? 0 then
    (match s_kind s with KDataLE => s_plen s | _ => s_body s end) + C14_TagOverhead
  else 0.

Definition dgram_len (s : seg) (p1 p2 : Z) : Z :=
  header_len + (if is_session (s_kind s) then 0 else p1) + wire_payload s + p2.

(* maxima handed to newPadding for the prefix (middle) and suffix (end) padding *)
Definition pad1_max (mtu t : Z) (cfg_mid : option Z) (s : seg) : Z :=
  if is_session (s_kind s) then 0 else max_padding_tp mtu t (s_plen s) 0 cfg_mid.
Definition pad2_max (mtu t : Z) (cfg_end : option Z) (s : seg) (p1 : Z) : Z :=
  max_padding_tp mtu t (s_plen s) (if is_session (s_kind s) then 0 else p1) cfg_end.

(* the padding draws are oracle inputs: only their range is known *)
Definition draws_ok (mtu t : Z) (cfg_mid cfg_end : option Z) (s : seg) (p1 p2 : Z) : Prop :=
  0 <= p1 <= pad1_max mtu t cfg_mid s /\ 0 <= p2 <= pad2_max mtu t cfg_end s p1.
Definition draws_okb (mtu t : Z) (cfg_mid cfg_end : option Z) (s : seg) (p1 p2 : Z) : bool :=
  (0 <=? p1) && (p1 <=? pad1_max mtu t cfg_mid s) && (0 <=? p2) && (p2 <=? pad2_max mtu t cfg_end s p1).

(* ---------- Session.writeChunk / Session.Write ---------- *)
Inductive outcome := Ok | Err | Panic | Fuel.

(* the fragment loop  for i := nFragment-1; i >= 0; i--  ([i] = S i' on entry, fragment number i') *)
Fixpoint frag_loop (i : nat) (le : bool) (mode fs rem : Z) : list seg * bool :=
  match i with
  | O => ([], true)
  | S i' =>
    let part := Z.min fs rem in
    match (if le then le_encoded_len part mode else Some (u16 part)) with
    | None => ([], false)
    | Some plen =>
      let s := mkSeg (if le then KDataLE else KData) (u8 (Z.of_nat i')) plen (if le then u16 part else 0) part in
      let (rest, ok) := frag_loop i' le mode fs (rem - part) in
      (s :: rest, ok)
    end
  end.

Definition n_fragments (fs len : Z) : Z :=
  if len >? fs then Z.quot (len - 1) fs + 1 else 1.

(* writeChunk of [len] bytes (0 < len <= maxPDU): segments queued, outcome *)
Definition write_chunk (mtu t mode len : Z) : list seg * outcome :=
  match max_fragment mtu t mode with
  | None => ([], Err)
  | Some fs =>
    if (len >? fs) && (fs =? 0) then ([], Panic)   (* integer divide by zero *)
    else
      let le := negb (mode =? C14_ModeOff) in
      let (segs, ok) := frag_loop (Z.to_nat (n_fragments fs len)) le mode fs len in
      (segs, if ok then Ok else Err)
  end.

(* the loop of Write over maxPDU-sized chunks: segments queued, bytes reported written, outcome *)
Fixpoint chunk_loop (fuel : nat) (mtu t mode rem : Z) : list seg * Z * outcome :=
  match fuel with
  | O => ([], 0, if rem <=? 0 then Ok else Fuel)
  | S f =>
    if rem <=? 0 then ([], 0, Ok)
    else
      let size := Z.min rem C14_maxPDU in
      match write_chunk mtu t mode size with
      | (segs, Ok) =>
        let '(rest, w, o) := chunk_loop f mtu t mode (rem - size) in
        (segs ++ rest, size + w, o)
      | (segs, o) => (segs, 0, o)
      end
  end.

Definition chunk_fuel (n : Z) : nat := S (Z.to_nat (Z.quot n C14_maxPDU)).

(* Session.Write of [n] bytes. [first]: client session in state attached whose open session request
   has not been sent yet.  [mode]: effective send mode. *)
Definition write (is_client first : bool) (mtu t mode n : Z) : list seg * Z * outcome :=
  if is_client && first then
    let piggy := (mode =? C14_ModeOff) && (n <=? C14_MaxSessionOpenPayload) in
    let body := if piggy then n else 0 in
    let open := mkSeg KOpenReq 0 (u16 body) 0 body in
    if body >? 0 then ([open], body, Ok)
    else let '(segs, w, o) := chunk_loop (chunk_fuel n) mtu t mode n in (open :: segs, w, o)
  else chunk_loop (chunk_fuel n) mtu t mode n.

(* every segment a packet-transport session hands to writeOneSegment: what a Write queued (first
   transmission and every retransmission serialise the same segment again, with fresh padding draws),
   or a control segment / acknowledgement without payload *)
Definition emitted (is_client first : bool) (mtu t mode n : Z) (s : seg) : Prop :=
  In s (fst (fst (write is_client first mtu t mode n))) \/
  (exists k, (k = KOpenReq \/ k = KOpenResp \/ k = KCloseReq \/ k = KCloseResp \/ k = KAck) /\ s = control_seg k).

(* ---------- the same plan with the bytes attached ---------- *)
Section Bytes.
  Context {A : Type}.

  (* inside writeChunk: part := ptr[:partLen]; ptr = ptr[partLen:] *)
  Fixpoint attach (segs : list seg) (ptr : list A) : list (seg * list A) :=
    match segs with
    | [] => []
    | s :: r => (s, firstn (Z.to_nat (s_body s)) ptr) :: attach r (skipn (Z.to_nat (s_body s)) ptr)
    end.

  (* Write's loop: writeChunk(b[:sizeToSend]); b = b[sizeToSend:] *)
  Fixpoint chunk_loop_bytes (fuel : nat) (mtu t mode : Z) (b : list A) : list (seg * list A) * Z * outcome :=
    let rem := Z.of_nat (length b) in
    match fuel with
    | O => ([], 0, if rem <=? 0 then Ok else Fuel)
    | S f =>
      if rem <=? 0 then ([], 0, Ok)
      else
        let size := Z.min rem C14_maxPDU in
        match write_chunk mtu t mode size with
        | (segs, Ok) =>
          let '(rest, w, o) := chunk_loop_bytes f mtu t mode (skipn (Z.to_nat size) b) in
          (attach segs (firstn (Z.to_nat size) b) ++ rest, size + w, o)
        | (segs, o) => (attach segs (firstn (Z.to_nat size) b), 0, o)
        end
    end.

  Definition plan_write (is_client first : bool) (mtu t mode : Z) (b : list A) : list (seg * list A) * Z * outcome :=
    let n := Z.of_nat (length b) in
    if is_client && first then
      let piggy := (mode =? C14_ModeOff) && (n <=? C14_MaxSessionOpenPayload) in
      let body := if piggy then n else 0 in
      let open := mkSeg KOpenReq 0 (u16 body) 0 body in
      if body >? 0 then ([(open, b)], body, Ok)
      else let '(segs, w, o) := chunk_loop_bytes (chunk_fuel n) mtu t mode b in ((open, []) :: segs, w, o)
    else chunk_loop_bytes (chunk_fuel n) mtu t mode b.
End Bytes.

(* ---------- flat views for the extracted runner ---------- *)
Definition kind_code (k : kind) : Z :=
  match k with KOpenReq => 0 | KOpenResp => 1 | KCloseReq => 2 | KCloseResp => 3 | KData => 4 | KDataLE => 5 | KAck => 6 end.
Definition kind_of_code (c : Z) : kind :=
  if c =? 0 then KOpenReq else if c =? 1 then KOpenResp else if c =? 2 then KCloseReq
  else if c =? 3 then KCloseResp else if c =? 4 then KData else if c =? 5 then KDataLE else KAck.
Definition outcome_code (o : outcome) : Z :=
  match o with Ok => 0 | Err => 1 | Panic => 2 | Fuel => 3 end.
Definition valid_mtu (mtu : Z) : bool := (C14_ServerMinMTU <=? mtu) && (mtu <=? C14_ServerMaxMTU).
