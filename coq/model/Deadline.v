(* C15, part 1: the deadline state of a mieru session as pkg/protocol/session.go implements it.

   Times are microseconds (Z); deadline value 0 = "no deadline" (atomic.Int64 readDeadline / writeDeadline).
     SetDeadline / SetReadDeadline / SetWriteDeadline   store a value (zero time.Time stores 0);
     Read       loads readDeadline once at its start (arms time.After), and a deferred function stores 0 when it
                returns - on every return path;
     Write      returns ErrClosedPipe before anything else when closeRequested is set (no reset in that case);
                otherwise a deferred function stores 0 into writeDeadline when it returns; every writeChunk loads
                writeDeadline at its start; a client-side writeChunk that completes stores now + serverRespTimeout
                into readDeadline.
   The wait points of Read / writeChunk and which of them look at the deadline timer are in Lifecycle.v; here a
   blocking call is summarised by the times at which its exits become enabled (None = never). *)
From Coq Require Import ZArith List Bool.
From M Require Import gen.Consts.
Import ListNotations.
Open Scope Z_scope.

Inductive cls := DATA | EOF | TIMEOUT | UEOF | CLOSED | OK | ERR | BLOCKED.

Definition cls_eqb (a b : cls) : bool :=
  match a, b with
  | DATA, DATA | EOF, EOF | TIMEOUT, TIMEOUT | UEOF, UEOF | CLOSED, CLOSED | OK, OK | ERR, ERR | BLOCKED, BLOCKED => true
  | _, _ => false
  end.

Record dstate := mkD { rd : Z; wd : Z }.

Inductive which := WhR | WhW | WhB.

Definition set_deadline (w : which) (abs : Z) (s : dstate) : dstate :=
  match w with
  | WhR => mkD abs (wd s)
  | WhW => mkD (rd s) abs
  | WhB => mkD abs abs
  end.

(* the deadline a Read issued now will honour *)
Definition read_eff (s : dstate) : Z := rd s.
(* state after a Read returned *)
Definition read_return (s : dstate) : dstate := mkD 0 (wd s).
(* the deadline a Write issued now will honour (every chunk of it) *)
Definition write_eff (s : dstate) : Z := wd s.
(* state after a Write returned with class c at time t; early = it returned at the closeRequested test *)
Definition write_return (client early : bool) (c : cls) (t : Z) (s : dstate) : dstate :=
  if early then s
  else mkD (if client && cls_eqb c OK then t + C15_serverRespTimeout_ns / 1000 else rd s) 0.

(* --- one blocking call, summarised by when its exits become enabled ------------------------------------ *)

Definition omin (a b : option Z) : option Z :=
  match a, b with
  | Some x, Some y => Some (Z.min x y)
  | Some x, None => Some x
  | None, y => y
  end.

Definition at_or_after (now : Z) (o : option Z) : option Z := option_map (Z.max now) o.
Definition dl_exit (now eff : Z) : option Z := if eff =? 0 then None else Some (Z.max now eff).

Definition is_at (t : Z) (o : option Z) : bool := match o with Some x => x =? t | None => false end.

(* Read: recvQueue is looked at first; then select {closedChan, inputErr, timer, not-empty}.  The earliest
   enabled exit wins; ties are broken data > closed > inputErr > timer (Go picks at random among ready cases:
   the acceptor of Lifecycle.v is tolerant about ties, this function is the point prediction). *)
Definition read_outcome (now eff : Z) (data closed err : option Z) : cls * option Z :=
  let d := at_or_after now data in
  let c := at_or_after now closed in
  let e := at_or_after now err in
  let t := dl_exit now eff in
  match omin (omin d c) (omin e t) with
  | None => (BLOCKED, None)
  | Some m => if is_at m d then (DATA, Some m) else if is_at m c then (EOF, Some m)
              else if is_at m e then (UEOF, Some m) else (TIMEOUT, Some m)
  end.

(* Write (one chunk).  Wait points in program order:
     space : loop while the send queue is full      exits: closedChan -> EOF, outputErr -> CLOSED, timer -> TIMEOUT, space
     olock : s.oLock.Lock()                          exit : the lock is free (held by the output loop during conn.Write)
     move  : loop until the queue is empty or moves  exit : queue event only (closing the session empties the queue)
   space/olock/move = time at which that wait's own exit is enabled. *)
Definition write_outcome (now eff : Z) (creq : bool) (space olock move closed oerr : option Z) : cls * option Z :=
  if creq then (CLOSED, Some now) else
  let sp := at_or_after now space in
  let c := at_or_after now closed in
  let e := at_or_after now oerr in
  let t := dl_exit now eff in
  match omin (omin sp c) (omin e t) with
  | None => (BLOCKED, None)
  | Some m =>
    if is_at m sp then
      match at_or_after m olock with
      | None => (BLOCKED, None)
      | Some l =>
        (* fragment insertion polls closedChan / outputErr / timer once per fragment *)
        if (match c with Some x => x <=? l | None => false end) then (EOF, Some l)
        else if (match e with Some x => x <=? l | None => false end) then (CLOSED, Some l)
        else if (match t with Some x => x <=? l | None => false end) then (TIMEOUT, Some l)
        else match omin (at_or_after l move) (at_or_after l closed) with
             | None => (BLOCKED, None)
             | Some r => (OK, Some r)
             end
      end
    else if is_at m c then (EOF, Some m) else if is_at m e then (CLOSED, Some m) else (TIMEOUT, Some m)
  end.

(* --- executable sequential scripts --------------------------------------------------------------------- *)

Inductive op :=
| OSet (w : which) (abs : Z)                                   (* absolute deadline, 0 clears *)
| ORead (data closed err : option Z)
| OWrite (creq : bool) (space olock move closed oerr : option Z)
| OAdvance (dt : Z).

Record st := mkSt { now : Z; ds : dstate; client : bool }.

(* result of one op: None for OSet/OAdvance, Some (class, return time) for calls *)
Definition step (s : st) (o : op) : option st * option (cls * option Z) :=
  match o with
  | OSet w abs => (Some (mkSt (now s) (set_deadline w abs (ds s)) (client s)), None)
  | OAdvance dt => (Some (mkSt (now s + Z.max 0 dt) (ds s) (client s)), None)
  | ORead data closed err =>
    match read_outcome (now s) (read_eff (ds s)) data closed err with
    | (c, Some t) => (Some (mkSt t (read_return (ds s)) (client s)), Some (c, Some t))
    | (c, None) => (None, Some (c, None))
    end
  | OWrite creq space olock move closed oerr =>
    match write_outcome (now s) (write_eff (ds s)) creq space olock move closed oerr with
    | (c, Some t) => (Some (mkSt t (write_return (client s) creq c t (ds s)) (client s)), Some (c, Some t))
    | (c, None) => (None, Some (c, None))
    end
  end.

(* a call that never returns ends the script: the later operations are never issued *)
Fixpoint run (s : st) (l : list op) : list (cls * option Z) :=
  match l with
  | [] => []
  | o :: l' =>
    match step s o with
    | (Some s', None) => run s' l'
    | (Some s', Some r) => r :: run s' l'
    | (None, Some r) => [r]
    | (None, None) => []
    end
  end.

Definition returns_by (d : Z) (r : cls * option Z) : bool :=
  match snd r with Some t => t <=? d | None => false end.

Fixpoint count_calls (l : list op) : nat :=
  match l with
  | [] => O
  | ORead _ _ _ :: l' => S (count_calls l')
  | OWrite _ _ _ _ _ _ :: l' => S (count_calls l')
  | _ :: l' => count_calls l'
  end.

Definition is_read (o : op) : bool := match o with ORead _ _ _ => true | _ => false end.
Definition is_write (o : op) : bool := match o with OWrite _ _ _ _ _ _ => true | _ => false end.
