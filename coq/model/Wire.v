(* Wire format of the mieru protocol: docs/protocol.md transcribed, mirroring
   pkg/protocol/metadata.go (sessionStruct / dataAckStruct Marshal and Unmarshal, the protocol
   type predicates, validateLowEntropyDataAckMetadata), pkg/protocol/low_entropy.go (mode table,
   isValidLowEntropyRotation, lowEntropyEncodedPayloadLen) and pkg/cipher/cipher.go (increaseNonce).

   Bytes and fields are N.  The validity checks of Unmarshal that depend on the clock (timestamp
   within one minute of now) are NOT part of this model: C08 owns them (model/KeyTime.v).
   Cryptographic primitives (SHA-256, PBKDF2, XChaCha20-Poly1305) are uninterpreted: they appear
   only as variables of Section Crypto; conformance of those is by test vectors (harness/cmd/c09).
   Definitions only: no proofs here. *)
From Coq Require Import NArith ZArith List Bool.
From M Require Import gen.Consts.
Import ListNotations.
Open Scope N_scope.

(* ---------------------------------------------------------------- constants (from the Go source) *)

Definition MetadataLength : N := Z.to_N C09_MetadataLength.
Definition MaxSessionOpenPayload : N := Z.to_N C09_MaxSessionOpenPayload.
Definition maxPDU : N := Z.to_N C09_maxPDU.
Definition chunkLen : N := Z.to_N C09_lowEntropyChunkLen.
Definition NonceSize : N := Z.to_N C09_NonceSize.
Definition TagOverhead : N := Z.to_N C09_TagOverhead.
Definition HintInputLen : N := Z.to_N C09_HintInputLen.
Definition HintLen : N := Z.to_N C09_HintLen.

Definition T_openSessionRequest : N := Z.to_N C09_ProtoOpenSessionRequest.
Definition T_openSessionResponse : N := Z.to_N C09_ProtoOpenSessionResponse.
Definition T_closeSessionRequest : N := Z.to_N C09_ProtoCloseSessionRequest.
Definition T_closeSessionResponse : N := Z.to_N C09_ProtoCloseSessionResponse.
Definition T_dataClientToServer : N := Z.to_N C09_ProtoDataClientToServer.
Definition T_dataServerToClient : N := Z.to_N C09_ProtoDataServerToClient.
Definition T_ackClientToServer : N := Z.to_N C09_ProtoAckClientToServer.
Definition T_ackServerToClient : N := Z.to_N C09_ProtoAckServerToClient.
Definition T_dataClientToServerLE : N := Z.to_N C09_ProtoDataClientToServerLE.
Definition T_dataServerToClientLE : N := Z.to_N C09_ProtoDataServerToClientLE.

(* ---------------------------------------------------------------- protocol type predicates *)

Definition is_session (p : N) : bool :=
  (p =? T_openSessionRequest) || (p =? T_openSessionResponse) || (p =? T_closeSessionRequest) || (p =? T_closeSessionResponse).
Definition is_low_entropy (p : N) : bool := (p =? T_dataClientToServerLE) || (p =? T_dataServerToClientLE).
Definition is_data (p : N) : bool := (p =? T_dataClientToServer) || (p =? T_dataServerToClient) || is_low_entropy p.
Definition is_ack (p : N) : bool := (p =? T_ackClientToServer) || (p =? T_ackServerToClient).
Definition is_data_ack (p : N) : bool := is_data p || is_ack p.

(* ---------------------------------------------------------------- bytes, big endian *)

Definition byte_ok (b : N) : Prop := b < 256.
Definition b8 (v : N) : N := v mod 256.
Definition be16 (v : N) : list N := [v / 256 mod 256; v mod 256].
Definition be32 (v : N) : list N := [v / 16777216 mod 256; v / 65536 mod 256; v / 256 mod 256; v mod 256].

(* value of a little-endian / big-endian byte string *)
Fixpoint le_val (l : list N) : N := match l with [] => 0 | b :: t => b + 256 * le_val t end.
Definition be_val (l : list N) : N := le_val (rev l).

(* bytes [off, off+len) *)
Definition slice (off len : nat) (l : list N) : list N := firstn len (skipn off l).
Definition byte_at (off : nat) (l : list N) : N := nth off l 0.
Definition zeros (n : nat) : list N := repeat 0 n.

(* ---------------------------------------------------------------- the three metadata layouts *)

(* Session metadata (types 2..5):
   | protocol type 1 | unused 1 | timestamp 4 | session ID 4 | sequence number 4 | status code 1 | payload length 2 | suffix length 1 | unused 14 | *)
Record session_meta := {
  s_proto : N; s_ts : N; s_sid : N; s_seq : N; s_status : N; s_plen : N; s_slen : N }.

(* Data metadata (types 6..9) and its low entropy extension (types 10, 11):
   | protocol type 1 | unused or low entropy mode 1 | timestamp 4 | session ID 4 | sequence number 4 | unack sequence number 4 |
   | window size 2 | fragment number 1 | prefix length 1 | payload length 2 | suffix length 1 |
   | unused 7   or   low entropy mask 4, extracted payload length 2, low entropy mask rotation 1 | *)
Record data_meta := {
  d_proto : N; d_mode : N; d_ts : N; d_sid : N; d_seq : N; d_unack : N; d_win : N; d_frag : N;
  d_prefix : N; d_plen : N; d_slen : N; d_mask : N; d_elen : N; d_rot : N }.

(* sessionStruct.Marshal (the timestamp is a field here; Go stamps time.Now()/60 into it first) *)
Definition marshal_session (m : session_meta) : list N :=
  [b8 (s_proto m); 0] ++ be32 (s_ts m) ++ be32 (s_sid m) ++ be32 (s_seq m) ++
  [b8 (s_status m)] ++ be16 (s_plen m) ++ [b8 (s_slen m)] ++ zeros 14.

(* dataAckStruct.Marshal: the low entropy fields are written only for types 10, 11 *)
Definition marshal_data (m : data_meta) : list N :=
  let le := is_low_entropy (b8 (d_proto m)) in
  [b8 (d_proto m); if le then b8 (d_mode m) else 0] ++ be32 (d_ts m) ++ be32 (d_sid m) ++ be32 (d_seq m) ++
  be32 (d_unack m) ++ be16 (d_win m) ++ [b8 (d_frag m); b8 (d_prefix m)] ++ be16 (d_plen m) ++ [b8 (d_slen m)] ++
  (if le then be32 (d_mask m) ++ be16 (d_elen m) ++ [b8 (d_rot m)] else zeros 7).

(* ---------------------------------------------------------------- low entropy metadata validation *)

Fixpoint pop_pos (p : positive) : N :=
  match p with xH => 1 | xO q => pop_pos q | xI q => 1 + pop_pos q end.
Definition popcount (n : N) : N := match n with N0 => 0 | Npos p => pop_pos p end.

(* buildLowEntropyParams: 0 = the mode is rejected *)
Definition mode_source_bytes (mode : N) : N := Z.to_N (nth (N.to_nat mode) C09_modeSourceBytes 0%Z).
Definition mode_mask_ones (mode : N) : N := Z.to_N (nth (N.to_nat mode) C09_modeHalfMaskOnes 0%Z).

(* isValidLowEntropyRotation *)
Definition valid_rotation (rot : N) : bool :=
  (rot =? Z.to_N C09_RotNone) ||
  ((Z.to_N C09_RotRight1 <=? rot) && (rot <=? Z.to_N C09_RotRight15)) ||
  ((Z.to_N C09_RotLeft1 <=? rot) && (rot <=? Z.to_N C09_RotLeft15) && (rot mod 16 =? 0)).

(* validateLowEntropyCodecParams *)
Definition le_params_ok (mode mask rot : N) : bool :=
  negb (mode_source_bytes mode =? 0) && (popcount mask =? mode_mask_ones mode) && valid_rotation rot.

(* lowEntropyEncodedPayloadLen for n > 0 and a valid mode: None = not representable in 16 bits *)
Definition le_encoded_len (n mode : N) : option N :=
  let c := mode_source_bytes mode in
  let chunks := (n + c - 1) / c in
  if 65535 / chunkLen <? chunks then None else Some (chunks * chunkLen).

(* validateLowEntropyDataAckMetadata *)
Definition le_meta_ok (mode mask elen plen rot : N) : bool :=
  (elen <=? maxPDU) && (plen mod chunkLen =? 0) && le_params_ok mode mask rot &&
  (if elen =? 0 then plen =? 0
   else match le_encoded_len elen mode with Some l => plen =? l | None => false end).

(* ---------------------------------------------------------------- Unmarshal (clock-independent part) *)

Definition unmarshal_session (b : list N) : option session_meta :=
  if negb (N.of_nat (length b) =? MetadataLength) then None else
  let p := byte_at 0 b in
  if negb (is_session p) then None else
  let plen := be_val (slice 15 2 b) in
  if MaxSessionOpenPayload <? plen then None else
  Some {| s_proto := p; s_ts := be_val (slice 2 4 b); s_sid := be_val (slice 6 4 b); s_seq := be_val (slice 10 4 b);
          s_status := byte_at 14 b; s_plen := plen; s_slen := byte_at 17 b |}.

Definition unmarshal_data (b : list N) : option data_meta :=
  if negb (N.of_nat (length b) =? MetadataLength) then None else
  let p := byte_at 0 b in
  if negb (is_data_ack p) then None else
  let le := is_low_entropy p in
  let mode := if le then byte_at 1 b else 0 in
  let mask := if le then be_val (slice 25 4 b) else 0 in
  let elen := if le then be_val (slice 29 2 b) else 0 in
  let rot := if le then byte_at 31 b else 0 in
  let plen := be_val (slice 22 2 b) in
  if le && negb (le_meta_ok mode mask elen plen rot) then None else
  Some {| d_proto := p; d_mode := mode; d_ts := be_val (slice 2 4 b); d_sid := be_val (slice 6 4 b);
          d_seq := be_val (slice 10 4 b); d_unack := be_val (slice 14 4 b); d_win := be_val (slice 18 2 b);
          d_frag := byte_at 20 b; d_prefix := byte_at 21 b; d_plen := plen; d_slen := byte_at 24 b;
          d_mask := mask; d_elen := elen; d_rot := rot |}.

(* ---------------------------------------------------------------- validity of metadata values *)

Definition session_valid (m : session_meta) : Prop :=
  is_session (s_proto m) = true /\ s_ts m < 2^32 /\ s_sid m < 2^32 /\ s_seq m < 2^32 /\
  s_status m < 256 /\ s_plen m <= MaxSessionOpenPayload /\ s_slen m < 256.

Definition data_common_valid (m : data_meta) : Prop :=
  d_ts m < 2^32 /\ d_sid m < 2^32 /\ d_seq m < 2^32 /\ d_unack m < 2^32 /\ d_win m < 2^16 /\
  d_frag m < 256 /\ d_prefix m < 256 /\ d_plen m < 2^16 /\ d_slen m < 256.

(* types 6..9: the last seven bytes and byte 1 are unused *)
Definition data_valid (m : data_meta) : Prop :=
  is_data_ack (d_proto m) = true /\ is_low_entropy (d_proto m) = false /\ data_common_valid m /\
  d_mode m = 0 /\ d_mask m = 0 /\ d_elen m = 0 /\ d_rot m = 0.

(* types 10, 11 *)
Definition le_valid (m : data_meta) : Prop :=
  is_low_entropy (d_proto m) = true /\ data_common_valid m /\
  d_mode m < 256 /\ d_mask m < 2^32 /\ d_elen m < 2^16 /\ d_rot m < 256 /\
  le_meta_ok (d_mode m) (d_mask m) (d_elen m) (d_plen m) (d_rot m) = true.

(* ---------------------------------------------------------------- nonce increment *)

(* increaseNonce: from the last byte towards the first, add one, stop at the first byte that does not wrap to 0 *)
Fixpoint inc_le (l : list N) : list N :=
  match l with
  | [] => []
  | b :: t => let b' := (b + 1) mod 256 in if b' =? 0 then 0 :: inc_le t else b' :: t
  end.
Definition nonce_inc (n : list N) : list N := rev (inc_le (rev n)).

Fixpoint nonce_iter (k : nat) (n : list N) : list N :=
  match k with O => n | S k' => nonce_inc (nonce_iter k' n) end.

(* ---------------------------------------------------------------- segment layout with uninterpreted crypto *)

Section Crypto.
  Variable H : list N -> list N.                                   (* SHA-256 *)
  Variable KDF : list N -> list N -> N -> N -> list N.             (* PBKDF2-HMAC-SHA256 password salt iterations length *)
  Variable seal : list N -> list N -> list N -> list N.            (* AEAD key nonce plaintext -> ciphertext ++ tag *)

  Definition be64 (v : N) : list N := be32 (v / 4294967296) ++ be32 v.

  (* Key Generation Method *)
  Definition hashed_password (user password : list N) : list N := H (password ++ [0] ++ user).
  Definition time_salt (slot : N) : list N := H (be64 slot).
  Definition derive_key (hp : list N) (slot : N) : list N :=
    KDF hp (time_salt slot) (Z.to_N C09_KeyIter) (Z.to_N C09_KeyLen).

  (* user hint: the last HintLen nonce bytes := first HintLen bytes of H(user ++ first HintInputLen nonce bytes) *)
  Definition user_hint (user nonce : list N) : list N :=
    firstn (N.to_nat HintLen) (H (user ++ firstn (N.to_nat HintInputLen) nonce)).
  Definition set_user_hint (user nonce : list N) : list N :=
    firstn (length nonce - N.to_nat HintLen) nonce ++ user_hint user nonce.

  (* what follows the (optional) nonce on the wire: sealed metadata, padding 1, payload box, padding 2.
     [body] post-processes the payload box (identity, or the low entropy encoding of its ciphertext part). *)
  Definition segment_wire (key nm np meta pad1 payload pad2 : list N) (body : list N -> list N) : list N :=
    seal key nm meta ++ pad1 ++ (match payload with [] => [] | _ => body (seal key np payload) end) ++ pad2.

  (* TCP: the k-th encryption of a direction uses nonce0 + k; the nonce itself precedes the first segment only *)
  Definition tcp_segment (key nonce0 : list N) (k : nat) (first : bool) (meta pad1 payload pad2 : list N) body : list N :=
    (if first then nonce0 else []) ++
    segment_wire key (nonce_iter k nonce0) (nonce_iter (S k) nonce0) meta pad1 payload pad2 body.

  (* UDP: every datagram starts with its nonce, which seals both boxes *)
  Definition udp_datagram (key nonce meta pad1 payload pad2 : list N) body : list N :=
    nonce ++ segment_wire key nonce nonce meta pad1 payload pad2 body.
End Crypto.

(* ---------------------------------------------------------------- UDP server session: which key seals a reply *)

(* pkg/protocol/session.go, Session.input: every authentic segment that reaches the session stores the cipher block
   that opened it (s.block.Store(&seg.block)); PacketUnderlay.writeOneSegment seals every datagram the session
   generates with the stored block.  K is the type of keys; the state is the stored block (None before the first
   segment). *)
Section ReplyKey.
  Variable K : Type.
  Definition sess_input (st : option K) (k : K) : option K := Some k.
  Definition sess_run (st : option K) (ks : list K) : option K := fold_left sess_input ks st.
End ReplyKey.
