(* C07 — model of pkg/protocol/serveruser/registry.go: tryState (candidate order, attempted set)
   and discoverUser (the retry loop over published generations).

   Users of one generation are a list in registry order; the user at position k (0-based) has
   id k+1, as buildState assigns them (ids are dense and start at 1; 0 is the empty cache slot).
   [hint] and [auth] are ARBITRARY boolean functions of a user: [hint u] is
   cipher.CheckUserFromHint(u.name, nonce) for the segment at hand, [auth u] is "u's
   StatelessDecryptor opens the segment".  Nothing is assumed about them (hint collisions and
   shared credentials are allowed).  [cached] is the id list returned by the source cache
   lookup; in the model it is an arbitrary list (stale, out of range, zero, repeated, any
   length), the code passes at most sourceUserCacheUsers ids.

   Modelled bound: a generation has fewer than 2^32 users (userByID compares with
   uint32(len(users))).  buildState's invariant users[k].id = k+1 is used (userByID re-checks it). *)
From Coq Require Import List NArith ZArith Bool.
From M Require Import gen.Consts.
Import ListNotations.
Open Scope N_scope.

(* capacity of tryState's attemptedCachedIDs array: [sourceUserCacheUsers]uint32 *)
Definition att_cap : N := Z.to_N sourceUserCacheUsers.

Inductive origin := OCachedHint | ORegistryHint | OCachedFallback | ORegistryFallback.

Definition origin_code (o : origin) : Z :=
  match o with
  | OCachedHint => matchCachedHint
  | ORegistryHint => matchRegistryHint
  | OCachedFallback => matchCachedFallback
  | ORegistryFallback => matchRegistryFallback
  end.

Section TryState.
  Variable U : Type.
  Variables hint auth : U -> bool.

  (* userByID: nil for 0 and for ids beyond the generation (the range test comes first, as in
     the code; it also keeps N.to_nat away from 32-bit garbage ids when the model is executed) *)
  Definition user_by_id (users : list U) (id : N) : option U :=
    if (id =? 0) || (N.of_nat (length users) <? id) then None
    else nth_error users (N.to_nat (id - 1)).

  Fixpoint index_from (i : N) (us : list U) : list (N * U) :=
    match us with
    | [] => []
    | u :: r => (i, u) :: index_from (i + 1) r
    end.

  (* userIDWasAttempted / markUserIDAttempted on the bounded array *)
  Definition was_attempted (att : list N) (id : N) : bool := existsb (N.eqb id) att.

  Definition mark (att : list N) (id : N) : list N :=
    if (N.of_nat (length att) <? att_cap) && negb (was_attempted att id) then att ++ [id] else att.

  (* One pass over the cached ids.  want = true is phase 1 (cached hint matches),
     want = false is phase 3 (cached fallback).  Returns (hit, attempted set, tried ids). *)
  Fixpoint phase_cached (want : bool) (users : list U) (cached : list N) (att tried : list N)
    : option (N * U) * list N * list N :=
    match cached with
    | [] => (None, att, tried)
    | c :: rest =>
      match user_by_id users c with
      | None => phase_cached want users rest att tried
      | Some u =>
        if was_attempted att c || negb (Bool.eqb (hint u) want)
        then phase_cached want users rest att tried
        else
          let att' := mark att c in
          let tried' := tried ++ [c] in
          if auth u then (Some (c, u), att', tried')
          else phase_cached want users rest att' tried'
      end
    end.

  (* One pass over the whole registry in id order.  want = true is phase 2, false is phase 4. *)
  Fixpoint phase_registry (want : bool) (ius : list (N * U)) (att tried : list N)
    : option (N * U) * list N :=
    match ius with
    | [] => (None, tried)
    | (i, u) :: rest =>
      if was_attempted att i || negb (Bool.eqb (hint u) want)
      then phase_registry want rest att tried
      else
        let tried' := tried ++ [i] in
        if auth u then (Some (i, u), tried')
        else phase_registry want rest att tried'
    end.

  Record result := { r_hit : option (N * U * origin); r_tried : list N }.

  Definition try_state (users : list U) (cached : list N) (mandatory : bool) : result :=
    let ius := index_from 1 users in
    match phase_cached true users cached [] [] with
    | (Some (i, u), _, t1) => {| r_hit := Some (i, u, OCachedHint); r_tried := t1 |}
    | (None, a1, t1) =>
      match phase_registry true ius a1 t1 with
      | (Some (i, u), t2) => {| r_hit := Some (i, u, ORegistryHint); r_tried := t2 |}
      | (None, t2) =>
        if mandatory then {| r_hit := None; r_tried := t2 |}
        else
          match phase_cached false users cached a1 t2 with
          | (Some (i, u), _, t3) => {| r_hit := Some (i, u, OCachedFallback); r_tried := t3 |}
          | (None, a3, t3) =>
            match phase_registry false ius a3 t3 with
            | (Some (i, u), t4) => {| r_hit := Some (i, u, ORegistryFallback); r_tried := t4 |}
            | (None, t4) => {| r_hit := None; r_tried := t4 |}
            end
          end
      end
    end.

  (* accept/reject and the attributed user, without the origin and the trial trace *)
  Definition outcome (r : result) : option (N * U) :=
    match r_hit r with Some (i, u, _) => Some (i, u) | None => None end.

  (* ---------------- discoverUser ---------------- *)

  (* A published generation.  g_id stands for the identity of the *state pointer:
     two loads return the same pointer iff the ids are equal. *)
  Record gen := { g_id : N; g_users : list U }.

  (* What one iteration of the loop observes: the first load, hintMandatory, the ids the
     generation's cache returns for the source, and the second load (requireCurrent check);
     None is a nil pointer. *)
  Record iter := { it_state : option gen; it_mand : bool; it_cached : list N; it_check : option N }.

  Inductive dres :=
  | DOk (g : gen) (i : N) (u : U) (o : origin) (tried : list N)
  | DShort          (* encrypted metadata shorter than the nonce *)
  | DNoUsers        (* nil generation or no user *)
  | DNoAuth         (* tryState found nobody *)
  | DOutOfObs.      (* the observation list ended while the loop was still retrying *)

  Definition same_gen (check : option N) (g : gen) : bool :=
    match check with Some c => c =? g_id g | None => false end.

  Fixpoint discover_loop (require_current : bool) (its : list iter) : dres :=
    match its with
    | [] => DOutOfObs
    | it :: rest =>
      match it_state it with
      | None => DNoUsers
      | Some g =>
        match g_users g with
        | [] => DNoUsers
        | _ =>
          let r := try_state (g_users g) (it_cached it) (it_mand it) in
          if require_current && negb (same_gen (it_check it) g) then discover_loop require_current rest
          else match r_hit r with
               | Some (i, u, o) => DOk g i u o (r_tried r)
               | None => DNoAuth
               end
        end
      end
    end.

  Definition discover (short : bool) (require_current : bool) (its : list iter) : dres :=
    if short then DShort else discover_loop require_current its.

  (* number of iterations the loop consumed (for the correspondence run) *)
  Fixpoint discover_rounds (require_current : bool) (its : list iter) : N :=
    match its with
    | [] => 0
    | it :: rest =>
      match it_state it with
      | None => 1
      | Some g =>
        match g_users g with
        | [] => 1
        | _ => if require_current && negb (same_gen (it_check it) g)
               then 1 + discover_rounds require_current rest else 1
        end
      end
    end.
End TryState.

Arguments r_hit {U}.
Arguments r_tried {U}.
Arguments g_id {U}.
Arguments g_users {U}.
Arguments it_state {U}.
Arguments it_mand {U}.
Arguments it_cached {U}.
Arguments it_check {U}.
Arguments DOk {U}.
Arguments DShort {U}.
Arguments DNoUsers {U}.
Arguments DNoAuth {U}.
Arguments DOutOfObs {U}.

(* ---------------- UDP: the existing-session shortcut (underlay_packet.go) ----------------

   PacketUnderlay.readOneSegment first offers every datagram to the sessions of the underlay
   (tryDecryptExistingSession): a session is asked only if its peer address equals the
   datagram's source address — IP AND port — and it owns the datagram if its cipher opens
   the metadata.  Only when no session owns it is the registry consulted (Discover).  The
   segment of a NEW session that is owned this way (a client multiplexing several sessions
   over one socket) takes the user and the policy of the owning session: neither the hint
   nor the registry is looked at.

   A session is (peer ip, peer port, attributed user id).  [opens s] = "the cipher of session
   s opens this datagram": an ARBITRARY boolean function (with shared credentials the ciphers
   of other users' sessions open it too).  [peer] is the address test; the code's is
   [same_peer].  sync.Map.Range visits the sessions in no particular order; [find] fixes one
   order, the theorems show the order is irrelevant. *)

Record usession := { us_ip : N; us_port : N; us_user : N }.

Definition same_peer (ip port : N) (s : usession) : bool := (us_ip s =? ip) && (us_port s =? port).

Definition shortcut (peer : N -> N -> usession -> bool) (opens : usession -> bool)
           (ss : list usession) (ip port : N) : option usession :=
  find (fun s => peer ip port s && opens s) ss.

(* the user a first segment from (ip, port) is attributed to; [disc] is what discovery
   (try_state on the current generation) answers for it *)
Definition udp_attribute (peer : N -> N -> usession -> bool) (opens : usession -> bool)
           (ss : list usession) (ip port : N) (disc : option N) : option N :=
  match shortcut peer opens ss ip port with
  | Some s => Some (us_user s)
  | None => disc
  end.

Record uevent := { ev_ip : N; ev_port : N; ev_disc : option N; ev_opens : usession -> bool }.

(* first segments of new sessions, one after the other; an accepted one creates a session *)
Fixpoint udp_run (peer : N -> N -> usession -> bool) (ss : list usession) (evs : list uevent)
  : list usession * list (option N) :=
  match evs with
  | [] => (ss, [])
  | e :: rest =>
    let a := udp_attribute peer (ev_opens e) ss (ev_ip e) (ev_port e) (ev_disc e) in
    let ss' := match a with
               | Some u => ss ++ [{| us_ip := ev_ip e; us_port := ev_port e; us_user := u |}]
               | None => ss
               end in
    let '(fin, outs) := udp_run peer ss' rest in
    (fin, a :: outs)
  end.
