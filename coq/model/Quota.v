(* C19 — model of Session.checkQuota (pkg/protocol/session.go): the decision taken on an open-session
   request of an authenticated user, as a function of the user's policy snapshot, the per-user
   upload/download time series and the wall clock.  Definitions only. *)
From Coq Require Import ZArith NArith List Bool.
From M Require Import gen.Consts model.Counter.
Import ListNotations.
Open Scope Z_scope.

Definition uname := list N.

Fixpoint name_eqb (a b : uname) : bool :=
  match a, b with
  | [], [] => true
  | x :: a', y :: b' => N.eqb x y && name_eqb a' b'
  | _, _ => false
  end.

Record quota := mkQ { q_days : Z; q_mb : Z }.          (* int32 days, int32 megabytes *)
Record policy := mkP { p_name : uname; p_quotas : list quota }.

(* outcome of checkQuota: (true,nil) | (true,err) | (false,nil) | panic inside DeltaBetween *)
Inductive qres := QAllow | QAllowErr | QRefuse | QPanic.

(* int64 two's complement wrap *)
Definition wrap64 (z : Z) : Z := (z + 2 ^ 63) mod 2 ^ 64 - 2 ^ 63.

(* -time.Duration(quota.Days()) * 24 * time.Hour, evaluated left to right in int64 *)
Definition window_ns (days : Z) : Z :=
  wrap64 (wrap64 (wrap64 (- days) * C19_QuotaHoursPerDay) * C19_HourNs).

(* the loop over policy.Quotas(): then := now.Add(window); DeltaBetween panics when now is before then *)
Fixpoint check_quotas (qs : list quota) (up down : list entry) (now : Z) : qres :=
  match qs with
  | [] => QAllow
  | q :: r =>
    let thn := now + window_ns (q_days q) in
    if now <? thn then QPanic else
    let total := delta_between up thn now + delta_between down thn now in
    if Z.quot total C19_QuotaBytesPerMegabyte >? q_mb q then QRefuse
    else check_quotas r up down now
  end.

(* the registry of per-user metric groups: user name -> (UploadBytes history, DownloadBytes history) *)
Definition metrics_map := list (uname * (list entry * list entry)).

Fixpoint lookup (u : uname) (m : metrics_map) : option (list entry * list entry) :=
  match m with
  | [] => None
  | (k, v) :: r => if name_eqb k u then Some v else lookup u r
  end.

(* checkQuota(userName) of a session whose policy snapshot is [pol] *)
Definition check_quota (pol : option policy) (u : uname) (m : metrics_map) (now : Z) : qres :=
  match pol with
  | None => QAllowErr
  | Some p =>
    if negb (name_eqb (p_name p) u) then QAllowErr else
    match p_quotas p with
    | [] => QAllow
    | qs => match lookup u m with
            | None => QAllowErr
            | Some (up, down) => check_quotas qs up down now
            end
    end
  end.

(* the server refuses the session (statusQuotaExhausted, Close) exactly when checkQuota returns ok = false *)
Definition refused (r : qres) : bool := match r with QRefuse => true | _ => false end.

(* the quota part of appctlcommon.ValidateServerConfigSingleUser (run on every user record before it is
   installed): days > 0, days <= maxQuotaDays, megabytes > 0 *)
Definition validate_quota (days mb : Z) : bool :=
  (0 <? days) && (days <=? C19_MaxQuotaDays) && (0 <? mb).

Definition validate_user_quotas (qs : list quota) : bool :=
  forallb (fun q => validate_quota (q_days q) (q_mb q)) qs.

(* ---- vocabulary of the theorems (predicates only) ---- *)

(* largest number of days whose window length fits an int64 duration *)
Definition max_days : Z := (2 ^ 63 - 1) / (C19_QuotaHoursPerDay * C19_HourNs).
Definition days_ok (q : quota) : Prop := 0 < q_days q <= max_days.

(* traffic counted for the user inside the quota's window (then, now], both directions *)
Definition window_total (q : quota) (up down : list entry) (now : Z) : Z :=
  let thn := now - q_days q * (C19_QuotaHoursPerDay * C19_HourNs) in
  delta_between up thn now + delta_between down thn now.

(* the comparison the code makes: whole megabytes by truncating division, strictly greater *)
Definition exceeded (q : quota) (up down : list entry) (now : Z) : Prop :=
  Z.quot (window_total q up down now) C19_QuotaBytesPerMegabyte > q_mb q.
