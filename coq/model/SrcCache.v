(* C07 — model of pkg/protocol/serveruser/source_user_cache.go: the per-generation
   source-address -> recently authenticated user ids cache.

   A table is sourceUserCacheBucketCount buckets of sourceUserCacheWays ways; a way is empty or
   holds an entry (key, lastActive tick, sourceUserCacheUsers slots (user id, tick)).  Ticks are
   uint32 seconds since process start; ages are computed with unsigned subtraction, i.e. mod 2^32.
   [bidx] is the bucket index of a key (maphash with a per-process seed in the code): an arbitrary
   function here.  lookup and recordAuthenticated are single atomic steps (the code serialises
   writers of one bucket with a lock and readers are lock-free over atomically published values;
   this granularity is a modelling decision).  The table is detachable: [None] is a retired cache.
   Statistics counters are not modelled.  User ids are < 2^32 (modelled bound). *)
From Coq Require Import List NArith ZArith Bool.
From M Require Import gen.Consts.
Import ListNotations.
Open Scope N_scope.

Definition W32 : N := 2 ^ 32.
Definition life : N := Z.to_N sourceUserCacheLifeSeconds.
Definition nways : nat := Z.to_nat sourceUserCacheWays.
Definition nusers : nat := Z.to_nat sourceUserCacheUsers.

(* sourceUserCacheAge: uint32 subtraction now - then *)
Definition age (now then_ : N) : N := (now mod W32 + W32 - then_ mod W32) mod W32.
Definition expired (now then_ : N) : bool := life <=? age now then_.

Definition slot := (N * N)%type.           (* (user id, tick) ; id 0 = empty *)
Record entry := { e_key : N; e_last : N; e_slots : list slot }.
Definition bucket := list (option entry).
Definition table := list (N * bucket).      (* association list; an absent bucket is empty *)

Definition empty_bucket : bucket := repeat None nways.

Definition get_bucket (t : table) (b : N) : bucket :=
  match find (fun p => fst p =? b) t with
  | Some p => snd p
  | None => empty_bucket
  end.

Definition set_bucket (t : table) (b : N) (bk : bucket) : table :=
  (b, bk) :: filter (fun p => negb (fst p =? b)) t.

(* ---------------- lookup ---------------- *)

(* the first way whose entry has this key (lookup stops at the first match) *)
Fixpoint find_way (key : N) (ws : bucket) : option entry :=
  match ws with
  | [] => None
  | None :: r => find_way key r
  | Some e :: r => if e_key e =? key then Some e else find_way key r
  end.

Definition cand := (N * N)%type.            (* (user id, age) *)

(* duplicate user: keep the first position, the smaller age *)
Fixpoint upd_dup (id a : N) (cs : list cand) : option (list cand) :=
  match cs with
  | [] => None
  | (i, b) :: r =>
    if i =? id then Some ((i, if a <? b then a else b) :: r)
    else match upd_dup id a r with
         | Some r' => Some ((i, b) :: r')
         | None => None
         end
  end.

Fixpoint collect (now : N) (slots : list slot) (acc : list cand) : list cand :=
  match slots with
  | [] => acc
  | (id, seen) :: r =>
    if (id =? 0) || expired now seen then collect now r acc
    else
      let a := age now seen in
      match upd_dup id a acc with
      | Some acc' => collect now r acc'
      | None => collect now r (acc ++ [(id, a)])
      end
  end.

(* the code's insertion sort: stable, ascending age *)
Fixpoint insert (x : cand) (l : list cand) : list cand :=
  match l with
  | [] => [x]
  | y :: r => if snd x <? snd y then x :: y :: r else y :: insert x r
  end.

Definition sort_by_age (cs : list cand) : list cand := fold_left (fun acc x => insert x acc) cs [].

Definition lookup_entry (now : N) (e : entry) : list N :=
  if expired now (e_last e) then []
  else map fst (sort_by_age (collect now (e_slots e) [])).

Definition lookup (bidx : N -> N) (t : option table) (key now : N) : list N :=
  match t with
  | None => []
  | Some t =>
    match find_way key (get_bucket t (bidx key)) with
    | None => []
    | Some e => lookup_entry now e
    end
  end.

(* ---------------- recordAuthenticated ---------------- *)

Fixpoint first_index {A} (p : A -> bool) (l : list A) : option nat :=
  match l with
  | [] => None
  | x :: r => if p x then Some 0%nat
              else match first_index p r with Some i => Some (S i) | None => None end
  end.

Fixpoint replace_nth {A} (i : nat) (x : A) (l : list A) : list A :=
  match l, i with
  | [], _ => []
  | _ :: r, O => x :: r
  | y :: r, S j => y :: replace_nth j x r
  end.

(* index of the element with the largest age among those selected by [sel]; the first one on ties
   (the code replaces only on a strictly greater age) *)
Fixpoint oldest_from {A} (sel : A -> bool) (ag : A -> N) (l : list A) (i : nat) (best : option (nat * N))
  : option nat :=
  match l with
  | [] => match best with Some (b, _) => Some b | None => None end
  | x :: r =>
    if sel x then
      match best with
      | None => oldest_from sel ag r (S i) (Some (i, ag x))
      | Some (b, ba) => if ba <? ag x then oldest_from sel ag r (S i) (Some (i, ag x))
                        else oldest_from sel ag r (S i) best
      end
    else oldest_from sel ag r (S i) best
  end.

(* recordUser's slot choice: same user, else first empty, else first expired, else oldest live *)
Definition choose_slot (uid now : N) (slots : list slot) : option nat :=
  match first_index (fun s => fst s =? uid) slots with
  | Some i => Some i
  | None =>
    match first_index (fun s => fst s =? 0) slots with
    | Some i => Some i
    | None =>
      match first_index (fun s => negb (fst s =? 0) && expired now (snd s)) slots with
      | Some i => Some i
      | None => oldest_from (fun s => negb (fst s =? 0) && negb (expired now (snd s)))
                            (fun s => age now (snd s)) slots 0%nat None
      end
    end
  end.

Definition record_user (uid now : N) (slots : list slot) : list slot :=
  match choose_slot uid now slots with
  | Some i => replace_nth i (uid, now) slots
  | None => slots
  end.

Definition way_matches (key : N) (w : option entry) : bool :=
  match w with Some e => e_key e =? key | None => false end.
Definition way_empty (w : option entry) : bool :=
  match w with Some _ => false | None => true end.
Definition way_expired (now : N) (w : option entry) : bool :=
  match w with Some e => expired now (e_last e) | None => false end.
Definition way_age (now : N) (w : option entry) : N :=
  match w with Some e => age now (e_last e) | None => 0 end.

(* selectSourceUserCacheWay: first empty, else first expired, else least recently active *)
Definition select_way (now : N) (ws : bucket) : option nat :=
  match first_index way_empty ws with
  | Some i => Some i
  | None =>
    match first_index (way_expired now) ws with
    | Some i => Some i
    | None => oldest_from (fun _ => true) (way_age now) ws 0%nat None
    end
  end.

Definition new_entry (key uid now : N) : entry :=
  {| e_key := key; e_last := now; e_slots := (uid, now) :: repeat (0, 0) (nusers - 1) |}.

Definition record_bucket (key uid now : N) (ws : bucket) : bucket :=
  match first_index (way_matches key) ws with
  | Some i =>
    match nth i ws None with
    | Some e => replace_nth i (Some {| e_key := e_key e; e_last := now;
                                       e_slots := record_user uid now (e_slots e) |}) ws
    | None => ws
    end
  | None =>
    match select_way now ws with
    | Some i => replace_nth i (Some (new_entry key uid now)) ws
    | None => ws
    end
  end.

Definition record (bidx : N -> N) (t : option table) (key uid now : N) : option table :=
  if uid =? 0 then t
  else match t with
       | None => None
       | Some t => Some (set_bucket t (bidx key) (record_bucket key uid now (get_bucket t (bidx key))))
       end.

(* hand-planted entry (harness only): overwrite one way of the key's bucket *)
Definition plant (bidx : N -> N) (t : option table) (way : nat) (e : entry) : option table :=
  match t with
  | None => None
  | Some t => Some (set_bucket t (bidx (e_key e)) (replace_nth way (Some e) (get_bucket t (bidx (e_key e)))))
  end.

(* ---------------- histories ---------------- *)

Inductive op :=
| ORecord (key uid now : N)      (* cache.recordAuthenticated(key, uid) at tick now *)
| ORetire.                       (* cache.retire() *)

Definition step (bidx : N -> N) (t : option table) (o : op) : option table :=
  match o with
  | ORecord key uid now => record bidx t key uid now
  | ORetire => None
  end.

Definition run (bidx : N -> N) (ops : list op) : option table :=
  fold_left (step bidx) ops (Some []).
