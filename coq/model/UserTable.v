(* C05 - the set of registered credentials as a function of what the operator publishes.
   Model of pkg/protocol/serveruser/registry.go  buildState / buildCredential (which entries of a user map
   become users of a generation, in which order, with which credential) and of Registry.SetUsers (the generation
   in force is the one compiled from the LAST published map - whatever it is, the empty map included).

   An entry of the map is (map key, name, record present?, password, hashedPassword); a nil record has the name "".
   Go strings are lists of bytes.  [hashpw password name] is cipher.HashPassword = SHA-256(password || 0x00 || name),
   an arbitrary function here.  Map keys are distinct in a Go map; nothing below depends on it except the order of
   entries that share a name - and those are all skipped.
   cipher.NewStatelessDecryptor fails only for an empty credential; a compiled credential has CredentialLen bytes,
   so that branch of buildState is dead and is not modelled.
   Definitions only; proofs in proofs/UserTableProofs.v. *)
From Coq Require Import ZArith NArith List Bool.
From M Require Import gen.Consts model.ServerFront.
Import ListNotations.

Record entry := mkEntry {
  e_key : bytes; e_name : bytes; e_present : bool; e_password : bytes; e_hashed : bytes
}.

(* a user of a compiled generation: id (1-based position), name, credential *)
Record cuser := mkCUser { c_id : N; c_name : bytes; c_cred : bytes }.

Definition name_of (e : entry) : bytes := if e_present e then e_name e else [].

(* Go's < on strings: bytewise lexicographic *)
Fixpoint bytes_ltb (a b : bytes) : bool :=
  match a, b with
  | [], [] => false
  | [], _ :: _ => true
  | _ :: _, [] => false
  | x :: a', y :: b' => if N.ltb x y then true else if N.ltb y x then false else bytes_ltb a' b'
  end.

(* sort.Slice(inputs, by name, then by map key) *)
Definition entry_ltb (e1 e2 : entry) : bool :=
  if addr_eqb (name_of e1) (name_of e2) then bytes_ltb (e_key e1) (e_key e2)
  else bytes_ltb (name_of e1) (name_of e2).

Fixpoint insert_entry (e : entry) (l : list entry) : list entry :=
  match l with
  | [] => [e]
  | x :: r => if entry_ltb e x then e :: x :: r else x :: insert_entry e r
  end.

Definition sort_entries (es : list entry) : list entry := fold_right insert_entry [] es.

(* encoding/hex.DecodeString: both cases of a-f, an odd number of digits is an error *)
Definition hex_val (c : N) : option N :=
  if (N.leb 48 c && N.leb c 57)%bool then Some (c - 48)%N
  else if (N.leb 97 c && N.leb c 102)%bool then Some (c - 87)%N
  else if (N.leb 65 c && N.leb c 70)%bool then Some (c - 55)%N
  else None.

Fixpoint hex_decode (s : bytes) : option bytes :=
  match s with
  | [] => Some []
  | [_] => None
  | a :: b :: r =>
    match hex_val a, hex_val b, hex_decode r with
    | Some x, Some y, Some d => Some ((x * 16 + y)%N :: d)
    | _, _, _ => None
    end
  end.

Definition cred_len : nat := Z.to_nat C05_CredentialLen.
Definition max_name_len : nat := Z.to_nat MaxUserNameLen.

Section Compile.
  Variable hashpw : bytes -> bytes -> bytes.

  (* buildCredential: None = the entry is skipped *)
  Definition build_credential (e : entry) : option bytes :=
    if negb (e_present e) then None                                   (* "user record is nil" *)
    else match e_hashed e with
         | _ :: _ =>
           match hex_decode (e_hashed e) with
           | Some d => if Nat.eqb (length d) cred_len then Some d else None   (* wrong length *)
           | None => None                                                      (* not hexadecimal *)
           end
         | [] =>
           match e_password e with
           | [] => None                                                        (* "credential is empty" *)
           | _ :: _ => Some (hashpw (e_password e) (e_name e))
           end
         end.

  Definition count_name (n : bytes) (es : list entry) : nat :=
    length (filter (fun e => addr_eqb (name_of e) n) es).

  (* the admission rule of buildState for one entry of the map [es] *)
  Definition admitted (es : list entry) (e : entry) : option bytes :=
    match name_of e with
    | [] => None                                                      (* empty name *)
    | _ :: _ =>
      if Nat.ltb 1 (count_name (name_of e) es) then None              (* duplicate name: every bearer is skipped *)
      else if Nat.ltb max_name_len (length (name_of e)) then None     (* longer than MaxUserNameLen *)
      else build_credential e
    end.

  Fixpoint number (i : N) (l : list (bytes * bytes)) : list cuser :=
    match l with
    | [] => []
    | (n, c) :: r => mkCUser i n c :: number (i + 1) r
    end.

  Definition compile_users (es : list entry) : list cuser :=
    number 1 (flat_map (fun e => match admitted es e with Some c => [(name_of e, c)] | None => [] end)
                       (sort_entries es)).

  (* Registry.SetUsers: every publication replaces the generation. [init] is the list the server was started with,
     [h] the lists published afterwards, oldest first. *)
  Definition published (init : list entry) (h : list (list entry)) : list cuser :=
    compile_users (last h init).
End Compile.
