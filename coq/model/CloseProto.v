(* C03 - graceful close.  One direction of one mieru session, from the application that writes
   and closes (the "closer") to the application that reads (the "peer"), for both transports,
   as pkg/protocol/session.go does it:

     closeWithError(nil)  CClose (append closeSessionRequest behind pending data), CTick (one
                          iteration of the bounded wait: sleep, test lastSend >= closeRequestSeq),
                          CForce (wait expired: write the request directly, needs oLock), and the
                          final sendQueue.DeleteAll / sendBuf.DeleteAll / close(closedChan)
     runOutputOnceStream  OStart (take oLock), ODeq (sendQueue.DeleteMin: the segment is now "in flight" inside output(), or
                          release oLock when the queue is empty), OOut (the write to the connection completes; blocked while
                          the pipe is full), OSeg = ODeq immediately followed by OOut.  c_lockdrain = true (the code): oLock is
                          held from OStart to the empty queue; c_lockdrain = false (a variant): oLock only around DeleteMin.
                          The underlay's sendMutex is the condition "nothing in flight" of CForce.
                          (OSeg with an empty queue releases oLock when the
                          queue is empty): the whole drain holds oLock
     runOutputOncePacket  ONew (sendQueue -> sendBuf + datagram, window permitting), ORetx i
                          (retransmit the i-th segment of sendBuf), OAck (ack/heartbeat: carries
                          seq = nextSend-1 and goes through output())
     network              TCP: FIFO, reliable, optionally bounded (c_cap, back-pressure);
                          UDP: every datagram ever sent may be delivered any number of times, in any
                          order (DUdp i); acks travel back the same way (DAck i)
     input / inputData / inputClose   recv_input: TCP appends to recvQueue; UDP stores in recvBuf and
                          moves the in-order run to recvQueue; a closeSessionRequest is acted upon as
                          soon as it is dispatched (closedChan closed), whatever its sequence number;
                          after that (or after an input error) the input loop has exited
     Read                 two steps: RTest (recvQueue non-empty: take the minimum; empty: go on to the
                          select) and RWait* (the select: closed / inputErr / not-empty, any ready case
                          may be chosen).  c_retest = the closed case re-tests the queue
                          (fixes/C03-read-eof-before-queued-data.diff).  RAtomic = test and select as
                          one step.
     input error          RInputErr (close(inputErr)) then RErrClose (closeWithError(err): closedChan)

   A sequenced segment is its sequence number: the application's n segments are 0 .. n-1 (this
   counts the open request / open response, which are sequenced and may carry payload), the close
   request gets nextSend = n.  Payload bytes are not modelled (C01/C02 speak about them):
   "the peer has read all of w" is "the peer has read segments 0 .. n-1 in order".

   Ghost fields (never read by a transition): discarded (DeleteAll removed a data segment from the
   send queue), gap (a close request was acted upon while nextRecv <> n), rlog. *)
From Coq Require Import List ZArith NArith Bool.
From M Require Import gen.Consts.
Import ListNotations.
Open Scope N_scope.

Inductive transport := TCP | UDP.
Inductive seg := Data (q : N) | CloseReq (q : N).
Definition seq_of (s : seg) : N := match s with Data q => q | CloseReq q => q end.
Definition is_data (s : seg) : bool := match s with Data _ => true | CloseReq _ => false end.

Inductive cphase := COpen | CWait | CExpired | CClosed.
Inductive reader := RIdle | RTested | REof | RErr.

Record cfg := mkCfg {
  c_tr : transport;
  c_n : N;            (* sequenced segments the application produces before Close *)
  c_wait : N;         (* iterations of the bounded wait in closeWithError *)
  c_retest : bool;    (* Read re-tests recvQueue when closedChan fires *)
  c_ackstamp : bool;  (* output() stores an ack's seq (nextSend-1) into lastSend *)
  c_win : N;          (* UDP: bound on |sendBuf| (congestion / remote window) *)
  c_cap : N;          (* TCP: bound on segments in flight; 0 = unbounded *)
  c_rcap : N;         (* UDP: segmentTreeCapacity: receive window = c_rcap - |recvBuf| - |recvQueue| *)
  c_lockdrain : bool  (* TCP: runOutputOnceStream holds oLock for its whole drain (true = the code) *)
}.

Record state := mkState {
  (* closer *)
  written : N;
  queue : list seg;       (* sendQueue, ascending *)
  sbuf : list seg;        (* sendBuf (UDP) *)
  nextSend : N;
  lastSend : N;
  cph : cphase;
  ticks : N;
  closeSeq : N;
  olock : bool;           (* TCP output loop is inside its drain *)
  discarded : bool;       (* ghost *)
  (* network *)
  tcpnet : list seg;
  udpnet : list seg;
  acks : list N;
  (* peer *)
  nextRecv : N;
  rbuf : list N;          (* recvBuf: out-of-order sequence numbers *)
  rqueue : list N;        (* recvQueue *)
  rclosed : bool;         (* closedChan of the peer's session *)
  rerr : bool;            (* inputErr *)
  rd : reader;
  rlog : list N;          (* ghost: segments the application has read, newest first *)
  gap : bool;             (* ghost: a close request was acted upon while nextRecv <> n *)
  ooo : bool;             (* ghost: TCP input appended a segment whose number is not nextRecv *)
  inflight : option seg   (* TCP: taken out of sendQueue by the output loop, output() not yet completed *)
}.

Definition init : state :=
  mkState 0 [] [] 0 0 COpen 0 0 false false [] [] [] 0 [] [] false false RIdle [] false false None.

(* the values of the current source tree *)
Definition close_wait_iterations : N := Z.to_N C03_closeWaitIterations.
Definition segment_tree_capacity : N := Z.to_N C03_segmentTreeCapacity.
Definition current_cfg (tr : transport) (n win cap : N) : cfg :=
  mkCfg tr n close_wait_iterations true false win cap segment_tree_capacity true.
(* the tree before fixes/C03-*.diff *)
Definition prefix_cfg (tr : transport) (n win cap : N) : cfg :=
  mkCfg tr n close_wait_iterations false true win cap segment_tree_capacity true.

Inductive choice :=
| CWrite | CClose | CTick | CForce
| OStart | OSeg | ODeq | OOut | ONew | ORetx (i : nat) | OAck
| DTcp | DUdp (i : nat) | DAck (i : nat)
| RTest | RWaitClosed | RWaitErr | RWaitNotEmpty | RAtomic
| RInputErr | RErrClose.

Definition lenN {A} (l : list A) : N := N.of_nat (length l).

(* sendQueue.DeleteAll(); sendBuf.DeleteAll(); close(closedChan) *)
Definition finish (st : state) : state :=
  mkState (written st) [] [] (nextSend st) (lastSend st) CClosed (ticks st) (closeSeq st) (olock st)
          (discarded st || existsb is_data (queue st))
          (tcpnet st) (udpnet st) (acks st)
          (nextRecv st) (rbuf st) (rqueue st) (rclosed st) (rerr st) (rd st) (rlog st) (gap st) (ooo st) (inflight st).

Definition set_sender (st : state) (w : N) (q b : list seg) (ns ls : N) (ph : cphase) (tk cs : N) (ol : bool)
                      (tn un : list seg) : state :=
  mkState w q b ns ls ph tk cs ol (discarded st) tn un (acks st)
          (nextRecv st) (rbuf st) (rqueue st) (rclosed st) (rerr st) (rd st) (rlog st) (gap st) (ooo st) (inflight st).

Definition set_peer (st : state) (ak : list N) (nr : N) (rb rq : list N) (rc re : bool) (r : reader) (lg : list N) (g : bool) : state :=
  mkState (written st) (queue st) (sbuf st) (nextSend st) (lastSend st) (cph st) (ticks st) (closeSeq st) (olock st)
          (discarded st) (tcpnet st) (udpnet st) ak nr rb rq rc re r lg g (ooo st) (inflight st).

Definition mark_ooo (st : state) (b : bool) : state :=
  mkState (written st) (queue st) (sbuf st) (nextSend st) (lastSend st) (cph st) (ticks st) (closeSeq st) (olock st)
          (discarded st) (tcpnet st) (udpnet st) (acks st) (nextRecv st) (rbuf st) (rqueue st) (rclosed st) (rerr st) (rd st) (rlog st) (gap st)
          (ooo st || b) (inflight st).

Definition set_inflight (st : state) (q : list seg) (x : option seg) (ol : bool) : state :=
  mkState (written st) q (sbuf st) (nextSend st) (lastSend st) (cph st) (ticks st) (closeSeq st) ol
          (discarded st) (tcpnet st) (udpnet st) (acks st) (nextRecv st) (rbuf st) (rqueue st) (rclosed st) (rerr st) (rd st) (rlog st) (gap st)
          (ooo st) x.

Definition no_inflight (st : state) : bool := match inflight st with None => true | Some _ => false end.

Definition memN (x : N) (l : list N) : bool := existsb (N.eqb x) l.
Definition removeN (x : N) (l : list N) : list N := filter (fun y => negb (N.eqb x y)) l.

(* moveRecvBufToRecvQueue: move the run nextRecv, nextRecv+1, ... out of recvBuf *)
Fixpoint flush (fuel : nat) (nr : N) (rb rq : list N) : N * list N * list N :=
  match fuel with
  | O => (nr, rb, rq)
  | S f => if memN nr rb then flush f (nr + 1) (removeN nr rb) (rq ++ [nr]) else (nr, rb, rq)
  end.

Definition is_closed_phase (p : cphase) : bool := match p with CClosed => true | _ => false end.

(* the peer's session input loop handles one dispatched segment *)
Definition recv_input (c : cfg) (st : state) (s : seg) : state :=
  if rclosed st || rerr st then st  (* runInputLoop has returned: the segment is never looked at *)
  else match s with
  | CloseReq _ =>
      (* inputClose: reply, then Close(); the in-order test is missing in the code *)
      set_peer st (acks st) (nextRecv st) (rbuf st) (rqueue st) true (rerr st) (rd st) (rlog st)
               (gap st || negb (nextRecv st =? c_n c))
  | Data q =>
      match c_tr c with
      | TCP => mark_ooo (set_peer st (acks st) (nextRecv st + 1) (rbuf st) (rqueue st ++ [q]) false (rerr st) (rd st) (rlog st) (gap st))
                        (negb (q =? nextRecv st))
      | UDP =>
          if q <? nextRecv st then
            set_peer st (acks st ++ [nextRecv st]) (nextRecv st) (rbuf st) (rqueue st) false (rerr st) (rd st) (rlog st) (gap st)
          else if c_rcap c <=? lenN (rbuf st) + lenN (rqueue st) then
            (* receiveWindowSize() <= 0: "dropped because the receive window size is 0"; only an ack goes back *)
            set_peer st (acks st ++ [nextRecv st]) (nextRecv st) (rbuf st) (rqueue st) false (rerr st) (rd st) (rlog st) (gap st)
          else
            let rb := if memN q (rbuf st) then rbuf st else q :: rbuf st in
            let '(nr, rb', rq') := flush (S (length rb)) (nextRecv st) rb (rqueue st) in
            set_peer st (acks st ++ [nr]) nr rb' rq' false (rerr st) (rd st) (rlog st) (gap st)
      end
  end.

Definition room (c : cfg) (st : state) : bool := (c_cap c =? 0) || (lenN (tcpnet st) <? c_cap c).

Definition is_tcp (c : cfg) : bool := match c_tr c with TCP => true | UDP => false end.

Definition step (c : cfg) (st : state) (ch : choice) : option state :=
  match ch with
  | CWrite =>
      match cph st with
      | COpen =>
          if negb (olock st) && (written st <? c_n c) then
            Some (set_sender st (written st + 1) (queue st ++ [Data (nextSend st)]) (sbuf st) (nextSend st + 1) (lastSend st)
                             COpen (ticks st) (closeSeq st) false (tcpnet st) (udpnet st))
          else None
      | _ => None
      end
  | CClose =>
      match cph st with
      | COpen =>
          if negb (olock st) && (written st =? c_n c) then
            Some (set_sender st (written st) (queue st ++ [CloseReq (nextSend st)]) (sbuf st) (nextSend st + 1) (lastSend st)
                             CWait 0 (nextSend st) false (tcpnet st) (udpnet st))
          else None
      | _ => None
      end
  | CTick =>
      match cph st with
      | CWait =>
          if closeSeq st <=? lastSend st then Some (finish st)
          else if ticks st + 1 =? c_wait c then
            Some (set_sender st (written st) (queue st) (sbuf st) (nextSend st) (lastSend st) CExpired (ticks st + 1) (closeSeq st)
                             (olock st) (tcpnet st) (udpnet st))
          else
            Some (set_sender st (written st) (queue st) (sbuf st) (nextSend st) (lastSend st) CWait (ticks st + 1) (closeSeq st)
                             (olock st) (tcpnet st) (udpnet st))
      | _ => None
      end
  | CForce =>
      match cph st with
      | CExpired =>
          if negb (olock st) && no_inflight st then
            let st1 := match c_tr c with
                       | TCP => set_sender st (written st) (queue st) (sbuf st) (nextSend st) (closeSeq st) CExpired (ticks st) (closeSeq st)
                                           false (tcpnet st ++ [CloseReq (closeSeq st)]) (udpnet st)
                       | UDP => set_sender st (written st) (queue st) (sbuf st) (nextSend st) (closeSeq st) CExpired (ticks st) (closeSeq st)
                                           false (tcpnet st) (udpnet st ++ [CloseReq (closeSeq st)])
                       end in
            Some (finish st1)
          else None
      | _ => None
      end
  | OStart =>
      if is_tcp c && c_lockdrain c && negb (olock st) && negb (is_closed_phase (cph st)) then
        match queue st with
        | [] => None
        | _ => Some (set_sender st (written st) (queue st) (sbuf st) (nextSend st) (lastSend st) (cph st) (ticks st) (closeSeq st)
                                true (tcpnet st) (udpnet st))
        end
      else None
  | OSeg =>
      if is_tcp c && olock st && no_inflight st then
        match queue st with
        | [] => Some (set_sender st (written st) [] (sbuf st) (nextSend st) (lastSend st) (cph st) (ticks st) (closeSeq st)
                                 false (tcpnet st) (udpnet st))
        | s :: q =>
            if room c st then
              Some (set_sender st (written st) q (sbuf st) (nextSend st) (seq_of s) (cph st) (ticks st) (closeSeq st)
                               true (tcpnet st ++ [s]) (udpnet st))
            else None
        end
      else None
  | ODeq =>
      (* lock discipline: the code holds oLock already (OStart); the variant takes it here and gives it back at once *)
      if is_tcp c && no_inflight st && Bool.eqb (olock st) (c_lockdrain c) then
        match queue st with
        | [] => Some (set_inflight st [] None false)
        | s :: q => Some (set_inflight st q (Some s) (olock st))
        end
      else None
  | OOut =>
      if is_tcp c then
        match inflight st with
        | Some s =>
            if room c st then
              Some (set_inflight (set_sender st (written st) (queue st) (sbuf st) (nextSend st) (seq_of s) (cph st) (ticks st) (closeSeq st)
                                             (olock st) (tcpnet st ++ [s]) (udpnet st)) (queue st) None (olock st))
            else None
        | None => None
        end
      else None
  | ONew =>
      if negb (is_tcp c) && negb (is_closed_phase (cph st)) then
        match queue st with
        | [] => None
        | s :: q =>
            if lenN (sbuf st) <? c_win c then
              Some (set_sender st (written st) q (sbuf st ++ [s]) (nextSend st) (seq_of s) (cph st) (ticks st) (closeSeq st)
                               (olock st) (tcpnet st) (udpnet st ++ [s]))
            else None
        end
      else None
  | ORetx i =>
      if negb (is_tcp c) && negb (is_closed_phase (cph st)) then
        match nth_error (sbuf st) i with
        | Some s => Some (set_sender st (written st) (queue st) (sbuf st) (nextSend st) (seq_of s) (cph st) (ticks st) (closeSeq st)
                                     (olock st) (tcpnet st) (udpnet st ++ [s]))
        | None => None
        end
      else None
  | OAck =>
      if negb (is_tcp c) && negb (is_closed_phase (cph st)) then
        Some (set_sender st (written st) (queue st) (sbuf st) (nextSend st)
                         (if c_ackstamp c then nextSend st - 1 else lastSend st)
                         (cph st) (ticks st) (closeSeq st) (olock st) (tcpnet st) (udpnet st))
      else None
  | DTcp =>
      match tcpnet st with
      | [] => None
      | s :: t =>
          Some (recv_input c (set_sender st (written st) (queue st) (sbuf st) (nextSend st) (lastSend st) (cph st) (ticks st) (closeSeq st)
                                         (olock st) t (udpnet st)) s)
      end
  | DUdp i =>
      match nth_error (udpnet st) i with
      | Some s => Some (recv_input c st s)
      | None => None
      end
  | DAck i =>
      match nth_error (acks st) i with
      | Some a => Some (set_sender st (written st) (queue st) (filter (fun s => a <=? seq_of s) (sbuf st)) (nextSend st) (lastSend st)
                                   (cph st) (ticks st) (closeSeq st) (olock st) (tcpnet st) (udpnet st))
      | None => None
      end
  | RTest =>
      match rd st with
      | RIdle =>
          match rqueue st with
          | q :: r => Some (set_peer st (acks st) (nextRecv st) (rbuf st) r (rclosed st) (rerr st) RIdle (q :: rlog st) (gap st))
          | [] => Some (set_peer st (acks st) (nextRecv st) (rbuf st) [] (rclosed st) (rerr st) RTested (rlog st) (gap st))
          end
      | _ => None
      end
  | RWaitClosed =>
      match rd st with
      | RTested =>
          if rclosed st then
            match rqueue st with
            | _ :: _ => if c_retest c
                        then Some (set_peer st (acks st) (nextRecv st) (rbuf st) (rqueue st) (rclosed st) (rerr st) RIdle (rlog st) (gap st))
                        else Some (set_peer st (acks st) (nextRecv st) (rbuf st) (rqueue st) (rclosed st) (rerr st) REof (rlog st) (gap st))
            | [] => Some (set_peer st (acks st) (nextRecv st) (rbuf st) (rqueue st) (rclosed st) (rerr st) REof (rlog st) (gap st))
            end
          else None
      | _ => None
      end
  | RWaitErr =>
      match rd st with
      | RTested => if rerr st then Some (set_peer st (acks st) (nextRecv st) (rbuf st) (rqueue st) (rclosed st) (rerr st) RErr (rlog st) (gap st))
                   else None
      | _ => None
      end
  | RWaitNotEmpty =>
      match rd st with
      | RTested =>
          match rqueue st with
          | _ :: _ => Some (set_peer st (acks st) (nextRecv st) (rbuf st) (rqueue st) (rclosed st) (rerr st) RIdle (rlog st) (gap st))
          | [] => None
          end
      | _ => None
      end
  | RAtomic =>
      match rd st with
      | RIdle =>
          match rqueue st with
          | q :: r => Some (set_peer st (acks st) (nextRecv st) (rbuf st) r (rclosed st) (rerr st) RIdle (q :: rlog st) (gap st))
          | [] =>
              if rclosed st then Some (set_peer st (acks st) (nextRecv st) (rbuf st) [] (rclosed st) (rerr st) REof (rlog st) (gap st))
              else if rerr st then Some (set_peer st (acks st) (nextRecv st) (rbuf st) [] (rclosed st) (rerr st) RErr (rlog st) (gap st))
              else None
          end
      | _ => None
      end
  | RInputErr =>
      if rclosed st || rerr st then None
      else Some (set_peer st (acks st) (nextRecv st) (rbuf st) (rqueue st) (rclosed st) true (rd st) (rlog st) (gap st))
  | RErrClose =>
      if rerr st && negb (rclosed st)
      then Some (set_peer st (acks st) (nextRecv st) (rbuf st) (rqueue st) true (rerr st) (rd st) (rlog st) (gap st))
      else None
  end.

Fixpoint run (c : cfg) (st : state) (sched : list choice) : option state :=
  match sched with
  | [] => Some st
  | ch :: rest => match step c st ch with Some st' => run c st' rest | None => None end
  end.

(* 0, 1, ..., k-1 shifted by a *)
Fixpoint iota (a : N) (k : nat) : list N :=
  match k with O => [] | S k' => a :: iota (a + 1) k' end.

Definition all_segments (c : cfg) : list N := iota 0 (N.to_nat (c_n c)).
Definition read_so_far (st : state) : list N := rev (rlog st).
Definition complete (c : cfg) (st : state) : Prop := read_so_far st = all_segments c.

Definition is_rtest (ch : choice) : bool :=
  match ch with RTest => true | _ => false end.
(* a schedule that treats Read's test-and-select as one step *)
Definition atomic_reads (sched : list choice) : bool := forallb (fun ch => negb (is_rtest ch)) sched.

(* ---- what the runner prints: outcome class and number of segments read *)
Inductive outcome := OEof | OError | ORunning.
Definition outcome_of (st : state) : outcome :=
  match rd st with REof => OEof | RErr => OError | _ => ORunning end.
Definition segments_read (st : state) : N := lenN (rlog st).

(* Canonical schedule of an observed scenario: the application writes n segments and closes;
   [sent] of them are handed to the network by the output loop before the close request
   (sent = n: the queue drained and the loop transmitted the request; sent < n: the wait expired
   and the request was written directly); the peer's endpoint receives the listed segments, then
   the close request (if [closed]); the application reads until Read returns. *)
Fixpoint repeat_choice (ch : choice) (k : nat) : list choice :=
  match k with O => [] | S k' => ch :: repeat_choice ch k' end.

Definition reads (k : nat) : list choice := repeat_choice RTest k.

Definition canonical_send (c : cfg) (sent : nat) : list choice :=
  let n := N.to_nat (c_n c) in
  let drained := Nat.leb n sent in
  repeat_choice CWrite n ++ [CClose] ++
  match c_tr c with
  | TCP =>
      if drained then [OStart] ++ repeat_choice OSeg (S n) ++ [OSeg; CTick]
      else if Nat.eqb sent 0 then repeat_choice CTick (N.to_nat (c_wait c)) ++ [CForce]
      else [OStart] ++ repeat_choice OSeg sent ++ [CForce]   (* not enabled: oLock is held; the run is then unexplained *)
  | UDP =>
      repeat_choice ONew sent ++
      (if drained then [ONew; CTick] else repeat_choice CTick (N.to_nat (c_wait c)) ++ [CForce])
  end.

Definition canonical_deliver (c : cfg) (have : list nat) : list choice :=
  match c_tr c with
  | TCP => repeat_choice DTcp (length have)
  | UDP => map DUdp have
  end.

Definition canonical_close (c : cfg) (sent : nat) (closed : bool) : list choice :=
  let n := N.to_nat (c_n c) in
  let drained := Nat.leb n sent in
  if closed then match c_tr c with TCP => [DTcp] | UDP => [DUdp (if drained then n else sent)] end else [].

Definition canonical (c : cfg) (sent : nat) (have : list nat) (closed : bool) : list choice :=
  canonical_send c sent ++ canonical_deliver c have ++ canonical_close c sent closed.

(* the application takes everything that is queued (it keeps up with the arrivals) *)
Fixpoint drain (c : cfg) (fuel : nat) (st : state) : state :=
  match fuel with
  | O => st
  | S f => match rqueue st with
           | [] => st
           | _ :: _ => match step c st RTest with Some st' => drain c f st' | None => st end
           end
  end.

Fixpoint deliver_eager (c : cfg) (dels : list choice) (st : state) : option state :=
  match dels with
  | [] => Some st
  | d :: r => match step c st d with
              | Some st' => deliver_eager c r (drain c (S (length (rqueue st'))) st')
              | None => None
              end
  end.

(* read until the reader is no longer idle (at most fuel Reads); the select takes the closed case when it is ready *)
Fixpoint read_all (c : cfg) (fuel : nat) (st : state) : state :=
  match fuel with
  | O => st
  | S f =>
      match step c st RTest with
      | Some st1 =>
          match rd st1 with
          | RTested =>
              match step c st1 RWaitClosed with
              | Some st2 => match rd st2 with RIdle => read_all c f st2 | _ => st2 end
              | None => match step c st1 RWaitErr with Some st2 => st2 | None => st1 end
              end
          | _ => read_all c f st1
          end
      | None => st
      end
  end.

(* eager = true: the peer application reads while the data arrives; eager = false: it reads nothing before the
   close request has arrived (receiver backlog) *)
Definition predict (c : cfg) (sent : nat) (have : list nat) (closed : bool) (eager : bool) : option state :=
  match run c init (canonical_send c sent) with
  | Some st0 =>
      match (if eager then deliver_eager c (canonical_deliver c have) st0 else run c st0 (canonical_deliver c have)) with
      | Some st1 =>
          match run c st1 (canonical_close c sent closed) with
          | Some st2 => Some (read_all c (S (S (N.to_nat (c_n c)))) st2)
          | None => None
          end
      | None => None
      end
  | None => None
  end.

(* ---- hand-off from the underlay event loop to the session (Session.recvChan)
   The transitions above apply recv_input at the moment a segment is delivered.  In the code the event loop
   (RunEventLoop -> deliverSegmentToSession) puts every segment of the session, close requests included, into the
   bounded FIFO channel recvChan with a BLOCKING send, and the session's input loop takes them out one by one
   (it may itself be parked in waitForRecvQueueSpace while the application does not read).  HDispatch = the event
   loop's send (enabled only while the channel has room), HInput = the input loop's receive + input(). *)
Inductive hev := HDispatch (s : seg) | HInput.

Definition hstep (c : cfg) (cap : nat) (x : state * list seg) (e : hev) : option (state * list seg) :=
  let '(st, ch) := x in
  match e with
  | HDispatch s => if Nat.ltb (length ch) cap then Some (st, ch ++ [s]) else None
  | HInput => match ch with s :: t => Some (recv_input c st s, t) | [] => None end
  end.

Fixpoint hrun (c : cfg) (cap : nat) (x : state * list seg) (evs : list hev) : option (state * list seg) :=
  match evs with
  | [] => Some x
  | e :: rest => match hstep c cap x e with Some x' => hrun c cap x' rest | None => None end
  end.

Fixpoint dispatched (evs : list hev) : list seg :=
  match evs with
  | [] => []
  | HDispatch s :: rest => s :: dispatched rest
  | HInput :: rest => dispatched rest
  end.

(* a hand-off that lets a close request bypass a full channel: the session is closed directly from the event
   loop (s.Close()), the input loop exits and what the channel holds is never looked at *)
Definition hstep_bypass (c : cfg) (cap : nat) (x : state * list seg) (e : hev) : option (state * list seg) :=
  let '(st, ch) := x in
  match e with
  | HDispatch (CloseReq q) =>
      if Nat.ltb (length ch) cap then Some (st, ch ++ [CloseReq q]) else Some (recv_input c st (CloseReq q), [])
  | _ => hstep c cap x e
  end.

Fixpoint hrun_bypass (c : cfg) (cap : nat) (x : state * list seg) (evs : list hev) : option (state * list seg) :=
  match evs with
  | [] => Some x
  | e :: rest => match hstep_bypass c cap x e with Some x' => hrun_bypass c cap x' rest | None => None end
  end.

(* ---- the sender's send queue: writeChunk keeps one slot free for the close request ----
   pkg/protocol/session.go writeChunk: a Write of n >= 1 fragments waits while sendQueue.Remaining() <= n, then inserts its
   n segments; the output loop removes segments; closeWithError inserts the close request with sendQueue.Insert, which
   fails exactly when no slot is free - and then the close request is written directly and the queue discarded (the
   fallback of CForce).  State = number of queued segments; the capacity is segmentTreeCapacity. *)
Inductive qev := QWrite (n : N) | QDrain (k : N).

(* [strict] = the admission test of the code (Remaining > n); [strict = false] = the test Remaining >= n *)
Definition q_admits (strict : bool) (cap q n : N) : bool :=
  if strict then n <? cap - q else n <=? cap - q.

(* a Write that is not admitted waits (the state does not change: it is retried after a drain) *)
Definition q_step (strict : bool) (cap q : N) (e : qev) : N :=
  match e with
  | QWrite n => if (1 <=? n) && q_admits strict cap q n then q + n else q
  | QDrain k => q - k
  end.

Definition q_run (strict : bool) (cap : N) (evs : list qev) : N := fold_left (q_step strict cap) evs 0.

(* closeWithError's sendQueue.Insert(close request) succeeds *)
Definition q_close_queued (cap q : N) : bool := q <? cap.
