(* Functions every extracted runner needs for text <-> number conversion (ocaml/common.ml). *)
From Coq Require Import ZArith NArith.
Definition xb_zadd := Z.add.
Definition xb_zmul := Z.mul.
Definition xb_zdiv := Z.div.
Definition xb_zmod := Z.modulo.
Definition xb_zopp := Z.opp.
Definition xb_zltb := Z.ltb.
Definition xb_nadd := N.add.
Definition xb_nmul := N.mul.
Definition xb_ndiv := N.div.
Definition xb_nmod := N.modulo.
Definition xb_z_of_n := Z.of_N.
Definition xb_n_of_z := Z.to_N.
Definition xb_n_of_nat := N.of_nat.
Definition xb_nat_of_n := N.to_nat.
Definition xb_keep (p : positive) (n : N) (z : Z) (m : nat) := (p, n, z, m).
