(* 64-bit word primitives used by the low-entropy codec (C17): PDEP / PEXT, population count,
   rotation.  Definitions only (proofs: proofs/Bits64Proofs.v).  Words are [N]; where Go wraps,
   the wrap is written ([mod W64]).

   [pdep] / [pext] are the Intel SDM definitions of PDEP / PEXT

       TEMP <- SRC1; MASK <- SRC2; DEST <- 0; m <- 0; k <- 0
       WHILE m < OperandSize:  IF MASK[m] THEN DEST[m] <- TEMP[k]; k <- k+1 FI; m <- m+1     (PDEP)
       WHILE m < OperandSize:  IF MASK[m] THEN DEST[k] <- TEMP[m]; k <- k+1 FI; m <- m+1     (PEXT)

   in two renderings: [pdep_intel]/[pext_intel] walk the bit positions m = 0..63 with the counter k
   exactly as the pseudo code does; [pdep]/[pext] recurse on the binary representation of the mask
   (one constructor of [positive] = one position m; consuming a source bit = halving TEMP).
   [pdep_go]/[pext_go] are the portable Go loops of pkg/mathext/bit.go (lowest-set-bit isolation
   [mask & -mask], [mask &= mask-1], a moving source/result bit).  All three are proved equal. *)
From Coq Require Import NArith PArith Bool.
Open Scope N_scope.

Definition W64 : N := 2 ^ 64.
Definition ones64 : N := N.ones 64.

(* [bcons b a] = 2a + b *)
Definition bcons (b : bool) (a : N) : N := if b then N.succ_double a else N.double a.

Fixpoint pdepP (x : N) (m : positive) : N :=
  match m with
  | xH => bcons (N.odd x) 0
  | xO m' => N.double (pdepP x m')
  | xI m' => bcons (N.odd x) (pdepP (N.div2 x) m')
  end.
Definition pdep (x m : N) : N := match m with N0 => 0 | Npos p => pdepP x p end.

Fixpoint pextP (x : N) (m : positive) : N :=
  match m with
  | xH => bcons (N.odd x) 0
  | xO m' => pextP (N.div2 x) m'
  | xI m' => bcons (N.odd x) (pextP (N.div2 x) m')
  end.
Definition pext (x m : N) : N := match m with N0 => 0 | Npos p => pextP x p end.

Fixpoint popP (m : positive) : N :=
  match m with xH => 1 | xO p => popP p | xI p => 1 + popP p end.
Definition popcount (m : N) : N := match m with N0 => 0 | Npos p => popP p end.

(* Intel pseudo code, position by position. [n] = positions still to visit. *)
Fixpoint pdep_intel_loop (n : nat) (m k : N) (temp mask dest : N) : N :=
  match n with
  | O => dest
  | S n' =>
    if N.testbit mask m
    then pdep_intel_loop n' (m + 1) (k + 1) temp mask (if N.testbit temp k then N.setbit dest m else dest)
    else pdep_intel_loop n' (m + 1) k temp mask dest
  end.
Definition pdep_intel (x mask : N) : N := pdep_intel_loop 64 0 0 x mask 0.

Fixpoint pext_intel_loop (n : nat) (m k : N) (temp mask dest : N) : N :=
  match n with
  | O => dest
  | S n' =>
    if N.testbit mask m
    then pext_intel_loop n' (m + 1) (k + 1) temp mask (if N.testbit temp m then N.setbit dest k else dest)
    else pext_intel_loop n' (m + 1) k temp mask dest
  end.
Definition pext_intel (x mask : N) : N := pext_intel_loop 64 0 0 x mask 0.

(* Go: pkg/mathext/bit.go.  [-mask] on uint64 is [neg64]; [srcBit <<= 1] wraps. *)
Definition neg64 (a : N) : N := (W64 - a mod W64) mod W64.

Fixpoint pdep_loop (fuel : nat) (x mask srcBit result : N) : N :=
  match fuel with
  | O => result
  | S f =>
    if mask =? 0 then result else
    let maskBit := N.land mask (neg64 mask) in
    let result' := if N.land x srcBit =? 0 then result else N.lor result maskBit in
    pdep_loop f x (N.land mask (mask - 1)) ((srcBit * 2) mod W64) result'
  end.
(* a 64-bit mask has at most 64 one-bits, so 64 iterations always reach [mask = 0] *)
Definition pdep_go (x mask : N) : N := pdep_loop 64 x mask 1 0.

Fixpoint pext_loop (fuel : nat) (x mask resultBit result : N) : N :=
  match fuel with
  | O => result
  | S f =>
    if mask =? 0 then result else
    let maskBit := N.land mask (neg64 mask) in
    let result' := if N.land x maskBit =? 0 then result else N.lor result resultBit in
    pext_loop f x (N.land mask (mask - 1)) ((resultBit * 2) mod W64) result'
  end.
Definition pext_go (x mask : N) : N := pext_loop 64 x mask 1 0.

(* Go: ^a on uint64 *)
Definition not64 (a : N) : N := N.lxor a ones64.

(* math/bits.RotateLeft64(x, k) with s = k & 63, by its specification: the low 64-s bits move up by s,
   the high s bits come down ([x<<s | x>>(64-s)]; the two halves are disjoint so [|] is [+]). *)
Definition rotl64 (x s : N) : N := (x mod 2 ^ (64 - s)) * 2 ^ s + x / 2 ^ (64 - s).

(* mathext.RepeatUint32: uint64(v)<<32 | uint64(v) *)
Definition repeat32 (v : N) : N := v * 2 ^ 32 + v.

(* lowBits(n) of low_entropy.go *)
Definition lowbits (n : N) : N := if 64 <=? n then ones64 else N.ones n.
