(* Semantics of the Go integer fragment that harness/cmd/go2coq translates (coq/gen/Translated.v is written in
   terms of these definitions and nothing else).  Definitions and their basic lemmas; stdlib only.

   Every Go integer value is a [Z] inside the range of its type; [ity] names the type.  An operation that can
   leave the range in Go's mathematical reading wraps exactly as the Go specification says ("Integer overflow":
   unsigned arithmetic is modulo 2^n; signed arithmetic wraps two's complement without panic).  Bitwise and/or/xor
   on in-range values stay in range for both signednesses under [Z.land]/[Z.lor]/[Z.lxor] (two's complement
   reading of negative [Z]), so they are used directly.  Division and remainder are translated only when the
   divisor is a non-zero constant (the translator refuses anything else), so the run-time panic of a zero divisor
   is outside the fragment; they truncate toward zero ([Z.quot]/[Z.rem]).  Shifts: the translator accepts only
   unsigned or constant counts, so the run-time panic of a negative count is outside the fragment; a count of the
   width or more gives 0 for [<<] and 0 / -1 for [>>] (arithmetic on signed), which [Z.shiftr] gives by itself.

   A shift by a signed count that is not a constant panics at run time when the count is negative: a function
   holding one is translated as PARTIAL (result [option], [None] = the Go function panics), with the test
   [0 <= count] emitted in front of the statement.  math/bits.RotateLeft64 is [go_rotl64], its documented behaviour
   (rotate left by k mod 64, i.e. right for negative k) written as in the library: s = uint(k) & 63;
   x<<s | x>>(64-s).

   Methods: the receiver's fields that the body mentions are parameters, those it assigns are results.  A field that
   is a slice of integers is a [list Z]: [go_len], [go_nth] (index read), [go_upd] (index write); an index outside
   [0, len) panics in Go, so every indexed statement is preceded by the test and the function is partial; the
   translator admits nothing that could make two slices share an array (no append, reslicing, copies), so the list
   reading is exact.  [for i := range s] counts [i] from 0 to the length evaluated once at entry; its fuel is that
   length + 1.  [break] sets an exit flag that is the first component of the loop state and part of the loop test.
   In a partial function loops are [whileP]: the body may have no value.

   Loops are [while fuel cond body s]: [None] when the fuel runs out with the condition still true; the theorems
   about translated functions show a fuel that suffices and so exclude that case. *)
From Coq Require Import ZArith Bool Lia List.
Import ListNotations.
Open Scope Z_scope.

Inductive ity : Set := I (bits : Z) | U (bits : Z).

Definition wrapU (k z : Z) : Z := z mod 2 ^ k.
Definition wrapS (k z : Z) : Z := (z + 2 ^ (k - 1)) mod 2 ^ k - 2 ^ (k - 1).
Definition go_wrap (t : ity) (z : Z) : Z := match t with I k => wrapS k z | U k => wrapU k z end.
Definition go_bits (t : ity) : Z := match t with I k => k | U k => k end.
Definition go_in (t : ity) (z : Z) : Prop :=
  match t with I k => - 2 ^ (k - 1) <= z < 2 ^ (k - 1) | U k => 0 <= z < 2 ^ k end.

Definition go_add (t : ity) (a b : Z) : Z := go_wrap t (a + b).
Definition go_sub (t : ity) (a b : Z) : Z := go_wrap t (a - b).
Definition go_mul (t : ity) (a b : Z) : Z := go_wrap t (a * b).
Definition go_neg (t : ity) (a : Z) : Z := go_wrap t (- a).
Definition go_not (t : ity) (a : Z) : Z := go_wrap t (Z.lnot a).
Definition go_quo (t : ity) (a b : Z) : Z := go_wrap t (Z.quot a b).
Definition go_rem (t : ity) (a b : Z) : Z := go_wrap t (Z.rem a b).
Definition go_andnot (t : ity) (a b : Z) : Z := go_wrap t (Z.land a (Z.lnot b)).
Definition go_shl (t : ity) (a s : Z) : Z := if go_bits t <=? s then 0 else go_wrap t (a * 2 ^ s).
Definition go_shr (t : ity) (a s : Z) : Z := Z.shiftr a s.
Definition go_cast (t : ity) (a : Z) : Z := go_wrap t a.
Definition go_rotl64 (x k : Z) : Z :=
  let s := k mod 64 in Z.lor (go_shl (U 64) x s) (go_shr (U 64) x (64 - s)).

(* math/bits.OnesCount32/64 of an unsigned value *)
Fixpoint go_popP (p : positive) : Z := match p with xH => 1 | xO q => go_popP q | xI q => 1 + go_popP q end.
Definition go_popcount (x : Z) : Z := match x with Zpos p => go_popP p | _ => 0 end.

Definition go_len (l : list Z) : Z := Z.of_nat (length l).
Definition go_nth (l : list Z) (j : Z) : Z := nth (Z.to_nat j) l 0.
Fixpoint upd_nat (l : list Z) (n : nat) (v : Z) : list Z :=
  match l, n with
  | [], _ => []
  | _ :: t, O => v :: t
  | x :: t, Datatypes.S n' => x :: upd_nat t n' v
  end.
Definition go_upd (l : list Z) (j v : Z) : list Z := upd_nat l (Z.to_nat j) v.

(* make([]T, n): n zero elements.  encoding/binary.BigEndian on a []byte b at offset k (`b[k:]`): Uint16/32 read, PutUint16/32
   store byte(v>>8*i) = v / 2^(8*i) mod 256 (v is an unsigned value, so the shift is the division). The bounds test
   0 <= k /\ k + width <= len(b) is emitted by the translator in front of the statement. *)
Definition go_make (n : Z) : list Z := repeat 0 (Z.to_nat n).
Definition go_be16 (l : list Z) (k : Z) : Z := go_nth l k * 256 + go_nth l (k + 1).
Definition go_be32 (l : list Z) (k : Z) : Z :=
  ((go_nth l k * 256 + go_nth l (k + 1)) * 256 + go_nth l (k + 2)) * 256 + go_nth l (k + 3).
Definition go_be64 (l : list Z) (k : Z) : Z := go_be32 l k * 4294967296 + go_be32 l (k + 4).
Definition go_put_be16 (l : list Z) (k v : Z) : list Z :=
  go_upd (go_upd l k (v / 256 mod 256)) (k + 1) (v mod 256).
Definition go_put_be32 (l : list Z) (k v : Z) : list Z :=
  go_upd (go_upd (go_upd (go_upd l k (v / 16777216 mod 256)) (k + 1) (v / 65536 mod 256)) (k + 2) (v / 256 mod 256)) (k + 3) (v mod 256).
Definition go_put_be64 (l : list Z) (k v : Z) : list Z :=
  go_put_be32 (go_put_be32 l k (v / 4294967296 mod 4294967296)) (k + 4) (v mod 4294967296).

Fixpoint while {S : Type} (fuel : nat) (c : S -> bool) (b : S -> S) (s : S) : option S :=
  match fuel with
  | O => None
  | Datatypes.S f => if c s then while f c b (b s) else Some s
  end.

(* a loop whose body can panic *)
Fixpoint whileP {S : Type} (fuel : nat) (c : S -> bool) (b : S -> option S) (s : S) : option S :=
  match fuel with
  | O => None
  | Datatypes.S f => if c s then match b s with None => None | Some s' => whileP f c b s' end else Some s
  end.

(* ---- basic facts ---- *)

Lemma wrapU_id k z : 0 <= z < 2 ^ k -> wrapU k z = z.
Proof. intros H; unfold wrapU; apply Z.mod_small; exact H. Qed.

Lemma wrapU_range k z : 0 <= k -> 0 <= wrapU k z < 2 ^ k.
Proof. intros Hk; unfold wrapU; apply Z.mod_pos_bound; apply Z.pow_pos_nonneg; lia. Qed.

Lemma wrapS_id k z : 0 < k -> - 2 ^ (k - 1) <= z < 2 ^ (k - 1) -> wrapS k z = z.
Proof.
  intros Hk H; unfold wrapS.
  assert (E : 2 ^ k = 2 * 2 ^ (k - 1)) by (rewrite <- Z.pow_succ_r by lia; f_equal; lia).
  rewrite Z.mod_small by lia; lia.
Qed.

Lemma wrapS_range k z : 0 < k -> - 2 ^ (k - 1) <= wrapS k z < 2 ^ (k - 1).
Proof.
  intros Hk; unfold wrapS.
  assert (E : 2 ^ k = 2 * 2 ^ (k - 1)) by (rewrite <- Z.pow_succ_r by lia; f_equal; lia).
  assert (P : 0 < 2 ^ (k - 1)) by (apply Z.pow_pos_nonneg; lia).
  pose proof (Z.mod_pos_bound (z + 2 ^ (k - 1)) (2 ^ k)) as B; lia.
Qed.

Lemma go_wrap_id t z : 0 < go_bits t -> go_in t z -> go_wrap t z = z.
Proof. destruct t as [k|k]; cbn; intros Hk H; [apply wrapS_id | apply wrapU_id]; assumption. Qed.

Lemma go_wrap_in t z : 0 < go_bits t -> go_in t (go_wrap t z).
Proof. destruct t as [k|k]; cbn; intros Hk; [apply wrapS_range | apply wrapU_range]; lia. Qed.

Lemma while_unroll {S} f (c : S -> bool) b s :
  while (Datatypes.S f) c b s = if c s then while f c b (b s) else Some s.
Proof. reflexivity. Qed.

Lemma while_fuel_mono {S} (c : S -> bool) b f : forall s r g, while f c b s = Some r -> (f <= g)%nat -> while g c b s = Some r.
Proof.
  induction f as [|f IH]; intros s r g H Hg; [discriminate|].
  destruct g as [|g]; [lia|]. cbn in *. destruct (c s); [apply IH; [exact H|lia] | exact H].
Qed.

Lemma while_end {S} (c : S -> bool) b f s r : while f c b s = Some r -> c r = false.
Proof.
  revert s; induction f as [|f IH]; intros s H; [discriminate|].
  cbn in H. destruct (c s) eqn:E; [apply (IH _ H) | congruence].
Qed.

(* invariant rule: an invariant preserved by the body while the condition holds, holds at the end *)
Lemma while_inv {S} (P : S -> Prop) (c : S -> bool) b :
  (forall s, P s -> c s = true -> P (b s)) ->
  forall f s r, P s -> while f c b s = Some r -> P r.
Proof.
  intros Hb f; induction f as [|f IH]; intros s r Hs H; [discriminate|].
  cbn in H. destruct (c s) eqn:E; [apply (IH (b s)); auto | congruence].
Qed.

Lemma while_measure {S} (m : S -> nat) (c : S -> bool) b :
  (forall s, c s = true -> (m (b s) < m s)%nat) ->
  forall f s, (m s < f)%nat -> exists r, while f c b s = Some r.
Proof.
  intros Hm f; induction f as [|f IH]; intros s Hf; [lia|].
  cbn. destruct (c s) eqn:E; [apply IH; specialize (Hm s E); lia | eauto].
Qed.

(* One-step simulation against a fuelled model loop.  [A] is the model's state, [R a s] says that the model state
   [a] represents the state [s] of the translated loop (it carries the loop invariant), [model f a] is the model
   loop with [f] iterations of fuel left (returning its accumulator when the fuel is out or its test fails), [out]
   reads the result off the final state of the translated loop, [m] is a measure that bounds the iterations.
     stop: where the translated test fails, the model returns what the state holds, whatever its fuel;
     step: where the translated test holds, the body leads to a represented state, the measure drops and the
           model makes one step.
   Then [S f] units of fuel (f iterations and the final test) suffice whenever the measure is at most [f], and the
   two loops agree.  Only [stop] and [step] look at the loop body: an edit of the Go source that keeps each
   iteration's effect keeps the proof. *)
Lemma while_simulates {A S T} (R : A -> S -> Prop) (m : A -> nat) (model : nat -> A -> T) (out : S -> T)
      (c : S -> bool) (b : S -> S) :
  (forall f a s, R a s -> c s = false -> model f a = out s) ->
  (forall f a s, R a s -> c s = true ->
     exists a', R a' (b s) /\ (m a' < m a)%nat /\ model (Datatypes.S f) a = model f a') ->
  forall f a s, R a s -> (m a <= f)%nat ->
  exists r, while (Datatypes.S f) c b s = Some r /\ model f a = out r /\ c r = false.
Proof.
  intros Hstop Hstep f; induction f as [|f IH]; intros a s HR Hm.
  - cbn. destruct (c s) eqn:E.
    + destruct (Hstep 0%nat a s HR E) as (a' & _ & Hlt & _). lia.
    + exists s. repeat split; [apply Hstop; assumption | exact E].
  - rewrite while_unroll. destruct (c s) eqn:E.
    + destruct (Hstep f a s HR E) as (a' & HR' & Hlt & Hmod).
      destruct (IH a' (b s) HR') as (r & Hw & Hr & Hc); [lia|].
      exists r. repeat split; [exact Hw | rewrite Hmod; exact Hr | exact Hc].
    + exists s. repeat split; [apply Hstop; assumption | exact E].
Qed.

(* the same for a loop whose model is a closed form rather than a fuelled function: an invariant [R] relating the
   state to a ghost value, a measure, and the result read off any state where the test fails *)
Lemma while_total {S} (I : S -> Prop) (m : S -> nat) (c : S -> bool) (b : S -> S) :
  (forall s, I s -> c s = true -> I (b s) /\ (m (b s) < m s)%nat) ->
  forall f s, I s -> (m s < f)%nat -> exists r, while f c b s = Some r /\ I r /\ c r = false.
Proof.
  intros Hb f; induction f as [|f IH]; intros s Hs Hf; [lia|].
  rewrite while_unroll. destruct (c s) eqn:E.
  - destruct (Hb s Hs E) as [Hi Hlt]. apply IH; [exact Hi | lia].
  - exists s. auto.
Qed.

(* ---- partial loops and lists ---- *)

Lemma whileP_unroll {S} f (c : S -> bool) b s :
  whileP (Datatypes.S f) c b s = if c s then match b s with None => None | Some s' => whileP f c b s' end else Some s.
Proof. reflexivity. Qed.

Lemma whileP_fuel_mono {S} (c : S -> bool) b f : forall s r g, whileP f c b s = Some r -> (f <= g)%nat -> whileP g c b s = Some r.
Proof.
  induction f as [|f IH]; intros s r g H Hg; [discriminate|].
  destruct g as [|g]; [lia|]. cbn in *. destruct (c s); [|exact H].
  destruct (b s) as [s'|]; [apply IH; [exact H|lia] | discriminate].
Qed.

(* one-step simulation as [while_simulates], for a body that may panic: [step] also shows that it does not *)
Lemma whileP_simulates {A S T} (R : A -> S -> Prop) (m : A -> nat) (model : nat -> A -> T) (out : S -> T)
      (c : S -> bool) (b : S -> option S) :
  (forall f a s, R a s -> c s = false -> model f a = out s) ->
  (forall f a s, R a s -> c s = true ->
     exists s' a', b s = Some s' /\ R a' s' /\ (m a' < m a)%nat /\ model (Datatypes.S f) a = model f a') ->
  forall f a s, R a s -> (m a <= f)%nat ->
  exists r, whileP (Datatypes.S f) c b s = Some r /\ model f a = out r /\ c r = false.
Proof.
  intros Hstop Hstep f; induction f as [|f IH]; intros a s HR Hm.
  - cbn. destruct (c s) eqn:E.
    + destruct (Hstep 0%nat a s HR E) as (s' & a' & _ & _ & Hlt & _). lia.
    + exists s. repeat split; [apply Hstop; assumption | exact E].
  - rewrite whileP_unroll. destruct (c s) eqn:E.
    + destruct (Hstep f a s HR E) as (s' & a' & Hb & HR' & Hlt & Hmod). rewrite Hb.
      destruct (IH a' s' HR') as (r & Hw & Hr & Hc); [lia|].
      exists r. repeat split; [exact Hw | rewrite Hmod; exact Hr | exact Hc].
    + exists s. repeat split; [apply Hstop; assumption | exact E].
Qed.

Lemma upd_nat_length l : forall n v, length (upd_nat l n v) = length l.
Proof. induction l as [|x t IH]; intros [|n] v; cbn; try reflexivity. rewrite IH. reflexivity. Qed.

Lemma go_len_upd l j v : go_len (go_upd l j v) = go_len l.
Proof. unfold go_len, go_upd. rewrite upd_nat_length. reflexivity. Qed.

Lemma upd_nat_mid a : forall x b v, upd_nat (a ++ x :: b) (length a) v = a ++ v :: b.
Proof. induction a as [|y a IH]; intros x b v; cbn; [reflexivity | rewrite IH; reflexivity]. Qed.

Lemma go_upd_mid a x b v : go_upd (a ++ x :: b) (Z.of_nat (length a)) v = a ++ v :: b.
Proof. unfold go_upd. rewrite Nat2Z.id. apply upd_nat_mid. Qed.

Lemma go_nth_mid a x b : go_nth (a ++ x :: b) (Z.of_nat (length a)) = x.
Proof. unfold go_nth. rewrite Nat2Z.id. apply nth_middle. Qed.

Lemma go_len_app a b : go_len (a ++ b) = go_len a + go_len b.
Proof. unfold go_len. rewrite app_length. lia. Qed.
