From Coq Require Import Extraction ExtrOcamlBasic ZArith.
From M Require Import base.ExtractBase gen.Consts model.Deadline model.Lifecycle.
Extraction Language OCaml.
Extraction "model.ml"
  xb_zadd xb_zmul xb_zdiv xb_zmod xb_zopp xb_zltb xb_nadd xb_nmul xb_ndiv xb_nmod xb_z_of_n xb_n_of_z xb_n_of_nat xb_nat_of_n xb_keep
  set_deadline read_eff read_return write_eff write_return cls_eqb Deadline.run
  accept_read predict_read accept_write predict_write accept_close predict_close Lifecycle.run Lifecycle.init.
