From Coq Require Import Extraction ExtrOcamlBasic ZArith NArith List.
From M Require Import base.ExtractBase gen.Consts model.Discover model.SrcCache.
Extraction Language OCaml.
Extraction "model.ml"
  xb_zadd xb_zmul xb_zdiv xb_zmod xb_zopp xb_zltb xb_nadd xb_nmul xb_ndiv xb_nmod xb_z_of_n xb_n_of_z xb_n_of_nat xb_nat_of_n xb_keep
  att_cap origin_code try_state outcome discover discover_rounds same_peer udp_attribute udp_run
  life lookup record plant step run age expired.
