From Coq Require Import Extraction ExtrOcamlBasic ZArith.
From M Require Import base.ExtractBase gen.Consts model.Counter model.Quota model.Account.
Extraction Language OCaml.
Extraction "model.ml"
  xb_zadd xb_zmul xb_zdiv xb_zmod xb_zopp xb_zltb xb_nadd xb_nmul xb_ndiv xb_nmod xb_z_of_n xb_n_of_z xb_n_of_nat xb_nat_of_n xb_keep
  C19_RollUpInterval
  hsum do_roll_up roll_up delta_between counter0 tick roll_up_if_due cadd load_value query dump load_pb
  check_quota refused validate_quota validate_user_quotas
  set_users policy_in_force read returned reads.
