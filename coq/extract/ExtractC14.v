From Coq Require Import Extraction ExtrOcamlBasic ZArith.
From M Require Import base.ExtractBase gen.Consts model.Sizes.
Extraction Language OCaml.
Extraction "model.ml"
  xb_zadd xb_zmul xb_zdiv xb_zmod xb_zopp xb_zltb xb_nadd xb_nmul xb_ndiv xb_nmod xb_z_of_n xb_n_of_z xb_n_of_nat xb_nat_of_n xb_keep
  max_fragment le_encoded_len max_padding max_padding_tp effective_mode write dgram_len draws_okb
  proto_of kind_of_code kind_code outcome_code control_seg valid_mtu C14_TransportPacket.
