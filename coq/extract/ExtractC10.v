From Coq Require Import Extraction ExtrOcamlBasic ZArith NArith.
From M Require Import base.ExtractBase gen.Consts model.Dispatch.
Extraction Language OCaml.
Extraction "model.ml"
  xb_zadd xb_zmul xb_zdiv xb_zmod xb_zopp xb_zltb xb_nadd xb_nmul xb_ndiv xb_nmod xb_z_of_n xb_n_of_z xb_n_of_nat xb_nat_of_n xb_keep
  is_session_proto is_data_proto is_ack_proto is_le_proto server_direction_ok input_direction_ok
  get_error_type errtype_code tree_insert_guard mk_seg
  step run outcome_class outcome_state outcome_site site_code find_session session_owner P_openReq
  parse_socks5_addr parse_socks5_udp parse_socks5_msg.
