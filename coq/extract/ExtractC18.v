From Coq Require Import Extraction ExtrOcamlBasic ZArith NArith.
From M Require Import base.ExtractBase gen.Consts model.Frame model.Socks5Udp.
Extraction Language OCaml.
Extraction "model.ml"
  xb_zadd xb_zmul xb_zdiv xb_zmod xb_zopp xb_zltb xb_nadd xb_nmul xb_ndiv xb_nmod xb_z_of_n xb_n_of_z xb_n_of_nat xb_nat_of_n xb_keep
  feed close write run_raw read_loop
  parse build_dgram udp_addr_to_header relay_run wrapper_read wrapper_write norm_ip.
