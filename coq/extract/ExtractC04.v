From Coq Require Import Extraction ExtrOcamlBasic ZArith NArith List.
From M Require Import base.ExtractBase gen.Consts model.TcpStream model.LowEntropy model.Tamper.
Extraction Language OCaml.
Extraction "model.ml"
  xb_zadd xb_zmul xb_zdiv xb_zmod xb_zopp xb_zltb xb_nadd xb_nmul xb_ndiv xb_nmod xb_z_of_n xb_n_of_z xb_n_of_nat xb_nat_of_n xb_keep
  r_init feed nonce_inc nonce_add
  udp_parse udp_total accepts session_in u_run u_init u_step u_next u_q
  meta_parse_c meta_marshal_c le_len_c
  LowEntropy.decode.
