From Coq Require Import Extraction ExtrOcamlBasic ZArith NArith List.
From M Require Import base.ExtractBase gen.Consts model.TcpStream model.LowEntropy model.Wire model.TcpStreamWire.
Extraction Language OCaml.
Extraction "model.ml"
  xb_zadd xb_zmul xb_zdiv xb_zmod xb_zopp xb_zltb xb_nadd xb_nmul xb_ndiv xb_nmod xb_z_of_n xb_n_of_z xb_n_of_nat xb_nat_of_n xb_keep
  r_init feed feed_all serialize nonce_inc nonce_add
  plan_events w_init frag_size written
  demux recv_queue read_all run_reads read1
  meta_parse_c meta_marshal_c le_len_c
  parse_w marshal_w meta_ok_w le_decode_w le_encode_w le_len_w le_ok_w
  LowEntropy.decode LowEntropy.encode.
