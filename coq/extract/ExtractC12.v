From Coq Require Import Extraction ExtrOcamlBasic ZArith.
From M Require Import base.ExtractBase gen.Consts model.Egress.
Extraction Language OCaml.
Extraction "model.ml"
  xb_zadd xb_zmul xb_zdiv xb_zmod xb_zopp xb_zltb xb_nadd xb_nmul xb_ndiv xb_nmod xb_z_of_n xb_n_of_z xb_n_of_nat xb_nat_of_n xb_keep
  ACT_PROXY ACT_DIRECT ACT_REJECT CMD_CONNECT CMD_ASSOC VER tree_fixed
  parse_request find_action relay_step relay_run cidr_contains match_rule rules_action is_loopback is_private is_unspecified.
