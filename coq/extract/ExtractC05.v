From Coq Require Import Extraction ExtrOcamlBasic ZArith.
From M Require Import base.ExtractBase gen.Consts model.ServerFront model.UserTable.
Extraction Language OCaml.
Extraction "model.ml"
  xb_zadd xb_zmul xb_zdiv xb_zmod xb_zopp xb_zltb xb_nadd xb_nmul xb_ndiv xb_nmod xb_z_of_n xb_n_of_z xb_n_of_nat xb_nat_of_n xb_keep
  C05_packetNonHeaderPosition C05_MetadataLength C05_TagOverhead C05_NonceSize C05_ProtoOpenSessionRequest
  hdr_len sig_len minute tcp_front udp_front udp_step udp_run flip_bit
  compile_users published c_id c_name c_cred
  t_out t_created t_app t_recv t_verdict u_out u_created u_delivered u_verdict u_rc u_sessions.
