From Coq Require Import Extraction ExtrOcamlBasic ZArith.
From M Require Import base.ExtractBase gen.Consts model.TrafficPattern.
Extraction Language OCaml.
Extraction "model.ml"
  xb_zadd xb_zmul xb_zdiv xb_zmod xb_zopp xb_zltb xb_nadd xb_nmul xb_ndiv xb_nmod xb_z_of_n xb_n_of_z xb_n_of_nat xb_nat_of_n xb_keep
  validate generate new_config nonce_pattern_applies udp_packet_patterned nonce_rewrite_bounds nonce_rewrite_len
  nonce_prefix_class fixed_prefix_len max_padding_size max_padding_tp extract_le le_send_decision server_send
  fragments_enabled frag_min_len frag_max_len fragment_plan tcp_writes frag_sleep.
