From Coq Require Import Extraction ExtrOcamlBasic ZArith.
From M Require Import base.ExtractBase gen.Consts model.Config.
Extraction Language OCaml.
Extraction "model.ml"
  xb_zadd xb_zmul xb_zdiv xb_zmod xb_zopp xb_zltb xb_nadd xb_nmul xb_ndiv xb_nmod xb_z_of_n xb_n_of_z xb_n_of_nat xb_nat_of_n xb_keep
  merge_server merge_client store_server_toy store_client_toy hash_users toy_hash
  link_guard link_guard_v0 simple_link parse_url_port parse_port_range flat_binding flat_ok atoi
  validate_user validate_profile validate_server_patch validate_full_server validate_client_patch validate_full_client
  export_server export_server_v0 link_as_parsed simple_view
  step_toy run_outs hint_input.
