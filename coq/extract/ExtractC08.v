From Coq Require Import Extraction ExtrOcamlBasic ZArith.
From M Require Import base.ExtractBase gen.Consts model.KeyTime.
Extraction Language OCaml.
Extraction "model.ml"
  xb_zadd xb_zmul xb_zdiv xb_zmod xb_zopp xb_zltb xb_nadd xb_nmul xb_ndiv xb_nmod xb_z_of_n xb_n_of_z xb_n_of_nat xb_nat_of_n xb_keep
  KeyRefreshInterval_ns cacheValidInterval_ns cacheValidMaxJitterMs packetUnderlayScheduleWindow_ns
  epoch slots cache_lookup decryptor_lookup minute within_range32 timestamp_ok
  underlay_takes_sessions key_found open_request_ok.
