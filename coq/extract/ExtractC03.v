From Coq Require Import Extraction ExtrOcamlBasic ZArith NArith.
From M Require Import base.ExtractBase gen.Consts model.CloseProto.
Extraction Language OCaml.
Extraction "model.ml"
  xb_zadd xb_zmul xb_zdiv xb_zmod xb_zopp xb_zltb xb_nadd xb_nmul xb_ndiv xb_nmod xb_z_of_n xb_n_of_z xb_n_of_nat xb_nat_of_n xb_keep
  C03_closeWaitIterations C03_closeWaitTickNs
  current_cfg prefix_cfg init step run canonical read_all drain deliver_eager predict outcome_of segments_read close_wait_iterations.
