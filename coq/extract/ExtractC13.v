From Coq Require Import Extraction ExtrOcamlBasic ZArith NArith.
From M Require Import base.ExtractBase gen.Consts model.UdpProto.
Extraction Language OCaml.
Extraction "model.ml"
  xb_zadd xb_zmul xb_zdiv xb_zmod xb_zopp xb_zltb xb_nadd xb_nmul xb_ndiv xb_nmod xb_z_of_n xb_n_of_z xb_n_of_nat xb_nat_of_n xb_keep
  acc_step a0 accept late_step late_init txCountLimit.
