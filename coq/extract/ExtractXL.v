(* Extraction for the validation of the translator (driver xl): the translated definitions of gen/Translated.v
   next to the model functions they are proved equal to (proofs/Translated*Proofs.v).  The [m_*] wrappers give the
   model functions names of their own (several models define an [is_session]). *)
From Coq Require Import Extraction ExtrOcamlBasic ZArith NArith.
From M Require Import base.ExtractBase gen.Consts base.MiniGo gen.Translated base.Bits64 model.Sizes.
From M Require model.LowEntropy model.Wire model.KeyTime.
From Coq Require Import List.
Import ListNotations.
Extraction Language OCaml.

Definition m_pdep_go := pdep_go.
Definition m_pext_go := pext_go.
Definition m_repeat32 := repeat32.
Definition m_max_fragment_internal := Sizes.max_fragment_internal.
Definition m_max_padding := Sizes.max_padding.
Definition m_max_fragment := Sizes.max_fragment.
Definition m_le_encoded_len := Sizes.le_encoded_len.
Definition m_src_bytes := Sizes.src_bytes.
Definition m_mode_params := LowEntropy.mode_params.
Definition m_valid_rotation := LowEntropy.valid_rotation.
Definition m_lowbits := lowbits.
Definition m_rotate_mask := LowEntropy.rotate_mask.
Definition m_is_le_proto := LowEntropy.is_le_proto.
Definition m_nonce_inc := Wire.nonce_inc.
Definition m_wire_is_session := Wire.is_session.
Definition m_wire_is_data := Wire.is_data.
Definition m_wire_is_ack := Wire.is_ack.
Definition m_wire_is_data_ack := Wire.is_data_ack.
Definition m_wire_is_low_entropy := Wire.is_low_entropy.
Definition m_validate_params (mode : Z) (hm : N) (rot : Z) : option (Z * Z) :=
  match LowEntropy.validate_params mode hm rot with LowEntropy.Ok p => Some p | LowEntropy.Err _ => None end.
Definition m_chunk_mask (init : N) (rot i : Z) : option N :=
  match LowEntropy.chunk_mask init rot i with LowEntropy.Ok v => Some v | LowEntropy.Err _ => None end.
Definition m_mid3 := KeyTime.mid3.
Definition m_within_range32 := KeyTime.within_range32.
(* uint32(now / 60): proofs/TranslatedMetadataProofs.stamp *)
Definition m_stamp (now : Z) : Z := KeyTime.u32 (Z.quot now 60).
Definition m_marshal_session (p ts sid seq st pl sl : N) : list N :=
  Wire.marshal_session {| Wire.s_proto := p; Wire.s_ts := ts; Wire.s_sid := sid; Wire.s_seq := seq; Wire.s_status := st;
                          Wire.s_plen := pl; Wire.s_slen := sl |}.
Definition m_unmarshal_session (b : list N) : option (list N) :=
  match Wire.unmarshal_session b with
  | Some m => Some [Wire.s_proto m; Wire.s_ts m; Wire.s_sid m; Wire.s_seq m; Wire.s_status m; Wire.s_plen m; Wire.s_slen m]
  | None => None
  end.
Definition m_marshal_data (p mo ts sid seq un win fr pre pl sl ma el ro : N) : list N :=
  Wire.marshal_data {| Wire.d_proto := p; Wire.d_mode := mo; Wire.d_ts := ts; Wire.d_sid := sid; Wire.d_seq := seq;
                       Wire.d_unack := un; Wire.d_win := win; Wire.d_frag := fr; Wire.d_prefix := pre; Wire.d_plen := pl;
                       Wire.d_slen := sl; Wire.d_mask := ma; Wire.d_elen := el; Wire.d_rot := ro |}.

Extraction "model.ml"
  xb_zadd xb_zmul xb_zdiv xb_zmod xb_zopp xb_zltb xb_nadd xb_nmul xb_ndiv xb_nmod xb_z_of_n xb_n_of_z xb_n_of_nat xb_nat_of_n xb_keep
  xl_mathext_Min_int xl_mathext_Max_int xl_mathext_Abs_int xl_mathext_RepeatUint32 xl_mathext_pdepGeneric xl_mathext_pextGeneric
  xl_protocol_maxFragmentSizeInternal xl_protocol_maxPaddingSize
  xl_protocol_isSessionProtocol xl_protocol_isLowEntropyProtocol xl_protocol_isDataProtocol xl_protocol_isAckProtocol
  xl_protocol_isDataAckProtocol xl_protocol_isValidLowEntropyRotation xl_protocol_lowBits xl_protocol_rotateLowEntropyMask
  xl_protocol_buildLowEntropyParams xl_protocol_lowEntropyEncodedPayloadLen xl_protocol_maxFragmentSize
  xl_cipher_increaseNonce m_nonce_inc
  xl_protocol_validateLowEntropyCodecParams m_validate_params xl_protocol_lowEntropyChunkMask m_chunk_mask
  xl_mathext_Mid_uint32 xl_mathext_WithinRange_uint32 xl_protocol_protocolType_Equals
  xl_protocol_sessionStruct_Marshal xl_protocol_sessionStruct_Unmarshal xl_protocol_dataAckStruct_Marshal
  m_mid3 m_within_range32 m_stamp m_marshal_session m_unmarshal_session m_marshal_data
  m_pdep_go m_pext_go m_repeat32 m_max_fragment_internal m_max_padding m_max_fragment m_le_encoded_len m_src_bytes m_mode_params
  m_valid_rotation m_lowbits m_rotate_mask m_is_le_proto
  m_wire_is_session m_wire_is_data m_wire_is_ack m_wire_is_data_ack m_wire_is_low_entropy.
