(* Extraction for the validation of the translator (driver xl): the translated definitions of gen/Translated.v
   next to the model functions they are proved equal to (proofs/Translated*Proofs.v).  The [m_*] wrappers give the
   model functions names of their own (several models define an [is_session]). *)
From Coq Require Import Extraction ExtrOcamlBasic ZArith NArith.
From M Require Import base.ExtractBase gen.Consts base.MiniGo gen.Translated base.Bits64 model.Sizes.
Extraction Language OCaml.

Definition m_pdep_go := pdep_go.
Definition m_pext_go := pext_go.
Definition m_repeat32 := repeat32.
Definition m_max_fragment_internal := Sizes.max_fragment_internal.
Definition m_max_padding := Sizes.max_padding.

Extraction "model.ml"
  xb_zadd xb_zmul xb_zdiv xb_zmod xb_zopp xb_zltb xb_nadd xb_nmul xb_ndiv xb_nmod xb_z_of_n xb_n_of_z xb_n_of_nat xb_nat_of_n xb_keep
  xl_mathext_Min_int xl_mathext_Max_int xl_mathext_Abs_int xl_mathext_RepeatUint32 xl_mathext_pdepGeneric xl_mathext_pextGeneric
  xl_protocol_maxFragmentSizeInternal xl_protocol_maxPaddingSize
  m_pdep_go m_pext_go m_repeat32 m_max_fragment_internal m_max_padding.
