From Coq Require Import Extraction ExtrOcamlBasic ZArith NArith.
From M Require Import base.ExtractBase gen.Consts base.Bits64 model.LowEntropy.
Extraction Language OCaml.
Extraction "model.ml"
  xb_zadd xb_zmul xb_zdiv xb_zmod xb_zopp xb_zltb xb_nadd xb_nmul xb_ndiv xb_nmod xb_z_of_n xb_n_of_z xb_n_of_nat xb_nat_of_n xb_keep
  DefaultOverhead
  pdep pext pdep_go pext_go pdep_intel pext_intel popcount rotl64 repeat32 lowbits not64
  mode_params valid_rotation validate_params enc_len chunk_mask encode decode validate_meta wire_decode.
