From Coq Require Import Extraction ExtrOcamlBasic ZArith NArith.
From M Require Import base.ExtractBase gen.Consts model.Replay.
Extraction Language OCaml.
Extraction "model.ml"
  xb_zadd xb_zmul xb_zdiv xb_zmod xb_zopp xb_zltb xb_nadd xb_nmul xb_ndiv xb_nmod xb_z_of_n xb_n_of_z xb_n_of_nat xb_nat_of_n xb_keep
  streamReplayCapacity streamReplayInterval_ns packetReplayCapacity packetReplayInterval_ns
  new_cache is_duplicate is_duplicate_v0 step final outs sizes set_users sstep sfinal presents.
