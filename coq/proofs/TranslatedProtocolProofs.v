(* pkg/protocol's size arithmetic as the source says it NOW (gen/Translated.v, written by harness/cmd/go2coq on
   every run) equals the functions of model/Sizes.v that the C14 theorems are about, and the MTU bound restated
   directly over the translated functions.

   Go's [int] is 64 bits wide on every platform the project builds for by default (amd64 / arm64); the translated
   operations wrap at 2^63 where Sizes.v computes in unbounded Z.  The equalities therefore carry a range
   hypothesis: every argument lies strictly between -2^61 and 2^61 ([int_small]).  That is harmless: MTUs come out of
   the config validators (1280..1500), fragment sizes and paddings are lengths of byte slices below 2^16. *)
From Coq Require Import ZArith Lia List Bool.
From M Require Import gen.Consts base.MiniGo gen.Translated model.Sizes.
From M Require Import proofs.MiniGoProofs proofs.TranslatedMathextProofs proofs.SizesProofs.
Import ListNotations.
Open Scope Z_scope.
Ltac Zify.zify_post_hook ::= Z.to_euclidean_division_equations.

Definition int_small (z : Z) : Prop := - 2 ^ 61 < z < 2 ^ 61.

Lemma pow61 : 2 ^ 61 = 2305843009213693952. Proof. reflexivity. Qed.
Lemma pow63 : 2 ^ 63 = 9223372036854775808. Proof. reflexivity. Qed.

Ltac ranges := unfold int_small in *; rewrite ?pow61, ?pow63 in *.

(* segment.go maxFragmentSizeInternal *)
Theorem xl_maxFragmentSizeInternal_eq_model mtu t : int_small mtu ->
  xl_protocol_maxFragmentSizeInternal mtu t = max_fragment_internal mtu t.
Proof.
  intro Hm. unfold xl_protocol_maxFragmentSizeInternal, max_fragment_internal, is_stream.
  rewrite xl_Max_int_eq_model, go_sub_I64 by (ranges; lia).
  unfold C14_TransportStream, C14_maxPDU, C14_packetOverhead. reflexivity.
Qed.

(* padding.go maxPaddingSize *)
Theorem xl_maxPaddingSize_eq_model mtu t frag ex : int_small mtu -> int_small frag -> int_small ex ->
  xl_protocol_maxPaddingSize mtu t frag ex = max_padding mtu t frag ex.
Proof.
  intros Hm Hf He. unfold xl_protocol_maxPaddingSize, max_padding, is_stream.
  rewrite xl_Min_int_eq_model.
  rewrite (go_cast_I64 ex) by (ranges; lia).
  rewrite (go_sub_I64 mtu frag) by (ranges; lia).
  rewrite (go_sub_I64 (mtu - frag)) by (ranges; lia).
  rewrite (go_sub_I64 (mtu - frag - _) ex) by (ranges; lia).
  unfold C14_TransportStream, C14_StreamPaddingCap, C14_PacketPaddingCap, C14_packetOverhead. reflexivity.
Qed.

(* the ranges are needed: at the edge of int the source wraps and the unbounded model does not *)
Example xl_maxFragmentSizeInternal_wraps :
  xl_protocol_maxFragmentSizeInternal (- 2 ^ 63) C14_TransportPacket = 2 ^ 63 - 88 /\
  max_fragment_internal (- 2 ^ 63) C14_TransportPacket = 0.
Proof. split; reflexivity. Qed.

(* non-vacuity / values *)
Example ex_xl_sizes :
  xl_protocol_maxFragmentSizeInternal 1400 C14_TransportPacket = 1312 /\
  xl_protocol_maxPaddingSize 1400 C14_TransportPacket 1000 100 = 212 /\
  xl_protocol_maxPaddingSize 1400 C14_TransportPacket 1300 20 = 0.
Proof. repeat split; reflexivity. Qed.

(* ---------- the MTU bound over the translated functions ---------- *)

Lemma emitted_plen_range is_client first mtu mode n s :
  mtu_ok mtu -> mode_ok mode -> 0 <= n ->
  emitted is_client first mtu C14_TransportPacket mode n s -> 0 <= s_plen s <= C14_MaxUint16.
Proof.
  intros Hmtu Hmode Hn [Hin | (k & _ & ->)].
  - pose proof (c14_fields is_client first mtu C14_TransportPacket mode n s Hmode (or_intror eq_refl) (fun _ => Hmtu) Hn Hin) as F.
    tauto.
  - cbn [control_seg s_plen]. unfold C14_MaxUint16. lia.
Qed.

(* C14_mtu with the padding maxima computed by the SOURCE of maxPaddingSize (no traffic pattern: the configured
   maxima only lower them), plus the byte bound of the two paddings *)
Theorem xl_mtu_bound : forall mtu mode is_client first n s p1 p2,
  mtu_ok mtu -> mode_ok mode -> 0 <= n ->
  emitted is_client first mtu C14_TransportPacket mode n s ->
  0 <= p1 <= (if is_session (s_kind s) then 0 else xl_protocol_maxPaddingSize mtu C14_TransportPacket (s_plen s) 0) ->
  0 <= p2 <= xl_protocol_maxPaddingSize mtu C14_TransportPacket (s_plen s) (if is_session (s_kind s) then 0 else p1) ->
  dgram_len s p1 p2 <= mtu /\ p1 <= C14_MaxUint8 /\ p2 <= C14_MaxUint8.
Proof.
  intros mtu mode is_client first n s p1 p2 Hmtu Hmode Hn He H1 H2.
  pose proof (emitted_plen_range _ _ _ _ _ _ Hmtu Hmode Hn He) as Hpl.
  assert (Sm : int_small mtu) by (unfold mtu_ok in Hmtu; revert Hmtu; consts; ranges; lia).
  assert (Sp : int_small (s_plen s)) by (revert Hpl; consts; ranges; lia).
  assert (S0 : int_small 0) by (ranges; lia).
  rewrite (xl_maxPaddingSize_eq_model mtu _ (s_plen s) 0 Sm Sp S0) in H1.
  pose proof (max_padding_range mtu C14_TransportPacket (s_plen s) 0) as R1.
  assert (B1 : 0 <= p1 <= C14_MaxUint8) by (destruct (is_session (s_kind s)); revert R1; consts; lia).
  assert (S1 : int_small (if is_session (s_kind s) then 0 else p1))
    by (destruct (is_session (s_kind s)); revert B1; consts; ranges; lia).
  rewrite (xl_maxPaddingSize_eq_model mtu _ (s_plen s) _ Sm Sp S1) in H2.
  pose proof (max_padding_range mtu C14_TransportPacket (s_plen s) (if is_session (s_kind s) then 0 else p1)) as R2.
  split; [|lia].
  apply (c14_mtu mtu mode is_client first n None None s p1 p2 Hmtu Hmode Hn He).
  unfold draws_ok, pad1_max, pad2_max, max_padding_tp. split; assumption.
Qed.

(* the same bound as pure arithmetic over the two translated functions, with no model in the statement: a fragment
   within maxFragmentSizeInternal and two paddings within maxPaddingSize (the second one knowing the first) fit the
   MTU together with the fixed overhead, and each padding fits its length byte *)
Theorem xl_padding_budget : forall mtu frag p1 p2,
  mtu_ok mtu ->
  0 <= frag <= xl_protocol_maxFragmentSizeInternal mtu C14_TransportPacket ->
  0 <= p1 <= xl_protocol_maxPaddingSize mtu C14_TransportPacket frag 0 ->
  0 <= p2 <= xl_protocol_maxPaddingSize mtu C14_TransportPacket frag p1 ->
  C14_packetOverhead + frag + p1 + p2 <= mtu /\ p1 <= C14_MaxUint8 /\ p2 <= C14_MaxUint8.
Proof.
  intros mtu frag p1 p2 Hmtu Hf H1 H2.
  assert (Sm : int_small mtu) by (unfold mtu_ok in Hmtu; revert Hmtu; consts; ranges; lia).
  rewrite (xl_maxFragmentSizeInternal_eq_model mtu _ Sm) in Hf.
  assert (Sf : int_small frag).
  { revert Hf Hmtu. unfold max_fragment_internal, is_stream, mtu_ok. consts. cbn [Z.eqb Pos.eqb]. ranges. lia. }
  assert (S0 : int_small 0) by (ranges; lia).
  rewrite (xl_maxPaddingSize_eq_model mtu _ frag 0 Sm Sf S0) in H1.
  pose proof (max_padding_range mtu C14_TransportPacket frag 0) as R1.
  assert (S1 : int_small p1) by (revert R1 H1; consts; ranges; lia).
  rewrite (xl_maxPaddingSize_eq_model mtu _ frag p1 Sm Sf S1) in H2.
  pose proof (max_padding_range mtu C14_TransportPacket frag p1) as R2.
  split; [|lia].
  revert Hf H1 H2 Hmtu. unfold max_fragment_internal, max_padding, is_stream, mtu_ok. consts. cbn [Z.eqb Pos.eqb].
  intros Hf H1 H2 Hmtu.
  repeat match goal with H : context [if ?a <=? ?b then _ else _] |- _ => destruct (Z.leb_spec a b) end; lia.
Qed.

(* ---------- buildLowEntropyParams, lowEntropyEncodedPayloadLen, maxFragmentSize ----------
   Results of type error are booleans in the translation (true = an error was returned); a struct of integers is
   the tuple of its fields.  The model's [option] is [None] exactly where the source returns an error. *)

Definition of_opt (o : option Z) : Z * bool := match o with Some v => (v, false) | None => (0, true) end.

(* the source's mode table against Sizes.src_bytes: the same modes are valid, with the same source bytes per chunk *)
Theorem xl_buildLowEntropyParams_eq_model mode :
  match src_bytes mode with
  | Some sb => exists w, xl_protocol_buildLowEntropyParams mode = ((sb, w), false)
  | None => xl_protocol_buildLowEntropyParams mode = ((0, 0), true)
  end.
Proof.
  unfold src_bytes, xl_protocol_buildLowEntropyParams, C14_Mode32, C14_Mode40, C14_Mode48, C14_Mode56,
    C14_Src32, C14_Src40, C14_Src48, C14_Src56.
  destruct (mode =? 1); [eexists; reflexivity|].
  destruct (mode =? 2); [eexists; reflexivity|].
  destruct (mode =? 3); [eexists; reflexivity|].
  destruct (mode =? 4); [eexists; reflexivity|]. reflexivity.
Qed.

Lemma u16_cast x : go_cast (U 16) x = u16 x.
Proof. reflexivity. Qed.

(* low_entropy.go lowEntropyEncodedPayloadLen: never panics (the divisor is one of 4..7), errors where the model has
   None, the same uint16 otherwise *)
Theorem xl_lowEntropyEncodedPayloadLen_eq_model n mode : int_small n ->
  xl_protocol_lowEntropyEncodedPayloadLen n mode = Some (of_opt (le_encoded_len n mode)).
Proof.
  intro Hn. unfold xl_protocol_lowEntropyEncodedPayloadLen, le_encoded_len.
  pose proof (xl_buildLowEntropyParams_eq_model mode) as B.
  destruct (src_bytes mode) as [sb|] eqn:Es.
  - destruct B as [w ->]. pose proof (src_bytes_range _ _ Es) as Rs.
    cbv beta iota zeta. cbn [Bool.eqb negb].
    destruct (Z.leb_spec n 0) as [H0|H0]; [reflexivity|].
    assert (E0 : (sb =? 0) = false) by (apply Z.eqb_neq; lia). rewrite E0. cbn [negb].
    rewrite go_quo_I64, go_rem_I64 by (ranges; lia).
    destruct (quot_bounds n sb ltac:(lia)) as [Q _]. specialize (Q ltac:(lia)).
    rewrite if_negb.
    assert (Ec : (if Z.rem n sb =? 0 then Z.quot n sb else go_add (I 64) (Z.quot n sb) 1)
                 = Z.quot n sb + (if Z.rem n sb =? 0 then 0 else 1)).
    { destruct (Z.rem n sb =? 0); [lia | apply go_add_I64; ranges; lia]. }
    rewrite Ec. set (c := Z.quot n sb + _).
    rewrite max_chunks_val, Z.gtb_ltb. unfold C14_lowEntropyChunkLen.
    destruct (Z.ltb_spec 8191 c) as [Hc|Hc]; [reflexivity|].
    assert (0 <= c) by (subst c; destruct (Z.rem n sb =? 0); lia).
    rewrite go_mul_I64 by (ranges; lia). reflexivity.
  - rewrite B. reflexivity.
Qed.

(* segment.go maxFragmentSize *)
Theorem xl_maxFragmentSize_eq_model mtu t mode : int_small mtu ->
  xl_protocol_maxFragmentSize mtu t mode = of_opt (max_fragment mtu t mode).
Proof.
  intro Hm. unfold xl_protocol_maxFragmentSize, max_fragment.
  rewrite !xl_maxFragmentSizeInternal_eq_model by exact Hm. unfold C14_ModeOff.
  destruct (mode =? 0); [reflexivity|].
  pose proof (xl_buildLowEntropyParams_eq_model mode) as B.
  destruct (src_bytes mode) as [sb|] eqn:Es.
  - destruct B as [w ->]. pose proof (src_bytes_range _ _ Es) as Rs.
    cbv beta iota zeta. cbn [Bool.eqb negb].
    unfold is_stream, is_packet, C14_TransportStream, C14_TransportPacket.
    destruct (t =? 1).
    + rewrite xl_Min_int_eq_model, max_chunks_val, go_mul_I64 by (ranges; lia). reflexivity.
    + destruct (t =? 2); [|reflexivity].
      unfold C14_packetOverhead, C14_lowEntropyChunkLen.
      rewrite go_sub_I64 by (ranges; lia). rewrite go_quo_I64 by (ranges; lia).
      destruct (Z.leb_spec (Z.quot (mtu - 88) 8) 0) as [Hc|Hc]; [reflexivity|].
      destruct (quot_bounds (mtu - 88) 8 ltac:(lia)) as [Q1 Q2].
      assert (0 <= mtu - 88) by (destruct (Z_lt_le_dec (mtu - 88) 0); [specialize (Q2 ltac:(lia)); lia | lia]).
      specialize (Q1 ltac:(lia)).
      rewrite go_mul_I64 by (ranges; nia). reflexivity.
  - rewrite B. reflexivity.
Qed.

Example ex_xl_fragment_sizes :
  xl_protocol_maxFragmentSize 1400 C14_TransportPacket C14_Mode32 = (656, false) /\
  xl_protocol_maxFragmentSize 90 C14_TransportPacket C14_Mode32 = (0, true) /\
  xl_protocol_maxFragmentSize 1400 C14_TransportPacket 9 = (0, true) /\
  xl_protocol_lowEntropyEncodedPayloadLen 32764 C14_Mode32 = Some (65528, false) /\
  xl_protocol_lowEntropyEncodedPayloadLen 32768 C14_Mode32 = Some (0, true).
Proof. repeat split; reflexivity. Qed.
