(* pkg/protocol's size arithmetic as the source says it NOW (gen/Translated.v, written by harness/cmd/go2coq on
   every run) equals the functions of model/Sizes.v that the C14 theorems are about, and the MTU bound restated
   directly over the translated functions.

   Go's [int] is 64 bits wide on every platform the project builds for by default (amd64 / arm64); the translated
   operations wrap at 2^63 where Sizes.v computes in unbounded Z.  The equalities therefore carry a range
   hypothesis: every argument lies strictly between -2^61 and 2^61 ([int_small]).  That is harmless: MTUs come out of
   the config validators (1280..1500), fragment sizes and paddings are lengths of byte slices below 2^16. *)
From Coq Require Import ZArith Lia List Bool.
From M Require Import gen.Consts base.MiniGo gen.Translated model.Sizes.
From M Require Import proofs.MiniGoProofs proofs.TranslatedMathextProofs proofs.SizesProofs.
Import ListNotations.
Open Scope Z_scope.
Ltac Zify.zify_post_hook ::= Z.to_euclidean_division_equations.

Definition int_small (z : Z) : Prop := - 2 ^ 61 < z < 2 ^ 61.

Lemma pow61 : 2 ^ 61 = 2305843009213693952. Proof. reflexivity. Qed.
Lemma pow63 : 2 ^ 63 = 9223372036854775808. Proof. reflexivity. Qed.

Ltac ranges := unfold int_small in *; rewrite ?pow61, ?pow63 in *.

(* segment.go maxFragmentSizeInternal *)
Theorem xl_maxFragmentSizeInternal_eq_model mtu t : int_small mtu ->
  xl_protocol_maxFragmentSizeInternal mtu t = max_fragment_internal mtu t.
Proof.
  intro Hm. unfold xl_protocol_maxFragmentSizeInternal, max_fragment_internal, is_stream.
  rewrite xl_Max_int_eq_model, go_sub_I64 by (ranges; lia).
  unfold C14_TransportStream, C14_maxPDU, C14_packetOverhead. reflexivity.
Qed.

(* padding.go maxPaddingSize *)
Theorem xl_maxPaddingSize_eq_model mtu t frag ex : int_small mtu -> int_small frag -> int_small ex ->
  xl_protocol_maxPaddingSize mtu t frag ex = max_padding mtu t frag ex.
Proof.
  intros Hm Hf He. unfold xl_protocol_maxPaddingSize, max_padding, is_stream.
  rewrite xl_Min_int_eq_model.
  rewrite (go_cast_I64 ex) by (ranges; lia).
  rewrite (go_sub_I64 mtu frag) by (ranges; lia).
  rewrite (go_sub_I64 (mtu - frag)) by (ranges; lia).
  rewrite (go_sub_I64 (mtu - frag - _) ex) by (ranges; lia).
  unfold C14_TransportStream, C14_StreamPaddingCap, C14_PacketPaddingCap, C14_packetOverhead. reflexivity.
Qed.

(* the ranges are needed: at the edge of int the source wraps and the unbounded model does not *)
Example xl_maxFragmentSizeInternal_wraps :
  xl_protocol_maxFragmentSizeInternal (- 2 ^ 63) C14_TransportPacket = 2 ^ 63 - 88 /\
  max_fragment_internal (- 2 ^ 63) C14_TransportPacket = 0.
Proof. split; reflexivity. Qed.

(* non-vacuity / values *)
Example ex_xl_sizes :
  xl_protocol_maxFragmentSizeInternal 1400 C14_TransportPacket = 1312 /\
  xl_protocol_maxPaddingSize 1400 C14_TransportPacket 1000 100 = 212 /\
  xl_protocol_maxPaddingSize 1400 C14_TransportPacket 1300 20 = 0.
Proof. repeat split; reflexivity. Qed.

(* ---------- the MTU bound over the translated functions ---------- *)

Lemma emitted_plen_range is_client first mtu mode n s :
  mtu_ok mtu -> mode_ok mode -> 0 <= n ->
  emitted is_client first mtu C14_TransportPacket mode n s -> 0 <= s_plen s <= C14_MaxUint16.
Proof.
  intros Hmtu Hmode Hn [Hin | (k & _ & ->)].
  - pose proof (c14_fields is_client first mtu C14_TransportPacket mode n s Hmode (or_intror eq_refl) (fun _ => Hmtu) Hn Hin) as F.
    tauto.
  - cbn [control_seg s_plen]. unfold C14_MaxUint16. lia.
Qed.

(* C14_mtu with the padding maxima computed by the SOURCE of maxPaddingSize (no traffic pattern: the configured
   maxima only lower them), plus the byte bound of the two paddings *)
Theorem xl_mtu_bound : forall mtu mode is_client first n s p1 p2,
  mtu_ok mtu -> mode_ok mode -> 0 <= n ->
  emitted is_client first mtu C14_TransportPacket mode n s ->
  0 <= p1 <= (if is_session (s_kind s) then 0 else xl_protocol_maxPaddingSize mtu C14_TransportPacket (s_plen s) 0) ->
  0 <= p2 <= xl_protocol_maxPaddingSize mtu C14_TransportPacket (s_plen s) (if is_session (s_kind s) then 0 else p1) ->
  dgram_len s p1 p2 <= mtu /\ p1 <= C14_MaxUint8 /\ p2 <= C14_MaxUint8.
Proof.
  intros mtu mode is_client first n s p1 p2 Hmtu Hmode Hn He H1 H2.
  pose proof (emitted_plen_range _ _ _ _ _ _ Hmtu Hmode Hn He) as Hpl.
  assert (Sm : int_small mtu) by (unfold mtu_ok in Hmtu; revert Hmtu; consts; ranges; lia).
  assert (Sp : int_small (s_plen s)) by (revert Hpl; consts; ranges; lia).
  assert (S0 : int_small 0) by (ranges; lia).
  rewrite (xl_maxPaddingSize_eq_model mtu _ (s_plen s) 0 Sm Sp S0) in H1.
  pose proof (max_padding_range mtu C14_TransportPacket (s_plen s) 0) as R1.
  assert (B1 : 0 <= p1 <= C14_MaxUint8) by (destruct (is_session (s_kind s)); revert R1; consts; lia).
  assert (S1 : int_small (if is_session (s_kind s) then 0 else p1))
    by (destruct (is_session (s_kind s)); revert B1; consts; ranges; lia).
  rewrite (xl_maxPaddingSize_eq_model mtu _ (s_plen s) _ Sm Sp S1) in H2.
  pose proof (max_padding_range mtu C14_TransportPacket (s_plen s) (if is_session (s_kind s) then 0 else p1)) as R2.
  split; [|lia].
  apply (c14_mtu mtu mode is_client first n None None s p1 p2 Hmtu Hmode Hn He).
  unfold draws_ok, pad1_max, pad2_max, max_padding_tp. split; assumption.
Qed.

(* the same bound as pure arithmetic over the two translated functions, with no model in the statement: a fragment
   within maxFragmentSizeInternal and two paddings within maxPaddingSize (the second one knowing the first) fit the
   MTU together with the fixed overhead, and each padding fits its length byte *)
Theorem xl_padding_budget : forall mtu frag p1 p2,
  mtu_ok mtu ->
  0 <= frag <= xl_protocol_maxFragmentSizeInternal mtu C14_TransportPacket ->
  0 <= p1 <= xl_protocol_maxPaddingSize mtu C14_TransportPacket frag 0 ->
  0 <= p2 <= xl_protocol_maxPaddingSize mtu C14_TransportPacket frag p1 ->
  C14_packetOverhead + frag + p1 + p2 <= mtu /\ p1 <= C14_MaxUint8 /\ p2 <= C14_MaxUint8.
Proof.
  intros mtu frag p1 p2 Hmtu Hf H1 H2.
  assert (Sm : int_small mtu) by (unfold mtu_ok in Hmtu; revert Hmtu; consts; ranges; lia).
  rewrite (xl_maxFragmentSizeInternal_eq_model mtu _ Sm) in Hf.
  assert (Sf : int_small frag).
  { revert Hf Hmtu. unfold max_fragment_internal, is_stream, mtu_ok. consts. cbn [Z.eqb Pos.eqb]. ranges. lia. }
  assert (S0 : int_small 0) by (ranges; lia).
  rewrite (xl_maxPaddingSize_eq_model mtu _ frag 0 Sm Sf S0) in H1.
  pose proof (max_padding_range mtu C14_TransportPacket frag 0) as R1.
  assert (S1 : int_small p1) by (revert R1 H1; consts; ranges; lia).
  rewrite (xl_maxPaddingSize_eq_model mtu _ frag p1 Sm Sf S1) in H2.
  pose proof (max_padding_range mtu C14_TransportPacket frag p1) as R2.
  split; [|lia].
  revert Hf H1 H2 Hmtu. unfold max_fragment_internal, max_padding, is_stream, mtu_ok. consts. cbn [Z.eqb Pos.eqb].
  intros Hf H1 H2 Hmtu.
  repeat match goal with H : context [if ?a <=? ?b then _ else _] |- _ => destruct (Z.leb_spec a b) end; lia.
Qed.
