(* Tie between model/Wire.v (which key a UDP server session seals its replies with) and model/KeyTime.v
   (which keys a peer that derives its key from its clock can open), property C09. *)
From Coq Require Import ZArith NArith List Lia.
From M Require Import gen.Consts model.KeyTime proofs.KeyTimeProofs model.Wire proofs.WireProofs.
Import ListNotations.
Open Scope Z_scope.

(* Keys are named by their time salt (unix seconds of the rounded slot): for one user the key is a function of the
   salt (derive_key).  The client seals its datagram number i at instant t_i (unix ns) with the key of epoch(t_i),
   as the document says; the server session has received the datagrams sent at ts ++ [t].  Then the key of the
   server's replies is the key of the LAST datagram, and a client whose clock reads t + d, |d| <= 120 s, finds that
   key among the three salts around its current time. *)
Lemma udp_reply_key_follows_peer (st : option Z) (ts : list Z) (t d : Z) :
  Z.abs d <= 120 * NS ->
  sess_run Z st (map (epoch KeyRefreshInterval_ns) (ts ++ [t])) = Some (epoch KeyRefreshInterval_ns t) /\
  In (epoch KeyRefreshInterval_ns t) (slots KeyRefreshInterval_ns (t + d)).
Proof.
  intros Hd. split.
  - rewrite map_app. cbn [map]. apply sess_run_last.
  - apply skew_common_key. exact Hd.
Qed.

(* why it has to be the last one: a session that kept the key of its first datagram (instant t0) answers, from
   240 s on, with a key that is not among the peer's three *)
Lemma udp_first_key_goes_stale (t0 t : Z) :
  era t0 -> era t -> 240 * NS <= Z.abs (t - t0) ->
  ~ In (epoch KeyRefreshInterval_ns t0) (slots KeyRefreshInterval_ns t).
Proof.
  intros E0 E H.
  assert (E' : era (t0 + (t - t0))) by (replace (t0 + (t - t0)) with t by lia; exact E).
  pose proof (proj2 (c08_stale t0 (t - t0) E0 E')) as P.
  replace (t0 + (t - t0)) with t in P by lia. apply P. unfold S60. lia.
Qed.

Example ex_reply_key : sess_run Z None (map (epoch KeyRefreshInterval_ns) [1700000000 * NS; 1700000130 * NS; 1700000400 * NS]) = Some 1700000400.
Proof. vm_compute. reflexivity. Qed.
