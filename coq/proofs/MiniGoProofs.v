(* Bridge lemmas between the Z-valued operations of base/MiniGo.v (what harness/cmd/go2coq emits) and the N / Z
   arithmetic the hand-written models use.  Used by proofs/Translated*Proofs.v.

   Two rewrite databases:
     [xl_n2z]  pulls [Z.of_N] outwards over the operations of an unsigned Go type (so that a translated body over
               [Z.of_N a], [Z.of_N b], ... becomes [Z.of_N] of a body over N);
     the range side conditions are left as goals of the form [a < 2^64] / [a <> 0]. *)
From Coq Require Import ZArith NArith Bool Lia ZifyN ZifyBool.
From M Require Import base.MiniGo.
Ltac Zify.zify_post_hook ::= Z.div_mod_to_equations.
Open Scope Z_scope.

(* ---------- signed 64-bit: no wrap inside the range ---------- *)

Lemma in_I64 z : - 2 ^ 63 <= z < 2 ^ 63 -> go_wrap (I 64) z = z.
Proof. intro H. apply wrapS_id; [lia | exact H]. Qed.

Lemma go_add_I64 a b : - 2 ^ 63 <= a + b < 2 ^ 63 -> go_add (I 64) a b = a + b.
Proof. apply in_I64. Qed.
Lemma go_sub_I64 a b : - 2 ^ 63 <= a - b < 2 ^ 63 -> go_sub (I 64) a b = a - b.
Proof. apply in_I64. Qed.
Lemma go_mul_I64 a b : - 2 ^ 63 <= a * b < 2 ^ 63 -> go_mul (I 64) a b = a * b.
Proof. apply in_I64. Qed.
Lemma go_neg_I64 a : - 2 ^ 63 < a < 2 ^ 63 -> go_neg (I 64) a = - a.
Proof. intro H. apply in_I64. lia. Qed.
Lemma go_cast_I64 a : - 2 ^ 63 <= a < 2 ^ 63 -> go_cast (I 64) a = a.
Proof. apply in_I64. Qed.
Lemma quot_bounds a b : 0 < b -> (0 <= a -> 0 <= Z.quot a b <= a) /\ (a <= 0 -> a <= Z.quot a b <= 0).
Proof.
  intro Hb. split; intro Ha.
  - pose proof (Z.mul_quot_le a b Ha ltac:(lia)). nia.
  - pose proof (Z.mul_quot_ge a b Ha ltac:(lia)). nia.
Qed.
Lemma rem_bounds a b : 0 < b -> (0 <= a -> 0 <= Z.rem a b <= a) /\ (a <= 0 -> a <= Z.rem a b <= 0).
Proof.
  intro Hb. pose proof (Z.quot_rem' a b) as E. split; intro Ha.
  - pose proof (Z.mul_quot_le a b Ha ltac:(lia)). lia.
  - pose proof (Z.mul_quot_ge a b Ha ltac:(lia)). lia.
Qed.
Lemma go_quo_I64 a b : - 2 ^ 63 <= a < 2 ^ 63 -> 0 < b -> go_quo (I 64) a b = Z.quot a b.
Proof. intros Ha Hb. apply in_I64. destruct (quot_bounds a b Hb). lia. Qed.
Lemma go_rem_I64 a b : - 2 ^ 63 <= a < 2 ^ 63 -> 0 < b -> go_rem (I 64) a b = Z.rem a b.
Proof. intros Ha Hb. apply in_I64. destruct (rem_bounds a b Hb). lia. Qed.

(* ---------- unsigned k-bit words carried as N ---------- *)

(* (not in the standard library of 8.16) *)
Lemma of_N_land a b : Z.of_N (N.land a b) = Z.land (Z.of_N a) (Z.of_N b).
Proof. destruct a, b; reflexivity. Qed.
Lemma of_N_lor a b : Z.of_N (N.lor a b) = Z.lor (Z.of_N a) (Z.of_N b).
Proof. destruct a, b; reflexivity. Qed.
Lemma of_N_lxor a b : Z.of_N (N.lxor a b) = Z.lxor (Z.of_N a) (Z.of_N b).
Proof. destruct a, b; reflexivity. Qed.

Lemma of_N_pow2 k : Z.of_N (2 ^ k) = 2 ^ Z.of_N k.
Proof. rewrite N2Z.inj_pow. reflexivity. Qed.

Lemma of_N_lt_pow2 k a : (a < 2 ^ k)%N -> 0 <= Z.of_N a < 2 ^ Z.of_N k.
Proof. intro H. rewrite <- of_N_pow2. lia. Qed.

Lemma of_N_W64 a : (a < 2 ^ 64)%N -> 0 <= Z.of_N a < 2 ^ 64.
Proof. apply (of_N_lt_pow2 64). Qed.

Lemma wrapU64_of_N a : wrapU 64 (Z.of_N a) = Z.of_N (a mod 2 ^ 64).
Proof. unfold wrapU. rewrite N2Z.inj_mod. reflexivity. Qed.

Lemma wrapU64_small a : (a < 2 ^ 64)%N -> wrapU 64 (Z.of_N a) = Z.of_N a.
Proof. intro H. apply wrapU_id, of_N_W64, H. Qed.

(* -a on uint64, for every a (the model's [neg64]) *)
Lemma go_neg_U64_of_N a : go_neg (U 64) (Z.of_N a) = Z.of_N ((2 ^ 64 - a mod 2 ^ 64) mod 2 ^ 64).
Proof.
  unfold go_neg, go_wrap, wrapU. rewrite N2Z.inj_mod, N2Z.inj_sub, N2Z.inj_mod.
  - change (Z.of_N (2 ^ 64)) with (2 ^ 64). set (P := 2 ^ 64). assert (0 < P) by (subst P; lia).
    generalize (Z.of_N a) (N2Z.is_nonneg a). intros z Hz. lia.
  - assert (a mod 2 ^ 64 < 2 ^ 64)%N by (apply N.mod_lt; discriminate). lia.
Qed.

Lemma go_add_U64_of_N a b : go_add (U 64) (Z.of_N a) (Z.of_N b) = Z.of_N ((a + b) mod 2 ^ 64).
Proof. unfold go_add, go_wrap. rewrite <- N2Z.inj_add. apply wrapU64_of_N. Qed.

Lemma go_mul_U64_of_N a b : go_mul (U 64) (Z.of_N a) (Z.of_N b) = Z.of_N ((a * b) mod 2 ^ 64).
Proof. unfold go_mul, go_wrap. rewrite <- N2Z.inj_mul. apply wrapU64_of_N. Qed.

(* a - b on uint64 without borrow *)
Lemma go_sub_U64_of_N a b : (b <= a)%N -> (a < 2 ^ 64)%N -> go_sub (U 64) (Z.of_N a) (Z.of_N b) = Z.of_N (a - b).
Proof.
  intros Hb Ha. unfold go_sub, go_wrap. rewrite <- N2Z.inj_sub by exact Hb. apply wrapU64_small. lia.
Qed.

Lemma go_sub_U64_pred a : a <> 0%N -> (a < 2 ^ 64)%N -> go_sub (U 64) (Z.of_N a) 1 = Z.of_N (a - 1).
Proof. intros H0 Ha. change 1 with (Z.of_N 1). apply go_sub_U64_of_N; lia. Qed.

(* a << s on uint64 for a constant count below the width (the model writes [(a * 2^s) mod 2^64]) *)
Lemma go_shl_U64_of_N a s : (s < 64)%N -> go_shl (U 64) (Z.of_N a) (Z.of_N s) = Z.of_N ((a * 2 ^ s) mod 2 ^ 64).
Proof.
  intro Hs. unfold go_shl, go_bits, go_wrap.
  destruct (64 <=? Z.of_N s) eqn:E; [apply Z.leb_le in E; lia|].
  rewrite <- of_N_pow2, <- N2Z.inj_mul. apply wrapU64_of_N.
Qed.

Lemma go_shl_U64_1 a : go_shl (U 64) (Z.of_N a) 1 = Z.of_N ((a * 2) mod 2 ^ 64).
Proof. change 1 with (Z.of_N 1). rewrite go_shl_U64_of_N by reflexivity. reflexivity. Qed.

(* a >> s on an unsigned word *)
Lemma go_shr_U_of_N t a s : go_shr t (Z.of_N a) (Z.of_N s) = Z.of_N (N.shiftr a s).
Proof.
  unfold go_shr. rewrite Z.shiftr_div_pow2 by lia. rewrite N.shiftr_div_pow2, N2Z.inj_div, N2Z.inj_pow. reflexivity.
Qed.

Lemma go_cast_U64_of_N a : (a < 2 ^ 64)%N -> go_cast (U 64) (Z.of_N a) = Z.of_N a.
Proof. apply wrapU64_small. Qed.

(* comparisons and conditionals *)
Lemma eqb_of_N a b : (Z.of_N a =? Z.of_N b) = (a =? b)%N.
Proof. destruct (N.eqb_spec a b) as [->|H]; [apply Z.eqb_refl | apply Z.eqb_neq; lia]. Qed.
Lemma eqb_of_N_0 a : (Z.of_N a =? 0) = (a =? 0)%N.
Proof. apply (eqb_of_N a 0). Qed.
Lemma ltb_of_N a b : (Z.of_N a <? Z.of_N b) = (a <? b)%N.
Proof. destruct (N.ltb_spec a b); [apply Z.ltb_lt | apply Z.ltb_ge]; lia. Qed.
Lemma leb_of_N a b : (Z.of_N a <=? Z.of_N b) = (a <=? b)%N.
Proof. destruct (N.leb_spec a b); [apply Z.leb_le | apply Z.leb_gt]; lia. Qed.

Lemma if_negb {T} (c : bool) (x y : T) : (if negb c then x else y) = if c then y else x.
Proof. destruct c; reflexivity. Qed.
Lemma if_of_N (c : bool) a b : (if c then Z.of_N a else Z.of_N b) = Z.of_N (if c then a else b).
Proof. destruct c; reflexivity. Qed.

(* disjoint halves: [|] is [+] *)
Lemma lor_shifted_N a b k : (b < 2 ^ k)%N -> N.lor (a * 2 ^ k) b = (a * 2 ^ k + b)%N.
Proof.
  intro Hb. rewrite <- N.shiftl_mul_pow2.
  assert (D : N.land (N.shiftl a k) b = 0%N).
  { apply N.bits_inj; intro i. rewrite N.land_spec, N.bits_0.
    destruct (N.lt_ge_cases i k) as [Hi|Hi].
    - rewrite N.shiftl_spec_low by exact Hi. reflexivity.
    - destruct (N.eq_dec b 0) as [->|Hnz]; [rewrite N.bits_0; apply andb_false_r|].
      rewrite (N.bits_above_log2 b i), andb_false_r; [reflexivity|].
      apply N.log2_lt_pow2 in Hb; lia. }
  rewrite <- N.lxor_lor by exact D. symmetry. apply N.add_nocarry_lxor. exact D.
Qed.

Global Hint Rewrite <- of_N_land of_N_lor of_N_lxor : xl_n2z.
Global Hint Rewrite go_neg_U64_of_N go_add_U64_of_N go_mul_U64_of_N go_shl_U64_1 eqb_of_N_0 eqb_of_N ltb_of_N leb_of_N
  @if_negb if_of_N : xl_n2z.
