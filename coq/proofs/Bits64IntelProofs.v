(* The position-by-position rendering of the Intel SDM pseudo code of PDEP / PEXT (pdep_intel / pext_intel of
   base/Bits64.v: bit index m = 0..n-1, source/destination counter k) equals the structural definition, for every
   operand width n (instantiated at 64).  Loop invariant: after visiting positions < m having consumed k bits,
   the rest of the loop deposits (extracts) what the structural recursion does on the mask shifted right by m and
   truncated to the remaining n positions, moved up by m (by k). *)
From Coq Require Import NArith PArith Bool Lia.
From M Require Import base.Bits64 proofs.Bits64Proofs proofs.Bits64LoopProofs.
Open Scope N_scope.

Lemma pdep_bcons_true y r : pdep y (bcons true r) = bcons (N.odd y) (pdep (N.div2 y) r).
Proof. destruct r; reflexivity. Qed.
Lemma pdep_bcons_false y r : pdep y (bcons false r) = bcons false (pdep y r).
Proof. destruct r; reflexivity. Qed.
Lemma pext_bcons_true x r : pext x (bcons true r) = bcons (N.odd x) (pext (N.div2 x) r).
Proof. destruct r; reflexivity. Qed.
Lemma pext_bcons_false x r : pext x (bcons false r) = pext (N.div2 x) r.
Proof. destruct r; reflexivity. Qed.

(* the window of the mask still to be visited: its lowest bit is MASK[m] *)
Lemma window_succ mask m (n : nat) :
  N.shiftr mask m mod 2 ^ N.of_nat (S n) =
  bcons (N.testbit mask m) (N.shiftr mask (m + 1) mod 2 ^ N.of_nat n).
Proof.
  rewrite Nat2N.inj_succ, <- N.add_1_l, mod_pow2_succ.
  rewrite <- N.testbit_odd, N.div2_spec, N.shiftr_shiftr. reflexivity.
Qed.

Lemma shiftr_succ_div2 a k : N.shiftr a (k + 1) = N.div2 (N.shiftr a k).
Proof. rewrite N.div2_spec, N.shiftr_shiftr. reflexivity. Qed.

Lemma setbit_lor a m : N.setbit a m = N.lor a (2 ^ m).
Proof. unfold N.setbit. rewrite N.shiftl_1_l. reflexivity. Qed.

Lemma pdep_intel_loop_spec temp mask : forall (n : nat) m k dest,
  pdep_intel_loop n m k temp mask dest =
  N.lor dest (N.shiftl (pdep (N.shiftr temp k) (N.shiftr mask m mod 2 ^ N.of_nat n)) m).
Proof.
  induction n as [|n IH]; intros m k dest.
  - cbn [pdep_intel_loop]. change (2 ^ N.of_nat 0) with 1. rewrite N.mod_1_r.
    cbn [pdep]. rewrite N.shiftl_0_l, N.lor_0_r. reflexivity.
  - cbn [pdep_intel_loop]. rewrite window_succ, !IH.
    destruct (N.testbit mask m).
    + rewrite pdep_bcons_true, shiftl_bcons, <- N.testbit_odd, <- shiftr_succ_div2.
      destruct (N.testbit temp k).
      * rewrite setbit_lor, N.lor_assoc. reflexivity.
      * rewrite N.lor_0_l. reflexivity.
    + rewrite pdep_bcons_false, shiftl_bcons, N.lor_0_l. reflexivity.
Qed.

Lemma pext_intel_loop_spec temp mask : forall (n : nat) m k dest,
  pext_intel_loop n m k temp mask dest =
  N.lor dest (N.shiftl (pext (N.shiftr temp m) (N.shiftr mask m mod 2 ^ N.of_nat n)) k).
Proof.
  induction n as [|n IH]; intros m k dest.
  - cbn [pext_intel_loop]. change (2 ^ N.of_nat 0) with 1. rewrite N.mod_1_r.
    cbn [pext]. rewrite N.shiftl_0_l, N.lor_0_r. reflexivity.
  - cbn [pext_intel_loop]. rewrite window_succ, !IH.
    destruct (N.testbit mask m).
    + rewrite pext_bcons_true, shiftl_bcons, <- N.testbit_odd, <- shiftr_succ_div2.
      destruct (N.testbit temp m).
      * rewrite setbit_lor, N.lor_assoc. reflexivity.
      * rewrite N.lor_0_l. reflexivity.
    + rewrite pext_bcons_false, <- shiftr_succ_div2. reflexivity.
Qed.

(* any operand width: the Intel loop over n positions is the structural PDEP / PEXT on the mask's low n bits *)
Theorem pdep_intel_width (n : nat) x mask :
  pdep_intel_loop n 0 0 x mask 0 = pdep x (mask mod 2 ^ N.of_nat n).
Proof. rewrite pdep_intel_loop_spec, N.lor_0_l, N.shiftl_0_r, !N.shiftr_0_r. reflexivity. Qed.
Theorem pext_intel_width (n : nat) x mask :
  pext_intel_loop n 0 0 x mask 0 = pext x (mask mod 2 ^ N.of_nat n).
Proof. rewrite pext_intel_loop_spec, N.lor_0_l, N.shiftl_0_r, !N.shiftr_0_r. reflexivity. Qed.

Theorem pdep_intel_eq_spec x mask : mask < W64 -> pdep_intel x mask = pdep x mask.
Proof.
  intro H. unfold pdep_intel. rewrite pdep_intel_width. change (2 ^ N.of_nat 64) with W64.
  rewrite N.mod_small by exact H. reflexivity.
Qed.
Theorem pext_intel_eq_spec x mask : mask < W64 -> pext_intel x mask = pext x mask.
Proof.
  intro H. unfold pext_intel. rewrite pext_intel_width. change (2 ^ N.of_nat 64) with W64.
  rewrite N.mod_small by exact H. reflexivity.
Qed.
