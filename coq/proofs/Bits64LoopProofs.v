(* The portable Go loops (pdep_go / pext_go of base/Bits64.v, i.e. pdepGeneric / pextGeneric of
   pkg/mathext/bit.go) compute the structural PDEP / PEXT for every x and every 64-bit mask. *)
From Coq Require Import NArith PArith Bool Lia.
From M Require Import base.Bits64 proofs.Bits64Proofs.
Open Scope N_scope.

Fixpoint lowbitP (p : positive) : positive :=
  match p with xO q => xO (lowbitP q) | _ => xH end.
Fixpoint clearlowP (p : positive) : N :=
  match p with xO q => N.double (clearlowP q) | xI q => Npos (xO q) | xH => 0 end.

Lemma land_compl (k : nat) : forall q r, q + r = 2 ^ N.of_nat k - 1 -> N.land q r = 0.
Proof.
  induction k as [|k IH]; intros q r E.
  - change (2 ^ N.of_nat 0) with 1 in E. assert (q = 0) by lia. subst q. reflexivity.
  - rewrite Nat2N.inj_succ, N.pow_succ_r' in E.
    assert (Hp : 1 <= 2 ^ N.of_nat k) by (pose proof (N.pow_nonzero 2 (N.of_nat k)); lia).
    rewrite (bcons_decomp q), (bcons_decomp r) in E |- *. rewrite !bcons_spec in E.
    rewrite land_bcons.
    assert (E2 : N.div2 q + N.div2 r = 2 ^ N.of_nat k - 1 /\ N.odd q && N.odd r = false).
    { destruct (N.odd q), (N.odd r); cbn [N.b2n andb] in *; split; try reflexivity; lia. }
    destruct E2 as [E2 E3]. rewrite E3, (IH _ _ E2). reflexivity.
Qed.

Lemma land_neg (n : nat) : forall p, Npos p < 2 ^ N.of_nat n ->
  N.land (Npos p) (2 ^ N.of_nat n - Npos p) = Npos (lowbitP p).
Proof.
  induction n as [|n IH]; intros p Hp.
  - change (2 ^ N.of_nat 0) with 1 in Hp. lia.
  - rewrite Nat2N.inj_succ, N.pow_succ_r' in *. set (T := 2 ^ N.of_nat n) in *.
    destruct p as [q|q|].
    + (* 2q+1 *) change (Npos q~1) with (bcons true (Npos q)) at 1.
      replace (2 * T - Npos q~1) with (bcons true (T - 1 - Npos q)) by (rewrite bcons_spec; cbn [N.b2n]; lia).
      rewrite land_bcons, (land_compl n) by (fold T; lia). reflexivity.
    + (* 2q *) change (Npos q~0) with (bcons false (Npos q)) at 1.
      replace (2 * T - Npos q~0) with (bcons false (T - Npos q)) by (rewrite bcons_spec; cbn [N.b2n]; lia).
      rewrite land_bcons, IH by lia. reflexivity.
    + change 1 with (bcons true 0) at 1.
      replace (2 * T - 1) with (bcons true (T - 1)) by (rewrite bcons_spec; cbn [N.b2n]; lia).
      rewrite land_bcons. reflexivity.
Qed.

Lemma land_pred p : N.land (Npos p) (Npos p - 1) = clearlowP p.
Proof.
  induction p as [q IH|q IH|]; cbn [clearlowP].
  - change (Npos q~1) with (bcons true (Npos q)) at 1.
    replace (Npos q~1 - 1) with (bcons false (Npos q)) by (rewrite bcons_spec; cbn [N.b2n]; lia).
    rewrite land_bcons, N.land_diag. reflexivity.
  - change (Npos q~0) with (bcons false (Npos q)) at 1.
    replace (Npos q~0 - 1) with (bcons true (Npos q - 1)) by (rewrite bcons_spec; cbn [N.b2n]; lia).
    rewrite land_bcons, IH. reflexivity.
  - reflexivity.
Qed.

Lemma pdep_double y c : pdep y (N.double c) = N.double (pdep y c).
Proof. destruct c; reflexivity. Qed.
Lemma pext_double x c : pext x (N.double c) = pext (N.div2 x) c.
Proof. destruct c; [reflexivity|]. reflexivity. Qed.

Lemma pdep_step p : forall y,
  pdep y (Npos p) = N.lor (if N.odd y then Npos (lowbitP p) else 0) (pdep (N.div2 y) (clearlowP p)).
Proof.
  induction p as [q IH|q IH|]; intro y; cbn [pdep pdepP lowbitP clearlowP].
  - change (pdepP (N.div2 y) q) with (pdep (N.div2 y) (Npos q)).
    destruct (N.odd y); cbn [bcons]; destruct (pdep (N.div2 y) (Npos q)); reflexivity.
  - change (pdepP y q) with (pdep y (Npos q)). rewrite IH, pdep_double.
    destruct (N.odd y); destruct (pdep (N.div2 y) (clearlowP q)); reflexivity.
  - destruct (N.odd y); reflexivity.
Qed.

Lemma land_low_double x l : N.land x (N.double l) = N.double (N.land (N.div2 x) l).
Proof.
  change (N.double l) with (bcons false l). rewrite land_decomp_r, andb_false_r. reflexivity.
Qed.

Lemma pext_step p : forall x,
  pext x (Npos p) = bcons (negb (N.land x (Npos (lowbitP p)) =? 0)) (pext x (clearlowP p)).
Proof.
  induction p as [q IH|q IH|]; intro x; cbn [pext pextP lowbitP clearlowP].
  - change (pextP (N.div2 x) q) with (pext x (Npos q~0)). f_equal.
    replace (N.land x 1) with (N.land x (bcons true 0)) by reflexivity.
    rewrite land_decomp_r, N.land_0_r, andb_true_r. destruct (N.odd x); reflexivity.
  - change (pextP (N.div2 x) q) with (pext (N.div2 x) (Npos q)). rewrite IH, pext_double. f_equal.
    change (Npos (lowbitP q)~0) with (N.double (Npos (lowbitP q))). rewrite land_low_double.
    destruct (N.land (N.div2 x) (Npos (lowbitP q))); reflexivity.
  - f_equal.
    replace (N.land x 1) with (N.land x (bcons true 0)) by reflexivity.
    rewrite land_decomp_r, N.land_0_r, andb_true_r. destruct (N.odd x); reflexivity.
Qed.

Lemma popcount_clearlow p : popcount (clearlowP p) + 1 = popP p.
Proof.
  induction p as [q IH|q IH|]; cbn [clearlowP popP].
  - cbn [popcount popP]. lia.
  - change (N.double (clearlowP q)) with (bcons false (clearlowP q)). rewrite popcount_bcons. cbn [N.b2n]. lia.
  - reflexivity.
Qed.

Lemma popP_pos p : 1 <= popP p.
Proof. induction p; cbn [popP]; lia. Qed.

Lemma neg64_small m : 0 < m -> m < W64 -> neg64 m = W64 - m.
Proof. intros H0 H1. unfold neg64. rewrite (N.mod_small m) by exact H1. apply N.mod_small. lia. Qed.

Lemma maskbit_eq p : Npos p < W64 -> N.land (Npos p) (neg64 (Npos p)) = Npos (lowbitP p).
Proof. intro H. rewrite neg64_small by (try exact H; lia). apply (land_neg 64). exact H. Qed.

Lemma clearlow_lt p : Npos p < W64 -> clearlowP p < W64.
Proof.
  intro H. rewrite <- land_pred. apply fits64_lt, fits64_land_l, fits64_lt, H.
Qed.

Lemma land_pow2 x j : N.land x (2 ^ j) = if N.testbit x j then 2 ^ j else 0.
Proof.
  apply N.bits_inj; intro i. rewrite N.land_spec, N.pow2_bits_eqb.
  destruct (N.eqb_spec j i) as [->|Hne].
  - destruct (N.testbit x i) eqn:E; [rewrite N.pow2_bits_true | rewrite N.bits_0]; reflexivity.
  - rewrite andb_false_r. destruct (N.testbit x j); [rewrite N.pow2_bits_false by exact Hne | rewrite N.bits_0]; reflexivity.
Qed.

Lemma testbit_odd_div x j : N.testbit x j = N.odd (x / 2 ^ j).
Proof. rewrite N.testbit_odd, N.shiftr_div_pow2. reflexivity. Qed.

Lemma div_pow2_succ x j : x / 2 ^ (j + 1) = N.div2 (x / 2 ^ j).
Proof.
  rewrite N.div2_div, N.div_div by (try apply N.pow_nonzero; lia).
  rewrite N.add_1_r, N.pow_succ_r', (N.mul_comm 2). reflexivity.
Qed.

Lemma pow2_lt_W64 j : j < 64 -> 2 ^ j < W64.
Proof. intro H. unfold W64. apply N.pow_lt_mono_r; lia. Qed.

Lemma pdep_loop_spec x : forall fuel mask j srcBit result,
  popcount mask <= N.of_nat fuel -> mask < W64 -> j + popcount mask <= 64 ->
  (mask <> 0 -> srcBit = 2 ^ j) ->
  pdep_loop fuel x mask srcBit result = N.lor result (pdep (x / 2 ^ j) mask).
Proof.
  induction fuel as [|f IH]; intros mask j srcBit result Hf Hm Hj Hs.
  - destruct mask as [|p]; [cbn; rewrite N.lor_0_r; reflexivity|].
    cbn [popcount] in Hf. pose proof (popcount_clearlow p). change (N.of_nat 0) with 0 in Hf. lia.
  - cbn [pdep_loop]. destruct mask as [|p]; [cbn; rewrite N.lor_0_r; reflexivity|].
    cbn [N.eqb]. rewrite (Hs ltac:(discriminate)).
    pose proof (popcount_clearlow p) as Hpc. cbn [popcount] in Hf, Hj.
    rewrite maskbit_eq by exact Hm. rewrite land_pred.
    rewrite (pdep_step p (x / 2 ^ j)), land_pow2, testbit_odd_div.
    rewrite (IH (clearlowP p) (j + 1)); [ | lia | apply clearlow_lt, Hm | lia | ].
    + rewrite div_pow2_succ.
      destruct (N.odd (x / 2 ^ j)).
      * assert (E : (2 ^ j =? 0) = false) by (apply N.eqb_neq, N.pow_nonzero; lia). rewrite E.
        rewrite N.lor_assoc. reflexivity.
      * cbn [N.eqb]. rewrite N.lor_0_l. reflexivity.
    + intro Hne. assert (popcount (clearlowP p) <> 0).
      { destruct (clearlowP p) as [|p0]; [contradiction | cbn [popcount]; pose proof (popP_pos p0); lia]. }
      rewrite N.mod_small; [rewrite N.add_1_r, N.pow_succ_r', N.mul_comm; reflexivity|].
      replace (2 ^ j * 2) with (2 ^ (j + 1)) by (rewrite N.add_1_r, N.pow_succ_r', N.mul_comm; reflexivity).
      apply pow2_lt_W64. lia.
Qed.

Lemma popP_le (n : nat) : forall p, Npos p < 2 ^ N.of_nat n -> popP p <= N.of_nat n.
Proof.
  induction n as [|n IH]; intros p Hp; [change (2 ^ N.of_nat 0) with 1 in Hp; lia|].
  rewrite Nat2N.inj_succ, N.pow_succ_r' in *.
  destruct p as [q|q|]; cbn [popP];
    [assert (H : Npos q < 2 ^ N.of_nat n) by lia; specialize (IH q H); lia
    |assert (H : Npos q < 2 ^ N.of_nat n) by lia; specialize (IH q H); lia | lia].
Qed.
Lemma popcount_le_64 mask : mask < W64 -> popcount mask <= 64.
Proof. intro H. destruct mask as [|p]; [cbn; lia|]. apply (popP_le 64%nat p H). Qed.

Theorem pdep_go_eq_spec x mask : mask < W64 -> pdep_go x mask = pdep x mask.
Proof.
  intro Hm. pose proof (popcount_le_64 mask Hm) as Hp. unfold pdep_go.
  rewrite (pdep_loop_spec x 64 mask 0 1 0); [ | exact Hp | exact Hm | lia | intros _; reflexivity].
  rewrite N.lor_0_l, N.pow_0_r, N.div_1_r. reflexivity.
Qed.

Lemma bcons_lor b R : bcons b R = N.lor (N.b2n b) (N.double R).
Proof. destruct b, R; reflexivity. Qed.

Lemma shiftl_bcons b R j :
  N.shiftl (bcons b R) j = N.lor (if b then 2 ^ j else 0) (N.shiftl R (j + 1)).
Proof.
  rewrite bcons_lor, N.shiftl_lor. f_equal.
  - rewrite N.shiftl_mul_pow2. destruct b; cbn [N.b2n]; lia.
  - rewrite !N.shiftl_mul_pow2, N.double_spec, N.add_1_r, N.pow_succ_r'. lia.
Qed.

Lemma pext_loop_spec x : forall fuel mask j resultBit result,
  popcount mask <= N.of_nat fuel -> mask < W64 -> j + popcount mask <= 64 ->
  (mask <> 0 -> resultBit = 2 ^ j) ->
  pext_loop fuel x mask resultBit result = N.lor result (N.shiftl (pext x mask) j).
Proof.
  induction fuel as [|f IH]; intros mask j resultBit result Hf Hm Hj Hs.
  - destruct mask as [|p]; [cbn [pext_loop pext]; rewrite N.shiftl_0_l, N.lor_0_r; reflexivity|].
    cbn [popcount] in Hf. pose proof (popP_pos p). change (N.of_nat 0) with 0 in Hf. lia.
  - cbn [pext_loop]. destruct mask as [|p]; [cbn [N.eqb pext]; rewrite N.shiftl_0_l, N.lor_0_r; reflexivity|].
    cbn [N.eqb]. rewrite (Hs ltac:(discriminate)).
    pose proof (popcount_clearlow p) as Hpc. cbn [popcount] in Hf, Hj.
    rewrite maskbit_eq by exact Hm. rewrite land_pred.
    rewrite (pext_step p x), shiftl_bcons.
    rewrite (IH (clearlowP p) (j + 1)); [ | lia | apply clearlow_lt, Hm | lia | ].
    + destruct (N.land x (Npos (lowbitP p)) =? 0); cbn [negb].
      * rewrite N.lor_0_l. reflexivity.
      * rewrite N.lor_assoc. reflexivity.
    + intro Hne. assert (popcount (clearlowP p) <> 0).
      { destruct (clearlowP p) as [|p0]; [contradiction | cbn [popcount]; pose proof (popP_pos p0); lia]. }
      replace (2 ^ j * 2) with (2 ^ (j + 1)) by (rewrite N.add_1_r, N.pow_succ_r', N.mul_comm; reflexivity).
      apply N.mod_small, pow2_lt_W64. lia.
Qed.

Theorem pext_go_eq_spec x mask : mask < W64 -> pext_go x mask = pext x mask.
Proof.
  intro Hm. pose proof (popcount_le_64 mask Hm) as Hp. unfold pext_go.
  rewrite (pext_loop_spec x 64 mask 0 1 0); [ | exact Hp | exact Hm | lia | intros _; reflexivity].
  rewrite N.lor_0_l, N.shiftl_0_r. reflexivity.
Qed.
